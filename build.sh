#!/bin/sh
# builds the analyser and regenerates MANIFEST.json from its property table
set -e
cd /verif/tool
env -u GOWORK GOFLAGS=-mod=mod GOPROXY=off GOSUMDB=off GOTOOLCHAIN=local go build -o /verif/bin/llvmlint .
/verif/bin/llvmlint -manifest > /verif/MANIFEST.json.tmp && mv /verif/MANIFEST.json.tmp /verif/MANIFEST.json

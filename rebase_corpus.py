#!/usr/bin/env python3
"""After a fix: commit in /repo: re-base every kept patch that no longer applies (3-way merge in a
scratch worktree). The original is kept as patch.orig-<old sha>.diff. Conflicts are listed."""
import os, shutil, subprocess, sys, tempfile
REPO, VERIF = "/repo", "/verif"
old_sha = sys.argv[1]

def sh(cmd, cwd=None):
    p = subprocess.run(cmd, cwd=cwd, stdout=subprocess.PIPE, stderr=subprocess.STDOUT, text=True, errors="replace")
    return p.returncode, p.stdout

scratch = tempfile.mkdtemp(prefix="rebase-", dir="/var/tmp")
wt = os.path.join(scratch, "wt")
rc, o = sh(["git", "-C", REPO, "worktree", "add", "--detach", "-q", wt, "HEAD"]); assert rc == 0, o
ok = rebased = 0
conflicts = []
try:
    for corpus in ("seeded", "refactors", "features"):
        base = os.path.join(VERIF, corpus)
        for d in sorted(os.listdir(base)):
            patch = os.path.join(base, d, "patch.diff")
            if not os.path.isfile(patch):
                continue
            rc, o = sh(["git", "apply", "--check", patch], cwd=wt)
            if rc == 0:
                ok += 1
                continue
            rc, o = sh(["git", "apply", "-3", patch], cwd=wt)
            rc2, st = sh(["git", "diff", "--name-only", "--diff-filter=U"], cwd=wt)
            if rc != 0 or st.strip():
                conflicts.append((corpus, d, (o.strip().splitlines() or [""])[-1][:160]))
            else:
                sh(["git", "add", "-A"], cwd=wt)
                rc, diff = sh(["git", "diff", "--cached", "HEAD"], cwd=wt)
                keep = os.path.join(base, d, "patch.orig-%s.diff" % old_sha)
                if not os.path.exists(keep):
                    shutil.copy(patch, keep)
                open(patch, "w").write(diff)
                rebased += 1
                print("rebased", corpus, d)
            sh(["git", "reset", "-q", "--hard", "HEAD"], cwd=wt)
            sh(["git", "clean", "-fdq"], cwd=wt)
finally:
    sh(["git", "-C", REPO, "worktree", "remove", "--force", wt])
    shutil.rmtree(scratch, ignore_errors=True)
print("apply unchanged: %d, rebased: %d, conflicts: %d" % (ok, rebased, len(conflicts)))
for c in conflicts:
    print("CONFLICT", *c)

#!/usr/bin/env python3
"""False-alarm corpus, part 2: property-preserving maintenance changes (a new field parsed
and printed, a repair of a recorded finding) written by independent sub-agents given the task
and a scratch worktree, nothing from /verif.

usage: eval.py <task> 1 [--src DIR]       confirm _feat/change.diff, keep it, run the checks against it
       eval.py --recheck [name ...]       re-run the checks against every kept refactoring

A refactoring is kept only if it applies, builds and passes the test suite in a scratch
worktree. The checks are expected to stay SILENT on it; any report is triaged by hand
(either the refactoring is not behaviour-preserving after all — recorded in meta.json
under "triage" — or the rule is too narrow and is corrected)."""
import json, os, shutil, subprocess, sys, tempfile, time
REPO, VERIF = "/repo", "/verif"
ENV = dict(os.environ, GOFLAGS="-mod=mod", GOPROXY="off", GOSUMDB="off", GOTOOLCHAIN="local")
ENV.pop("GOWORK", None)

def sh(cmd, cwd=None, timeout=1800):
    p = subprocess.run(cmd, cwd=cwd, env=ENV, stdout=subprocess.PIPE, stderr=subprocess.STDOUT, text=True, timeout=timeout, errors="replace")
    return p.returncode, p.stdout

def run_checks(patch):
    rc, o = sh(["git", "-C", REPO, "status", "--porcelain"])
    assert o.strip() == "", "/repo is not clean: " + o
    rc, o = sh(["git", "-C", REPO, "apply", patch])
    assert rc == 0, o
    reported = {}
    try:
        rc, o = sh([os.path.join(VERIF, "bin", "llvmlint"), "-repo", REPO, "-prop", "all", "-tier", "quick", "-no-evidence"])
        cur = None
        for line in o.splitlines():
            if line.startswith("property "):
                cur = line.split()[1]
            if ": violation [" in line or ": undecided [" in line or line.startswith("  floor:"):
                reported.setdefault(cur, []).append(line.strip()[:500])
    finally:
        sh(["git", "-C", REPO, "checkout", "--", "."]); sh(["git", "-C", REPO, "clean", "-fdq"])
    rc2, o2 = sh(["git", "-C", REPO, "status", "--porcelain"])
    assert o2.strip() == "", "/repo not restored: " + o2
    return rc, reported

def recheck(names):
    base = os.path.join(VERIF, "features")
    names = names or sorted(d for d in os.listdir(base) if os.path.isfile(os.path.join(base, d, "patch.diff")))
    loud = []
    for rid in names:
        d = os.path.join(base, rid)
        meta = json.load(open(os.path.join(d, "meta.json")))
        rc, reported = run_checks(os.path.join(d, "patch.diff"))
        meta["checks_exit"], meta["reported"] = rc, reported
        json.dump(meta, open(os.path.join(d, "meta.json"), "w"), indent=1)
        tri = meta.get("triage", "")
        print("%-6s silent=%-5s %s %s" % (rid, not reported, sorted(reported), ("[triaged: %s]" % tri[:80]) if tri else ""))
        for p, ls in reported.items():
            for l in ls[:4]:
                print("      ", p, l[:260])
        if reported and not tri:
            loud.append(rid)
    print("reports without triage:", loud)
    return 1 if loud else 0

def main():
    if sys.argv[1] == "--recheck":
        return recheck(sys.argv[2:])
    area, n = sys.argv[1], sys.argv[2]
    src = "/tmp/ft/%s/_feat" % area
    if "--src" in sys.argv:
        src = sys.argv[sys.argv.index("--src") + 1]
    patch = os.path.join(src, "change.diff")
    rid = "%s-%s" % (area, n)
    out = os.path.join(VERIF, "features", rid)
    meta = {"id": rid, "source": "independent sub-agent given a code area and a scratch worktree; asked for a behaviour-preserving refactoring",
            "confirmed_at": time.strftime("%Y-%m-%dT%H:%M:%SZ", time.gmtime()), "ran": []}
    scratch = tempfile.mkdtemp(prefix="refchk-", dir="/var/tmp")
    wt = os.path.join(scratch, "wt")
    try:
        rc, o = sh(["git", "-C", REPO, "worktree", "add", "--detach", "-q", wt, "HEAD"])
        assert rc == 0, o
        rc, o = sh(["git", "apply", "--check", patch], cwd=wt)
        if rc != 0:
            print("REJECT %s: patch does not apply: %s" % (rid, o[-300:]))
            return 2
        sh(["git", "apply", patch], cwd=wt)
        rc, o = sh(["go", "build", "./..."], cwd=wt)
        meta["builds"] = rc == 0
        if rc != 0:
            print("REJECT %s: does not build: %s" % (rid, o[-400:]))
            return 2
        rc, o = sh(["go", "test", "-vet=off", "-count=1", "./..."], cwd=wt)
        meta["existing_tests_pass"] = rc == 0
        if rc != 0:
            print("REJECT %s: tests fail: %s" % (rid, o[-600:]))
            return 2
    finally:
        sh(["git", "-C", REPO, "worktree", "remove", "--force", wt])
        shutil.rmtree(scratch, ignore_errors=True)
    if os.path.isdir(out):
        shutil.rmtree(out)
    os.makedirs(out)
    shutil.copy(patch, os.path.join(out, "patch.diff"))
    readme = os.path.join(src, "README.md")
    if os.path.exists(readme):
        shutil.copy(readme, os.path.join(out, "AGENT_README.md"))
    if "--confirm-only" in sys.argv:
        meta["reported"] = {}
        json.dump(meta, open(os.path.join(out, "meta.json"), "w"), indent=1)
        print("%s: builds=%s tests=%s (confirmed, checks not run; use regress.py --write-meta)" % (rid, meta["builds"], meta["existing_tests_pass"]))
        return 0
    rc, reported = run_checks(patch)
    meta["checks_exit"], meta["reported"] = rc, reported
    json.dump(meta, open(os.path.join(out, "meta.json"), "w"), indent=1)
    print("%s: builds=%s tests=%s silent=%s %s" % (rid, meta["builds"], meta["existing_tests_pass"], not reported, sorted(reported)))
    for p, ls in reported.items():
        for l in ls[:4]:
            print("   ", p, l[:260])
    return 0

if __name__ == "__main__":
    sys.exit(main())

#!/usr/bin/env python3
"""Parallel regression over the three corpora, in scratch worktrees of /repo (never /repo itself):
every seeded change must be reported under its target property, every refactoring / feature
must stay silent (unless triaged). Does not touch meta.json — seeded/recheck.py and
refactors/eval.py --recheck (which apply to /repo, one at a time) remain the reference runs.

usage: regress.py [-j N] [--write-meta] [seeded|refactors|features|<id> ...]
--write-meta refreshes detected_by / reported in each meta.json from this run.
"""
import json, os, shutil, subprocess, sys, tempfile, threading, queue
REPO, VERIF = "/repo", "/verif"
ENV = dict(os.environ, GOFLAGS="-mod=mod", GOPROXY="off", GOSUMDB="off", GOTOOLCHAIN="local")
ENV.pop("GOWORK", None)


def sh(cmd, cwd=None):
    p = subprocess.run(cmd, cwd=cwd, env=ENV, stdout=subprocess.PIPE, stderr=subprocess.STDOUT, text=True, errors="replace")
    return p.returncode, p.stdout


def items(sel):
    out = []
    for corpus in ("seeded", "refactors", "features"):
        base = os.path.join(VERIF, corpus)
        for d in sorted(os.listdir(base)):
            if os.path.isfile(os.path.join(base, d, "patch.diff")):
                if not sel or corpus in sel or d in sel:
                    out.append((corpus, d))
    return out


def main():
    args = sys.argv[1:]
    write_meta = "--write-meta" in args
    args = [a for a in args if a != "--write-meta"]
    jobs = 6
    if "-j" in args:
        i = args.index("-j")
        jobs = int(args[i + 1])
        del args[i:i + 2]
    work = items(set(args))
    scratch = tempfile.mkdtemp(prefix="regress-", dir="/var/tmp")
    binp = os.path.join(scratch, "llvmlint")
    shutil.copy(os.path.join(VERIF, "bin", "llvmlint"), binp)
    q = queue.Queue()
    for w in work:
        q.put(w)
    results = {}
    lock = threading.Lock()

    def worker(k):
        wt = os.path.join(scratch, "wt%d" % k)
        rc, o = sh(["git", "-C", REPO, "worktree", "add", "--detach", "-q", wt, "HEAD"])
        assert rc == 0, o
        try:
            while True:
                try:
                    corpus, d = q.get_nowait()
                except queue.Empty:
                    return
                patch = os.path.join(VERIF, corpus, d, "patch.diff")
                rc, o = sh(["git", "apply", patch], cwd=wt)
                rep = {}
                if rc != 0:
                    rep = {"?": ["patch does not apply: " + o.strip()[:200]]}
                else:
                    rc, o = sh([binp, "-repo", wt, "-verif", VERIF, "-prop", "all", "-tier", "quick", "-no-evidence"])
                    cur = None
                    if rc not in (0, 1) or "property " not in o:
                        rep = {"?": ["checker crashed or did not run (rc=%d): %s" % (rc, o.strip()[:300])]}
                    for line in o.splitlines():
                        if line.startswith("property "):
                            cur = line.split()[1]
                        if ": violation [" in line or ": undecided [" in line or line.startswith("  floor:"):
                            rep.setdefault(cur, []).append(line.strip()[:300])
                sh(["git", "checkout", "--", "."], cwd=wt)
                sh(["git", "clean", "-fdq"], cwd=wt)
                with lock:
                    results[(corpus, d)] = rep
        finally:
            sh(["git", "-C", REPO, "worktree", "remove", "--force", wt])

    ts = [threading.Thread(target=worker, args=(k,)) for k in range(jobs)]
    for t in ts:
        t.start()
    for t in ts:
        t.join()
    shutil.rmtree(scratch, ignore_errors=True)
    sh(["git", "-C", REPO, "worktree", "prune"])
    bad = 0
    for (corpus, d) in work:
        rep = results.get((corpus, d), {"?": ["not run"]})
        mp = os.path.join(VERIF, corpus, d, "meta.json")
        meta = json.load(open(mp))
        if write_meta and "?" not in rep:
            head = sh(["git", "-C", REPO, "rev-parse", "--short", "HEAD"])[1].strip()
            meta["checked_against"] = head
            if corpus == "seeded":
                meta["detected_by"], meta["detected"] = rep, bool(rep)
                meta["detected_under_target_property"] = meta["property"] in rep
            else:
                meta["reported"] = rep
            json.dump(meta, open(mp, "w"), indent=1)
        if "?" in rep:
            bad += 1
            print("BROKEN  %-7s %s" % (d, rep["?"][0][:300]))
            continue
        if corpus == "seeded":
            prop = meta["property"]
            if prop not in rep and meta.get("expected") == "missed":
                # a recorded limit of the technique (DESIGN.md §4i / §7): kept, not counted
                print("LIMIT   %-7s target=%s not decided (recorded): %s" % (d, prop, meta.get("expected_reason", "")[:160]))
            elif prop not in rep:
                bad += 1
                print("MISSED  %-7s target=%s reported under %s" % (d, prop, sorted(rep)))
        else:
            if rep and not meta.get("triage"):
                bad += 1
                print("ALARM   %-7s %s" % (d, sorted(rep)))
                for p, ls in rep.items():
                    for l in ls[:3]:
                        print("        ", p, l[:240])
    print("%d items, %d not as expected" % (len(work), bad))
    return 1 if bad else 0


if __name__ == "__main__":
    sys.exit(main())

#!/usr/bin/env python3
"""Tests the checker both ways (DESIGN.md §1.4). Not part of any registered check.

For every mutant in mutants.py: copy /repo (without .git) to a scratch directory
outside /repo and /verif, apply one source edit, make sure the tree still builds
(and, with --tests, still passes the repository's tests), run llvmlint on the copy
and require that it exits 1 and names the expected rule/construct. The scratch
copy is removed afterwards. One process per variant.

usage: selftest.py [--tests] [--jobs N] [name-substring ...]
"""
import os, shutil, subprocess, sys, tempfile, concurrent.futures as cf

HERE = os.path.dirname(os.path.abspath(__file__))
sys.path.insert(0, HERE)
from mutants import MUTANTS  # noqa

REPO = os.environ.get("VERIF_REPO", "/repo")
SCRATCH = os.environ.get("VERIF_SCRATCH", "/var/tmp")
LINT = os.path.join(os.path.dirname(HERE), "bin", "llvmlint")
ENV = dict(os.environ, GOFLAGS="-mod=mod", GOPROXY="off", GOSUMDB="off", GOTOOLCHAIN="local")
ENV.pop("GOWORK", None)


def sh(cmd, cwd=None, timeout=900):
    p = subprocess.run(cmd, cwd=cwd, env=ENV, stdout=subprocess.PIPE, stderr=subprocess.STDOUT, text=True, timeout=timeout)
    return p.returncode, p.stdout


def run_one(m, with_tests):
    d = tempfile.mkdtemp(prefix="llvmlint-selftest-", dir=SCRATCH)
    try:
        tree = os.path.join(d, "llvm")
        shutil.copytree(REPO, tree, ignore=shutil.ignore_patterns(".git"))
        for e in m["edits"]:
            path = os.path.join(tree, e["file"])
            src = open(path).read()
            n = src.count(e["old"])
            if n == 0:
                return m["name"], "STALE", "pattern not found in %s: %r" % (e["file"], e["old"][:60])
            if n > 1 and "nth" not in e and not e.get("all"):
                return m["name"], "STALE", "pattern occurs %d times in %s (give nth or all): %r" % (n, e["file"], e["old"][:60])
            if e.get("all"):
                src = src.replace(e["old"], e["new"])
            else:
                k = e.get("nth", 0)
                idx = -1
                for _ in range(k + 1):
                    idx = src.index(e["old"], idx + 1)
                src = src[:idx] + e["new"] + src[idx + len(e["old"]):]
            open(path, "w").write(src)
        tests = "tests-not-run"
        rc, out = sh(["go", "build", "./..."], cwd=tree)
        if rc != 0:
            return m["name"], "NOBUILD", out[-800:]
        if with_tests:
            rc, out = sh(["go", "test", "-vet=off", "-count=1", "./..."], cwd=tree)
            tests = "tests-pass" if rc == 0 else "tests-FAIL"
        results = []
        for prop in m["props"]:
            rc, out = sh([LINT, "-repo", tree, "-prop", prop, "-tier", m.get("tier", "quick"), "-no-evidence"])
            want = m["expect"]
            viol = [l for l in out.splitlines() if ": violation [" in l or ": undecided [" in l or l.startswith("  floor:")]
            hit = [l for l in viol if all(w in l for w in want)]
            if rc != 1 or "VIOLATION property=%s" % prop not in out:
                return m["name"], "MISSED", "prop %s exit %d; wanted %s\n%s" % (prop, rc, want, out[-600:])
            if not hit:
                return m["name"], "WRONG-REPORT", "prop %s: no violation line contains %s; got:\n%s" % (prop, want, "\n".join(viol[:8]))
            extra = [l for l in viol if l not in hit]
            results.append("%s: %d matching line(s)%s" % (prop, len(hit), (", %d other" % len(extra)) if extra else ""))
        return m["name"], "CAUGHT", "; ".join(results) + " [" + tests + "]"
    except Exception as ex:  # noqa
        return m["name"], "ERROR", repr(ex)
    finally:
        shutil.rmtree(d, ignore_errors=True)


def main():
    args = [a for a in sys.argv[1:] if not a.startswith("--")]
    with_tests = "--tests" in sys.argv
    jobs = 6
    for i, a in enumerate(sys.argv):
        if a == "--jobs":
            jobs = int(sys.argv[i + 1])
            args = [x for x in args if x != sys.argv[i + 1]]
    todo = [m for m in MUTANTS if not args or any(a in m["name"] for a in args)]
    bad = 0
    with cf.ThreadPoolExecutor(max_workers=jobs) as ex:
        for name, status, detail in ex.map(lambda m: run_one(m, with_tests), todo):
            print("%-13s %-40s %s" % (status, name, detail if status != "CAUGHT" else detail))
            if status != "CAUGHT":
                bad += 1
    print("%d mutants, %d not caught as expected" % (len(todo), bad))
    sys.exit(1 if bad else 0)


if __name__ == "__main__":
    main()

# Mutants used to test that each rule fires on a broken instance (selftest.py).
# Every mutant still compiles; most also pass the repository's 57 tests.
# expect: substrings that one reported violation line must all contain.


def M(name, props, expect, *edits, tier="quick"):
    if isinstance(props, str):
        props = [props]
    if isinstance(expect, str):
        expect = [expect]
    return dict(name=name, props=props, expect=expect, edits=list(edits), tier=tier)


def E(file, old, new, nth=None, all=False):
    d = dict(file=file, old=old, new=new)
    if nth is not None:
        d["nth"] = nth
    if all:
        d["all"] = True
    return d


MUTANTS = [
    # ---- C18 ----------------------------------------------------------------
    M("enum-regen-one-side", "C18", ["ENUM-TAB", "LinkageWeak"],
      E("asm/enum/linkage_string2enum.go", 'privateweakweak_odr', 'privateweekweak_odr')),
    M("enum-new-const-no-regen", "C18", ["ENUM-TAB", "LinkageFoo"],
      E("ir/enum/enum.go", "	LinkageExternWeak // extern_weak\n", "	LinkageExternWeak // extern_weak\n	LinkageFoo // foo\n")),
    M("enum-flag-last-stale", "C18", ["ENUM-FLAGS", "DISPFlag"],
      E("ir/enum/enum.go", "DISPFlagLast  = DISPFlagObjCDirect", "DISPFlagLast  = DISPFlagMainSubprogram")),
    M("enum-keyword-not-lexable", "C18", ["ENUM-LEX", "TailMustTail"],
      E("ir/enum/tail_string.go", "musttail", "mushtail"),
      E("asm/enum/tail_string2enum.go", "musttail", "mushtail", all=True)),
    M("enum-flag-loop-shift", "C18", ["ENUM-FLAGS", "set printer"],
      E("ir/metadata/helper.go", "mask <= enum.DISPFlagLast; mask <<= 1", "mask < enum.DISPFlagLast; mask <<= 1")),
    M("enum-wrong-family", "C18", ["ENUM-USE", "Visibility"],
      E("asm/global.go", "new.Visibility = asmenum.VisibilityFromString(n.Text())", "new.Visibility = enum.Visibility(asmenum.DLLStorageClassFromString(n.Text()))", nth=0),
      E("asm/global.go", '"github.com/llir/llvm/ir/constant"', '"github.com/llir/llvm/ir/constant"\n\t"github.com/llir/llvm/ir/enum"')),
    # ---- C19 ----------------------------------------------------------------
    M("w-return-nil-error", "C19", "W-3",
      E("ir/module.go", "return fw.size, fw.err", "return fw.size, nil")),
    M("w-direct-fprint", "C19", "W-1",
      E("ir/module.go", "fw.Fprintln(def.LLString())", "fmt.Fprintln(w, def.LLString())")),
    M("w-no-latch", "C19", ["W-2", "Fprintf"],
      E("ir/helper.go", "	if fw.err != nil {\n		// early return if a previous error has been encountered.\n		return 0, nil\n	}\n	n, err = fmt.Fprintf(", "	n, err = fmt.Fprintf(")),
    M("w-size-not-counted", "C19", ["W-2", "Fprintln"],
      E("ir/helper.go", "	n, err = fmt.Fprintln(fw.w, a...)\n	fw.size += int64(n)", "	n, err = fmt.Fprintln(fw.w, a...)")),
    M("w-err-cleared", "C19", "W-4",
      E("ir/module.go", "	for _, u := range m.UseListOrderBBs {\n		fw.Fprintln(u)\n	}", "	for _, u := range m.UseListOrderBBs {\n		fw.err = nil\n		fw.Fprintln(u)\n	}")),
    M("w-string-not-writeto", "C19", "W-5",
      E("ir/module.go", "	return buf.String()\n}\n\n// WriteTo", "	return buf.String() + \"\"[:0] + m.SourceFilename[:0]\n}\n\n// WriteTo")),
    # ---- C01: dispatch / coverage --------------------------------------------
    M("exh-drop-case-funcattr", "C01", ["EXH", "irFuncAttribute", "ast.AlignStackPair"],
      E("asm/helper.go", "	case *ast.AlignStackPair:\n		return ir.AlignStack(uintLit(old.N()))\n", "")),
    M("sib-drop-scaffold-case", "C01", ["SIB", "newType", "ScalableVectorType"],
      E("asm/type.go", "	case *ast.ScalableVectorType:\n		return &types.VectorType{TypeName: typeName}, nil\n", "")),
    M("pair-wrong-scaffold-type", "C01", ["PAIR", "ast.FSubInst"],
      E("asm/inst_binary.go", "func (fgen *funcGen) newFSubInst(ident ir.LocalIdent, old *ast.FSubInst) (*ir.InstFSub, error) {", "func (fgen *funcGen) newFSubInst(ident ir.LocalIdent, old *ast.FSubInst) (*ir.InstFAdd, error) {"),
      E("asm/inst_binary.go", "	return &ir.InstFSub{LocalIdent: ident, Typ: typ}, nil", "	return &ir.InstFAdd{LocalIdent: ident, Typ: typ}, nil")),
    M("acc-drop-volatile", "C01", ["ACC", "ast.StoreInst.Volatile"],
      E("asm/inst_memory.go", "	// (optional) Volatile.\n	_, inst.Volatile = old.Volatile()\n	// (optional) Sync scope.\n	if n, ok := old.SyncScope(); ok {\n		inst.SyncScope = stringLit(n.Scope())\n	}\n	// (optional) Atomic memory ordering constraints.\n	if n, ok := old.Ordering(); ok {\n		inst.Ordering = asmenum.AtomicOrderingFromString(n.Text())\n	}\n	// (optional) Alignment.\n	if n, ok := old.Align(); ok {\n		inst.Align = irAlign(n)\n	}\n	// (optional) Metadata.\n	md, err := fgen.gen.irMetadataAttachments(old.Metadata())\n	if err != nil {\n		return errors.WithStack(err)\n	}\n	inst.Metadata = md\n	return nil\n}\n\n// --- [ fence ]",
        "	// (optional) Sync scope.\n	if n, ok := old.SyncScope(); ok {\n		inst.SyncScope = stringLit(n.Scope())\n	}\n	// (optional) Atomic memory ordering constraints.\n	if n, ok := old.Ordering(); ok {\n		inst.Ordering = asmenum.AtomicOrderingFromString(n.Text())\n	}\n	// (optional) Alignment.\n	if n, ok := old.Align(); ok {\n		inst.Align = irAlign(n)\n	}\n	// (optional) Metadata.\n	md, err := fgen.gen.irMetadataAttachments(old.Metadata())\n	if err != nil {\n		return errors.WithStack(err)\n	}\n	inst.Metadata = md\n	return nil\n}\n\n// --- [ fence ]")),
    M("acc-result-discarded", "C01", ["ACC", "ast.AtomicRMWInst.SyncScope"],
      E("asm/inst_memory.go", "	// (optional) Sync scope.\n	if n, ok := old.SyncScope(); ok {\n		inst.SyncScope = stringLit(n.Scope())\n	}\n	// (optional) Metadata.", "	_, _ = old.SyncScope()\n	// (optional) Metadata.", nth=2)),
    M("flow-miswired-flag", "C01", ["FLOW", "ir.InstStore.Volatile"],
      E("asm/inst_memory.go", "	_, inst.Volatile = old.Volatile()\n	// (optional) Sync scope.\n	if n, ok := old.SyncScope(); ok {\n		inst.SyncScope = stringLit(n.Scope())\n	}\n	// (optional) Atomic memory ordering constraints.\n	if n, ok := old.Ordering(); ok {\n		inst.Ordering = asmenum.AtomicOrderingFromString(n.Text())\n	}\n	// (optional) Alignment.\n	if n, ok := old.Align(); ok {\n		inst.Align = irAlign(n)\n	}\n	// (optional) Metadata.\n	md, err := fgen.gen.irMetadataAttachments(old.Metadata())\n	if err != nil {\n		return errors.WithStack(err)\n	}\n	inst.Metadata = md\n	return nil\n}\n\n// --- [ fence ]",
        "	_, inst.Volatile = old.Atomic()\n	_, _ = old.Volatile()\n	// (optional) Sync scope.\n	if n, ok := old.SyncScope(); ok {\n		inst.SyncScope = stringLit(n.Scope())\n	}\n	// (optional) Atomic memory ordering constraints.\n	if n, ok := old.Ordering(); ok {\n		inst.Ordering = asmenum.AtomicOrderingFromString(n.Text())\n	}\n	// (optional) Alignment.\n	if n, ok := old.Align(); ok {\n		inst.Align = irAlign(n)\n	}\n	// (optional) Metadata.\n	md, err := fgen.gen.irMetadataAttachments(old.Metadata())\n	if err != nil {\n		return errors.WithStack(err)\n	}\n	inst.Metadata = md\n	return nil\n}\n\n// --- [ fence ]")),
    M("flow-swapped-di-field", "C01", ["FLOW", "DICommonBlock.Scope"],
      E("asm/specialized_metadata.go", "			scope, err := gen.irMDField(oldField.Scope())\n			if err != nil {\n				return nil, errors.WithStack(err)\n			}\n			md.Scope = scope\n		case *ast.DeclarationField:\n			declaration, err := gen.irMDField(oldField.Declaration())\n			if err != nil {\n				return nil, errors.WithStack(err)\n			}\n			md.Declaration = declaration",
        "			scope, err := gen.irMDField(oldField.Scope())\n			if err != nil {\n				return nil, errors.WithStack(err)\n			}\n			md.Declaration = scope\n		case *ast.DeclarationField:\n			declaration, err := gen.irMDField(oldField.Declaration())\n			if err != nil {\n				return nil, errors.WithStack(err)\n			}\n			md.Scope = declaration")),
    M("fldp-drop-inbounds", "C01", ["FLD-P", "ir.InstGetElementPtr.InBounds"],
      E("ir/inst_memory.go", "	if inst.InBounds {\n		buf.WriteString(\" inbounds\")\n	}\n", "")),
    M("fldw-never-filled", "C01", ["FLD-W", "ir.InstLoad.Align"],
      E("asm/inst_memory.go", "	// (optional) Alignment.\n	if n, ok := old.Align(); ok {\n		inst.Align = irAlign(n)\n	}\n", "	// (optional) Alignment.\n	if n, ok := old.Align(); ok {\n		_ = irAlign(n)\n	}\n", nth=1)),
    M("ord-swap-operands", "C01", ["ORD", "ir.InstSub"],
      E("ir/inst_binary.go", '	fmt.Fprintf(buf, " %s, %s", inst.X, inst.Y.Ident())', '	fmt.Fprintf(buf, " %s %s, %s", inst.Y.Type(), inst.Y.Ident(), inst.X.Ident())', nth=2)),
    M("opc-wrong-mnemonic", "C01", ["OPC", "ir.InstFSub"],
      E("ir/inst_binary.go", '	buf.WriteString("fsub")', '	buf.WriteString("fadd")')),
    # ---- C03: constructors and builders ---------------------------------------
    M("ctor-swapped-fields", "C03", ["CTOR-1", "NewSub"],
      E("ir/inst_binary.go", "	inst := &InstSub{X: x, Y: y}", "	inst := &InstSub{X: y, Y: x}")),
    M("ctor-dropped-param", "C03", ["CTOR-1", "NewAtomicRMW", "ordering"],
      E("ir/inst_memory.go", "	inst := &InstAtomicRMW{Op: op, Dst: dst, X: x, Ordering: ordering}", "	inst := &InstAtomicRMW{Op: op, Dst: dst, X: x, Ordering: enum.AtomicOrderingSequentiallyConsistent}")),
    M("ctor-no-type-prefill", "C03", ["CTOR-2", "NewICmp"],
      E("ir/inst_other.go", "	inst := &InstICmp{Pred: pred, X: x, Y: y}\n	// Compute type.\n	inst.Type()\n", "	inst := &InstICmp{Pred: pred, X: x, Y: y}\n")),
    M("builder-swapped-args", "C03", ["CTOR-3", "NewICmp"],
      E("ir/block_other.go", "	inst := NewICmp(pred, x, y)", "	inst := NewICmp(pred, y, x)")),
    M("builder-forgets-append", "C03", ["CTOR-3", "NewLoad"],
      E("ir/block_memory.go", "	inst := NewLoad(elemType, src)\n	block.Insts = append(block.Insts, inst)\n", "	inst := NewLoad(elemType, src)\n	_ = append(block.Insts, inst)\n")),
    M("builder-no-parent", "C03", ["CTOR-3", "NewBlock"],
      E("ir/func_block.go", "	block.Parent = f\n", "")),
    # ---- C15: operands and successors -----------------------------------------
    M("ops-missing-slot", "C15", ["OPS-1", "ir.InstSelect", "ValueFalse"],
      E("ir/inst_other.go", "	return []*value.Value{&inst.Cond, &inst.ValueTrue, &inst.ValueFalse}", "	return []*value.Value{&inst.Cond, &inst.ValueTrue}")),
    M("ops-bundle-inputs-dropped", "C15", ["OPS-1", "ir.TermInvoke", "OperandBundles"],
      E("ir/terminator.go", "	for i := range term.OperandBundles {\n		for j := range term.OperandBundles[i].Inputs {\n			ops = append(ops, &term.OperandBundles[i].Inputs[j])\n		}\n	}\n", "", nth=0)),
    M("ops-range-copy", "C15", ["OPS-2", "ir.InstPhi"],
      E("ir/inst_other.go", "	for i := range inst.Incs {\n		ops = append(ops, &inst.Incs[i].X)\n		ops = append(ops, &inst.Incs[i].Pred)\n	}", "	for _, inc := range inst.Incs {\n		inc := *inc\n		ops = append(ops, &inc.X)\n		ops = append(ops, &inc.Pred)\n	}")),
    M("succs-missing-target", "C15", ["OPS-3", "ir.TermCondBr"],
      E("ir/terminator.go", "		term.Successors = []*Block{term.TargetTrue.(*Block), term.TargetFalse.(*Block)}", "		term.Successors = []*Block{term.TargetTrue.(*Block)}")),
    M("succs-wrong-order", "C15", ["OPS-3", "ir.TermInvoke"],
      E("ir/terminator.go", "		term.Successors = []*Block{term.NormalRetTarget.(*Block), term.ExceptionRetTarget.(*Block)}", "		term.Successors = []*Block{term.ExceptionRetTarget.(*Block), term.NormalRetTarget.(*Block)}")),
    # ---- C16: type equality ----------------------------------------------------
    M("eq-vector-ignores-len", "C16", ["EQ-1", "VectorType", "Len"],
      E("ir/types/types.go", "		if t.Len != u.Len {\n			return false\n		}\n		return t.ElemType.Equal(u.ElemType)\n	}\n	return false\n}\n\n// String returns the string representation of the vector type.", "		return t.ElemType.Equal(u.ElemType)\n	}\n	return false\n}\n\n// String returns the string representation of the vector type.")),
    M("eq-int-no-kind-guard", "C16", ["EQ-2", "IntType"],
      E("ir/types/types.go", "	if u, ok := u.(*IntType); ok {\n		return t.BitSize == u.BitSize\n	}\n	return false", "	return t.LLString() == u.LLString()")),
    M("eq-struct-name-cut-late", "C16", ["EQ-3", "StructType"],
      E("ir/types/types.go", "		if len(t.TypeName) > 0 || len(u.TypeName) > 0 {\n			// Identified struct types are uniqued by type names, not by structural\n			// identity.\n			//\n			// t or u is an identified struct type.\n			return t.TypeName == u.TypeName\n		}\n", "")),
    M("eq-func-ignores-variadic", "C16", ["EQ-1", "FuncType", "Variadic"],
      E("ir/types/types.go", "		return t.Variadic == u.Variadic", "		return true")),
    # ---- C05: resolution and error discipline ---------------------------------
    M("lk1-unchecked-lookup", "C05", ["LK-1", "irValue"],
      E("asm/value.go", "		v, ok := fgen.gen.new.globals[ident]\n		if !ok {\n			return nil, errors.Errorf(\"unable to locate global identifier %q\", ident.Ident())\n		}\n		return v, nil", "		return fgen.gen.new.globals[ident], nil")),
    M("lk2-miss-returns-fresh", "C05", ["LK-2", "irBlock"],
      E("asm/helper.go", "	v, ok := fgen.locals[ident]\n	if !ok {\n		return nil, errors.Errorf(\"unable to locate local identifier %q\", ident.Ident())\n	}\n	block, ok := v.(*ir.Block)", "	v, ok := fgen.locals[ident]\n	if !ok {\n		v = &ir.Block{LocalIdent: ident}\n	}\n	block, ok := v.(*ir.Block)")),
    M("lk2-miss-panics", "C05", ["LK-2", "metadataDefFromID"],
      E("asm/metadata.go", "		return nil, errors.Errorf(\"unable to locate metadata ID %q\", enc.MetadataID(id))", "		panic(errors.Errorf(\"unable to locate metadata ID %q\", enc.MetadataID(id)))")),
    M("dup-no-check-comdat", "C05", ["DUP", "comdatDefs"],
      E("asm/module.go", "			if prev, ok := gen.old.comdatDefs[name]; ok {\n				return errors.Errorf(\"comdat name %q already present; prev `%s`, new `%s`\", enc.ComdatName(name), text(prev), text(entity))\n			}\n", "")),
    M("dup-local-overwrite", "C05", ["DUP", "addLocal"],
      E("asm/local.go", "	if prev, ok := fgen.locals[ident]; ok {\n		return errors.Errorf(\"local identifier %q already present; prev `%s`, new `%s`\", ident.Ident(), prev, v)\n	}\n", "")),
    M("err-swallowed", "C05", ["ERR", "irMetadataAttachments"],
      E("asm/inst_memory.go", "	md, err := fgen.gen.irMetadataAttachments(old.Metadata())\n	if err != nil {\n		return errors.WithStack(err)\n	}\n	inst.Metadata = md\n	return nil\n}\n\n// --- [ fence ]", "	md, _ := fgen.gen.irMetadataAttachments(old.Metadata())\n	inst.Metadata = md\n	return nil\n}\n\n// --- [ fence ]")),
    M("err-panics", "C05", ["ERR", "irTypeValue"],
      E("asm/inst_memory.go", "	src, err := fgen.irTypeValue(old.Src())\n	if err != nil {\n		return errors.WithStack(err)\n	}", "	src, err := fgen.irTypeValue(old.Src())\n	if err != nil {\n		panic(err)\n	}", nth=0)),
    M("nilmod-partial-module", "C05", ["NILMOD", "translate"],
      E("asm/translate.go", "	if err := gen.translateUseListOrders(); err != nil {\n		return nil, errors.WithStack(err)\n	}", "	if err := gen.translateUseListOrders(); err != nil {\n		return gen.m, errors.WithStack(err)\n	}")),
    # ---- C12 / C20: determinism and order ----------------------------------------
    M("det-drop-sort-types", ["C12", "C20"], ["DET-1", "addTypeDefsToModule"],
      E("asm/translate.go", "	natsort.Strings(typeNames)\n", "")),
    M("det-append-in-map-range", "C12", ["DET-1", "createGlobalEntities"],
      E("asm/global.go", "		gen.new.globals[ident] = new\n	}\n	return nil\n}", "		gen.new.globals[ident] = new\n		if f, ok := new.(*ir.Func); ok {\n			gen.m.Funcs = append(gen.m.Funcs, f)\n		}\n	}\n	return nil\n}")),
    M("det-counter-in-map-range", "C12", ["DET-1", "createAttrGroupDefs"],
      E("asm/module.go", "	for id := range gen.old.attrGroupDefs {\n		new := &ir.AttrGroupDef{ID: id}", "	next := int64(0)\n	for id := range gen.old.attrGroupDefs {\n		id2 := next\n		next++\n		_ = id2\n		new := &ir.AttrGroupDef{ID: id}")),
    M("det-package-level-cache", "C12", ["DET-2", "typeCache"],
      E("asm/type.go", "// resolveTypeDefs resolves the type definitions of the given module.", "var typeCache = map[string]types.Type{}\n\n// resolveTypeDefs resolves the type definitions of the given module."),
      E("asm/type.go", "		gen.new.typeDefs[typeName] = t\n", "		gen.new.typeDefs[typeName] = t\n		typeCache[typeName] = t\n")),
    M("det-second-entry-path", "C12", ["DET-3", "ParseBytes"],
      E("asm/asm.go", "	content := string(b)\n	return ParseString(path, content)", "	tree, err := ast.Parse(path, string(b))\n	if err != nil {\n		return nil, errors.WithStack(err)\n	}\n	return translate(ast.ToLlvmNode(tree.Root()).(*ast.Module))")),
    M("ord-metadata-by-name-unsorted", ["C12", "C20"], ["DET-1", "WriteTo"],
      E("ir/module.go", "	natsort.Strings(mdNames)\n", "	_ = natsort.Strings\n")),
    M("ord-attrgroups-descending", "C20", ["ORD-SORT", "AttrGroupDefs"],
      E("asm/translate.go", "		return attrGroupIDs[i] < attrGroupIDs[j]", "		return attrGroupIDs[i] > attrGroupIDs[j]")),
    M("ord-globals-map-order", "C20", ["ORD-SORT", "Globals"],
      E("asm/translate.go", "	for _, ident := range gen.old.globalOrder {\n		v, ok := gen.new.globals[ident]\n		if !ok {\n			panic(fmt.Errorf(\"unable to locate global identifier %q\", ident.Ident()))\n		}", "	for ident, v := range gen.new.globals {\n		_ = ident")),
    # ---- C13 / C14: effects --------------------------------------------------------
    M("race-memoise-in-printer", ["C13", "C14"], ["shared write", "ir.Func", "cachedHeader"],
      E("ir/func.go", "	// Parent module; field set by ir.Module.NewFunc.\n	Parent *Module", "	// Parent module; field set by ir.Module.NewFunc.\n	Parent *Module\n	cachedHeader string"),
      E("ir/func.go", "		buf.WriteString(headerString(f))\n		return buf.String()", "		if f.cachedHeader == \"\" {\n			f.cachedHeader = headerString(f)\n		}\n		buf.WriteString(f.cachedHeader)\n		return buf.String()")),
    M("obs-sort-in-place", ["C13", "C14"], ["shared write", "ir.Module", "Funcs"],
      E("ir/module.go", "	// Function declarations and definitions.\n	if len(m.Funcs) > 0 && fw.size > 0 {", "	sort.Slice(m.Funcs, func(i, j int) bool { return m.Funcs[i].Name() < m.Funcs[j].Name() })\n	// Function declarations and definitions.\n	if len(m.Funcs) > 0 && fw.size > 0 {"),
      E("ir/module.go", '	"io"\n', '	"io"\n	"sort"\n')),
    M("race-unguarded-setid", "C13", ["RACE-2", "AssignIDs"],
      E("ir/func.go", "			if n.ID() != id {\n				// only write when the ID changes, so that printing an already\n				// numbered value from several goroutines performs no write.\n				n.SetID(id)\n			}", "			n.SetID(id)")),
    M("race-no-lock", "C13", ["RACE-2", "AssignGlobalIDs"],
      E("ir/module.go", "func (m *Module) AssignGlobalIDs() error {\n	m.mu.Lock()\n	defer m.mu.Unlock()\n", "func (m *Module) AssignGlobalIDs() error {\n")),
    M("race-scaffold-without-typ", ["C13", "C14"], ["RACE-3", "newAddInst"],
      E("asm/inst_binary.go", "	return &ir.InstAdd{LocalIdent: ident, Typ: typ}, nil", "	_ = typ\n	return &ir.InstAdd{LocalIdent: ident}, nil")),
    M("obs-setname-keeps-id", "C14", ["OBS-5", "LocalIdent"],
      E("ir/helper.go", "	i.LocalName = name\n	i.LocalID = 0\n", "	i.LocalName = name\n")),
]

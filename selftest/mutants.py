# Mutants used to test that each rule fires on a broken instance (selftest.py).
# Every mutant still compiles; most also pass the repository's 57 tests.
# expect: substrings that one reported violation line must all contain.


def M(name, props, expect, *edits, tier="quick"):
    if isinstance(props, str):
        props = [props]
    if isinstance(expect, str):
        expect = [expect]
    return dict(name=name, props=props, expect=expect, edits=list(edits), tier=tier)


def E(file, old, new, nth=None, all=False):
    d = dict(file=file, old=old, new=new)
    if nth is not None:
        d["nth"] = nth
    if all:
        d["all"] = True
    return d


MUTANTS = [
    # ---- C18 ----------------------------------------------------------------
    M("enum-regen-one-side", "C18", ["ENUM-TAB", "LinkageWeak"],
      E("asm/enum/linkage_string2enum.go", 'privateweakweak_odr', 'privateweekweak_odr')),
    M("enum-new-const-no-regen", "C18", ["ENUM-TAB", "LinkageFoo"],
      E("ir/enum/enum.go", "	LinkageExternWeak // extern_weak\n", "	LinkageExternWeak // extern_weak\n	LinkageFoo // foo\n")),
    M("enum-flag-last-stale", "C18", ["ENUM-FLAGS", "DISPFlag"],
      E("ir/enum/enum.go", "DISPFlagLast  = DISPFlagObjCDirect", "DISPFlagLast  = DISPFlagMainSubprogram")),
    M("enum-keyword-not-lexable", "C18", ["ENUM-LEX", "TailMustTail"],
      E("ir/enum/tail_string.go", "musttail", "mushtail"),
      E("asm/enum/tail_string2enum.go", "musttail", "mushtail", all=True)),
    M("enum-flag-loop-shift", "C18", ["ENUM-FLAGS", "set printer"],
      E("ir/metadata/helper.go", "mask <= enum.DISPFlagLast; mask <<= 1", "mask < enum.DISPFlagLast; mask <<= 1")),
    M("enum-wrong-family", "C18", ["ENUM-USE", "Visibility"],
      E("asm/global.go", "new.Visibility = asmenum.VisibilityFromString(n.Text())", "new.Visibility = enum.Visibility(asmenum.DLLStorageClassFromString(n.Text()))", nth=0),
      E("asm/global.go", '"github.com/llir/llvm/ir/constant"', '"github.com/llir/llvm/ir/constant"\n\t"github.com/llir/llvm/ir/enum"')),
    # ---- C19 ----------------------------------------------------------------
    M("w-return-nil-error", "C19", "W-3",
      E("ir/module.go", "return fw.size, fw.err", "return fw.size, nil")),
    M("w-direct-fprint", "C19", "W-1",
      E("ir/module.go", "fw.Fprintln(def.LLString())", "fmt.Fprintln(w, def.LLString())")),
    M("w-no-latch", "C19", ["W-2", "Fprintf"],
      E("ir/helper.go", "	if fw.err != nil {\n		// early return if a previous error has been encountered.\n		return 0, nil\n	}\n	n, err = fmt.Fprintf(", "	n, err = fmt.Fprintf(")),
    M("w-size-not-counted", "C19", ["W-2", "Fprintln"],
      E("ir/helper.go", "	n, err = fmt.Fprintln(fw.w, a...)\n	fw.size += int64(n)", "	n, err = fmt.Fprintln(fw.w, a...)")),
    M("w-err-cleared", "C19", "W-4",
      E("ir/module.go", "	for _, u := range m.UseListOrderBBs {\n		fw.Fprintln(u)\n	}", "	for _, u := range m.UseListOrderBBs {\n		fw.err = nil\n		fw.Fprintln(u)\n	}")),
    M("w-string-not-writeto", "C19", "W-5",
      E("ir/module.go", "	return buf.String()\n}\n\n// WriteTo", "	return buf.String() + \"\"[:0] + m.SourceFilename[:0]\n}\n\n// WriteTo")),
    # ---- C01: dispatch / coverage --------------------------------------------
    M("exh-drop-case-funcattr", "C01", ["EXH", "irFuncAttribute", "ast.AlignStackPair"],
      E("asm/helper.go", "	case *ast.AlignStackPair:\n		return ir.AlignStack(uintLit(old.N()))\n", "")),
    M("sib-drop-scaffold-case", "C01", ["SIB", "newType", "ScalableVectorType"],
      E("asm/type.go", "	case *ast.ScalableVectorType:\n		return &types.VectorType{TypeName: typeName}, nil\n", "")),
    M("pair-wrong-scaffold-type", "C01", ["PAIR", "ast.FSubInst"],
      E("asm/inst_binary.go", "func (fgen *funcGen) newFSubInst(ident ir.LocalIdent, old *ast.FSubInst) (*ir.InstFSub, error) {", "func (fgen *funcGen) newFSubInst(ident ir.LocalIdent, old *ast.FSubInst) (*ir.InstFAdd, error) {"),
      E("asm/inst_binary.go", "	return &ir.InstFSub{LocalIdent: ident, Typ: typ}, nil", "	return &ir.InstFAdd{LocalIdent: ident, Typ: typ}, nil")),
    M("acc-drop-volatile", "C01", ["ACC", "ast.StoreInst.Volatile"],
      E("asm/inst_memory.go", "	// (optional) Volatile.\n	_, inst.Volatile = old.Volatile()\n	// (optional) Sync scope.\n	if n, ok := old.SyncScope(); ok {\n		inst.SyncScope = stringLit(n.Scope())\n	}\n	// (optional) Atomic memory ordering constraints.\n	if n, ok := old.Ordering(); ok {\n		inst.Ordering = asmenum.AtomicOrderingFromString(n.Text())\n	}\n	// (optional) Alignment.\n	if n, ok := old.Align(); ok {\n		inst.Align = irAlign(n)\n	}\n	// (optional) Metadata.\n	md, err := fgen.gen.irMetadataAttachments(old.Metadata())\n	if err != nil {\n		return errors.WithStack(err)\n	}\n	inst.Metadata = md\n	return nil\n}\n\n// --- [ fence ]",
        "	// (optional) Sync scope.\n	if n, ok := old.SyncScope(); ok {\n		inst.SyncScope = stringLit(n.Scope())\n	}\n	// (optional) Atomic memory ordering constraints.\n	if n, ok := old.Ordering(); ok {\n		inst.Ordering = asmenum.AtomicOrderingFromString(n.Text())\n	}\n	// (optional) Alignment.\n	if n, ok := old.Align(); ok {\n		inst.Align = irAlign(n)\n	}\n	// (optional) Metadata.\n	md, err := fgen.gen.irMetadataAttachments(old.Metadata())\n	if err != nil {\n		return errors.WithStack(err)\n	}\n	inst.Metadata = md\n	return nil\n}\n\n// --- [ fence ]")),
    M("acc-result-discarded", "C01", ["ACC", "ast.AtomicRMWInst.SyncScope"],
      E("asm/inst_memory.go", "	// (optional) Sync scope.\n	if n, ok := old.SyncScope(); ok {\n		inst.SyncScope = stringLit(n.Scope())\n	}\n	// (optional) Metadata.", "	_, _ = old.SyncScope()\n	// (optional) Metadata.", nth=2)),
    M("flow-miswired-flag", "C01", ["FLOW", "ir.InstStore.Volatile"],
      E("asm/inst_memory.go", "	_, inst.Volatile = old.Volatile()\n	// (optional) Sync scope.\n	if n, ok := old.SyncScope(); ok {\n		inst.SyncScope = stringLit(n.Scope())\n	}\n	// (optional) Atomic memory ordering constraints.\n	if n, ok := old.Ordering(); ok {\n		inst.Ordering = asmenum.AtomicOrderingFromString(n.Text())\n	}\n	// (optional) Alignment.\n	if n, ok := old.Align(); ok {\n		inst.Align = irAlign(n)\n	}\n	// (optional) Metadata.\n	md, err := fgen.gen.irMetadataAttachments(old.Metadata())\n	if err != nil {\n		return errors.WithStack(err)\n	}\n	inst.Metadata = md\n	return nil\n}\n\n// --- [ fence ]",
        "	_, inst.Volatile = old.Atomic()\n	_, _ = old.Volatile()\n	// (optional) Sync scope.\n	if n, ok := old.SyncScope(); ok {\n		inst.SyncScope = stringLit(n.Scope())\n	}\n	// (optional) Atomic memory ordering constraints.\n	if n, ok := old.Ordering(); ok {\n		inst.Ordering = asmenum.AtomicOrderingFromString(n.Text())\n	}\n	// (optional) Alignment.\n	if n, ok := old.Align(); ok {\n		inst.Align = irAlign(n)\n	}\n	// (optional) Metadata.\n	md, err := fgen.gen.irMetadataAttachments(old.Metadata())\n	if err != nil {\n		return errors.WithStack(err)\n	}\n	inst.Metadata = md\n	return nil\n}\n\n// --- [ fence ]")),
    M("flow-swapped-di-field", "C01", ["FLOW", "DICommonBlock.Scope"],
      E("asm/specialized_metadata.go", "			scope, err := gen.irMDField(oldField.Scope())\n			if err != nil {\n				return nil, errors.WithStack(err)\n			}\n			md.Scope = scope\n		case *ast.DeclarationField:\n			declaration, err := gen.irMDField(oldField.Declaration())\n			if err != nil {\n				return nil, errors.WithStack(err)\n			}\n			md.Declaration = declaration",
        "			scope, err := gen.irMDField(oldField.Scope())\n			if err != nil {\n				return nil, errors.WithStack(err)\n			}\n			md.Declaration = scope\n		case *ast.DeclarationField:\n			declaration, err := gen.irMDField(oldField.Declaration())\n			if err != nil {\n				return nil, errors.WithStack(err)\n			}\n			md.Scope = declaration")),
    M("fldp-drop-inbounds", "C01", ["FLD-P", "ir.InstGetElementPtr.InBounds"],
      E("ir/inst_memory.go", "	if inst.InBounds {\n		buf.WriteString(\" inbounds\")\n	}\n", "")),
    M("fldw-never-filled", "C01", ["FLD-W", "ir.InstLoad.Align"],
      E("asm/inst_memory.go", "	// (optional) Alignment.\n	if n, ok := old.Align(); ok {\n		inst.Align = irAlign(n)\n	}\n", "	// (optional) Alignment.\n	if n, ok := old.Align(); ok {\n		_ = irAlign(n)\n	}\n", nth=1)),
    M("ord-swap-operands", "C01", ["ORD", "ir.InstSub"],
      E("ir/inst_binary.go", '	fmt.Fprintf(buf, " %s, %s", inst.X, inst.Y.Ident())', '	fmt.Fprintf(buf, " %s %s, %s", inst.Y.Type(), inst.Y.Ident(), inst.X.Ident())', nth=2)),
    M("opc-wrong-mnemonic", "C01", ["OPC", "ir.InstFSub"],
      E("ir/inst_binary.go", '	buf.WriteString("fsub")', '	buf.WriteString("fadd")')),
]

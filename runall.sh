#!/bin/sh
# runs every registered quick (or thorough: ./runall.sh thorough) check; rewrites the evidence files
tier=${1:-quick}
rc=0
for id in $(/verif/bin/llvmlint -list | awk '/^C[0-9]+ /{print $1}'); do
  /verif/bin/llvmlint -repo /repo -prop "$id" -tier "$tier" > /verif/out/$id.$tier.log 2>&1 || rc=1
  grep -E "^(property|KNOWN-FINDING|VIOLATION)" /verif/out/$id.$tier.log
done
exit $rc

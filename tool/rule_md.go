package main

import (
	"fmt"
	"go/ast"
	"go/constant"
	"go/token"
	"go/types"
	"regexp"
	"sort"
	"strings"

	"golang.org/x/tools/go/packages"
)

// MD — metadata IDs and identity (C17).

func init() {
	register(&Rule{
		Name:  "MD-IDENT",
		Doc:   "every metadata node type (a struct embedding MetadataID) implements Ident() with one shape: nil → \"null\"; MetadataID != -1 → the ID's identifier; otherwise the inline LLString() — so a numbered node is always referenced by number and an inline node is always printed in place",
		Floor: 28,
		Run:   ruleMDIDENT,
	})
	register(&Rule{
		Name:  "MD-INLINE",
		Doc:   "every allocation of a metadata node type in package asm either sets MetadataID to -1 (inline node) or is a scaffold whose ID is set from the definition (SetID in the same function or in every caller): no node is left with the zero ID, which would print as !0",
		Floor: 55,
		Run:   ruleMDINLINE,
	})
	register(&Rule{
		Name:  "MD-SCAF",
		Doc:   "every fill translator of a metadata node (irDIxxx(new, old), irMDTuple(new, old)) allocates a node only when new is nil and otherwise fills the asserted new: a reference to !N and definition !N stay one object",
		Floor: 28,
		Run:   ruleMDSCAF,
	})
	register(&Rule{
		Name:  "MD-KEY",
		Doc:   "every `key: value` a debug-info printer emits uses a key that is a terminal of the llir/ll grammar, and the IR field printed under that key is the field the translator fills from the AST alternative of the same key (label ↔ field ↔ grammar agreement per printed field, ≈190 fields)",
		Floor: 150,
		Run:   ruleMDKEY,
	})
	register(&Rule{
		Name:  "MD-MERGE",
		Doc:   "named metadata definitions of one name are collected by the append idiom in the single indexing loop and translated by in-order iteration of that per-name slice, each appending its nodes in order",
		Floor: 3,
		Run:   ruleMDMERGE,
	})
	register(&Rule{
		Name:  "MD-ASSIGN",
		Doc:   "AssignMetadataIDs builds the set of explicit IDs from all definitions, completes that set before it hands out the first ID, hands out only IDs not in that set, and both ID-assignment routines run in WriteTo before anything is written",
		Floor: 4,
		Run:   ruleMDASSIGN,
	})
}

// mdNodeTypes: struct types of ir/metadata that embed MetadataID.
func (c *Ctx) mdNodeTypes() []*types.Named {
	var out []*types.Named
	scope := c.pkg(pkgMD).Types.Scope()
	for _, name := range scope.Names() {
		tn, ok := scope.Lookup(name).(*types.TypeName)
		if !ok {
			continue
		}
		n, ok := tn.Type().(*types.Named)
		if !ok {
			continue
		}
		st, ok := n.Underlying().(*types.Struct)
		if !ok {
			continue
		}
		for i := 0; i < st.NumFields(); i++ {
			if st.Field(i).Embedded() && st.Field(i).Name() == "MetadataID" {
				out = append(out, n)
			}
		}
	}
	return out
}

func ruleMDIDENT(c *Ctx) []Obligation {
	var obs []Obligation
	for _, n := range c.mdNodeTypes() {
		o := Obligation{Key: typeKey(n) + ".Ident", Verdict: OK, Tags: []string{"md"}}
		id := declaredMethodOf(n, "Ident")
		fd := c.funcDecl(id)
		if fd == nil {
			o.Verdict, o.Detail = VIOL, "no Ident method declared on the node type (the promoted MetadataID.Ident would print inline nodes as !-1)"
			obs = append(obs, o)
			continue
		}
		o.Pos = c.pos(fd.Pos())
		recv := ""
		if len(fd.Recv.List[0].Names) == 1 {
			recv = fd.Recv.List[0].Names[0].Name
		}
		// the method as a decision list [(condition, result)…], helpers of the package inlined
		dl, okDL := c.decisionList(fd, nil, 0)
		want := [][2]string{{recv + "==nil", `"null"`}, {recv + ".MetadataID!=-1", recv + ".MetadataID.Ident()"}, {"", recv + ".LLString()"}}
		ok := okDL && len(dl) == len(want)
		why := ""
		if !okDL {
			why = "the body is not a sequence of `if cond { return x }` steps ending in a return"
		} else if len(dl) != len(want) {
			why = fmt.Sprintf("%d decision steps, expected three", len(dl))
		}
		if ok {
			names := []string{"nil → \"null\"", "numbered → the ID's identifier", "otherwise → the inline LLString()"}
			for i := range want {
				if dl[i] != want[i] {
					ok = false
					why = fmt.Sprintf("step %d is `%s → %s`, expected %s", i+1, dl[i][0], dl[i][1], names[i])
					break
				}
			}
		}
		if !ok {
			o.Verdict = VIOL
			o.Detail = "Ident deviates from its 28 siblings: " + why + " — numbered nodes must print as their ID and inline nodes in place"
		} else {
			o.Detail = "nil → null; numbered → !N; else inline"
		}
		obs = append(obs, o)
	}
	return obs
}

// decisionList renders a function body of the form
//
//	if c1 { return r1 }; …; return rn
//
// as [(c1, r1), …, ("", rn)] (spaces removed). A result that is a call of a
// function of the same package whose body has that form too is replaced by the
// callee's list with the parameters substituted by the arguments, so that a
// shared tail extracted into a helper reads like the inline code.
func (c *Ctx) decisionList(fd *ast.FuncDecl, subst map[string]string, depth int) ([][2]string, bool) {
	if fd == nil || fd.Body == nil || depth > 3 {
		return nil, false
	}
	p := c.declPkg[fd]
	// constants are rendered by value, so that a named constant (noMetadataID, nullIdent) reads
	// like the literal it stands for
	var renderC func(e ast.Expr) string
	renderC = func(e ast.Expr) string {
		if p != nil {
			if tv, ok := p.TypesInfo.Types[e]; ok && tv.Value != nil {
				return tv.Value.ExactString()
			}
		}
		switch x := e.(type) {
		case *ast.ParenExpr:
			return "(" + renderC(x.X) + ")"
		case *ast.BinaryExpr:
			return renderC(x.X) + x.Op.String() + renderC(x.Y)
		case *ast.UnaryExpr:
			return x.Op.String() + renderC(x.X)
		case *ast.SelectorExpr:
			return renderC(x.X) + "." + x.Sel.Name
		case *ast.CallExpr:
			var as []string
			for _, a := range x.Args {
				as = append(as, renderC(a))
			}
			return renderC(x.Fun) + "(" + strings.Join(as, ",") + ")"
		}
		return exprString(e)
	}
	render := func(e ast.Expr) string {
		s := strings.ReplaceAll(renderC(e), " ", "")
		for from, to := range subst {
			s = regexp.MustCompile(`\b`+regexp.QuoteMeta(from)+`\b`).ReplaceAllString(s, strings.ReplaceAll(to, "$", "$$"))
		}
		return s
	}
	var out [][2]string
	// a tagless switch whose arms return is the same decision list: switch { case c1: return a; default: return b }
	list := fd.Body.List
	if n := len(list); n > 0 {
		if sw, ok := list[n-1].(*ast.SwitchStmt); ok && sw.Tag == nil && sw.Init == nil {
			var flat []ast.Stmt
			okSw := true
			for k, cc := range sw.Body.List {
				cl := cc.(*ast.CaseClause)
				if len(cl.Body) != 1 {
					okSw = false
					break
				}
				r, isRet := cl.Body[0].(*ast.ReturnStmt)
				if !isRet {
					okSw = false
					break
				}
				switch {
				case cl.List == nil && k == len(sw.Body.List)-1:
					flat = append(flat, r)
				case len(cl.List) == 1:
					flat = append(flat, &ast.IfStmt{If: cl.Pos(), Cond: cl.List[0], Body: &ast.BlockStmt{List: []ast.Stmt{r}}})
				default:
					okSw = false
				}
			}
			if okSw && len(flat) > 0 {
				list = append(append([]ast.Stmt{}, list[:n-1]...), flat...)
			}
		}
	}
	for i, st := range list {
		var cond string
		var ret *ast.ReturnStmt
		switch st := st.(type) {
		case *ast.IfStmt:
			if st.Init != nil || st.Else != nil || len(st.Body.List) != 1 {
				return nil, false
			}
			r, ok := st.Body.List[0].(*ast.ReturnStmt)
			if !ok {
				return nil, false
			}
			cond, ret = render(st.Cond), r
		case *ast.ReturnStmt:
			if i != len(list)-1 {
				return nil, false
			}
			ret = st
		default:
			return nil, false
		}
		if len(ret.Results) != 1 {
			return nil, false
		}
		// inline a helper call
		if call, ok := unparen(ret.Results[0]).(*ast.CallExpr); ok && p != nil {
			if callee := calleeOf(p.TypesInfo, call); callee != nil && callee.Pkg() != nil && callee.Pkg().Path() == p.PkgPath && callee.Type().(*types.Signature).Recv() == nil {
				if hfd := c.funcDecl(callee); hfd != nil {
					sub := map[string]string{}
					k := 0
					for _, f := range hfd.Type.Params.List {
						for _, nm := range f.Names {
							if k < len(call.Args) {
								sub[nm.Name] = render(call.Args[k])
							}
							k++
						}
					}
					if inner, ok := c.decisionList(hfd, sub, depth+1); ok {
						for _, step := range inner {
							cc := step[0]
							switch {
							case cond != "" && cc != "":
								cc = cond + "&&" + cc
							case cond != "":
								cc = cond
							}
							out = append(out, [2]string{cc, step[1]})
						}
						continue
					}
				}
			}
		}
		out = append(out, [2]string{cond, render(ret.Results[0])})
	}
	return out, len(out) > 0
}

func ruleMDINLINE(c *Ctx) []Obligation {
	var obs []Obligation
	isNode := map[*types.Named]bool{}
	for _, n := range c.mdNodeTypes() {
		isNode[n] = true
	}
	pa := c.pkg(pkgASM)
	info := pa.TypesInfo
	// callers' SetID on results: function name -> all call sites followed by SetID on the result
	callerSets := func(fn *types.Func) (bool, int) {
		n, okAll := 0, true
		c.eachFunc(pkgASM, func(p *packages.Package, fd *ast.FuncDecl, _ *types.Func) {
			var lists [][]ast.Stmt
			ast.Inspect(fd.Body, func(nd ast.Node) bool {
				switch nd := nd.(type) {
				case *ast.BlockStmt:
					lists = append(lists, nd.List)
				case *ast.CaseClause:
					lists = append(lists, nd.Body)
				}
				return true
			})
			for _, list := range lists {
				for i, st := range list {
					as, ok := st.(*ast.AssignStmt)
					if !ok || len(as.Rhs) != 1 {
						continue
					}
					call, ok := as.Rhs[0].(*ast.CallExpr)
					if !ok || calleeOf(info, call) != fn {
						continue
					}
					n++
					v := exprString(as.Lhs[0])
					found := false
					isSet := func(st2 ast.Stmt) bool {
						es, ok := st2.(*ast.ExprStmt)
						return ok && strings.HasPrefix(strings.ReplaceAll(exprString(es.X), " ", ""), v+".SetID(")
					}
					for _, st2 := range list[i+1:] {
						if isSet(st2) {
							found = true
						}
					}
					// one SetID shared by all arms: a statement that follows the enclosing switch / if
					// in a block around this one
					if !found {
						for _, outer := range lists {
							for j, ost := range outer {
								if ost.Pos() <= as.Pos() && as.End() <= ost.End() && ost != st {
									for _, st2 := range outer[j+1:] {
										if isSet(st2) {
											found = true
										}
									}
								}
							}
						}
					}
					if !found {
						okAll = false
					}
				}
			}
			// also `return f(...)` call sites do not set the ID
			ast.Inspect(fd.Body, func(nd ast.Node) bool {
				if r, ok := nd.(*ast.ReturnStmt); ok {
					for _, res := range r.Results {
						if call, ok := res.(*ast.CallExpr); ok && calleeOf(info, call) == fn {
							n++
							okAll = false
						}
					}
				}
				return true
			})
		})
		return okAll && n > 0, n
	}
	c.eachFunc(pkgASM, func(p *packages.Package, fd *ast.FuncDecl, fn *types.Func) {
		ord := map[string]int{}
		ast.Inspect(fd.Body, func(nd ast.Node) bool {
			cl, ok := nd.(*ast.CompositeLit)
			if !ok {
				return true
			}
			n := namedOf(info.TypeOf(cl))
			if n == nil || !isNode[n] {
				return true
			}
			key := fmt.Sprintf("%s allocates %s", funcKey(fn), typeKey(n))
			ord[key]++
			if ord[key] > 1 {
				key += fmt.Sprintf("#%d", ord[key])
			}
			o := Obligation{Key: key, Pos: c.pos(cl.Pos()), Verdict: OK, Tags: []string{"md"}}
			inLit := false
			for _, el := range cl.Elts {
				if kv, ok := el.(*ast.KeyValueExpr); ok {
					if id, ok := kv.Key.(*ast.Ident); ok && id.Name == "MetadataID" {
						if tv, ok := info.Types[kv.Value]; ok && tv.Value != nil && tv.Value.String() == "-1" {
							inLit = true
						} else {
							o.Verdict, o.Detail = VIOL, "MetadataID is preset to something other than -1"
						}
					}
				}
			}
			setHere := false
			ast.Inspect(fd.Body, func(m ast.Node) bool {
				if call, ok := m.(*ast.CallExpr); ok {
					if se, ok := unparen(call.Fun).(*ast.SelectorExpr); ok && se.Sel.Name == "SetID" && len(call.Args) == 1 {
						if nn := namedOf(info.TypeOf(se.X)); nn == n || (nn != nil && types.IsInterface(info.TypeOf(se.X))) {
							setHere = true
						}
					}
				}
				return true
			})
			switch {
			case o.Verdict != OK:
			case inLit:
				o.Detail = "inline node: MetadataID: -1"
			case setHere:
				o.Detail = "ID set by SetID in the allocating function"
			default:
				okCallers, ncall := callerSets(fn)
				if okCallers {
					o.Detail = fmt.Sprintf("scaffold: all %d call site(s) of %s set the ID on the result", ncall, fn.Name())
				} else {
					o.Verdict = VIOL
					o.Detail = fmt.Sprintf("node is allocated with the zero MetadataID and neither this function nor all %d call site(s) set it: the node prints as a reference to !0 instead of inline", ncall)
				}
			}
			obs = append(obs, o)
			return true
		})
	})
	return obs
}

func ruleMDSCAF(c *Ctx) []Obligation {
	var obs []Obligation
	isNode := map[*types.Named]bool{}
	for _, n := range c.mdNodeTypes() {
		isNode[n] = true
	}
	isScafIface := func(t types.Type) bool {
		nn := namedOf(t)
		return nn != nil && nn.Obj().Pkg() != nil && nn.Obj().Pkg().Path() == pkgMD && types.IsInterface(t)
	}
	// target helpers: functions of the package that are handed the scaffold parameter of a translator and
	// return the node type (tuple := mdTupleTarget(new)); their parameter may have any name
	scafHelper := map[*types.Func]*types.Var{}
	c.eachFunc(pkgASM, func(p *packages.Package, fd *ast.FuncDecl, fn *types.Func) {
		info := p.TypesInfo
		sig := fn.Type().(*types.Signature)
		var np *types.Var
		for i := 0; i < sig.Params().Len(); i++ {
			if pv := sig.Params().At(i); isScafIface(pv.Type()) && pv.Name() == "new" {
				np = pv
			}
		}
		if np == nil || sig.Results().Len() < 1 {
			return
		}
		res := isIRStructPtr(c, sig.Results().At(0).Type())
		if res == nil || !isNode[res] {
			return
		}
		ast.Inspect(fd.Body, func(nd ast.Node) bool {
			call, ok := nd.(*ast.CallExpr)
			if !ok {
				return true
			}
			h := calleeOf(info, call)
			if h == nil || h.Pkg() == nil || h.Pkg().Path() != pkgASM || h == fn {
				return true
			}
			hs := h.Type().(*types.Signature)
			if hs.Results().Len() < 1 || isIRStructPtr(c, hs.Results().At(0).Type()) != res {
				return true
			}
			for i, a := range call.Args {
				if id, ok := unparen(a).(*ast.Ident); ok && info.ObjectOf(id) == types.Object(np) && i < hs.Params().Len() && isScafIface(hs.Params().At(i).Type()) {
					scafHelper[h] = hs.Params().At(i)
				}
			}
			return true
		})
	})
	c.eachFunc(pkgASM, func(p *packages.Package, fd *ast.FuncDecl, fn *types.Func) {
		info := p.TypesInfo
		sig := fn.Type().(*types.Signature)
		var newParam *types.Var
		for i := 0; i < sig.Params().Len(); i++ {
			pv := sig.Params().At(i)
			if isScafIface(pv.Type()) && pv.Name() == "new" {
				newParam = pv
			}
		}
		if hp := scafHelper[fn]; hp != nil {
			newParam = hp
		}
		if newParam == nil || sig.Results().Len() < 1 {
			return
		}
		res := isIRStructPtr(c, sig.Results().At(0).Type())
		if res == nil || !isNode[res] {
			return
		}
		o := Obligation{Key: funcKey(fn) + " fills new or allocates only when nil", Pos: c.pos(fd.Pos()), Verdict: OK, Tags: []string{"md"}}
		// every composite literal of the node type must be inside `if new == nil`
		pm := buildParents(fd.Body)
		nAlloc := 0
		var allocVar types.Object
		ast.Inspect(fd.Body, func(nd ast.Node) bool {
			cl, ok := nd.(*ast.CompositeLit)
			if !ok || namedOf(info.TypeOf(cl)) != res {
				return true
			}
			nAlloc++
			guarded := false
			for n := ast.Node(cl); n != nil; n = pm[n] {
				if is, ok := pm[n].(*ast.IfStmt); ok && is.Body == n {
					if strings.ReplaceAll(exprString(is.Cond), " ", "") == newParam.Name()+"==nil" {
						guarded = true
					}
				}
				// `switch new := new.(type) { case nil: md = &T{…} … }`
				if cc, ok := pm[n].(*ast.CaseClause); ok && len(cc.List) == 1 && exprString(cc.List[0]) == "nil" {
					if blk, ok := pm[cc].(*ast.BlockStmt); ok {
						if ts, ok := pm[blk].(*ast.TypeSwitchStmt); ok && typeSwitchOperand(ts) == newParam.Name() {
							guarded = true
						}
					}
				}
			}
			// the variable the fresh node is assigned to
			if as, ok := pm[pm[cl]].(*ast.AssignStmt); ok && len(as.Lhs) == 1 {
				if id, ok := as.Lhs[0].(*ast.Ident); ok {
					allocVar = info.ObjectOf(id)
				}
			}
			if !guarded {
				o.Verdict = VIOL
				o.Pos = c.pos(cl.Pos())
				o.Detail = fmt.Sprintf("allocates a fresh %s although a scaffold `new` may have been passed: the definition that references resolve to stays empty and a second object is filled", typeKey(res))
			}
			return true
		})
		// the value returned must be the asserted/allocated variable
		if o.Verdict == OK {
			// the variable that holds `new` asserted to the node type: `md, ok := new.(*T)`, or
			// `case *T: md = new` in a type switch on new
			var asserted types.Object
			ast.Inspect(fd.Body, func(nd ast.Node) bool {
				as, ok := nd.(*ast.AssignStmt)
				if !ok || len(as.Rhs) != 1 || len(as.Lhs) == 0 {
					return true
				}
				id, ok := as.Lhs[0].(*ast.Ident)
				if !ok {
					return true
				}
				switch r := unparen(as.Rhs[0]).(type) {
				case *ast.CallExpr:
					// tuple := mdTupleTarget(new): the helper asserts or allocates (it is judged on its own)
					if h := calleeOf(info, r); h != nil && scafHelper[h] != nil {
						for _, a := range r.Args {
							if aid, ok := unparen(a).(*ast.Ident); ok && info.ObjectOf(aid) == types.Object(newParam) {
								asserted = info.ObjectOf(id)
							}
						}
					}
				case *ast.TypeAssertExpr:
					if r.Type != nil && exprString(r.X) == newParam.Name() && namedOf(info.TypeOf(r.Type)) == res {
						asserted = info.ObjectOf(id)
					}
				case *ast.Ident:
					// inside `case *T:` of `switch new := new.(type)` the clause variable has the node type
					if r.Name == newParam.Name() && namedOf(info.TypeOf(r)) == res && isPtr(info.TypeOf(r)) {
						asserted = info.ObjectOf(id)
					}
				}
				return true
			})
			if asserted == nil {
				o.Verdict, o.Detail = UNDECIDED, "no variable holds `new` asserted to the node type (`md, ok := new.(*T)` or `case *T: md = new`)"
			} else if o.Verdict == OK {
				// what a return hands back: the variable itself, or the result of a helper of the
				// package that receives the variable and returns the node type (a fill phase)
				origin := func(e ast.Expr) types.Object {
					e = unparen(e)
					if call, ok := e.(*ast.CallExpr); ok {
						if callee := calleeOf(info, call); callee != nil && callee.Pkg() != nil && callee.Pkg().Path() == pkgASM {
							if rs := callee.Type().(*types.Signature).Results(); rs.Len() >= 1 && isIRStructPtr(c, rs.At(0).Type()) == res {
								for _, a := range call.Args {
									if id, ok := unparen(a).(*ast.Ident); ok && isIRStructPtr(c, info.TypeOf(id)) == res {
										return info.ObjectOf(id)
									}
								}
							}
						}
						return nil
					}
					if id, ok := e.(*ast.Ident); ok {
						return info.ObjectOf(id)
					}
					return nil
				}
				underNil := func(n ast.Node) bool {
					for ; n != nil; n = pm[n] {
						if is, ok := pm[n].(*ast.IfStmt); ok && is.Body == n && strings.ReplaceAll(exprString(is.Cond), " ", "") == newParam.Name()+"==nil" {
							return true
						}
						if cc, ok := pm[n].(*ast.CaseClause); ok && len(cc.List) == 1 && exprString(cc.List[0]) == "nil" {
							return true
						}
					}
					return false
				}
				ast.Inspect(fd.Body, func(nd ast.Node) bool {
					if _, ok := nd.(*ast.FuncLit); ok {
						return false // a closure's returns are its own
					}
					if r, ok := nd.(*ast.ReturnStmt); ok && len(r.Results) >= 1 && exprString(r.Results[0]) != "nil" {
						got := origin(r.Results[0])
						want := asserted
						if allocVar != nil && allocVar != asserted && underNil(r) {
							want = allocVar // the fresh node lives in its own variable inside `if new == nil { … }`
						}
						if got == nil || got != want {
							o.Verdict, o.Detail, o.Pos = VIOL, "returns something other than the node asserted from `new` (or, under `new == nil`, the fresh node)", c.pos(r.Pos())
						}
					}
					return true
				})
			}
		}
		if o.Verdict == OK {
			o.Detail = fmt.Sprintf("%d allocation(s), all under `new == nil`; fills and returns the asserted node", nAlloc)
		}
		obs = append(obs, o)
	})
	return obs
}

// ---------------------------------------------------------------------------

var mdKeyRE = regexp.MustCompile(`^([A-Za-z_][A-Za-z0-9_]*): `)

// mdKeyAlias: grammar key → AST alternative name (without the Field suffix), where lowerFirst does not give it.
func astAltForKey(key string) string {
	return strings.ToUpper(key[:1]) + key[1:]
}

func ruleMDKEY(c *Ctx) []Obligation {
	var obs []Obligation
	terms := c.llTerminals()
	// (IR type, field) -> AST alternative names under which asm assigns it
	pa := c.pkg(pkgASM)
	info := pa.TypesInfo
	assignedUnder := map[string]map[string]bool{}
	c.eachFunc(pkgASM, func(p *packages.Package, fd *ast.FuncDecl, fn *types.Func) {
		ast.Inspect(fd.Body, func(nd ast.Node) bool {
			cl, ok := nd.(*ast.CaseClause)
			if !ok || len(cl.List) != 1 {
				return true
			}
			k := astNode(info.TypeOf(cl.List[0]))
			if k == nil || !strings.HasSuffix(k.Obj().Name(), "Field") {
				return true
			}
			alt := strings.TrimSuffix(k.Obj().Name(), "Field")
			for _, st := range cl.Body {
				ast.Inspect(st, func(m ast.Node) bool {
					if cc, ok := m.(*ast.CaseClause); ok && cc != cl {
						// nested type switch on the translated value: still the same field alternative
						_ = cc
					}
					var targets []ast.Expr
					switch x := m.(type) {
					case *ast.AssignStmt:
						targets = x.Lhs
					case *ast.CallExpr:
						// filled through an out-parameter: gen.irMDTupleField(&md.Enums, …, oldField.Enums())
						for _, a := range x.Args {
							if u, ok := unparen(a).(*ast.UnaryExpr); ok && u.Op == token.AND {
								targets = append(targets, u.X)
							}
						}
					}
					for _, l := range targets {
						if n, f := c.irFieldOf(info, l); n != nil && n.Obj().Pkg().Path() == pkgMD {
							kk := typeKey(n) + "." + f.Name()
							if assignedUnder[kk] == nil {
								assignedUnder[kk] = map[string]bool{}
							}
							assignedUnder[kk][alt] = true
						}
					}
					return true
				})
			}
			return true
		})
	})
	for _, n := range c.mdNodeTypes() {
		ll := declaredMethodOf(n, "LLString")
		fd := c.funcDecl(ll)
		if fd == nil {
			continue
		}
		pi := c.declPkg[fd].TypesInfo
		var recvObj types.Object
		if len(fd.Recv.List[0].Names) == 1 {
			recvObj = pi.Defs[fd.Recv.List[0].Names[0]]
		}
		st := n.Underlying().(*types.Struct)
		ast.Inspect(fd.Body, func(nd ast.Node) bool {
			call, ok := nd.(*ast.CallExpr)
			if !ok || len(call.Args) < 1 {
				return true
			}
			fn := calleeOf(pi, call)
			if fn == nil || fn.Pkg() == nil || fn.Pkg().Path() != "fmt" || fn.Name() != "Sprintf" {
				return true
			}
			tv := pi.Types[call.Args[0]]
			if tv.Value == nil || tv.Value.Kind() != constant.String {
				return true
			}
			m := mdKeyRE.FindStringSubmatch(constant.StringVal(tv.Value))
			if m == nil {
				return true
			}
			key := m[1]
			// fields of the receiver read in the remaining arguments
			var fields []string
			for _, a := range call.Args[1:] {
				ast.Inspect(a, func(q ast.Node) bool {
					se, ok := q.(*ast.SelectorExpr)
					if !ok {
						return true
					}
					if id, ok := unparen(se.X).(*ast.Ident); ok && pi.ObjectOf(id) == recvObj {
						if sel, ok := pi.Selections[se]; ok && sel.Kind() == types.FieldVal {
							fields = append(fields, st.Field(sel.Index()[0]).Name())
						}
					}
					return true
				})
			}
			o := Obligation{Key: fmt.Sprintf("%s key %q", typeKey(n), key), Pos: c.pos(call.Pos()), Verdict: OK, Tags: []string{"md"}}
			switch {
			case !terms[key+":"]:
				o.Verdict = VIOL
				o.Detail = fmt.Sprintf("the printer writes `%s:` which is not a terminal of the llir/ll grammar: the node cannot be read back", key)
			case len(fields) != 1:
				// loop variables / helper locals: resolve through the enclosing if-condition
				o.Verdict, o.Detail = EXEMPT, fmt.Sprintf("value expression reads %d receiver fields directly (printed through a local); label is a grammar terminal", len(fields))
			default:
				f := fields[0]
				alts := assignedUnder[typeKey(n)+"."+f]
				want := astAltForKey(key)
				match := false
				for a := range alts {
					// the grammar disambiguates same-key alternatives by a value-kind suffix (ValueIntField, TypeMacinfoField, FlagsStringField)
					if strings.EqualFold(a, want) || strings.HasPrefix(strings.ToLower(a), strings.ToLower(want)) {
						match = true
					}
				}
				if match {
					o.Detail = fmt.Sprintf("`%s:` prints %s, which the translator fills under case *ast.%sField", key, f, want)
				} else {
					o.Verdict = VIOL
					o.Detail = fmt.Sprintf("`%s:` prints field %s, but the translator fills %s from %v: label and field disagree, so the value is read back into another field", key, f, f, sortedKeys(alts))
				}
			}
			obs = append(obs, o)
			return true
		})
	}
	sort.SliceStable(obs, func(i, j int) bool { return obs[i].Key < obs[j].Key })
	// duplicate labels within one type (same key printed twice) get an ordinal
	seen := map[string]int{}
	for i := range obs {
		seen[obs[i].Key]++
		if seen[obs[i].Key] > 1 {
			obs[i].Key += fmt.Sprintf("#%d", seen[obs[i].Key])
		}
	}
	return obs
}

// ---------------------------------------------------------------------------

func ruleMDMERGE(c *Ctx) []Obligation {
	var obs []Obligation
	pa := c.pkg(pkgASM)
	info := pa.TypesInfo
	// 1. indexing: old.namedMetadataDefs[name] = append(old.namedMetadataDefs[name], entity) inside the top-level loop
	o1 := Obligation{Key: "oldIndex.namedMetadataDefs append-merge in the indexing loop", Verdict: VIOL, Detail: "no `m[name] = append(m[name], def)` store inside `range old.TopLevelEntities()` found", Tags: []string{"md"}}
	// 2. translation iterates the per-name slice in order
	o2 := Obligation{Key: "per-name definitions translated in slice order", Verdict: VIOL, Detail: "no in-order range over the []*ast.NamedMetadataDef of a name found", Tags: []string{"md"}}
	// 3. NamedDef.Nodes only grows by append inside a range over MDNodes()
	o3 := Obligation{Key: "metadata.NamedDef.Nodes appended in node order", Verdict: OK, Tags: []string{"md"}}
	nNodes := 0
	c.eachFunc(pkgASM, func(p *packages.Package, fd *ast.FuncDecl, fn *types.Func) {
		ast.Inspect(fd.Body, func(nd ast.Node) bool {
			rs, ok := nd.(*ast.RangeStmt)
			if !ok {
				return true
			}
			if rangesTopLevelEntities(p.TypesInfo, fd, rs) {
				ast.Inspect(rs.Body, func(m ast.Node) bool {
					as, ok := m.(*ast.AssignStmt)
					if !ok || len(as.Lhs) != 1 || len(as.Rhs) != 1 {
						return true
					}
					ix, ok := unparen(as.Lhs[0]).(*ast.IndexExpr)
					if !ok || mapFieldName(info, ix.X) != "oldIndex.namedMetadataDefs" {
						return true
					}
					if call, ok := as.Rhs[0].(*ast.CallExpr); ok && exprString(call.Fun) == "append" && len(call.Args) == 2 && exprString(call.Args[0]) == exprString(as.Lhs[0]) {
						o1.Verdict, o1.Pos, o1.Detail = OK, c.pos(as.Pos()), "append idiom in textual order"
					} else {
						o1.Verdict, o1.Pos, o1.Detail = VIOL, c.pos(as.Pos()), "a later definition of the same name replaces the earlier ones instead of being appended"
					}
					return true
				})
			}
			if t, ok := info.TypeOf(rs.X).(*types.Slice); ok {
				if nn := namedOf(t.Elem()); nn != nil && nn.Obj().Name() == "NamedMetadataDef" && nn.Obj().Pkg().Path() == pkgAST && rs.Key == nil || (rs.Key != nil && exprString(rs.Key) == "_") && func() bool {
					nn := namedOf(t.Elem())
					return nn != nil && nn.Obj().Name() == "NamedMetadataDef"
				}() {
					o2.Verdict, o2.Pos, o2.Detail = OK, c.pos(rs.Pos()), funcKey(fn)+" ranges over the definitions of one name in order"
				}
			}
			return true
		})
		ast.Inspect(fd.Body, func(nd ast.Node) bool {
			as, ok := nd.(*ast.AssignStmt)
			if !ok {
				return true
			}
			for i, l := range as.Lhs {
				n, f := c.irFieldOf(info, l)
				if n == nil || typeKey(n) != "ir/metadata.NamedDef" || f.Name() != "Nodes" {
					continue
				}
				nNodes++
				okAppend := false
				if i < len(as.Rhs) {
					if call, ok := as.Rhs[i].(*ast.CallExpr); ok && exprString(call.Fun) == "append" && len(call.Args) == 2 && exprString(call.Args[0]) == exprString(l) {
						okAppend = true
					}
				}
				// inside a range over MDNodes()
				inRange := false
				pm := buildParents(fd.Body)
				for x := ast.Node(as); x != nil; x = pm[x] {
					if rs, ok := x.(*ast.RangeStmt); ok && strings.Contains(exprString(rs.X), "MDNodes()") {
						inRange = true
					}
				}
				if !okAppend || !inRange {
					o3.Verdict, o3.Pos = VIOL, c.pos(as.Pos())
					o3.Detail = "NamedDef.Nodes is written other than by appending inside the in-order loop over the definition's nodes"
				}
			}
			return true
		})
	})
	if nNodes == 0 {
		o3.Verdict, o3.Detail = VIOL, "NamedDef.Nodes is never filled"
	} else if o3.Verdict == OK {
		o3.Detail = fmt.Sprintf("%d write(s), all appends inside `range old.MDNodes()`", nNodes)
	}
	obs = append(obs, o1, o2, o3)
	return obs
}

func ruleMDASSIGN(c *Ctx) []Obligation {
	var obs []Obligation
	p := c.pkg(pkgIR)
	info := p.TypesInfo
	fn := c.lookupFunc(pkgIR, "Module.AssignMetadataIDs")
	fd := c.funcDecl(fn)
	if fd == nil {
		return []Obligation{{Key: "ir.(*Module).AssignMetadataIDs", Verdict: UNDECIDED, Detail: "not found", Tags: []string{"md"}}}
	}
	// the `used` set: a map[int64]bool (or set-like map) held in a local or in a field of a
	// helper object (alloc.used), identified by the object that receives `S[k] = true` inside a
	// loop over the metadata definitions
	setObj := func(e ast.Expr) types.Object {
		switch x := unparen(e).(type) {
		case *ast.Ident:
			return info.ObjectOf(x)
		case *ast.SelectorExpr:
			return info.ObjectOf(x.Sel)
		}
		return nil
	}
	isSetMap := func(t types.Type) bool {
		mt, ok := t.Underlying().(*types.Map)
		if !ok {
			return false
		}
		switch et := mt.Elem().Underlying().(type) {
		case *types.Basic:
			return et.Kind() == types.Bool
		case *types.Struct:
			return et.NumFields() == 0
		}
		return false
	}
	var used types.Object
	o1 := Obligation{Key: "AssignMetadataIDs collects explicit IDs", Pos: c.pos(fd.Pos()), Verdict: VIOL, Detail: "no `used[id] = true` inside a loop over m.MetadataDefs for IDs other than -1", Tags: []string{"md"}}
	o2 := Obligation{Key: "AssignMetadataIDs skips used IDs", Pos: c.pos(fd.Pos()), Verdict: VIOL, Detail: "the new ID is not tested against the set of explicit IDs before it is handed out", Tags: []string{"md"}}
	var collectLoop *ast.RangeStmt
	ast.Inspect(fd.Body, func(nd ast.Node) bool {
		rs, ok := nd.(*ast.RangeStmt)
		if !ok || !strings.HasSuffix(exprString(rs.X), ".MetadataDefs") || collectLoop != nil {
			return true
		}
		ast.Inspect(rs.Body, func(m ast.Node) bool {
			if as, ok := m.(*ast.AssignStmt); ok && len(as.Lhs) == 1 && len(as.Rhs) == 1 {
				if ix, ok := as.Lhs[0].(*ast.IndexExpr); ok && isSetMap(info.TypeOf(ix.X)) {
					if obj := setObj(ix.X); obj != nil {
						used, collectLoop = obj, rs
						o1.Verdict, o1.Pos, o1.Detail = OK, c.pos(as.Pos()), "used[id] = … for every definition with an explicit ID"
					}
				}
			}
			return true
		})
		return true
	})
	// the set handed to a helper object: &alloc{used: used} / a.used = used make the field an alias
	usedAlias := map[types.Object]bool{}
	if used != nil {
		usedAlias[used] = true
		ast.Inspect(fd.Body, func(nd ast.Node) bool {
			switch x := nd.(type) {
			case *ast.KeyValueExpr:
				if k, ok := x.Key.(*ast.Ident); ok && setObj(x.Value) == used {
					if fo := info.ObjectOf(k); fo != nil {
						usedAlias[fo] = true
					}
				}
			case *ast.AssignStmt:
				for i, l := range x.Lhs {
					if i < len(x.Rhs) && setObj(x.Rhs[i]) == used {
						if fo := setObj(l); fo != nil {
							usedAlias[fo] = true
						}
					}
				}
			}
			return true
		})
	}
	if used != nil {
		// bodies in which the generator may live: this function (with its closures) and the
		// functions of the package it calls that mention the set (a method of the helper object)
		bodies := []*ast.BlockStmt{fd.Body}
		ast.Inspect(fd.Body, func(nd ast.Node) bool {
			if call, ok := nd.(*ast.CallExpr); ok {
				if g := calleeOf(info, call); g != nil && g.Pkg() != nil && g.Pkg().Path() == pkgIR {
					if gfd := c.funcDecl(g); gfd != nil && gfd.Body != nil && gfd != fd {
						mentions := false
						ast.Inspect(gfd.Body, func(m ast.Node) bool {
							if e, ok := m.(ast.Expr); ok && usedAlias[setObj(e)] {
								mentions = true
							}
							return true
						})
						if mentions {
							bodies = append(bodies, gfd.Body)
						}
					}
				}
			}
			return true
		})
		// the candidate advances past used IDs: a `for` loop that looks the candidate up in the
		// set and increments it (for used[n] { n++ } / for { n++; if !used[n] { return n } })
		for _, body := range bodies {
			ast.Inspect(body, func(nd ast.Node) bool {
				fs, ok := nd.(*ast.ForStmt)
				if !ok {
					return true
				}
				looks, incs := false, false
				ast.Inspect(fs, func(m ast.Node) bool {
					switch x := m.(type) {
					case *ast.IndexExpr:
						if usedAlias[setObj(x.X)] {
							looks = true
						}
					case *ast.IncDecStmt:
						if x.Tok == token.INC {
							incs = true
						}
					}
					return true
				})
				if looks && incs && o2.Verdict != OK {
					o2.Verdict, o2.Pos, o2.Detail = OK, c.pos(fs.Pos()), "the candidate is incremented until it is not in the set of used IDs"
				}
				return true
			})
		}
	}
	obs = append(obs, o1, o2)
	// the loop that records explicit IDs is complete before the first ID is handed out
	o4 := Obligation{Key: "AssignMetadataIDs knows every explicit ID before handing out any", Pos: c.pos(fd.Pos()), Verdict: UNDECIDED, Detail: "collection loop or SetID call not found", Tags: []string{"md"}}
	if used != nil && collectLoop != nil {
		var firstSet token.Pos
		ast.Inspect(fd.Body, func(nd ast.Node) bool {
			if call, ok := nd.(*ast.CallExpr); ok {
				if _, _, isSet := c.idSetCall(info, call); isSet && (firstSet == 0 || call.Pos() < firstSet) {
					firstSet = call.Pos()
				}
			}
			return true
		})
		if firstSet != 0 {
			if firstSet > collectLoop.End() {
				o4.Verdict, o4.Pos, o4.Detail = OK, c.pos(firstSet), "the loop recording explicit IDs ends before the first SetID"
			} else {
				o4.Verdict, o4.Pos = VIOL, c.pos(firstSet)
				o4.Detail = "SetID is called inside (or before) the loop that records the explicit IDs: a definition without ID that precedes a definition with explicit ID N can be given N, because N is not yet in the used set — two definitions then share one ID"
			}
		}
	}
	obs = append(obs, o4)
	// no success exit ahead of the loop that records (and checks) the explicit IDs: a fast path
	// for "already numbered" modules skips the only duplicate test
	if collectLoop != nil {
		o5 := Obligation{Key: "AssignMetadataIDs reaches the duplicate test on every successful path", Pos: c.pos(collectLoop.Pos()), Verdict: OK, Detail: "no success return ahead of the loop over the definitions", Tags: []string{"md"}}
		ast.Inspect(fd.Body, func(nd ast.Node) bool {
			if _, ok := nd.(*ast.FuncLit); ok {
				return false
			}
			if is, ok := nd.(*ast.IfStmt); ok && is.Pos() < collectLoop.Pos() && successReturn(is.Body) && o5.Verdict == OK {
				o5.Verdict, o5.Pos = VIOL, c.pos(is.Pos())
				o5.Detail = "`if " + exprString(is.Cond) + " { return nil }` leaves the routine before the loop that records the explicit IDs and rejects a number used twice: two definitions with one ID (the zero value of MetadataID is the explicit ID !0) are then printed under the same number"
			}
			return true
		})
		obs = append(obs, o5)
	}
	// WriteTo calls both assignment routines before the first write
	wi := c.writerAnchors()
	o3 := Obligation{Key: "WriteTo assigns IDs before writing", Verdict: OK, Tags: []string{"md"}}
	if len(wi.problems) > 0 {
		o3.Verdict, o3.Detail = UNDECIDED, strings.Join(wi.problems, "; ")
	} else {
		var firstWrite, aG, aM token.Pos
		// local closures that write through the wrapper: a write happens where they are called
		winfo := wi.p.TypesInfo
		writes := func(n ast.Node) bool {
			found := false
			ast.Inspect(n, func(m ast.Node) bool {
				if call, ok := m.(*ast.CallExpr); ok {
					if se, ok := unparen(call.Fun).(*ast.SelectorExpr); ok && strings.HasPrefix(se.Sel.Name, "Fprint") {
						if id, ok := unparen(se.X).(*ast.Ident); ok && wi.fwVar != nil && winfo.ObjectOf(id) == wi.fwVar {
							found = true
						}
					}
					// wrapper-less design: a write to the writer parameter itself
					if wi.closure != nil {
						if dst := isWriteCall(winfo, call); dst != nil {
							if id, ok := unparen(dst).(*ast.Ident); ok && winfo.ObjectOf(id) == wi.wParam {
								found = true
							}
						}
					}
				}
				return true
			})
			return found
		}
		writingClosures := map[types.Object]bool{}
		ast.Inspect(wi.writeTo.Body, func(nd ast.Node) bool {
			if as, ok := nd.(*ast.AssignStmt); ok && len(as.Lhs) == 1 && len(as.Rhs) == 1 {
				if fl, ok := as.Rhs[0].(*ast.FuncLit); ok && writes(fl.Body) {
					if id, ok := as.Lhs[0].(*ast.Ident); ok {
						writingClosures[winfo.ObjectOf(id)] = true
					}
				}
			}
			return true
		})
		ast.Inspect(wi.writeTo.Body, func(nd ast.Node) bool {
			if _, ok := nd.(*ast.FuncLit); ok {
				return false // the body runs where the closure is called
			}
			call, ok := nd.(*ast.CallExpr)
			if !ok {
				return true
			}
			if id, ok := unparen(call.Fun).(*ast.Ident); ok && writingClosures[winfo.ObjectOf(id)] && firstWrite == 0 {
				firstWrite = call.Pos()
			}
			if se, ok := unparen(call.Fun).(*ast.SelectorExpr); ok {
				switch {
				case se.Sel.Name == "AssignGlobalIDs" && aG == 0:
					aG = call.Pos()
				case se.Sel.Name == "AssignMetadataIDs" && aM == 0:
					aM = call.Pos()
				case strings.HasPrefix(se.Sel.Name, "Fprint") && firstWrite == 0:
					if id, ok := unparen(se.X).(*ast.Ident); ok && wi.fwVar != nil && wi.p.TypesInfo.ObjectOf(id) == wi.fwVar {
						firstWrite = call.Pos()
					}
				}
			}
			return true
		})
		o3.Pos = c.pos(wi.writeTo.Pos())
		// both calls are executed on every call of WriteTo: the only construct allowed around
		// them is the `if err := m.AssignXIDs(); err != nil { … }` that holds the call in its Init
		condPos, condWhat := token.NoPos, ""
		wpm := buildParents(wi.writeTo.Body)
		ast.Inspect(wi.writeTo.Body, func(nd ast.Node) bool {
			call, ok := nd.(*ast.CallExpr)
			if !ok {
				return true
			}
			se, ok := unparen(call.Fun).(*ast.SelectorExpr)
			if !ok || (se.Sel.Name != "AssignGlobalIDs" && se.Sel.Name != "AssignMetadataIDs") {
				return true
			}
			var child ast.Node = call
			for p := wpm[call]; p != nil; child, p = p, wpm[p] {
				switch p := p.(type) {
				case *ast.IfStmt:
					if p.Init != nil && child == ast.Node(p.Init) {
						continue
					}
					if condPos == token.NoPos {
						condPos, condWhat = p.Pos(), se.Sel.Name+" is called only under `if "+exprString(p.Cond)+"`"
					}
				case *ast.ForStmt, *ast.RangeStmt, *ast.SwitchStmt, *ast.TypeSwitchStmt, *ast.CaseClause, *ast.FuncLit:
					if condPos == token.NoPos {
						condPos, condWhat = p.Pos(), fmt.Sprintf("%s is called inside a %T", se.Sel.Name, p)
					}
				}
			}
			return true
		})
		switch {
		case condPos != token.NoPos:
			o3.Verdict, o3.Pos = VIOL, c.pos(condPos)
			o3.Detail = condWhat + ": on the paths that skip it, definitions that still have no ID are printed without one (a metadata definition appears as `!{…} = !{…}` and its uses as inline copies), and the duplicate-ID check does not run"
		case aG == 0 || aM == 0:
			// the calls may sit in a helper WriteTo starts with (m.assignIDs()): NUM-FIRST follows
			// helpers and holds each call to "unconditional, before anything is written"
			viaHelper := map[string]bool{}
			for _, o := range c.runRule("NUM-FIRST") {
				if o.Verdict == OK && strings.Contains(o.Key, "(*Module)") {
					for _, r := range []string{"AssignGlobalIDs", "AssignMetadataIDs"} {
						if strings.Contains(o.Key, "through "+r+" ") {
							viaHelper[r] = true
						}
					}
				}
			}
			if viaHelper["AssignGlobalIDs"] && viaHelper["AssignMetadataIDs"] {
				o3.Detail = "AssignGlobalIDs and AssignMetadataIDs are called through a helper, unconditionally and before the first write (NUM-FIRST)"
			} else {
				o3.Verdict, o3.Detail = VIOL, "WriteTo does not call both AssignGlobalIDs and AssignMetadataIDs: unnumbered definitions print with stale or zero IDs"
			}
		case firstWrite != 0 && (aG > firstWrite || aM > firstWrite):
			o3.Verdict, o3.Detail = VIOL, "output starts before IDs are assigned"
		default:
			o3.Detail = "AssignGlobalIDs and AssignMetadataIDs precede the first write"
		}
	}
	obs = append(obs, o3)
	return obs
}

// typeSwitchOperand returns the operand of a type switch as written (`x` in `switch v := x.(type)`).
func typeSwitchOperand(ts *ast.TypeSwitchStmt) string {
	switch a := ts.Assign.(type) {
	case *ast.AssignStmt:
		if len(a.Rhs) == 1 {
			if ta, ok := a.Rhs[0].(*ast.TypeAssertExpr); ok {
				return exprString(ta.X)
			}
		}
	case *ast.ExprStmt:
		if ta, ok := a.X.(*ast.TypeAssertExpr); ok {
			return exprString(ta.X)
		}
	}
	return ""
}

package main

import (
	"fmt"
	"go/ast"
	"go/token"
	"go/types"
	"sort"
	"strings"

	"golang.org/x/tools/go/packages"
	"golang.org/x/tools/go/ssa"
)

// Rules on write effects: DET-2 (no process-level state), RACE-1 / OBS-1
// (what printing and observing may write).

func init() {
	register(&Rule{
		Name:  "DET-2",
		Doc:   "nothing reachable from asm.Parse* or from the printing entry points stores to a package-level variable, updates a package-level map, or writes through a pointer loaded from a package-level variable (llir/llvm, llir/ll, mewmew/float): a parse cannot depend on, or influence, earlier and concurrent parses",
		Floor: 1,
		NeedS: true,
		Run:   ruleDET2,
	})
	register(&Rule{
		Name:  "RACE-1",
		Doc:   "the shared (non-fresh) memory that printing can write — String, WriteTo, LLString, Ident, Type, Name and everything they reach — is limited to the ID fields and the lazily cached result types; every other write reachable from printing is to memory allocated by the same call",
		Floor: 40,
		NeedS: true,
		Run:   ruleRACE1,
	})
	register(&Rule{
		Name:  "OBS-1",
		Doc:   "the observers (printing plus Operands, Succs, Sig, ID, IsUnnamed, MDAttachments) write no shared memory other than ID fields and result-type caches: none of them sorts, appends to, or normalises a field of the IR",
		Floor: 40,
		NeedS: true,
		Run:   ruleOBS1,
	})
}

var irPkgs = []string{pkgIR, pkgCONS, pkgMD, pkgTYP}

var printRootNames = map[string]bool{"String": true, "WriteTo": true, "LLString": true, "Ident": true, "Type": true, "Name": true}
var observerRootNames = map[string]bool{"String": true, "WriteTo": true, "LLString": true, "Ident": true, "Type": true, "Name": true,
	"Operands": true, "Succs": true, "Sig": true, "ID": true, "IsUnnamed": true, "MDAttachments": true}

func (c *Ctx) parseRoots() []*ssa.Function {
	prog := c.SSA()
	var out []*ssa.Function
	for _, n := range []string{"Parse", "ParseFile", "ParseBytes", "ParseString"} {
		if fn := c.lookupFunc(pkgASM, n); fn != nil {
			if f := prog.FuncValue(fn); f != nil {
				out = append(out, f)
			}
		}
	}
	return out
}

// sharedWrites groups the shared effects reachable from roots by target.
type writeGroup struct {
	target string
	kind   string
	sites  []reached
}

func (c *Ctx) sharedWrites(roots []*ssa.Function) ([]*writeGroup, int) {
	e := c.effects()
	effs, n := e.closure(roots)
	groups := map[string]*writeGroup{}
	for _, r := range effs {
		if r.Fresh {
			continue
		}
		k := r.Kind + " " + r.Target
		g := groups[k]
		if g == nil {
			g = &writeGroup{target: r.Target, kind: r.Kind}
			groups[k] = g
		}
		g.sites = append(g.sites, r)
	}
	var out []*writeGroup
	for _, g := range groups {
		out = append(out, g)
	}
	sort.Slice(out, func(i, j int) bool { return out[i].kind+out[i].target < out[j].kind+out[j].target })
	return out, n
}

// perCallTypes: types whose instances live only for one call of the function
// that allocates them, so writes through a receiver of that type are not
// shared. Each entry names the rule that establishes it.
var perCallTypes = map[string]string{}

func classifyPrintWrite(g *writeGroup, allowSucc bool) (allowed bool, why string) {
	switch {
	case g.kind == "field" && (g.target == "ir.LocalIdent.LocalID" || g.target == "ir.GlobalIdent.GlobalID"):
		return true, "ID field (numbering; lock and guard discipline is RACE-2)"
	case g.kind == "deref" && g.target == "ir/metadata.MetadataID":
		return true, "metadata ID (numbering; RACE-2 / MD-ASSIGN)"
	case g.kind == "field" && strings.HasSuffix(g.target, ".Typ"):
		return true, "lazily cached result type (prefilled by constructors and parser: RACE-3)"
	case allowSucc && g.kind == "field" && strings.HasSuffix(g.target, ".Successors"):
		return true, "successor cache of a terminator"
	}
	if g.kind == "field" {
		owner := g.target[:strings.LastIndex(g.target, ".")]
		if why, ok := perCallTypes[owner]; ok {
			return true, why
		}
	}
	return false, ""
}

func printWriteObligations(c *Ctx, rule string, names map[string]bool, allowSucc bool) []Obligation {
	roots := c.methodRoots(irPkgs, names)
	groups, nfn := c.sharedWrites(roots)
	var obs []Obligation
	for _, g := range groups {
		o := Obligation{Key: fmt.Sprintf("shared write %s %s", g.kind, g.target), Pos: c.pos(g.sites[0].Pos), Verdict: OK}
		ok, why := classifyPrintWrite(g, allowSucc)
		if !ok && rule == "RACE-1" {
			// not one of the known targets: acceptable for concurrent printing when the stores
			// follow the numbering discipline anyway (decided per site, not by name)
			ok, why = c.raceDisciplined(g, roots)
		}
		if !ok && rule == "OBS-1" && g.kind == "field" {
			// bookkeeping of the numbering routines themselves: an unexported field that observers
			// only ever reset to a constant, and that nothing outside the mutex-holding routines
			// reads (a `stale` flag cleared once the IDs have been re-derived) — no observer's
			// result can depend on it except through the numbering those routines perform
			field := g.target[strings.LastIndex(g.target, ".")+1:]
			constOnly := !token.IsExported(field)
			for _, site := range g.sites {
				st, isStore := site.Instr.(*ssa.Store)
				if !isStore {
					constOnly = false
					break
				}
				if _, isConst := st.Val.(*ssa.Const); !isConst {
					constOnly = false
				}
			}
			if constOnly {
				if d, dwhy := c.raceDisciplined(g, roots); d && strings.HasPrefix(dwhy, "lock-confined") {
					ok, why = true, "unexported bookkeeping flag of the numbering routines: observers only reset it to a constant, and it is "+dwhy
				}
			}
		}
		if ok {
			o.Detail = fmt.Sprintf("%s; %d site(s), e.g. via %s", why, len(g.sites), g.sites[0].Path)
		} else {
			o.Verdict = VIOL
			o.Detail = fmt.Sprintf("observing the IR can write shared memory %s (%d site(s)); first: %s via %s", g.target, len(g.sites), c.pos(g.sites[0].Pos), g.sites[0].Path)
		}
		obs = append(obs, o)
	}
	obs = append(obs, Obligation{Key: "analysed entry points", Verdict: OK, Detail: fmt.Sprintf("%d root methods, %d reachable functions of llir/llvm, llir/ll, mewmew/float", len(roots), nfn)})
	return obs
}

// raceDisciplined: a shared write reachable from printing that is not one of the named targets
// is still race-free when
//
//	(A) every store site writes a field of the same object, in the same basic block, as a store
//	    to that object's ID field — it then happens exactly when the ID store happens, and the ID
//	    store is held to lock + change guard by RACE-2 (wrappers are looked through there); or
//	(B) the field is lock-confined: every function reachable from a print root that reads or
//	    writes the field (or loads the whole struct by value) is reachable only through a function
//	    that holds a mutex for its whole body (Lock at entry, deferred Unlock).
//
// (B) approximates "the owner's mutex" by "a mutex of the numbering routine that leads here";
// which object a mutex protects is not decidable from the code.
func (c *Ctx) raceDisciplined(g *writeGroup, roots []*ssa.Function) (bool, string) {
	if g.kind != "field" {
		return false, ""
	}
	idFields := c.idFields()
	isIDFieldAddr := func(fa *ssa.FieldAddr) bool {
		st, _ := fa.X.Type().Underlying().(*types.Pointer).Elem().Underlying().(*types.Struct)
		return st != nil && idFields[st.Field(fa.Field)]
	}
	allA := true
	for _, site := range g.sites {
		st, ok := site.Instr.(*ssa.Store)
		if !ok {
			allA = false
			break
		}
		fa, ok := st.Addr.(*ssa.FieldAddr)
		if !ok {
			allA = false
			break
		}
		co := false
		for _, in := range st.Block().Instrs {
			if s2, ok := in.(*ssa.Store); ok && s2 != st {
				if fa2, ok := s2.Addr.(*ssa.FieldAddr); ok && fa2.X == fa.X && isIDFieldAddr(fa2) {
					co = true
				}
			}
		}
		if !co {
			allA = false
			break
		}
	}
	if allA {
		return true, fmt.Sprintf("stored together with the ID field of the same object at all %d site(s): happens exactly when the ID store happens, which RACE-2 holds to lock and change guard", len(g.sites))
	}
	// (B)
	e := c.effects()
	locked := map[*ssa.Function]bool{}
	c.eachFunc(pkgIR, func(p *packages.Package, fd *ast.FuncDecl, fn *types.Func) {
		if ok, _ := holdsReceiverMutex(p.TypesInfo, fd); ok {
			if sf := c.ssaFunc(fn); sf != nil {
				locked[sf] = true
			}
		}
	})
	if len(locked) == 0 {
		return false, ""
	}
	// functions reachable from the print roots without passing through a locked function
	cg := c.CallGraph()
	unprot := map[*ssa.Function]bool{}
	var queue []*ssa.Function
	for _, r := range roots {
		if !unprot[r] {
			unprot[r] = true
			queue = append(queue, r)
		}
	}
	for len(queue) > 0 {
		fn := queue[0]
		queue = queue[1:]
		if locked[fn] {
			continue // what it calls runs under its mutex
		}
		push := func(f *ssa.Function) {
			if f != nil && !unprot[f] && e.ours(f) {
				unprot[f] = true
				queue = append(queue, f)
			}
		}
		if node := cg.Nodes[fn]; node != nil {
			for _, ed := range node.Out {
				push(ed.Callee.Func)
			}
		}
		for _, anon := range fn.AnonFuncs {
			push(anon)
		}
	}
	owner := g.target[:strings.LastIndex(g.target, ".")]
	field := g.target[strings.LastIndex(g.target, ".")+1:]
	containsOwner := func(t types.Type) bool {
		var walk func(t types.Type, depth int) bool
		walk = func(t types.Type, depth int) bool {
			if depth > 4 {
				return false
			}
			if namedKey(t) == owner {
				return true
			}
			if st, ok := t.Underlying().(*types.Struct); ok {
				for i := 0; i < st.NumFields(); i++ {
					if walk(st.Field(i).Type(), depth+1) {
						return true
					}
				}
			}
			return false
		}
		return walk(t, 0)
	}
	for fn := range unprot {
		if locked[fn] {
			continue
		}
		for _, b := range fn.Blocks {
			for _, in := range b.Instrs {
				switch x := in.(type) {
				case *ssa.FieldAddr:
					pt := x.X.Type().Underlying().(*types.Pointer).Elem()
					if st, ok := pt.Underlying().(*types.Struct); ok && namedKey(pt) == owner && st.Field(x.Field).Name() == field {
						return false, ""
					}
				case *ssa.Field:
					if st, ok := x.X.Type().Underlying().(*types.Struct); ok && namedKey(x.X.Type()) == owner && st.Field(x.Field).Name() == field {
						return false, ""
					}
				case *ssa.UnOp:
					if x.Op == token.MUL {
						if _, isStruct := x.Type().Underlying().(*types.Struct); isStruct && containsOwner(x.Type()) {
							return false, ""
						}
					}
				}
			}
		}
	}
	return true, fmt.Sprintf("lock-confined: no function reachable from a print root outside the %d mutex-holding routines reads or writes this field or copies its struct", len(locked))
}

func ruleRACE1(c *Ctx) []Obligation {
	return printWriteObligations(c, "RACE-1", printRootNames, false)
}

func ruleOBS1(c *Ctx) []Obligation {
	// the successor caches of terminators were removed by the repair of F16 (/repo 3c2f5b7): an
	// observer that fills one again is reported
	return printWriteObligations(c, "OBS-1", observerRootNames, false)
}

func ruleDET2(c *Ctx) []Obligation {
	e := c.effects()
	roots := append(c.parseRoots(), c.methodRoots(irPkgs, printRootNames)...)
	effs, nfn := e.closure(roots)
	var obs []Obligation
	seen := map[string]bool{}
	for _, r := range effs {
		var what string
		switch {
		case r.Kind == "global":
			what = "package-level variable " + r.Target
		case r.ViaGlobal != "" && !r.Fresh:
			what = fmt.Sprintf("%s of the object held by package-level variable %s", r.Target, r.ViaGlobal)
		default:
			continue
		}
		k := what + " in " + shortFn(r.Fn)
		if seen[k] {
			continue
		}
		seen[k] = true
		obs = append(obs, Obligation{Key: "process-level write: " + k, Pos: c.pos(r.Pos), Verdict: VIOL, Tags: det2Tags(r.Fn),
			Detail: fmt.Sprintf("parsing/printing can write %s (via %s): state that outlives the call makes results depend on what ran before, and races with concurrent parses", what, r.Path)})
	}
	// process-level state kept behind the synchronisation primitives of the standard library
	// (sync.Pool, sync.Map, sync.Once, atomics on a package-level variable): the stores happen
	// inside the standard library, so they are recognised at the call
	order, parent := e.reach(roots)
	for _, fn := range order {
		for _, b := range fn.Blocks {
			for _, in := range b.Instrs {
				ci, ok := in.(ssa.CallInstruction)
				if !ok {
					continue
				}
				cc := ci.Common()
				callee := cc.StaticCallee()
				if callee == nil || callee.Pkg == nil {
					continue
				}
				cp := callee.Pkg.Pkg.Path()
				if cp != "sync" && cp != "sync/atomic" {
					continue
				}
				for _, a := range cc.Args {
					g := globalBehind(a)
					if g == nil || g.Pkg == nil || !c.isOurs(g.Pkg.Pkg.Path()) {
						continue
					}
					k := fmt.Sprintf("%s via %s.%s in %s", g.String(), cp, callee.Name(), shortFn(fn))
					if seen[k] {
						continue
					}
					seen[k] = true
					obs = append(obs, Obligation{Key: "process-level state: " + k, Pos: c.pos(in.Pos()), Verdict: VIOL, Tags: det2Tags(fn),
						Detail: fmt.Sprintf("parsing/printing uses the package-level variable %s through %s.%s (via %s): an object pool, cache or once-flag shared by all calls in the process lets one parse see what another left behind, and makes results depend on history and on concurrent parses", g.String(), cp, callee.Name(), pathTo(fn, parent))})
				}
			}
		}
	}
	obs = append(obs, Obligation{Key: "no process-level writes", Verdict: OK, Tags: []string{"lit", "enum"},
		Detail: fmt.Sprintf("%d entry points, %d reachable functions scanned for stores to globals / through globals", len(roots), nfn)})
	return obs
}

// det2Tags classifies the function in which process-level state is touched:
// "lit" — literal reading/printing (ir/constant, mewmew/float); "enum" — a
// function whose signature mentions an enum type of ir/enum or asm/enum, or a
// function of those packages.
func det2Tags(fn *ssa.Function) []string {
	var tags []string
	for f := fn; f != nil; f = f.Parent() {
		if f.Pkg == nil {
			continue
		}
		path := f.Pkg.Pkg.Path()
		if path == pkgCONS || strings.HasPrefix(path, pkgFLT) {
			tags = append(tags, "lit")
		}
		isEnum := path == pkgENUM || path == pkgAENM
		mentions := func(t types.Type) {
			if n := namedOf(t); n != nil && n.Obj().Pkg() != nil && (n.Obj().Pkg().Path() == pkgENUM || n.Obj().Pkg().Path() == pkgAENM) {
				isEnum = true
			}
		}
		if f.Signature != nil {
			for i := 0; i < f.Signature.Params().Len(); i++ {
				mentions(f.Signature.Params().At(i).Type())
			}
			for i := 0; i < f.Signature.Results().Len(); i++ {
				mentions(f.Signature.Results().At(i).Type())
			}
		}
		if isEnum {
			tags = append(tags, "enum")
		}
	}
	return tags
}

func init() {
	register(&Rule{
		Name:  "OPS-4",
		Doc:   "Operands() and Succs() are pure views: they write no shared memory (a cached successor list goes stale when a target is later replaced through an operand slot)",
		Floor: 70,
		NeedS: true,
		Run:   ruleOPS4,
	})
}

func ruleOPS4(c *Ctx) []Obligation {
	var obs []Obligation
	e := c.effects()
	roots := c.methodRoots([]string{pkgIR}, map[string]bool{"Operands": true, "Succs": true})
	for _, r := range roots {
		effs, _ := e.closure([]*ssa.Function{r})
		var shared []string
		seen := map[string]bool{}
		for _, ef := range effs {
			if ef.Fresh || seen[ef.Target] {
				continue
			}
			seen[ef.Target] = true
			shared = append(shared, ef.Kind+" "+ef.Target)
		}
		sort.Strings(shared)
		o := Obligation{Key: shortFn(r) + " is pure", Pos: c.pos(r.Pos()), Verdict: OK, Detail: "no shared write"}
		if len(shared) > 0 {
			o.Verdict = VIOL
			o.Detail = fmt.Sprintf("writes %s: the view is cached, so after a target is replaced through an operand slot (or the field is reassigned) the method keeps returning the old blocks", strings.Join(shared, ", "))
		}
		obs = append(obs, o)
	}
	return obs
}

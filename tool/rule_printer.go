package main

import (
	"fmt"
	"go/ast"
	"go/constant"
	"go/token"
	"go/types"
	"regexp"
	"sort"
	"strings"
)

// Engine A (part 2) — printers: FLD-P, ORD, OPC.

func init() {
	register(&Rule{
		Name:  "FLD-P",
		Doc:   "every exported field of every IR struct type that has a printer (LLString / Ident / String / WriteTo) is read on some path of that type's printers, following same-receiver calls and helpers that receive the value; a field the printer never reads is information the output cannot contain",
		Floor: 700,
		Run:   ruleFLDP,
	})
	register(&Rule{
		Name:  "ORD",
		Doc:   "the order in which a printer first references the fields that correspond to grammar accessors of the matching llir/ll AST node equals the grammar's production order (the generated accessor order), so operands and clauses are printed where the grammar expects them",
		Floor: 90,
		Run:   ruleORD,
	})
	register(&Rule{
		Name:  "OPC",
		Doc:   "the first keyword an instruction, terminator or constant-expression printer writes is the opcode named by its type (lower-case X of InstX/TermX/ExprX; frozen exceptions va_arg, br)",
		Floor: 90,
		Run:   ruleOPC,
	})
}

var printerPkgs = []string{pkgIR, pkgCONS, pkgMD, pkgTYP}

type printedType struct {
	n     *types.Named
	st    *types.Struct
	roots []*types.Func
}

// printedTypes lists the struct types with printer methods declared on them.
func (c *Ctx) printedTypes() []*printedType {
	if v, ok := c.memo["printedTypes"]; ok {
		return v.([]*printedType)
	}
	var out []*printedType
	for _, path := range printerPkgs {
		p := c.pkg(path)
		scope := p.Types.Scope()
		for _, name := range scope.Names() {
			tn, ok := scope.Lookup(name).(*types.TypeName)
			if !ok || !tn.Exported() {
				continue
			}
			n, ok := tn.Type().(*types.Named)
			if !ok {
				continue
			}
			st, ok := n.Underlying().(*types.Struct)
			if !ok {
				continue
			}
			pt := &printedType{n: n, st: st}
			ll := declaredMethodOf(n, "LLString")
			wt := declaredMethodOf(n, "WriteTo")
			switch {
			case wt != nil:
				pt.roots = []*types.Func{wt}
			case ll != nil && path != pkgTYP:
				pt.roots = []*types.Func{ll}
				// Ident prints the name / ID a definition is introduced with
				if id := declaredMethodOf(n, "Ident"); id != nil {
					pt.roots = append(pt.roots, id)
				}
				// String/Ident of IR values print "type ident"; they are additional roots only
				// for the fields LLString does not own (handled in ruleFLDP).
			default:
				for _, m := range []string{"LLString", "Ident", "String"} {
					if f := declaredMethodOf(n, m); f != nil {
						pt.roots = append(pt.roots, f)
					}
				}
			}
			if len(pt.roots) > 0 {
				out = append(out, pt)
			}
		}
	}
	c.memo["printedTypes"] = out
	return out
}

// fldpExempt: frozen exemptions of FLD-P by "pkg.Type.Field" (or "*.Field").
var fldpExempt = map[string]string{
	"*.Parent":      "back link to the containing function/module; containment is printed by the parent",
	"*.Successors":  "derived cache of the terminator's targets, never syntax",
	"ir.Func.Typ":   "pointer-to-signature type derived from Sig and AddrSpace, both printed",
	"ir.Global.Typ": "pointer type derived from ContentType and AddrSpace, both printed",
	"ir.Alias.Typ":  "pointer type derived from the aliasee, printed through ContentType",
	"ir.IFunc.Typ":  "pointer type derived from the resolver, printed through ContentType",
}

// lazilyComputed reports whether T.Type() assigns the Typ cache from other
// fields (then Typ is derived and need not be printed itself).
func (c *Ctx) lazilyComputed(n *types.Named, field string) bool {
	tm := declaredMethodOf(n, "Type")
	if tm == nil {
		return false
	}
	for _, e := range c.subjectFields(tm, -1) {
		if e.Field == field && e.Write && e.Direct {
			return true
		}
	}
	return false
}

func irTags(n *types.Named) []string {
	var tags []string
	path := n.Obj().Pkg().Path()
	name := n.Obj().Name()
	if path == pkgMD {
		tags = append(tags, "md")
	}
	if strings.Contains(name, "GetElementPtr") {
		tags = append(tags, "gep")
	}
	if path == pkgTYP {
		tags = append(tags, "types")
	}
	return tags
}

func ruleFLDP(c *Ctx) []Obligation {
	var obs []Obligation
	for _, pt := range c.printedTypes() {
		read := map[string]string{}
		for _, r := range pt.roots {
			for _, e := range c.subjectFields(r, -1) {
				if e.Write && e.Direct || e.Panic {
					continue
				}
				if _, ok := read[e.Field]; !ok {
					where := r.Name()
					if e.Via != "" {
						where += " via " + e.Via
					}
					read[e.Field] = where
				}
			}
		}
		tkey := typeKey(pt.n)
		for i := 0; i < pt.st.NumFields(); i++ {
			f := pt.st.Field(i)
			if !f.Exported() {
				continue
			}
			o := Obligation{Key: tkey + "." + f.Name(), Pos: c.pos(f.Pos()), Tags: irTags(pt.n)}
			switch {
			case read[f.Name()] != "":
				o.Verdict, o.Detail = OK, "read in "+read[f.Name()]
			case fldpExempt[tkey+"."+f.Name()] != "":
				o.Verdict, o.Detail = EXEMPT, fldpExempt[tkey+"."+f.Name()]
			case fldpExempt["*."+f.Name()] != "":
				o.Verdict, o.Detail = EXEMPT, fldpExempt["*."+f.Name()]
			case f.Name() == "Typ" && c.lazilyComputed(pt.n, "Typ"):
				o.Verdict, o.Detail = EXEMPT, "result-type cache that Type() computes from the operands, which are printed"
			default:
				var rs []string
				for _, r := range pt.roots {
					rs = append(rs, r.Name())
				}
				o.Verdict = VIOL
				o.Detail = fmt.Sprintf("field is never read by the printer of %s (%s and what it calls on the same value): whatever it holds cannot appear in the output", tkey, strings.Join(rs, "/"))
			}
			obs = append(obs, o)
		}
	}
	return obs
}

// ---------------------------------------------------------------------------

// astCounterpart maps an IR type to the AST node type with the same grammar production.
func (c *Ctx) astCounterpart(n *types.Named) *types.Named {
	name := n.Obj().Name()
	path := n.Obj().Pkg().Path()
	var want string
	switch {
	case path == pkgIR && strings.HasPrefix(name, "Inst"):
		want = strings.TrimPrefix(name, "Inst") + "Inst"
	case path == pkgIR && strings.HasPrefix(name, "Term"):
		want = strings.TrimPrefix(name, "Term") + "Term"
	case path == pkgCONS && strings.HasPrefix(name, "Expr"):
		want = strings.TrimPrefix(name, "Expr") + "Expr"
	case path == pkgIR && name == "Global":
		want = "GlobalDecl"
	case path == pkgIR && (name == "Alias" || name == "IFunc"):
		want = "IndirectSymbolDef"
	case path == pkgIR && name == "Func":
		want = "FuncHeader"
	case path == pkgMD && (strings.HasPrefix(name, "DI") || name == "GenericDINode"):
		want = name
	default:
		return nil
	}
	tn := c.lookupType(pkgAST, want)
	if tn == nil {
		return nil
	}
	nn, _ := tn.Type().(*types.Named)
	return nn
}

// accessorOrder returns the syntax accessors of an AST node type in
// declaration (= grammar production) order.
func (c *Ctx) accessorOrder(k *types.Named) []string {
	type m struct {
		name string
		pos  token.Pos
	}
	var ms []m
	for i := 0; i < k.NumMethods(); i++ {
		f := k.Method(i)
		sig := f.Type().(*types.Signature)
		if !f.Exported() || accInfra[f.Name()] || sig.Params().Len() != 0 || sig.Results().Len() == 0 {
			continue
		}
		ms = append(ms, m{f.Name(), f.Pos()})
	}
	sort.Slice(ms, func(i, j int) bool { return ms[i].pos < ms[j].pos })
	var out []string
	for _, x := range ms {
		out = append(out, x.name)
	}
	return out
}

// fieldAccessorAlias: IR field name -> AST accessor name, where they differ
// (shared with FLOW). Keyed "IRType.Field" or "*.Field".
var fieldAccessorAlias = map[string]string{
	"*.ElemType":            "ElemType",
	"*.Typ":                 "Typ",
	"*.TargetDefault":       "Default",
	"*.InAlloca":            "InAllocatok",
	"*.TLSModel":            "ThreadLocal",
	"ir.Alias.Aliasee":      "IndirectSymbol",
	"ir.IFunc.Resolver":     "IndirectSymbol",
	"ir.Func.GlobalIdent":   "Name",
	"ir.Global.GlobalIdent": "Name",
	"ir.Alias.GlobalIdent":  "Name",
	"ir.IFunc.GlobalIdent":  "Name",
	"ir.Func.Sig":           "RetType",
}

func accessorFor(tkey, field string, accs map[string]int) (string, bool) {
	if a, ok := fieldAccessorAlias[tkey+"."+field]; ok {
		_, has := accs[a]
		return a, has
	}
	if _, ok := accs[field]; ok {
		return field, true
	}
	if a, ok := fieldAccessorAlias["*."+field]; ok {
		_, has := accs[a]
		return a, has
	}
	return "", false
}

// derivedHelpers: same-receiver methods that compute derived information and
// are not part of the output order (their reads are ignored by ORD).
var derivedHelpers = map[string]bool{"Type": true, "Sig": true, "Operands": true, "Succs": true, "AssignIDs": true}

func ruleORD(c *Ctx) []Obligation {
	var obs []Obligation
	for _, pt := range c.printedTypes() {
		k := c.astCounterpart(pt.n)
		if k == nil || pt.n.Obj().Pkg().Path() == pkgMD {
			continue // debug-info nodes print `name: value` fields, which LLVM reads in any order
		}
		accs := map[string]int{}
		order := c.accessorOrder(k)
		for i, a := range order {
			accs[a] = i
		}
		tkey := typeKey(pt.n)
		root := pt.roots[0]
		if pt.n.Obj().Pkg().Path() == pkgCONS {
			if f := declaredMethodOf(pt.n, "Ident"); f != nil {
				root = f
			}
		}
		type ref struct {
			field, acc string
			idx        int
			pos        token.Pos
		}
		var seq []ref
		seen := map[string]bool{}
		for _, e := range c.subjectFields(root, -1) {
			if e.Panic {
				continue // diagnostics, not output
			}
			if e.NilTest {
				continue // a presence test (`g.Init == nil` choosing the declaration form), not output
			}
			if !e.Direct {
				// indirect: ignore reads made by derived-information helpers
				via := e.Via
				if i := strings.LastIndex(via, "."); i >= 0 && derivedHelpers[via[i+1:]] {
					continue
				}
				if e.Derived {
					continue // … at any depth (a section helper that starts with inst.Type())
				}
			}
			if seen[e.Field] {
				continue
			}
			a, ok := accessorFor(tkey, e.Field, accs)
			if !ok {
				continue
			}
			seen[e.Field] = true
			seq = append(seq, ref{e.Field, a, accs[a], e.Pos})
		}
		sort.SliceStable(seq, func(i, j int) bool { return seq[i].pos < seq[j].pos })
		o := Obligation{Key: tkey + " print order", Pos: c.pos(c.funcDecl(root).Pos()), Verdict: OK, Tags: irTags(pt.n)}
		var names []string
		for _, r := range seq {
			names = append(names, r.field)
		}
		o.Detail = fmt.Sprintf("%s ⊑ grammar order of ast.%s", strings.Join(names, ", "), k.Obj().Name())
		for i := 1; i < len(seq); i++ {
			if seq[i].idx < seq[i-1].idx {
				o.Verdict = VIOL
				o.Pos = c.pos(seq[i].pos)
				o.Detail = fmt.Sprintf("%s is printed after %s, but the grammar production of ast.%s has %s before %s (accessor order: %s)",
					seq[i].field, seq[i-1].field, k.Obj().Name(), seq[i].acc, seq[i-1].acc, strings.Join(order, ", "))
				break
			}
		}
		if len(seq) < 1 {
			o.Verdict, o.Detail = UNDECIDED, "no field of the printer matches a grammar accessor of ast."+k.Obj().Name()
		}
		obs = append(obs, o)
	}
	obs = append(obs, c.ordFuncProductions()...)
	return obs
}

// ordFuncProductions checks the two productions the function printer chooses between:
//
//	'declare' Metadata* Header          (ast.FuncDecl: Metadata, Header)
//	'define'  Header Metadata* Body     (ast.FuncDef:  Header, Metadata, Body)
//
// Each branch of the top-level if/else of (*ir.Func).LLString is classified by the keyword
// literal it writes; within a branch (preceded by the statements before the if) the groups
// H (header fields and the header helper), M (Metadata) and B (Blocks via the body helper)
// must appear in the order of the corresponding AST node's accessors.
func (c *Ctx) ordFuncProductions() []Obligation {
	var obs []Obligation
	fn := c.lookupFunc(pkgIR, "Func.LLString")
	fd := c.funcDecl(fn)
	if fd == nil {
		return []Obligation{{Key: "ir.Func productions", Verdict: UNDECIDED, Detail: "(*ir.Func).LLString not found"}}
	}
	fd, fn = c.printerDecl(fn)
	info := c.pkg(pkgIR).TypesInfo
	events := c.subjectFields(fn, -1)
	// a helper that receives the function is the body printer if it reads Blocks, otherwise it prints header parts
	viaReadsBlocks := map[string]bool{}
	for _, e := range events {
		if !e.Direct && e.Field == "Blocks" {
			viaReadsBlocks[e.Via] = true
		}
	}
	group := func(e fieldEvent) string {
		if e.Panic {
			return ""
		}
		if !e.Direct {
			if i := strings.LastIndex(e.Via, "."); i >= 0 && derivedHelpers[e.Via[i+1:]] {
				return ""
			}
			if viaReadsBlocks[e.Via] {
				return "B"
			}
			// a helper that prints the header and then the attachments (or the reverse) contributes
			// both parts, in the order it reads them
			if e.Field == "Metadata" {
				return "M"
			}
			return "H"
		}
		switch e.Field {
		case "Metadata":
			return "M"
		case "Blocks":
			return "" // the test that chooses the production
		}
		return "H"
	}
	// enumerate the paths through the printer: every if is taken both ways, consistently per condition
	type path struct {
		skip  [][2]token.Pos
		taken map[string]bool
	}
	condKey := func(e ast.Expr) (string, bool) {
		k := strings.ReplaceAll(exprString(e), " ", "")
		if strings.HasPrefix(k, "!") {
			return k[1:], false
		}
		return k, true
	}
	// local boolean variables defined from a condition stand for that condition
	alias := map[string]string{}
	ast.Inspect(fd.Body, func(n ast.Node) bool {
		if as, ok := n.(*ast.AssignStmt); ok && len(as.Lhs) == 1 && len(as.Rhs) == 1 && as.Tok == token.DEFINE {
			if b, ok := info.TypeOf(as.Rhs[0]).Underlying().(*types.Basic); ok && b.Kind() == types.Bool {
				k, _ := condKey(as.Rhs[0])
				alias[exprString(as.Lhs[0])] = k
			}
		}
		return true
	})
	var walk func(list []ast.Stmt, p path) []path
	walk = func(list []ast.Stmt, p path) []path {
		for i, st := range list {
			is, ok := st.(*ast.IfStmt)
			if !ok {
				if _, isRet := st.(*ast.ReturnStmt); isRet {
					// everything after the return in the function is skipped
					q := p
					q.skip = append(append([][2]token.Pos{}, p.skip...), [2]token.Pos{st.End(), fd.Body.End()})
					return []path{q}
				}
				continue
			}
			key, pos := condKey(is.Cond)
			if a, ok := alias[key]; ok {
				key = a
			}
			var outs []path
			for _, takeThen := range []bool{true, false} {
				truth := takeThen == pos // value of `key`
				if v, fixed := p.taken[key]; fixed && v != truth {
					continue
				}
				q := path{skip: append([][2]token.Pos{}, p.skip...), taken: map[string]bool{}}
				for k, v := range p.taken {
					q.taken[k] = v
				}
				q.taken[key] = truth
				var branch []ast.Stmt
				if takeThen {
					branch = is.Body.List
					if is.Else != nil {
						q.skip = append(q.skip, [2]token.Pos{is.Else.Pos(), is.Else.End()})
					}
				} else {
					q.skip = append(q.skip, [2]token.Pos{is.Body.Pos(), is.Body.End()})
					if eb, ok := is.Else.(*ast.BlockStmt); ok {
						branch = eb.List
					}
				}
				for _, r := range walk(branch, q) {
					// did the branch return?
					returned := false
					for _, sk := range r.skip {
						if sk[1] == fd.Body.End() && sk[0] >= is.Pos() && sk[0] <= is.End() {
							returned = true
						}
					}
					if returned {
						outs = append(outs, r)
					} else {
						outs = append(outs, walk(list[i+1:], r)...)
					}
				}
			}
			return outs
		}
		return []path{p}
	}
	paths := walk(fd.Body.List, path{taken: map[string]bool{}})
	want := map[string]string{"declare": "MH", "define": "HMB"}
	node := map[string]string{"declare": "ast.FuncDecl (Metadata, Header)", "define": "ast.FuncDef (Header, Metadata, Body)"}
	result := map[string]map[string]token.Pos{} // keyword -> observed order -> position
	for _, p := range paths {
		skipped := func(pos token.Pos) bool {
			for _, sk := range p.skip {
				if sk[0] <= pos && pos < sk[1] {
					return true
				}
			}
			return false
		}
		kw := ""
		ast.Inspect(fd.Body, func(n ast.Node) bool {
			if lit, ok := n.(*ast.BasicLit); ok && kw == "" && lit.Kind == token.STRING && !skipped(lit.Pos()) {
				if tv := info.Types[lit]; tv.Value != nil {
					if w := wordRE.FindString(constant.StringVal(tv.Value)); w == "declare" || w == "define" {
						kw = w
					}
				}
			}
			return true
		})
		if kw == "" {
			continue
		}
		evs := append([]fieldEvent{}, events...)
		sort.SliceStable(evs, func(i, j int) bool { return evs[i].Pos < evs[j].Pos })
		var seq []byte
		var first token.Pos
		for _, e := range evs {
			if skipped(e.Pos) {
				continue
			}
			g := group(e)
			if g == "" {
				continue
			}
			if first == 0 {
				first = e.Pos
			}
			if len(seq) == 0 || seq[len(seq)-1] != g[0] {
				seq = append(seq, g[0])
			}
		}
		if result[kw] == nil {
			result[kw] = map[string]token.Pos{}
		}
		result[kw][string(seq)] = first
	}
	for _, kw := range []string{"declare", "define"} {
		o := Obligation{Key: "ir.Func print order of production `" + kw + "`", Pos: c.pos(fd.Pos()), Verdict: OK}
		got := result[kw]
		if len(got) == 0 {
			o.Verdict, o.Detail = UNDECIDED, "no path of the printer writes `"+kw+"`"
			obs = append(obs, o)
			continue
		}
		// optional parts may be absent on a path: every observed order must be a subsequence of the grammar order
		for order, pos := range got {
			if !isSubsequence(order, want[kw]) {
				o.Verdict = VIOL
				o.Pos = c.pos(pos)
				o.Detail = fmt.Sprintf("on a path that prints `%s` the parts appear in the order %s (H header, M metadata attachments, B body) but the grammar production %s requires %s: the text is not valid assembly when both parts are present", kw, order, node[kw], want[kw])
			}
		}
		if o.Verdict == OK {
			o.Detail = fmt.Sprintf("%d path(s), all ⊑ %s as in %s", len(paths), want[kw], node[kw])
		}
		obs = append(obs, o)
	}
	return obs
}

func isSubsequence(a, b string) bool {
	j := 0
	for i := 0; i < len(b) && j < len(a); i++ {
		if a[j] == b[i] {
			j++
		}
	}
	return j == len(a)
}

// ---------------------------------------------------------------------------

var opcException = map[string]string{"VAArg": "va_arg", "CondBr": "br"}

var wordRE = regexp.MustCompile(`[a-z_][a-z_0-9]*`)

// firstKeywordInHelpers: the first keyword literal printed by the helpers of the module that fd
// calls (in source order), for printers whose own body holds no keyword.
func (c *Ctx) firstKeywordInHelpers(fd *ast.FuncDecl, depth int) (string, token.Pos) {
	if fd == nil || fd.Body == nil || depth > 2 {
		return "", token.NoPos
	}
	info := c.declPkg[fd].TypesInfo
	got, gotPos := "", token.NoPos
	ast.Inspect(fd.Body, func(n ast.Node) bool {
		if got != "" {
			return false
		}
		call, ok := n.(*ast.CallExpr)
		if !ok {
			return true
		}
		callee := calleeOf(info, call)
		if callee == nil || callee.Pkg() == nil || !c.isLLVM(callee.Pkg().Path()) || derivedHelpers[callee.Name()] {
			return true
		}
		switch callee.Name() {
		case "Ident", "String", "LLString", "Name", "ID":
			return true
		}
		hfd := c.funcDecl(callee)
		if hfd == nil || hfd.Body == nil || hfd == fd {
			return true
		}
		hi := c.declPkg[hfd].TypesInfo
		ast.Inspect(hfd.Body, func(m ast.Node) bool {
			if got != "" {
				return false
			}
			if lit, ok := m.(*ast.BasicLit); ok && lit.Kind == token.STRING {
				if tv := hi.Types[lit]; tv.Value != nil {
					s := regexp.MustCompile(`%[-+# 0-9.]*[a-zA-Z]`).ReplaceAllString(constant.StringVal(tv.Value), " ")
					if w := wordRE.FindString(s); w != "" {
						got, gotPos = w, lit.Pos()
					}
				}
			}
			return true
		})
		if got == "" {
			got, gotPos = c.firstKeywordInHelpers(hfd, depth+1)
		}
		return true
	})
	return got, gotPos
}

func ruleOPC(c *Ctx) []Obligation {
	var obs []Obligation
	for _, pt := range c.printedTypes() {
		name := pt.n.Obj().Name()
		path := pt.n.Obj().Pkg().Path()
		var x string
		var root *types.Func
		switch {
		case path == pkgIR && strings.HasPrefix(name, "Inst"):
			x, root = strings.TrimPrefix(name, "Inst"), declaredMethodOf(pt.n, "LLString")
		case path == pkgIR && strings.HasPrefix(name, "Term"):
			x, root = strings.TrimPrefix(name, "Term"), declaredMethodOf(pt.n, "LLString")
		case path == pkgCONS && strings.HasPrefix(name, "Expr"):
			x, root = strings.TrimPrefix(name, "Expr"), declaredMethodOf(pt.n, "Ident")
		default:
			continue
		}
		if root == nil || x == "" {
			continue
		}
		want := strings.ToLower(x)
		if e, ok := opcException[x]; ok {
			want = e
		}
		fd := c.funcDecl(root)
		info := c.declPkg[fd].TypesInfo
		got := ""
		var gotPos token.Pos
		ast.Inspect(fd.Body, func(n ast.Node) bool {
			if got != "" {
				return false
			}
			lit, ok := n.(*ast.BasicLit)
			if !ok || lit.Kind != token.STRING {
				return true
			}
			tv := info.Types[lit]
			if tv.Value == nil {
				return true
			}
			s := constant.StringVal(tv.Value)
			// drop fmt verbs
			s = regexp.MustCompile(`%[-+# 0-9.]*[a-zA-Z]`).ReplaceAllString(s, " ")
			if w := wordRE.FindString(s); w != "" {
				got, gotPos = w, lit.Pos()
			}
			return true
		})
		if got == "" {
			// the printer is split into section helpers / delegates to a helper: the first keyword
			// the helpers print, in call order
			got, gotPos = c.firstKeywordInHelpers(fd, 0)
		}
		o := Obligation{Key: typeKey(pt.n) + " opcode", Pos: c.pos(gotPos), Verdict: OK, Detail: fmt.Sprintf("%q", got), Tags: irTags(pt.n)}
		if got == "" {
			o.Verdict, o.Detail, o.Pos = UNDECIDED, "no keyword literal found in "+root.Name(), c.pos(fd.Pos())
		} else if got != want {
			o.Verdict = VIOL
			o.Detail = fmt.Sprintf("first keyword printed is %q, expected the opcode %q of %s", got, want, name)
		}
		obs = append(obs, o)
	}
	return obs
}

package main

import (
	"fmt"
	"go/ast"
	"go/constant"
	"go/token"
	"go/types"
	"math/bits"
	"strings"

	"golang.org/x/tools/go/packages"
)

// Rules added after seeded batch 10 ("small everyday commits"): SENTINEL, FP-DEC-EXACT, RANGE-COPY,
// ENC-ESC-PAIR, NAT-SORTED, CACHE-GUARD, SUCC-NIL, MAKE-APPEND, MASK-TEST, COND-STORE.

func init() {
	register(&Rule{
		Name: "SENTINEL",
		Doc:  "an optional integer field is absent at −1 only: for every integer field of an IR struct into which package asm stores the constant −1 for an absent operand, every comparison of that field with −1 or 0 in the IR packages tells −1 from 0 (== −1, != −1, < 0, >= 0) — `<= 0` treats the valid value 0 (`allocsize(1, 0)`) like the absent one and drops it from the output. One obligation per comparison",
		Run:  ruleSENTINEL,
	})
	register(&Rule{
		Name: "FP-DEC-EXACT",
		Doc:  "the decimal spelling of a floating-point constant is the shortest text that denotes it exactly: in the printer's function set (Float.Ident and what it calls) a big.Float is turned into decimal text only by Text / Append with precision −1; String() (ten significant digits) or a fixed precision prints another number",
		Run:  ruleFPDECEXACT,
	})
	register(&Rule{
		Name: "RANGE-COPY",
		Doc:  "no result is written into a copy that is then dropped: in the IR packages, internal/gep and asm, an assignment to a field of the value variable of a `for … range` loop over a slice or array of structs is followed, inside the loop body, by a use of that variable as a whole (appended, stored, passed, returned) — otherwise the loop updates a copy and the element keeps its old value (the vector length recorded per gep index never reaches the walk). One summary obligation, one violation per lost write",
		Run:  ruleRANGECOPY,
	})
	register(&Rule{
		Name:  "ENC-ESC-PAIR",
		Doc:   "a name class that is written escaped but unquoted is read back unescaped unconditionally: for every encoder of internal/enc that hands the name to the escape engine directly (no quotes around the result), the decoder of that token class in package asm calls enc.Unescape on every path — a helper that unescapes only quoted text leaves `!a\\20b` as it is spelled",
		Floor: 1,
		Run:   ruleENCESCPAIR,
	})
	register(&Rule{
		Name:  "NAT-SORTED",
		Doc:   "package natsort orders by its own comparator only: every call into package sort from internal/natsort is sort.Sort / Stable / Slice / SliceStable / IsSorted / SliceIsSorted driven by the package's Less; sort.Strings, sort.StringsAreSorted and sort.SearchStrings compare bytewise, so a fast path built on them leaves `t10` before `t2` whenever the map order happens to be bytewise ascending",
		Floor: 1,
		Run:   ruleNATSORTED,
	})
	register(&Rule{
		Name:  "CACHE-GUARD",
		Doc:   "a lazily cached result type is written only while it is absent: every store to a Typ field inside a Type() method of ir and ir/constant lies under a condition that is exactly `x.Typ == nil` — the constructors compute the type, so the store never runs on a constructed or parsed value and Type() stays a pure query (CTOR-2, RACE-3); a widened condition (`|| x.Typ.Len < …`) makes printing write to the IR",
		Floor: 20,
		Run:   ruleCACHEGUARD,
	})
	register(&Rule{
		Name:  "SUCC-NIL",
		Doc:   "a successor list has no empty slot: in every Succs method of package ir, a result slice created with a non-zero length is filled by unconditional indexed stores only — a slot stored under a condition (an optional unwind target) stays nil when the condition fails, and the list then names a block that is not in the function",
		Floor: 5,
		Run:   ruleSUCCNIL,
	})
	register(&Rule{
		Name: "MAKE-APPEND",
		Doc:  "a slice is not both pre-filled and appended to: in the module, a variable created by `make([]T, n)` with a length (two-argument form, n not the constant 0) is not later grown by `x = append(x, …)` unless elements are also stored by index — otherwise the result starts with n zero values (for overflow flags the zero value is nsw). One summary obligation, one violation per variable",
		Run:  ruleMAKEAPPEND,
	})
	register(&Rule{
		Name: "MASK-TEST",
		Doc:  "a flag-set printer that writes the keyword of a multi-bit member has tested all its bits: in ir/metadata and ir, a condition `set & M != 0` (or > 0) with M a constant of more than one bit whose keyword the guarded statements write is a violation — one of the bits alone then prints the composite member (DIFlagSingleInheritance as DIFlagVirtualInheritance); the test must be `set & M == M`",
		Run:  ruleMASKTEST,
	})
	register(&Rule{
		Name: "COND-STORE",
		Doc:  "what one syntax accessor says is not stored under a condition on another: in the type translators of package asm, a store of the result of an AST accessor into a field of the IR type being built does not lie inside an `if` whose condition is about a different accessor of the same node (the variadic ellipsis of a function type stored only when the parameter list is non-empty)",
		Run:  ruleCONDSTORE,
	})
}

// ---------------------------------------------------------------------------
// SENTINEL

func ruleSENTINEL(c *Ctx) []Obligation {
	var obs []Obligation
	// fields of IR structs into which asm stores the constant -1
	sentinel := map[types.Object]string{}
	isMinusOne := func(info *types.Info, e ast.Expr) bool {
		tv := info.Types[e]
		return tv.Value != nil && tv.Value.Kind() == constant.Int && tv.Value.ExactString() == "-1"
	}
	c.eachFunc(pkgASM, func(p *packages.Package, fd *ast.FuncDecl, fn *types.Func) {
		info := p.TypesInfo
		ast.Inspect(fd.Body, func(n ast.Node) bool {
			switch x := n.(type) {
			case *ast.KeyValueExpr:
				if id, ok := x.Key.(*ast.Ident); ok && isMinusOne(info, x.Value) {
					if f, ok := info.ObjectOf(id).(*types.Var); ok && f.IsField() && f.Pkg() != nil && c.isLLVM(f.Pkg().Path()) && f.Pkg().Path() != pkgASM {
						sentinel[f] = c.pos(x.Pos())
					}
				}
			case *ast.AssignStmt:
				for i, l := range x.Lhs {
					if i < len(x.Rhs) && isMinusOne(info, x.Rhs[i]) {
						if se, ok := unparen(l).(*ast.SelectorExpr); ok {
							if sel, ok := info.Selections[se]; ok && sel.Kind() == types.FieldVal && sel.Obj().Pkg() != nil && c.isLLVM(sel.Obj().Pkg().Path()) && sel.Obj().Pkg().Path() != pkgASM {
								sentinel[sel.Obj()] = c.pos(x.Pos())
							}
						}
					}
				}
			}
			return true
		})
	})
	for _, path := range []string{pkgIR, pkgMD, pkgCONS, pkgTYP} {
		c.eachFunc(path, func(p *packages.Package, fd *ast.FuncDecl, fn *types.Func) {
			info := p.TypesInfo
			n := 0
			ast.Inspect(fd.Body, func(nd ast.Node) bool {
				be, ok := nd.(*ast.BinaryExpr)
				if !ok {
					return true
				}
				switch be.Op {
				case token.EQL, token.NEQ, token.LSS, token.LEQ, token.GTR, token.GEQ:
				default:
					return true
				}
				fieldSide, constSide := be.X, be.Y
				op := be.Op
				if info.Types[be.X].Value != nil {
					fieldSide, constSide = be.Y, be.X
					switch op { // mirror
					case token.LSS:
						op = token.GTR
					case token.LEQ:
						op = token.GEQ
					case token.GTR:
						op = token.LSS
					case token.GEQ:
						op = token.LEQ
					}
				}
				se, ok := unparen(fieldSide).(*ast.SelectorExpr)
				if !ok {
					return true
				}
				sel, ok := info.Selections[se]
				if !ok || sel.Kind() != types.FieldVal {
					return true
				}
				where, isSent := sentinel[sel.Obj()]
				if !isSent {
					return true
				}
				kv := info.Types[constSide].Value
				if kv == nil || kv.Kind() != constant.Int {
					return true
				}
				k, _ := constant.Int64Val(kv)
				ordering := op != token.EQL && op != token.NEQ
				if !ordering && k != 0 && k != -1 {
					return true // a test for one particular value
				}
				eval := func(v int64) bool {
					switch op {
					case token.EQL:
						return v == k
					case token.NEQ:
						return v != k
					case token.LSS:
						return v < k
					case token.LEQ:
						return v <= k
					case token.GTR:
						return v > k
					default:
						return v >= k
					}
				}
				n++
				o := Obligation{Key: fmt.Sprintf("%s: %s tells the absent value -1 from 0 #%d", funcKey(fn), exprString(be), n), Pos: c.pos(be.Pos()), Verdict: OK,
					Detail: "the translator stores -1 for an absent operand (" + where + ")"}
				if ordering && eval(-1) == eval(0) && eval(0) == eval(1) {
					return true // a threshold elsewhere: not a test for absence
				}
				if eval(-1) == eval(0) {
					o.Verdict = VIOL
					o.Detail = fmt.Sprintf("`%s` gives the same answer for -1 (absent: the translator stores -1 at %s) and for 0, which is a value of its own: an operand whose value is 0 is treated as absent and disappears from the printed text", exprString(be), where)
				}
				obs = append(obs, o)
				return true
			})
		})
	}
	obs = append(obs, Obligation{Key: "integer fields with the absent value -1", Verdict: OK, Detail: fmt.Sprintf("%d field(s) into which package asm stores -1", len(sentinel))})
	return obs
}

// ---------------------------------------------------------------------------
// FP-DEC-EXACT

func ruleFPDECEXACT(c *Ctx) []Obligation {
	var obs []Obligation
	identFn := c.lookupFunc(pkgCONS, "Float.Ident")
	if c.funcDecl(identFn) == nil {
		return []Obligation{{Key: "anchors", Verdict: UNDECIDED, Detail: "constant.(*Float).Ident not found"}}
	}
	info := c.pkg(pkgCONS).TypesInfo
	PF := c.constFuncSet(identFn)
	calls := 0
	for _, fd := range PF {
		fn, _ := info.Defs[fd.Name].(*types.Func)
		if fn == nil || fd.Body == nil {
			continue
		}
		n := 0
		ast.Inspect(fd.Body, func(nd ast.Node) bool {
			call, ok := nd.(*ast.CallExpr)
			if !ok {
				return true
			}
			f := calleeOf(info, call)
			if f == nil || f.Pkg() == nil || f.Pkg().Path() != "math/big" {
				return true
			}
			rt := f.Type().(*types.Signature).Recv()
			if rt == nil || !isNamedPtr(rt.Type(), "math/big", "Float") {
				return true
			}
			bad := ""
			switch f.Name() {
			case "String":
				bad = "String() rounds to ten significant digits"
			case "Text", "Append":
				pi := len(call.Args) - 1
				calls++
				if tv := info.Types[call.Args[pi]]; tv.Value == nil || tv.Value.ExactString() != "-1" {
					bad = "the precision argument is not -1 (the shortest text that denotes the value exactly)"
				} else if se, ok := unparen(call.Fun).(*ast.SelectorExpr); ok {
					// "shortest" is relative to the precision of the receiver: LLVM reads a decimal literal as
					// a double, so the text must be the shortest one for the value at 53 bits — produced from a
					// copy set to that precision, not from the constant's X at the precision of its kind
					if !at53(info, fd, se.X) {
						bad = "the text is the shortest that identifies the value among numbers of the receiver's own precision (" + exprString(se.X) + " has the precision of its kind: 11 or 24 bits for half and float), not among doubles, which is how LLVM reads a decimal literal: float 33554432.0 is spelled 3.355443e+07, which LLVM rejects as not representable in the type; format a copy set to 53 bits"
					}
				}
			default:
				return true
			}
			if bad == "" {
				return true
			}
			n++
			obs = append(obs, Obligation{Key: fmt.Sprintf("%s spells a big.Float in decimal through %s #%d", funcKey(fn), f.Name(), n), Pos: c.pos(call.Pos()), Verdict: VIOL,
				Detail: bad + ": a constant with more significant digits prints as another number (1099511627776.0 as 1.099511628e+12)"})
			return true
		})
	}
	obs = append(obs, Obligation{Key: "float printer: decimal text at full precision", Pos: c.pos(c.funcDecl(identFn).Pos()), Verdict: OK,
		Detail: fmt.Sprintf("%d Text/Append call(s) with precision -1 in the %d function(s) of the printer's set", calls, len(PF))})
	return obs
}

// at53: e is a local *big.Float on which SetPrec(53) is called in fd (directly where it is defined or later).
func at53(info *types.Info, fd *ast.FuncDecl, e ast.Expr) bool {
	id, ok := unparen(e).(*ast.Ident)
	if !ok {
		return false
	}
	obj := info.ObjectOf(id)
	found := false
	ast.Inspect(fd.Body, func(n ast.Node) bool {
		call, ok := n.(*ast.CallExpr)
		if !ok || len(call.Args) != 1 {
			return true
		}
		se, ok := unparen(call.Fun).(*ast.SelectorExpr)
		if !ok || se.Sel.Name != "SetPrec" {
			return true
		}
		if tv := info.Types[call.Args[0]]; tv.Value == nil || tv.Value.ExactString() != "53" {
			return true
		}
		// x.SetPrec(53) on the local, or x := new(big.Float).SetPrec(53)
		if rid := rootIdent(se.X); rid != nil && info.ObjectOf(rid) == obj {
			found = true
		}
		if as, ok := findAssignOf(fd, call); ok {
			for _, l := range as.Lhs {
				if lid, ok := l.(*ast.Ident); ok && info.ObjectOf(lid) == obj {
					found = true
				}
			}
		}
		return true
	})
	return found
}

// findAssignOf: the assignment whose right-hand side contains the call.
func findAssignOf(fd *ast.FuncDecl, call *ast.CallExpr) (*ast.AssignStmt, bool) {
	var out *ast.AssignStmt
	ast.Inspect(fd.Body, func(n ast.Node) bool {
		as, ok := n.(*ast.AssignStmt)
		if !ok {
			return true
		}
		for _, r := range as.Rhs {
			if r.Pos() <= call.Pos() && call.End() <= r.End() {
				out = as
			}
		}
		return true
	})
	return out, out != nil
}

// ---------------------------------------------------------------------------
// RANGE-COPY

func ruleRANGECOPY(c *Ctx) []Obligation {
	var obs []Obligation
	loops := 0
	for _, path := range []string{pkgIR, pkgCONS, pkgMD, pkgTYP, pkgGEP, pkgASM, pkgENC} {
		c.eachFunc(path, func(p *packages.Package, fd *ast.FuncDecl, fn *types.Func) {
			info := p.TypesInfo
			n := 0
			ast.Inspect(fd.Body, func(nd ast.Node) bool {
				rs, ok := nd.(*ast.RangeStmt)
				if !ok || rs.Value == nil || rs.Tok != token.DEFINE {
					return true
				}
				vid, ok := rs.Value.(*ast.Ident)
				if !ok || vid.Name == "_" {
					return true
				}
				vobj := info.ObjectOf(vid)
				if vobj == nil {
					return true
				}
				if _, isStruct := vobj.Type().Underlying().(*types.Struct); !isStruct {
					return true
				}
				switch info.TypeOf(rs.X).Underlying().(type) {
				case *types.Slice, *types.Array:
				default:
					return true
				}
				loops++
				// field writes to the copy
				var firstWrite *ast.AssignStmt
				ast.Inspect(rs.Body, func(m ast.Node) bool {
					as, ok := m.(*ast.AssignStmt)
					if !ok || firstWrite != nil {
						return true
					}
					for _, l := range as.Lhs {
						if se, ok := unparen(l).(*ast.SelectorExpr); ok {
							if id, ok := unparen(se.X).(*ast.Ident); ok && info.ObjectOf(id) == vobj {
								firstWrite = as
							}
						}
					}
					return true
				})
				if firstWrite == nil {
					return true
				}
				// a use of the variable as a whole after the write
				used := false
				ast.Inspect(rs.Body, func(m ast.Node) bool {
					if se, ok := m.(*ast.SelectorExpr); ok {
						if id, ok := unparen(se.X).(*ast.Ident); ok && info.ObjectOf(id) == vobj {
							return false // v.F: not a use of the whole
						}
					}
					if id, ok := m.(*ast.Ident); ok && info.ObjectOf(id) == vobj && id.Pos() > firstWrite.End() {
						used = true
					}
					// &v / v passed before the write in a loop-carried way is not considered
					return true
				})
				if used {
					return true
				}
				n++
				obs = append(obs, Obligation{Key: fmt.Sprintf("%s: write to the range copy %s is lost #%d", funcKey(fn), vid.Name, n), Pos: c.pos(firstWrite.Pos()), Verdict: VIOL,
					Detail: fmt.Sprintf("`%s` assigns to a field of %s, the per-iteration copy of an element of %s, and the copy is not used as a whole afterwards: the element itself is unchanged (index the slice, or append the updated copy)", exprString(firstWrite.Lhs[0]), vid.Name, exprString(rs.X))})
				return true
			})
		})
	}
	obs = append(obs, Obligation{Key: "range loops over slices of structs examined", Verdict: OK, Detail: fmt.Sprintf("%d loop(s) with a struct-valued element variable", loops)})
	return obs
}

// ---------------------------------------------------------------------------
// ENC-ESC-PAIR

func ruleENCESCPAIR(c *Ctx) []Obligation {
	var obs []Obligation
	// escape engines of internal/enc: functions with a func(byte) bool parameter
	engines := map[*types.Func]bool{}
	c.eachFunc(pkgENC, func(p *packages.Package, fd *ast.FuncDecl, fn *types.Func) {
		ps := fn.Type().(*types.Signature).Params()
		for i := 0; i < ps.Len(); i++ {
			if isByteTest(ps.At(i).Type()) {
				engines[fn] = true
			}
		}
	})
	einfo := c.pkg(pkgENC).TypesInfo
	// decoders by token type
	decoders := map[string]*ast.FuncDecl{}
	c.eachFunc(pkgASM, func(p *packages.Package, fd *ast.FuncDecl, fn *types.Func) {
		sig := fn.Type().(*types.Signature)
		if sig.Params().Len() != 1 || sig.Recv() != nil {
			return
		}
		n := namedOf(sig.Params().At(0).Type())
		if n == nil || n.Obj().Pkg() == nil || n.Obj().Pkg().Path() != pkgAST || !tokenTypes[n.Obj().Name()] {
			return
		}
		decoders[n.Obj().Name()] = fd
	})
	ainfo := c.pkg(pkgASM).TypesInfo
	for _, pr := range encPairs {
		if pr.token == "" {
			continue
		}
		for _, en := range pr.encoders {
			fn := c.lookupFunc(pkgENC, en)
			efd := c.funcDecl(fn)
			if efd == nil || efd.Body == nil {
				continue
			}
			direct := false
			ast.Inspect(efd.Body, func(n ast.Node) bool {
				if call, ok := n.(*ast.CallExpr); ok && engines[calleeOf(einfo, call)] {
					direct = true
				}
				return true
			})
			if !direct {
				continue
			}
			o := Obligation{Key: fmt.Sprintf("enc.%s escapes without quotes ↔ decoder of ast.%s unescapes unconditionally", en, pr.token), Pos: c.pos(efd.Pos()), Verdict: VIOL,
				Detail: "the decoder does not call enc.Unescape at the top level of its body: escapes in an unquoted name (`!a\\20b`) are not decoded, so the name read back is the spelling, not the bytes"}
			dfd := decoders[pr.token]
			if dfd == nil {
				o.Verdict, o.Detail = UNDECIDED, "no decoder taking ast."+pr.token+" in package asm"
				obs = append(obs, o)
				continue
			}
			pm := buildParents(dfd)
			ast.Inspect(dfd.Body, func(n ast.Node) bool {
				call, ok := n.(*ast.CallExpr)
				if !ok || !isPkgFunc(calleeOf(ainfo, call), pkgENC, "Unescape") {
					return true
				}
				// unconditional: not nested in an if / case
				cond := false
				for q := pm[call]; q != nil; q = pm[q] {
					switch q.(type) {
					case *ast.IfStmt, *ast.CaseClause:
						cond = true
					}
				}
				if !cond {
					o.Verdict, o.Pos, o.Detail = OK, c.pos(call.Pos()), "enc.Unescape is applied to the name on every path"
				}
				return true
			})
			obs = append(obs, o)
		}
	}
	return obs
}

// ---------------------------------------------------------------------------
// NAT-SORTED

func ruleNATSORTED(c *Ctx) []Obligation {
	var obs []Obligation
	p := c.pkg(pkgNAT)
	if p == nil {
		return nil
	}
	info := p.TypesInfo
	calls := 0
	c.eachFunc(pkgNAT, func(_ *packages.Package, fd *ast.FuncDecl, fn *types.Func) {
		n := 0
		ast.Inspect(fd.Body, func(nd ast.Node) bool {
			call, ok := nd.(*ast.CallExpr)
			if !ok {
				return true
			}
			f := calleeOf(info, call)
			if f == nil || f.Pkg() == nil || f.Pkg().Path() != "sort" && f.Pkg().Path() != "slices" {
				return true
			}
			calls++
			switch f.Name() {
			case "Sort", "Stable", "Slice", "SliceStable", "IsSorted", "SliceIsSorted", "SortFunc", "SortStableFunc", "IsSortedFunc":
				return true
			}
			n++
			obs = append(obs, Obligation{Key: fmt.Sprintf("%s orders through %s.%s #%d", funcKey(fn), f.Pkg().Name(), f.Name(), n), Pos: c.pos(call.Pos()), Verdict: VIOL,
				Detail: f.Pkg().Name() + "." + f.Name() + " compares strings bytewise, not in natural order: what it sorts, or reports as sorted, is not in the order of Less (`t10` before `t2`)"})
			return true
		})
	})
	obs = append(obs, Obligation{Key: "package natsort orders by Less only", Verdict: OK, Detail: fmt.Sprintf("%d call(s) into package sort, all driven by the package's comparator", calls)})
	return obs
}

// ---------------------------------------------------------------------------
// CACHE-GUARD

func ruleCACHEGUARD(c *Ctx) []Obligation {
	var obs []Obligation
	for _, path := range []string{pkgIR, pkgCONS} {
		c.eachFunc(path, func(p *packages.Package, fd *ast.FuncDecl, fn *types.Func) {
			if fn.Name() != "Type" || fd.Recv == nil {
				return
			}
			info := p.TypesInfo
			pm := buildParents(fd)
			n := 0
			ast.Inspect(fd.Body, func(nd ast.Node) bool {
				as, ok := nd.(*ast.AssignStmt)
				if !ok {
					return true
				}
				for _, l := range as.Lhs {
					se, ok := unparen(l).(*ast.SelectorExpr)
					if !ok || se.Sel.Name != "Typ" {
						continue
					}
					sel, ok := info.Selections[se]
					if !ok || sel.Kind() != types.FieldVal {
						continue
					}
					n++
					o := Obligation{Key: fmt.Sprintf("%s caches %s only while it is nil #%d", funcKey(fn), exprString(se), n), Pos: c.pos(as.Pos()), Verdict: VIOL,
						Detail: "the store is not under a condition that is exactly `" + exprString(se) + " == nil`"}
					want := strings.ReplaceAll(exprString(se), " ", "") + "==nil"
					conds := condChain(pm, as)
					// guard-clause form: `if x.Typ != nil { return x.Typ }` ahead of the store, in an enclosing block
					{
						guard := strings.ReplaceAll(exprString(se), " ", "") + "!=nil"
						var holder ast.Node = as
						for q := pm[as]; q != nil; holder, q = q, pm[q] {
							blk, ok := q.(*ast.BlockStmt)
							if !ok {
								continue
							}
							for _, st := range blk.List {
								if st == holder {
									break
								}
								if is, ok := st.(*ast.IfStmt); ok && is.Init == nil && strings.ReplaceAll(exprString(unparen(is.Cond)), " ", "") == guard && len(is.Body.List) > 0 {
									if _, isRet := is.Body.List[len(is.Body.List)-1].(*ast.ReturnStmt); isRet {
										conds = append(conds, &ast.BinaryExpr{X: se, Op: token.EQL, Y: ast.NewIdent("nil")})
									}
								}
							}
						}
					}
					if len(conds) > 0 {
						all := false
						for _, cnd := range conds {
							if strings.ReplaceAll(exprString(unparen(cnd)), " ", "") == want {
								all = true
							}
						}
						if all {
							o.Verdict, o.Detail = OK, "stored under `"+exprString(se)+" == nil`"
						} else {
							o.Detail = "the store lies under `" + exprString(conds[0]) + "`, not under exactly `" + exprString(se) + " == nil`: the condition can hold for a value whose type was already computed (by the constructor or the parser), so a query — and every print — writes to the IR: two printers race on it and the type an earlier query returned changes"
						}
					}
					obs = append(obs, o)
				}
				return true
			})
		})
	}
	return obs
}

// ---------------------------------------------------------------------------
// SUCC-NIL

func ruleSUCCNIL(c *Ctx) []Obligation {
	var obs []Obligation
	c.eachFunc(pkgIR, func(p *packages.Package, fd *ast.FuncDecl, fn *types.Func) {
		if fn.Name() != "Succs" || fd.Recv == nil {
			return
		}
		info := p.TypesInfo
		pm := buildParents(fd)
		o := Obligation{Key: funcKey(fn) + " leaves no slot of its result empty", Pos: c.pos(fd.Pos()), Verdict: OK, Detail: "the result is built by append, a literal, or unconditional stores"}
		// slices made with a non-zero length
		made := map[types.Object]bool{}
		ast.Inspect(fd.Body, func(nd ast.Node) bool {
			as, ok := nd.(*ast.AssignStmt)
			if !ok || len(as.Lhs) != 1 || len(as.Rhs) != 1 {
				return true
			}
			call, ok := unparen(as.Rhs[0]).(*ast.CallExpr)
			if !ok || exprString(call.Fun) != "make" || len(call.Args) != 2 {
				return true
			}
			if tv := info.Types[call.Args[1]]; tv.Value != nil && tv.Value.ExactString() == "0" {
				return true
			}
			if id, ok := as.Lhs[0].(*ast.Ident); ok {
				made[info.ObjectOf(id)] = true
			}
			return true
		})
		ast.Inspect(fd.Body, func(nd ast.Node) bool {
			as, ok := nd.(*ast.AssignStmt)
			if !ok {
				return true
			}
			for _, l := range as.Lhs {
				ix, ok := unparen(l).(*ast.IndexExpr)
				if !ok {
					continue
				}
				id, ok := unparen(ix.X).(*ast.Ident)
				if !ok || !made[info.ObjectOf(id)] {
					continue
				}
				for q := pm[as]; q != nil; q = pm[q] {
					switch x := q.(type) {
					case *ast.IfStmt:
						o.Verdict, o.Pos = VIOL, c.pos(as.Pos())
						o.Detail = fmt.Sprintf("the slot %s of a result made with a fixed length is stored only under `%s`: when the condition fails the slot stays nil, and the successor list names a block that is not in the function", exprString(ix), exprString(x.Cond))
					case *ast.CaseClause:
						o.Verdict, o.Pos = VIOL, c.pos(as.Pos())
						o.Detail = fmt.Sprintf("the slot %s of a result made with a fixed length is stored in one arm of a switch only", exprString(ix))
					}
				}
			}
			return true
		})
		obs = append(obs, o)
	})
	return obs
}

// ---------------------------------------------------------------------------
// MAKE-APPEND

func ruleMAKEAPPEND(c *Ctx) []Obligation {
	var obs []Obligation
	makes := 0
	for _, p := range c.llvmPkgs() {
		c.eachFunc(p.PkgPath, func(p *packages.Package, fd *ast.FuncDecl, fn *types.Func) {
			info := p.TypesInfo
			made := map[types.Object]*ast.CallExpr{}
			ast.Inspect(fd.Body, func(nd ast.Node) bool {
				as, ok := nd.(*ast.AssignStmt)
				if !ok || len(as.Lhs) != 1 || len(as.Rhs) != 1 {
					return true
				}
				call, ok := unparen(as.Rhs[0]).(*ast.CallExpr)
				if !ok || exprString(call.Fun) != "make" || len(call.Args) != 2 {
					return true
				}
				if _, isSlice := info.TypeOf(call.Args[0]).Underlying().(*types.Slice); !isSlice {
					return true
				}
				if tv := info.Types[call.Args[1]]; tv.Value != nil && tv.Value.ExactString() == "0" {
					return true
				}
				if id, ok := as.Lhs[0].(*ast.Ident); ok {
					made[info.ObjectOf(id)] = call
					makes++
				}
				return true
			})
			if len(made) == 0 {
				return
			}
			appended := map[types.Object]token.Pos{}
			indexed := map[types.Object]bool{}
			ast.Inspect(fd.Body, func(nd ast.Node) bool {
				switch x := nd.(type) {
				case *ast.AssignStmt:
					for i, l := range x.Lhs {
						if ix, ok := unparen(l).(*ast.IndexExpr); ok {
							if id, ok := unparen(ix.X).(*ast.Ident); ok {
								indexed[info.ObjectOf(id)] = true
							}
						}
						if id, ok := unparen(l).(*ast.Ident); ok && i < len(x.Rhs) {
							if call, ok := unparen(x.Rhs[i]).(*ast.CallExpr); ok && exprString(call.Fun) == "append" && len(call.Args) >= 2 {
								if aid, ok := unparen(call.Args[0]).(*ast.Ident); ok && info.ObjectOf(aid) == info.ObjectOf(id) {
									if _, isMade := made[info.ObjectOf(id)]; isMade {
										appended[info.ObjectOf(id)] = x.Pos()
									}
								}
							}
						}
					}
				case *ast.CallExpr:
					// copy(x, …) fills by position
					if exprString(x.Fun) == "copy" && len(x.Args) == 2 {
						if id, ok := unparen(x.Args[0]).(*ast.Ident); ok {
							indexed[info.ObjectOf(id)] = true
						}
					}
				}
				return true
			})
			n := 0
			for obj, pos := range appended {
				if indexed[obj] {
					continue
				}
				n++
				obs = append(obs, Obligation{Key: fmt.Sprintf("%s: %s is made with a length and then appended to", funcKey(fn), obj.Name()), Pos: c.pos(pos), Verdict: VIOL,
					Detail: fmt.Sprintf("%s is created by `%s` — %s zero values — and then grown by append without any indexed store: the result starts with the zero values (for an enum the member numbered 0), followed by the intended elements", obj.Name(), exprString(made[obj]), exprString(made[obj].Args[1]))})
			}
		})
	}
	obs = append(obs, Obligation{Key: "slices made with a length examined", Verdict: OK, Detail: fmt.Sprintf("%d make([]T, n) with a non-zero length", makes)})
	return obs
}

// ---------------------------------------------------------------------------
// MASK-TEST

func ruleMASKTEST(c *Ctx) []Obligation {
	var obs []Obligation
	tests := 0
	for _, path := range []string{pkgMD, pkgIR} {
		c.eachFunc(path, func(p *packages.Package, fd *ast.FuncDecl, fn *types.Func) {
			info := p.TypesInfo
			n := 0
			ast.Inspect(fd.Body, func(nd ast.Node) bool {
				is, ok := nd.(*ast.IfStmt)
				if !ok {
					return true
				}
				be, ok := unparen(is.Cond).(*ast.BinaryExpr)
				if !ok || be.Op != token.NEQ && be.Op != token.GTR {
					return true
				}
				if tv := info.Types[be.Y]; tv.Value == nil || tv.Value.ExactString() != "0" {
					return true
				}
				and, ok := unparen(be.X).(*ast.BinaryExpr)
				if !ok || and.Op != token.AND {
					return true
				}
				mask := and.Y
				mv := info.Types[mask].Value
				if mv == nil {
					mask = and.X
					mv = info.Types[mask].Value
				}
				if mv == nil || mv.Kind() != constant.Int {
					return true
				}
				u, exact := constant.Uint64Val(mv)
				if !exact || bits.OnesCount64(u) < 2 {
					return true
				}
				tests++
				// the guarded statements write the keyword of the mask itself
				ms := strings.ReplaceAll(exprString(mask), " ", "")
				writes := false
				ast.Inspect(is.Body, func(k ast.Node) bool {
					if call, ok := k.(*ast.CallExpr); ok {
						if se, ok := unparen(call.Fun).(*ast.SelectorExpr); ok && se.Sel.Name == "String" && strings.ReplaceAll(exprString(se.X), " ", "") == ms {
							writes = true
						}
					}
					return true
				})
				if !writes {
					return true
				}
				n++
				obs = append(obs, Obligation{Key: fmt.Sprintf("%s prints %s after testing all its bits #%d", funcKey(fn), exprString(mask), n), Pos: c.pos(is.Pos()), Verdict: VIOL,
					Detail: fmt.Sprintf("`%s` holds when any one of the %d bits of %s is set, and the guarded statements then write the keyword of %s itself: a set with one of the bits prints a member it does not contain (and two values share a keyword); test `== %s`", exprString(is.Cond), bits.OnesCount64(u), exprString(mask), exprString(mask), exprString(mask))})
				return true
			})
		})
	}
	obs = append(obs, Obligation{Key: "tests of multi-bit masks against zero examined", Verdict: OK, Detail: fmt.Sprintf("%d test(s) `set & M != 0` with a constant M of more than one bit", tests)})
	return obs
}

// ---------------------------------------------------------------------------
// COND-STORE

func ruleCONDSTORE(c *Ctx) []Obligation {
	var obs []Obligation
	stores := 0
	c.eachFunc(pkgASM, func(p *packages.Package, fd *ast.FuncDecl, fn *types.Func) {
		info := p.TypesInfo
		// type translators: a parameter of an AST type and a result (or a parameter) of package ir/types
		var astParam types.Object
		for _, fl := range fd.Type.Params.List {
			for _, nm := range fl.Names {
				if n := namedOf(info.TypeOf(fl.Type)); n != nil && n.Obj().Pkg() != nil && n.Obj().Pkg().Path() == pkgAST && strings.HasSuffix(n.Obj().Name(), "Type") {
					astParam = info.Defs[nm]
				}
			}
		}
		if astParam == nil {
			return
		}
		pm := buildParents(fd)
		defs := collectDefs(info, fd.Body)
		// the accessor (method of the AST parameter, possibly through a local: ps := old.Params()) an expression reads
		var accessorsOf func(e ast.Node, depth int) map[string]bool
		accessorsOf = func(e ast.Node, depth int) map[string]bool {
			out := map[string]bool{}
			ast.Inspect(e, func(k ast.Node) bool {
				switch x := k.(type) {
				case *ast.CallExpr:
					if se, ok := unparen(x.Fun).(*ast.SelectorExpr); ok {
						if id, ok := unparen(se.X).(*ast.Ident); ok {
							if info.ObjectOf(id) == astParam {
								out[se.Sel.Name] = true
								return false
							}
							// a method of a local bound to an accessor result: ps.Variadic() with ps := old.Params()
							if depth < 2 {
								bound := false
								for _, d := range defs[info.ObjectOf(id)] {
									for a := range accessorsOf(d, depth+1) {
										out[a+"."+se.Sel.Name] = true
										bound = true
									}
								}
								if bound {
									return false // the part is named by the method, not by the local it is read from
								}
							}
						}
					}
				case *ast.Ident:
					if depth < 2 && info.ObjectOf(x) != astParam {
						for _, d := range defs[info.ObjectOf(x)] {
							for a := range accessorsOf(d, depth+1) {
								out[a] = true
							}
						}
					}
				}
				return true
			})
			return out
		}
		n := 0
		ast.Inspect(fd.Body, func(nd ast.Node) bool {
			as, ok := nd.(*ast.AssignStmt)
			if !ok {
				return true
			}
			for i, l := range as.Lhs {
				se, ok := unparen(l).(*ast.SelectorExpr)
				if !ok {
					continue
				}
				nt := namedOf(info.TypeOf(se.X))
				if nt == nil || nt.Obj().Pkg() == nil || nt.Obj().Pkg().Path() != pkgTYP {
					continue
				}
				var rhs ast.Expr
				if len(as.Rhs) == len(as.Lhs) {
					rhs = as.Rhs[i]
				} else if len(as.Rhs) == 1 {
					rhs = as.Rhs[0]
				}
				if rhs == nil {
					continue
				}
				src := accessorsOf(rhs, 0)
				if len(src) == 0 {
					continue
				}
				stores++
				for _, cond := range condChain(pm, as) {
					ca := accessorsOf(cond, 0)
					if len(ca) == 0 {
						continue
					}
					shared := false
					for a := range ca {
						for b := range src {
							if a == b || strings.HasPrefix(b, a+".") && false {
								shared = true
							}
						}
					}
					if shared {
						continue
					}
					n++
					obs = append(obs, Obligation{Key: fmt.Sprintf("%s: store of %s is not conditional on another accessor #%d", funcKey(fn), exprString(se), n), Pos: c.pos(as.Pos()), Verdict: VIOL,
						Detail: fmt.Sprintf("%s is set from %v of the type node, but only when `%s` holds, which is about %v: when that other part of the node is empty or absent, what the input said here is dropped (the `...` of `i32 (...)`)", exprString(se), sortedKeys(src), exprString(cond), sortedKeys(ca))})
					break
				}
			}
			return true
		})
	})
	obs = append(obs, Obligation{Key: "type translators: stores from syntax accessors examined", Verdict: OK, Detail: fmt.Sprintf("%d store(s) into fields of ir/types objects from accessor results", stores)})
	return obs
}

package main

import (
	"fmt"
	"go/token"
	"go/types"
	"sort"
	"strings"

	"golang.org/x/tools/go/callgraph"
	"golang.org/x/tools/go/ssa"
)

// Engine C — write effects on SSA, closed over the VTA call graph.

// Effect is one store performed by a function.
type Effect struct {
	Kind   string // "field", "map", "global", "elem", "deref"
	Owner  string // struct type (field/elem/map of a field), pointee type (deref), global name
	Field  string
	Fresh  bool // the written object is allocated in the same function (or returned fresh by a callee)
	Pos    token.Pos
	Fn     *ssa.Function
	Instr  ssa.Instruction
	Target string // Owner.Field, rendered
	// ViaGlobal: the base pointer is loaded from a package-level variable (singleton object)
	ViaGlobal string
}

func (e Effect) String() string { return e.Kind + " " + e.Target }

type effectEngine struct {
	c         *Ctx
	perFn     map[*ssa.Function][]Effect
	freshMemo map[ssa.Value]int // 0 unknown, 1 fresh, 2 not fresh, 3 in progress
	retFresh  map[*ssa.Function]map[int]int
}

func (c *Ctx) effects() *effectEngine {
	if v, ok := c.memo["effects"]; ok {
		return v.(*effectEngine)
	}
	c.SSA()
	e := &effectEngine{c: c, perFn: map[*ssa.Function][]Effect{}, freshMemo: map[ssa.Value]int{}, retFresh: map[*ssa.Function]map[int]int{}}
	c.memo["effects"] = e
	return e
}

func namedKey(t types.Type) string {
	if p, ok := t.(*types.Pointer); ok {
		t = p.Elem()
	}
	if n, ok := t.(*types.Named); ok {
		return typeKey(n)
	}
	return typeKey(t)
}

// fresh reports whether v denotes memory allocated by the current function
// activation (so a write to it cannot be observed by another goroutine or a
// later call unless it is published afterwards).
func (e *effectEngine) fresh(v ssa.Value) bool {
	switch e.freshMemo[v] {
	case 1:
		return true
	case 2:
		return false
	case 3:
		return true // optimistic on cycles (phi of fresh values)
	}
	e.freshMemo[v] = 3
	r := e.fresh1(v)
	if r {
		e.freshMemo[v] = 1
	} else {
		e.freshMemo[v] = 2
	}
	return r
}

func (e *effectEngine) fresh1(v ssa.Value) bool {
	switch v := v.(type) {
	case *ssa.Alloc:
		return true
	case *ssa.MakeSlice, *ssa.MakeMap, *ssa.MakeChan:
		return true
	case *ssa.MakeInterface:
		return e.fresh(v.X)
	case *ssa.MakeClosure:
		return true
	case *ssa.Slice:
		return e.fresh(v.X)
	case *ssa.FieldAddr:
		return e.fresh(v.X)
	case *ssa.IndexAddr:
		return e.fresh(v.X)
	case *ssa.ChangeType:
		return e.fresh(v.X)
	case *ssa.ChangeInterface:
		return e.fresh(v.X)
	case *ssa.Convert:
		return e.fresh(v.X)
	case *ssa.TypeAssert:
		return e.fresh(v.X)
	case *ssa.Phi:
		for _, x := range v.Edges {
			if !e.fresh(x) {
				return false
			}
		}
		return true
	case *ssa.Extract:
		if call, ok := v.Tuple.(*ssa.Call); ok {
			return e.callFresh(call, v.Index)
		}
		return false
	case *ssa.Call:
		return e.callFresh(v, 0)
	case *ssa.UnOp:
		if v.Op == token.MUL {
			// load: fresh if loaded from a local cell all of whose stores are fresh values
			if a, ok := v.X.(*ssa.Alloc); ok {
				all := true
				n := 0
				for _, ref := range *a.Referrers() {
					if st, ok := ref.(*ssa.Store); ok && st.Addr == a {
						n++
						if !e.fresh(st.Val) {
							all = false
						}
					}
				}
				return all && n > 0
			}
			// load from the cell of a captured variable: fresh if, in the enclosing function,
			// every store to that cell stores a fresh value (fw := &T{…}; f := func() { fw.x = … })
			if fv, ok := v.X.(*ssa.FreeVar); ok {
				return e.freeVarCellFresh(fv)
			}
			// load of a field of an object allocated in this function: fresh if every store to that
			// field of that object in this function stores a fresh value (alloc := &T{used: make(…)};
			// … alloc.used[k] = v)
			if fa, ok := v.X.(*ssa.FieldAddr); ok {
				if base, ok := fa.X.(*ssa.Alloc); ok && base.Referrers() != nil {
					n, all := 0, true
					for _, ref := range *base.Referrers() {
						fa2, ok := ref.(*ssa.FieldAddr)
						if !ok || fa2.Field != fa.Field || fa2.Referrers() == nil {
							continue
						}
						for _, r2 := range *fa2.Referrers() {
							if st, ok := r2.(*ssa.Store); ok && st.Addr == fa2 {
								n++
								if !e.fresh(st.Val) {
									all = false
								}
							}
						}
					}
					// the object must not have escaped to code that could store into the field:
					// only field accesses, and calls of methods / functions of the module whose
					// effects are accounted for separately
					if n > 0 && all {
						return true
					}
				}
			}
			// load of a field stored earlier in the same block with a fresh value
			if fa, ok := v.X.(*ssa.FieldAddr); ok && v.Block() != nil {
				for _, in := range v.Block().Instrs {
					if in == ssa.Instruction(v) {
						break
					}
					if st, ok := in.(*ssa.Store); ok {
						if fa2, ok := st.Addr.(*ssa.FieldAddr); ok && fa2.X == fa.X && fa2.Field == fa.Field && e.fresh(st.Val) {
							return true
						}
					}
				}
			}
		}
		return false
	case *ssa.Const:
		return true // nil / constants: no shared memory behind them
	case *ssa.FreeVar:
		// the cell of a captured local variable of the enclosing function activation
		return true
	case *ssa.Parameter:
		return e.paramFresh(v)
	}
	return false
}

// freeVarCellFresh: the variable captured as fv only ever holds fresh values.
func (e *effectEngine) freeVarCellFresh(fv *ssa.FreeVar) bool {
	fn := fv.Parent()
	if fn == nil || fn.Parent() == nil {
		return false
	}
	idx := -1
	for i, q := range fn.FreeVars {
		if q == fv {
			idx = i
		}
	}
	if idx < 0 {
		return false
	}
	found := false
	for _, b := range fn.Parent().Blocks {
		for _, in := range b.Instrs {
			mc, ok := in.(*ssa.MakeClosure)
			if !ok || mc.Fn != ssa.Value(fn) || idx >= len(mc.Bindings) {
				continue
			}
			found = true
			switch cell := mc.Bindings[idx].(type) {
			case *ssa.Alloc:
				n := 0
				for _, ref := range *cell.Referrers() {
					if st, ok := ref.(*ssa.Store); ok && st.Addr == ssa.Value(cell) {
						n++
						if !e.fresh(st.Val) {
							return false
						}
					}
				}
				if n == 0 {
					return false
				}
			case *ssa.FreeVar:
				if !e.freeVarCellFresh(cell) {
					return false
				}
			default:
				return false
			}
		}
	}
	return found
}

// paramFresh: a parameter denotes fresh memory when every call site of the
// function in the call graph passes a fresh value (context-insensitive).
func (e *effectEngine) paramFresh(p *ssa.Parameter) bool {
	fn := p.Parent()
	if fn == nil {
		return false
	}
	idx := -1
	for i, q := range fn.Params {
		if q == p {
			idx = i
		}
	}
	if idx < 0 {
		return false
	}
	// only pointer-like parameters matter; exported API functions of llir/llvm can be called by anyone
	node := e.c.CallGraph().Nodes[fn]
	if node == nil || len(node.In) == 0 {
		return false
	}
	if fn.Object() != nil && fn.Object().Exported() && fn.Pkg != nil && e.c.isLLVM(fn.Pkg.Pkg.Path()) && !strings.Contains(fn.Pkg.Pkg.Path(), "/internal/") {
		if recv := fn.Signature.Recv(); recv == nil {
			return false
		} else if n := namedOf(recv.Type()); n == nil || n.Obj().Exported() {
			return false
		}
	}
	for _, in := range node.In {
		if in.Site == nil {
			return false
		}
		cc := in.Site.Common()
		var arg ssa.Value
		if cc.IsInvoke() {
			if idx == 0 {
				arg = cc.Value
			} else if idx-1 < len(cc.Args) {
				arg = cc.Args[idx-1]
			}
		} else if idx < len(cc.Args) {
			arg = cc.Args[idx]
		}
		if arg == nil || !e.fresh(arg) {
			return false
		}
	}
	return true
}

func (e *effectEngine) callFresh(call *ssa.Call, idx int) bool {
	if b, ok := call.Call.Value.(*ssa.Builtin); ok {
		if b.Name() == "append" {
			// append(x, ...) may reuse x's backing array: fresh iff x is fresh (or nil)
			return len(call.Call.Args) > 0 && e.fresh(call.Call.Args[0])
		}
		return false
	}
	callee := call.Call.StaticCallee()
	if callee == nil {
		return false
	}
	// math/big: constructors return new values; a method that returns its receiver type returns
	// the receiver (z.SetPrec(p), z.Add(x, y)), so the result is as fresh as the receiver
	if callee.Pkg != nil && callee.Pkg.Pkg.Path() == "math/big" && idx == 0 {
		if callee.Signature.Recv() == nil {
			return strings.HasPrefix(callee.Name(), "New")
		}
		rt := callee.Signature.Recv().Type()
		if _, isPtr := rt.(*types.Pointer); isPtr && callee.Signature.Results().Len() >= 1 && types.Identical(callee.Signature.Results().At(0).Type(), rt) && len(call.Call.Args) > 0 {
			return e.fresh(call.Call.Args[0])
		}
	}
	return e.returnsFresh(callee, idx)
}

func (e *effectEngine) returnsFresh(fn *ssa.Function, idx int) bool {
	if fn.Blocks == nil {
		// no source: a few standard constructors are known to return fresh memory
		switch fn.String() {
		case "math/big.NewInt", "math/big.NewFloat", "(*math/big.Int).SetString", "errors.New", "fmt.Errorf", "fmt.Sprintf", "strings.Split":
			return true
		}
		return false
	}
	m := e.retFresh[fn]
	if m == nil {
		m = map[int]int{}
		e.retFresh[fn] = m
	}
	switch m[idx] {
	case 1:
		return true
	case 2, 3:
		return false // pessimistic on recursion
	}
	m[idx] = 3
	ok := true
	nret := 0
	for _, b := range fn.Blocks {
		if len(b.Instrs) == 0 {
			continue
		}
		if r, isRet := b.Instrs[len(b.Instrs)-1].(*ssa.Return); isRet {
			nret++
			if idx >= len(r.Results) || !e.fresh(r.Results[idx]) {
				ok = false
			}
		}
	}
	if nret == 0 {
		ok = false
	}
	if ok {
		m[idx] = 1
	} else {
		m[idx] = 2
	}
	return ok
}

// globalBehind returns the package-level variable a pointer value is loaded from, if any.
func globalBehind(v ssa.Value) *ssa.Global {
	return globalBehindSeen(v, map[ssa.Value]bool{})
}

func globalBehindSeen(v ssa.Value, seen map[ssa.Value]bool) *ssa.Global {
	for i := 0; i < 8; i++ {
		if seen[v] {
			return nil // a phi cycle (loop-carried value)
		}
		seen[v] = true
		switch x := v.(type) {
		case *ssa.Global:
			return x
		case *ssa.UnOp:
			if x.Op == token.MUL {
				v = x.X
				continue
			}
			return nil
		case *ssa.FieldAddr:
			v = x.X
			continue
		case *ssa.IndexAddr:
			v = x.X
			continue
		case *ssa.ChangeType:
			v = x.X
			continue
		case *ssa.TypeAssert:
			v = x.X
			continue
		case *ssa.MakeInterface:
			v = x.X
			continue
		case *ssa.Call:
			// a function of the module that hands out a package-level object (constant.NewBool
			// returns the singletons True / False)
			if g := returnsGlobal(x.Call.StaticCallee(), 0); g != nil {
				return g
			}
			return nil
		case *ssa.Phi:
			for _, e := range x.Edges {
				if g := globalBehindSeen(e, seen); g != nil {
					return g
				}
			}
			return nil
		}
		return nil
	}
	return nil
}

var returnsGlobalMemo = map[*ssa.Function]*ssa.Global{}
var returnsGlobalDone = map[*ssa.Function]bool{}

// returnsGlobal: some return statement of fn yields an object loaded from a package-level
// variable of the module.
func returnsGlobal(fn *ssa.Function, depth int) *ssa.Global {
	if fn == nil || len(fn.Blocks) == 0 || depth > 2 {
		return nil
	}
	if returnsGlobalDone[fn] {
		return returnsGlobalMemo[fn]
	}
	returnsGlobalDone[fn] = true
	for _, b := range fn.Blocks {
		if len(b.Instrs) == 0 {
			continue
		}
		r, ok := b.Instrs[len(b.Instrs)-1].(*ssa.Return)
		if !ok || len(r.Results) == 0 {
			continue
		}
		v := r.Results[0]
		if _, isPtr := v.Type().Underlying().(*types.Pointer); !isPtr {
			continue
		}
		var g *ssa.Global
		switch x := v.(type) {
		case *ssa.Call:
			g = returnsGlobal(x.Call.StaticCallee(), depth+1)
		default:
			g = globalBehind(v)
		}
		if g != nil {
			returnsGlobalMemo[fn] = g
			return g
		}
	}
	return nil
}

// readOnlySliceCallee: standard-library functions known only to read their slice arguments.
func readOnlySliceCallee(f *ssa.Function) bool {
	if f.Pkg == nil {
		return false
	}
	switch f.Pkg.Pkg.Path() {
	case "strings", "unicode/utf8", "fmt", "errors", "log":
		return true
	case "bytes":
		n := f.Name()
		return strings.HasPrefix(n, "Index") || strings.HasPrefix(n, "Contains") || strings.HasPrefix(n, "Has") || strings.HasPrefix(n, "Equal") || n == "Compare" || n == "Count" || strings.HasPrefix(n, "LastIndex") || n == "NewReader" || n == "NewBuffer"
	case "sort":
		return strings.HasPrefix(f.Name(), "Search") || strings.HasSuffix(f.Name(), "AreSorted") || f.Name() == "IsSorted"
	case "slices":
		n := f.Name()
		return strings.HasPrefix(n, "Index") || strings.HasPrefix(n, "Contains") || n == "Equal" || n == "BinarySearch" || strings.HasPrefix(n, "IsSorted") || n == "Max" || n == "Min"
	}
	return false
}

// of returns the effects of a single function (not transitive).
func (e *effectEngine) of(fn *ssa.Function) []Effect {
	if ef, ok := e.perFn[fn]; ok {
		return ef
	}
	var out []Effect
	add := func(ef Effect, instr ssa.Instruction) {
		ef.Fn, ef.Instr, ef.Pos = fn, instr, instr.Pos()
		if ef.Field != "" {
			ef.Target = ef.Owner + "." + ef.Field
		} else {
			ef.Target = ef.Owner
		}
		out = append(out, ef)
	}
	classifyAddr := func(addr ssa.Value) Effect {
		switch a := addr.(type) {
		case *ssa.FieldAddr:
			st := a.X.Type().Underlying().(*types.Pointer).Elem()
			s, _ := st.Underlying().(*types.Struct)
			fname := "?"
			if s != nil {
				fname = s.Field(a.Field).Name()
			}
			ef := Effect{Kind: "field", Owner: namedKey(st), Field: fname, Fresh: e.fresh(a.X)}
			if g := globalBehind(a.X); g != nil {
				ef.ViaGlobal = g.String()
			}
			return ef
		case *ssa.IndexAddr:
			// element of a slice/array; name it after the field the slice is loaded from, if any
			ef := Effect{Kind: "elem", Owner: typeKey(a.X.Type()), Fresh: e.fresh(a.X)}
			if u, ok := a.X.(*ssa.UnOp); ok && u.Op == token.MUL {
				if fa, ok := u.X.(*ssa.FieldAddr); ok {
					st := fa.X.Type().Underlying().(*types.Pointer).Elem()
					if s, ok := st.Underlying().(*types.Struct); ok {
						ef.Owner, ef.Field = namedKey(st), s.Field(fa.Field).Name()+"[]"
					}
					ef.Fresh = e.fresh(fa.X)
				}
			}
			if g := globalBehind(a.X); g != nil {
				ef.ViaGlobal = g.String()
			}
			return ef
		case *ssa.Global:
			return Effect{Kind: "global", Owner: a.String()}
		case *ssa.Alloc:
			return Effect{Kind: "deref", Owner: namedKey(a.Type()), Fresh: true}
		case *ssa.Parameter:
			// a cell handed in by the callers of an unexported helper: when every caller passes the
			// address of the like-named field of its own object (operandType(&inst.Typ, inst.X)), the
			// store is a store to that field
			if fn.Object() != nil && !fn.Object().Exported() {
				if node := e.c.CallGraph().Nodes[fn]; node != nil && len(node.In) > 0 {
					idx := -1
					for i, p := range fn.Params {
						if p == a {
							idx = i
						}
					}
					fname, owner := "", ""
					all := idx >= 0
					fresh := true
					for _, in := range node.In {
						if in.Site == nil || !all {
							all = false
							break
						}
						cc := in.Site.Common()
						ai := idx
						if cc.IsInvoke() {
							ai = idx - 1
						}
						if ai < 0 || ai >= len(cc.Args) {
							all = false
							break
						}
						fa, ok := cc.Args[ai].(*ssa.FieldAddr)
						if !ok {
							all = false
							break
						}
						st := fa.X.Type().Underlying().(*types.Pointer).Elem()
						sct, ok := st.Underlying().(*types.Struct)
						if !ok {
							all = false
							break
						}
						n := sct.Field(fa.Field).Name()
						if fname == "" {
							fname, owner = n, namedKey(st)
						} else if fname != n {
							all = false
						}
						if !e.fresh(fa.X) {
							fresh = false
						}
					}
					if all && fname != "" {
						return Effect{Kind: "field", Owner: owner, Field: fname, Fresh: fresh}
					}
				}
			}
			ef := Effect{Kind: "deref", Owner: namedKey(addr.Type()), Fresh: e.fresh(addr)}
			if g := globalBehind(addr); g != nil {
				ef.ViaGlobal = g.String()
			}
			return ef
		default:
			ef := Effect{Kind: "deref", Owner: namedKey(addr.Type()), Fresh: e.fresh(addr)}
			if g := globalBehind(addr); g != nil {
				ef.ViaGlobal = g.String()
			}
			return ef
		}
	}
	for _, b := range fn.Blocks {
		for _, instr := range b.Instrs {
			switch in := instr.(type) {
			case *ssa.Store:
				add(classifyAddr(in.Addr), in)
			case *ssa.Call:
				// library calls that mutate their first argument in place
				var target ssa.Value
				if b, ok := in.Call.Value.(*ssa.Builtin); ok {
					if b.Name() == "copy" && len(in.Call.Args) == 2 {
						target = in.Call.Args[0]
					}
					// append(x, y…) with spare capacity writes y into x's backing array, which every
					// other slice of that array sees (nothing is written when no element is added)
					// — counted in the module under analysis, and not for the grow-in-place idiom
					// `x.f = append(x.f, y)`, whose store to x.f is an effect of its own
					if b.Name() == "append" && len(in.Call.Args) == 2 && !appendsNothing(in.Call.Args[1]) && fn.Pkg != nil && e.c.isLLVM(fn.Pkg.Pkg.Path()) && !storedBack(in) {
						target = in.Call.Args[0]
					}
				} else if callee := in.Call.StaticCallee(); callee != nil && callee.Pkg != nil && len(in.Call.Args) > 0 {
					switch callee.Pkg.Pkg.Path() + "." + callee.Name() {
					case "sort.Slice", "sort.SliceStable", "sort.Sort", "sort.Stable", "sort.Strings", "sort.Ints", "sort.Float64s",
						"slices.Sort", "slices.SortFunc", "slices.SortStableFunc", "slices.Reverse":
						target = in.Call.Args[0]
					}
				}
				// math/big: a method of *big.Float / *big.Int / *big.Rat that returns its receiver
				// type writes the receiver (z.SetPrec(…), z.Add(x, y), z.Neg(x) …): a store into
				// the big value the receiver points to
				if callee := in.Call.StaticCallee(); target == nil && callee != nil && callee.Pkg != nil && callee.Pkg.Pkg.Path() == "math/big" && callee.Signature.Recv() != nil && len(in.Call.Args) > 0 {
					rt := callee.Signature.Recv().Type()
					if _, isPtr := rt.(*types.Pointer); isPtr && callee.Signature.Results().Len() >= 1 && types.Identical(callee.Signature.Results().At(0).Type(), rt) {
						recv := in.Call.Args[0]
						ef := Effect{Kind: "deref", Owner: namedKey(rt), Fresh: e.fresh(recv)}
						if g := globalBehind(recv); g != nil {
							ef.ViaGlobal = g.String()
						}
						add(ef, in)
					}
				}
				// a slice of one of our package-level variables handed to a function outside the
				// analysed modules that takes a mutable slice (e.g. (*big.Float).Append(buf, …),
				// strconv.AppendInt(buf, …), io.ReadFull(r, buf)): the callee may write it
				if target == nil {
					if callee := in.Call.StaticCallee(); callee != nil && callee.Pkg != nil && !e.c.isOurs(callee.Pkg.Pkg.Path()) && !readOnlySliceCallee(callee) {
						for _, a := range in.Call.Args {
							v := a
							if sl, ok := v.(*ssa.Slice); ok {
								v = sl.X
							}
							if _, isSlice := a.Type().Underlying().(*types.Slice); !isSlice {
								continue
							}
							if g := globalBehind(v); g != nil && g.Pkg != nil && e.c.isOurs(g.Pkg.Pkg.Path()) {
								add(Effect{Kind: "global", Owner: g.String(), Fresh: false}, in)
							}
						}
					}
				}
				if target != nil {
					// look through interface / type conversions to the slice value
					v := target
					for i := 0; i < 6; i++ {
						switch x := v.(type) {
						case *ssa.MakeInterface:
							v = x.X
							continue
						case *ssa.ChangeType:
							v = x.X
							continue
						case *ssa.Convert:
							v = x.X
							continue
						}
						break
					}
					ef := Effect{Kind: "elem", Owner: typeKey(v.Type()), Fresh: e.fresh(v)}
					if u, ok := v.(*ssa.UnOp); ok && u.Op == token.MUL {
						if fa, ok := u.X.(*ssa.FieldAddr); ok {
							st := fa.X.Type().Underlying().(*types.Pointer).Elem()
							if sct, ok := st.Underlying().(*types.Struct); ok {
								ef.Owner, ef.Field = namedKey(st), sct.Field(fa.Field).Name()+"[]"
							}
							ef.Fresh = e.fresh(fa.X)
						}
					}
					if g := globalBehind(v); g != nil {
						ef.ViaGlobal = g.String()
					}
					add(ef, in)
				}
			case *ssa.MapUpdate:
				ef := Effect{Kind: "map", Owner: typeKey(in.Map.Type()), Fresh: e.fresh(in.Map)}
				if u, ok := in.Map.(*ssa.UnOp); ok && u.Op == token.MUL {
					if fa, ok := u.X.(*ssa.FieldAddr); ok {
						st := fa.X.Type().Underlying().(*types.Pointer).Elem()
						if s, ok := st.Underlying().(*types.Struct); ok {
							ef.Owner, ef.Field = namedKey(st), s.Field(fa.Field).Name()
						}
					}
					if g, ok := u.X.(*ssa.Global); ok {
						ef.Kind, ef.Owner, ef.Field = "global", g.String(), ""
					}
				}
				if g := globalBehind(in.Map); g != nil {
					ef.ViaGlobal = g.String()
				}
				add(ef, in)
			}
		}
	}
	e.perFn[fn] = out
	return out
}

// storedBack: the result of append(x, …) is stored to the place x was loaded from (or x is a
// local the result is assigned to: in SSA form, a phi / the same register chain).
func storedBack(call *ssa.Call) bool {
	x := call.Call.Args[0]
	if sl, ok := x.(*ssa.Slice); ok {
		x = sl.X
	}
	load, ok := x.(*ssa.UnOp)
	if !ok || load.Op != token.MUL {
		// a local accumulator: x is a phi / earlier append of the same chain and the result feeds it
		if refs := call.Referrers(); refs != nil {
			for _, r := range *refs {
				if phi, ok := r.(*ssa.Phi); ok {
					for _, ed := range phi.Edges {
						if ed == call {
							return true
						}
					}
				}
			}
		}
		if _, isCall := x.(*ssa.Call); isCall {
			return false
		}
		return false
	}
	if refs := call.Referrers(); refs != nil {
		for _, r := range *refs {
			if st, ok := r.(*ssa.Store); ok && st.Val == call && sameAddr(st.Addr, load.X) {
				return true
			}
		}
	}
	return false
}

func sameAddr(a, b ssa.Value) bool {
	if a == b {
		return true
	}
	fa, ok1 := a.(*ssa.FieldAddr)
	fb, ok2 := b.(*ssa.FieldAddr)
	if ok1 && ok2 && fa.Field == fb.Field {
		return fa.X == fb.X || sameAddr(fa.X, fb.X) || sameLoad(fa.X, fb.X)
	}
	return false
}

func sameLoad(a, b ssa.Value) bool {
	ua, ok1 := a.(*ssa.UnOp)
	ub, ok2 := b.(*ssa.UnOp)
	return ok1 && ok2 && ua.Op == token.MUL && ub.Op == token.MUL && (ua.X == ub.X || sameAddr(ua.X, ub.X))
}

// appendsNothing: the variadic argument of append is a nil / empty slice constant.
func appendsNothing(v ssa.Value) bool {
	if c, ok := v.(*ssa.Const); ok {
		return c.Value == nil
	}
	return false
}

// ours reports whether the function belongs to the analysed module families.
func (e *effectEngine) ours(fn *ssa.Function) bool {
	if fn == nil {
		return false
	}
	p := fn.Pkg
	if p == nil && fn.Parent() != nil {
		p = fn.Parent().Pkg
	}
	if p == nil {
		if fn.Origin() != nil && fn.Origin().Pkg != nil {
			p = fn.Origin().Pkg
		} else if fn.Signature != nil && fn.Signature.Recv() != nil {
			// wrappers / bound methods: decide by the receiver's package
			if n := namedOf(fn.Signature.Recv().Type()); n != nil && n.Obj().Pkg() != nil {
				return e.c.isOurs(n.Obj().Pkg().Path())
			}
			return false
		} else {
			return false
		}
	}
	return e.c.isOurs(p.Pkg.Path())
}

// reach returns the functions of the analysed modules reachable from roots in
// the call graph, with a parent map for path reporting.
func (e *effectEngine) reach(roots []*ssa.Function) (order []*ssa.Function, parent map[*ssa.Function]*ssa.Function) {
	cg := e.c.CallGraph()
	parent = map[*ssa.Function]*ssa.Function{}
	seen := map[*ssa.Function]bool{}
	queue := append([]*ssa.Function{}, roots...)
	for _, r := range roots {
		seen[r] = true
	}
	for len(queue) > 0 {
		fn := queue[0]
		queue = queue[1:]
		order = append(order, fn)
		node := cg.Nodes[fn]
		if node == nil {
			continue
		}
		// deterministic order
		outs := append([]*callgraph.Edge{}, node.Out...)
		sort.Slice(outs, func(i, j int) bool { return outs[i].Callee.Func.String() < outs[j].Callee.Func.String() })
		for _, ed := range outs {
			callee := ed.Callee.Func
			if seen[callee] {
				continue
			}
			if !e.ours(callee) {
				continue
			}
			seen[callee] = true
			parent[callee] = fn
			queue = append(queue, callee)
		}
		// closures created here are treated as called here (deferred / stored func values)
		for _, anon := range fn.AnonFuncs {
			if !seen[anon] {
				seen[anon] = true
				parent[anon] = fn
				queue = append(queue, anon)
			}
		}
	}
	return order, parent
}

func pathTo(fn *ssa.Function, parent map[*ssa.Function]*ssa.Function) string {
	var names []string
	for f := fn; f != nil; f = parent[f] {
		names = append(names, shortFn(f))
		if len(names) > 12 {
			names = append(names, "…")
			break
		}
	}
	for i, j := 0, len(names)-1; i < j; i, j = i+1, j-1 {
		names[i], names[j] = names[j], names[i]
	}
	return strings.Join(names, " → ")
}

func shortFn(f *ssa.Function) string {
	s := f.String()
	s = strings.ReplaceAll(s, modLLVM+"/", "")
	s = strings.ReplaceAll(s, "github.com/llir/ll/", "ll/")
	s = strings.ReplaceAll(s, "github.com/mewmew/", "")
	return s
}

// closure returns every shared (non-fresh) effect of the functions reachable from roots.
type reached struct {
	Effect
	Path string
}

func (e *effectEngine) closure(roots []*ssa.Function) (effects []reached, nfuncs int) {
	order, parent := e.reach(roots)
	for _, fn := range order {
		for _, ef := range e.of(fn) {
			effects = append(effects, reached{ef, pathTo(fn, parent)})
		}
	}
	return effects, len(order)
}

// methodRoots returns the SSA functions of all methods with one of the given
// names declared on named types of the given packages.
func (c *Ctx) methodRoots(pkgs []string, names map[string]bool) []*ssa.Function {
	prog := c.SSA()
	var out []*ssa.Function
	for _, path := range pkgs {
		p := c.pkg(path)
		if p == nil {
			continue
		}
		scope := p.Types.Scope()
		for _, tn := range scope.Names() {
			obj, ok := scope.Lookup(tn).(*types.TypeName)
			if !ok {
				continue
			}
			n, ok := obj.Type().(*types.Named)
			if !ok {
				continue
			}
			for i := 0; i < n.NumMethods(); i++ {
				m := n.Method(i)
				if names[m.Name()] {
					if f := prog.FuncValue(m); f != nil {
						out = append(out, f)
					}
				}
			}
		}
	}
	sort.Slice(out, func(i, j int) bool { return out[i].String() < out[j].String() })
	return out
}

func describeEffect(c *Ctx, r reached) string {
	return fmt.Sprintf("%s %s at %s via %s", r.Kind, r.Target, c.pos(r.Pos), r.Path)
}

package main

import (
	"fmt"
	"go/ast"
	"go/token"
	"go/types"
	"regexp"
	"strings"

	"golang.org/x/tools/go/packages"
)

// Rules added after seeded batch 8: INT-NARROW, EQ-LEN, FLAG-OR, FP-CONST-SIGN, FP-NAN-CMP.

func init() {
	register(&Rule{
		Name:  "INT-NARROW",
		Doc:   "no printer formats an unsigned 64-bit quantity of the IR through a narrower or signed integer type: an argument of a strconv / fmt formatting call (or of a Write of a formatted number) that is a conversion int(x), int64(x), int32(x), uint32(x) … of a value whose type is 64 bits wide and unsigned changes the digits for values ≥ 2^63 (or ≥ 2^31 / 2^32 on a 32-bit platform, where int is 32 bits wide), so the printed text no longer denotes the value held. One obligation per package scanned (count of formatting calls examined), one violation per offending conversion. Generated stringer files are not scanned (their fallback arm prints unknown enumerators for diagnostics only).",
		Floor: 4,
		Run:   ruleINTNARROW,
	})
	register(&Rule{
		Name:  "EQ-LEN",
		Doc:   "a pairwise comparison of two lists in ir/types compares their lengths: for every loop over one slice whose body indexes a second slice with the loop index, the function — or, when both slices are its parameters, every caller — compares len(a) with len(b) by == or != ahead of the loop; a one-sided bound (i >= len(b)) keeps the loop from panicking but makes a list equal to every longer list it is a prefix of, which breaks symmetry of Equal",
		Floor: 2,
		Run:   ruleEQLEN,
	})
	register(&Rule{
		Name:  "FLAG-OR",
		Doc:   "the translators that fold a list of flag nodes into one flag word only ever add bits: in every function of package asm whose result is an integer enum type and which accumulates into a variable of that type inside a loop over AST nodes, every update of the accumulator inside the loop is `|=` (or acc = acc | x); clearing or replacing bits (&^=, &=, plain =) makes the result depend on the spelling of the list (DIFlagVirtualInheritance is printed as its two component bits and would be read back as one of them)",
		Floor: 2,
		Run:   ruleFLAGOR,
	})
	register(&Rule{
		Name:  "FP-CONST-SIGN",
		Doc:   "the float printer never returns a constant numeric spelling without having examined the sign: a `return \"0.0\"`-like statement in the printer's function set (Float.Ident and what it calls) is guarded by a condition that reads Signbit of the value — big.Float distinguishes −0 from +0 and Sign() is 0 for both, so a constant spelling for `Sign() == 0` prints −0.0 as 0.0",
		Run:   ruleFPCONSTSIGN,
	})
	register(&Rule{
		Name:  "FP-NAN-CMP",
		Doc:   "the float reader rejects no NaN through a comparison: an error return of the reader's function set (NewFloatFromString and what it calls) guarded by == / != between floating-point values (a round-trip test such as float64(float32(f)) != f) lies under, or after, a test of math.IsNaN — NaN != NaN is true, so such a test ahead of the NaN branch rejects every NaN literal",
		Run:   ruleFPNANCMP,
	})
}

// ---------------------------------------------------------------------------
// INT-NARROW

func isGeneratedFile(f *ast.File) bool {
	for _, cg := range f.Comments {
		if cg.Pos() > f.Package {
			break
		}
		for _, cm := range cg.List {
			if strings.Contains(cm.Text, "Code generated") && strings.Contains(cm.Text, "DO NOT EDIT") {
				return true
			}
		}
	}
	return false
}

func intKindInfo(t types.Type) (bits int, unsigned bool, ok bool) {
	if t == nil {
		return 0, false, false
	}
	b, isB := t.Underlying().(*types.Basic)
	if !isB {
		return 0, false, false
	}
	switch b.Kind() {
	case types.Int, types.UntypedInt:
		return 32, false, true // the narrowest width int has on a supported platform
	case types.Int8:
		return 8, false, true
	case types.Int16:
		return 16, false, true
	case types.Int32:
		return 32, false, true
	case types.Int64:
		return 64, false, true
	case types.Uint, types.Uintptr:
		return 32, true, true
	case types.Uint8:
		return 8, true, true
	case types.Uint16:
		return 16, true, true
	case types.Uint32:
		return 32, true, true
	case types.Uint64:
		return 64, true, true
	}
	return 0, false, false
}

func isFormattingCallee(f *types.Func) bool {
	if f == nil || f.Pkg() == nil {
		return false
	}
	switch f.Pkg().Path() {
	case "strconv":
		return strings.HasPrefix(f.Name(), "Format") || strings.HasPrefix(f.Name(), "Append") || f.Name() == "Itoa"
	case "fmt":
		return strings.Contains(f.Name(), "print") || strings.Contains(f.Name(), "Print")
	}
	return false
}

func ruleINTNARROW(c *Ctx) []Obligation {
	var obs []Obligation
	for _, path := range []string{pkgENC, pkgIR, pkgCONS, pkgMD, pkgTYP} {
		p := c.All[path]
		if p == nil {
			continue
		}
		calls := 0
		info := p.TypesInfo
		for _, file := range p.Syntax {
			if isGeneratedFile(file) {
				continue
			}
			for _, d := range file.Decls {
				fd, ok := d.(*ast.FuncDecl)
				if !ok || fd.Body == nil {
					continue
				}
				fn, _ := info.Defs[fd.Name].(*types.Func)
				if fn == nil {
					continue
				}
				pm := buildParents(fd)
				n := 0
				ast.Inspect(fd.Body, func(nd ast.Node) bool {
					call, ok := nd.(*ast.CallExpr)
					if !ok || !isFormattingCallee(calleeOf(info, call)) {
						return true
					}
					// diagnostics are not output
					for q := pm[call]; q != nil; q = pm[q] {
						if oc, ok := q.(*ast.CallExpr); ok {
							fs := exprString(oc.Fun)
							if fs == "panic" || strings.HasSuffix(fs, "Errorf") || strings.HasSuffix(fs, "errors.New") || strings.HasPrefix(fs, "log.") {
								return true
							}
						}
					}
					if fs := exprString(call.Fun); strings.HasSuffix(fs, "Errorf") {
						return true
					}
					calls++
					for _, a := range call.Args {
						ast.Inspect(a, func(m ast.Node) bool {
							cv, ok := m.(*ast.CallExpr)
							if !ok || len(cv.Args) != 1 {
								return true
							}
							tv, ok := info.Types[cv.Fun]
							if !ok || !tv.IsType() {
								return true
							}
							tb, tu, ok1 := intKindInfo(tv.Type)
							sb, su, ok2 := intKindInfo(info.TypeOf(cv.Args[0]))
							if !ok1 || !ok2 || !su || sb != 64 {
								return true
							}
							if info.Types[cv.Args[0]].Value != nil {
								return true // a constant: the compiler rejects an overflowing conversion
							}
							if tu && tb == 64 {
								return true
							}
							n++
							obs = append(obs, Obligation{
								Key:     fmt.Sprintf("%s formats %s through %s #%d", funcKey(fn), types.ExprString(cv.Args[0]), types.ExprString(cv.Fun), n),
								Pos:     c.pos(cv.Pos()),
								Verdict: VIOL,
								Detail:  fmt.Sprintf("%s has the unsigned 64-bit type %s; converted to %s before it is formatted, values from 2^%d on print as other (negative or truncated) numbers, so the text does not denote the value the IR holds", types.ExprString(cv.Args[0]), info.TypeOf(cv.Args[0]), tv.Type, map[bool]int{true: tb, false: tb - 1}[tu]),
							})
							return true
						})
					}
					return true
				})
			}
		}
		obs = append(obs, Obligation{Key: "package " + strings.TrimPrefix(path, modLLVM+"/") + ": formatted integers keep their width", Pos: path, Verdict: OK,
			Detail: fmt.Sprintf("%d formatting calls outside diagnostics examined (hand-written files)", calls)})
	}
	return obs
}

// ---------------------------------------------------------------------------
// EQ-LEN

func ruleEQLEN(c *Ctx) []Obligation {
	var obs []Obligation
	p := c.All[pkgTYP]
	if p == nil {
		return nil
	}
	info := p.TypesInfo
	norm := func(e ast.Expr) string { return strings.ReplaceAll(exprString(e), " ", "") }
	// lenCompared: an ==/!= between len(a) and len(b) in n, positioned before limit (NoPos = anywhere)
	lenCompared := func(n ast.Node, a, b string, limit token.Pos) bool {
		found := false
		ast.Inspect(n, func(m ast.Node) bool {
			be, ok := m.(*ast.BinaryExpr)
			if !ok || be.Op != token.EQL && be.Op != token.NEQ {
				return true
			}
			if limit != token.NoPos && be.Pos() >= limit {
				return true
			}
			x, y := norm(be.X), norm(be.Y)
			if x == "len("+a+")" && y == "len("+b+")" || x == "len("+b+")" && y == "len("+a+")" {
				found = true
			}
			return true
		})
		return found
	}
	c.eachFunc(pkgTYP, func(_ *packages.Package, fd *ast.FuncDecl, fn *types.Func) {
		params := map[types.Object]int{}
		k := 0
		for _, fl := range fd.Type.Params.List {
			for _, nm := range fl.Names {
				params[info.Defs[nm]] = k
				k++
			}
			if len(fl.Names) == 0 {
				k++
			}
		}
		ast.Inspect(fd.Body, func(nd ast.Node) bool {
			var idx types.Object
			var over ast.Expr
			var body *ast.BlockStmt
			switch lp := nd.(type) {
			case *ast.RangeStmt:
				if id, ok := lp.Key.(*ast.Ident); ok && id.Name != "_" {
					idx = info.ObjectOf(id)
				}
				over, body = lp.X, lp.Body
			case *ast.ForStmt:
				// for i := 0; i < len(a); i++
				if as, ok := lp.Init.(*ast.AssignStmt); ok && len(as.Lhs) == 1 {
					if id, ok := as.Lhs[0].(*ast.Ident); ok {
						idx = info.ObjectOf(id)
					}
				}
				if be, ok := lp.Cond.(*ast.BinaryExpr); ok {
					if call, ok := unparen(be.Y).(*ast.CallExpr); ok && exprString(call.Fun) == "len" && len(call.Args) == 1 {
						over = call.Args[0]
					}
				}
				body = lp.Body
			}
			if idx == nil || over == nil || body == nil {
				return true
			}
			if _, ok := info.TypeOf(over).Underlying().(*types.Slice); !ok {
				return true
			}
			a := norm(over)
			// a second slice of the same type indexed with the loop index, where the two elements
			// meet in one comparison: a[i].Equal(b[i]), a[i] == b[i], !eq(a[i], b[i])
			others := map[string]ast.Expr{}
			ast.Inspect(body, func(m ast.Node) bool {
				switch x := m.(type) {
				case *ast.CallExpr:
				case *ast.BinaryExpr:
					if x.Op != token.EQL && x.Op != token.NEQ {
						return true
					}
				default:
					return true
				}
				hasA := false
				found := map[string]ast.Expr{}
				ast.Inspect(m, func(k ast.Node) bool {
					ie, ok := k.(*ast.IndexExpr)
					if !ok {
						return true
					}
					id, ok := unparen(ie.Index).(*ast.Ident)
					if !ok || info.ObjectOf(id) != idx {
						return true
					}
					if b := norm(ie.X); b == a {
						hasA = true
					} else if types.Identical(info.TypeOf(ie.X), info.TypeOf(over)) {
						found[b] = ie.X
					}
					return true
				})
				// `for i, t := range a { t.Equal(b[i]) }`: the element variable stands for a[i]
				if rs, ok := nd.(*ast.RangeStmt); ok && rs.Value != nil {
					if vid, ok := rs.Value.(*ast.Ident); ok && vid.Name != "_" && mentionsObj(info, m.(ast.Expr), info.ObjectOf(vid)) {
						hasA = true
					}
				}
				if hasA {
					for b, bx := range found {
						others[b] = bx
					}
				}
				return true
			})
			for b, bx := range others {
				o := Obligation{Key: fmt.Sprintf("%s compares %s with %s element by element", funcKey(fn), a, b), Pos: c.pos(nd.Pos()), Verdict: OK, Tags: []string{"types"}}
				if lenCompared(fd.Body, a, b, nd.Pos()) {
					o.Detail = "the lengths are compared ahead of the loop"
					obs = append(obs, o)
					continue
				}
				// both lists are parameters: every caller compares the lengths of its arguments
				ai, aIsParam := paramIndexOf(info, over, params)
				bi, bIsParam := paramIndexOf(info, bx, params)
				if aIsParam && bIsParam {
					callers, good := 0, 0
					c.eachFunc(pkgTYP, func(_ *packages.Package, cfd *ast.FuncDecl, _ *types.Func) {
						ast.Inspect(cfd.Body, func(m ast.Node) bool {
							call, ok := m.(*ast.CallExpr)
							if !ok || calleeOf(info, call) != fn || ai >= len(call.Args) || bi >= len(call.Args) {
								return true
							}
							callers++
							if lenCompared(cfd.Body, norm(call.Args[ai]), norm(call.Args[bi]), call.Pos()) {
								good++
							}
							return true
						})
					})
					if callers > 0 && callers == good {
						o.Detail = fmt.Sprintf("all %d callers compare the lengths of the two arguments ahead of the call", callers)
						obs = append(obs, o)
						continue
					}
				}
				o.Verdict = VIOL
				o.Detail = fmt.Sprintf("len(%s) is not compared with len(%s) by == or != ahead of the loop (here or in every caller): a list equals every longer list it is a prefix of, so x.Equal(y) and y.Equal(x) can differ (or the longer side is indexed out of range)", a, b)
				obs = append(obs, o)
			}
			return true
		})
	})
	return obs
}

func paramIndexOf(info *types.Info, e ast.Expr, params map[types.Object]int) (int, bool) {
	id, ok := unparen(e).(*ast.Ident)
	if !ok {
		return 0, false
	}
	i, ok := params[info.ObjectOf(id)]
	return i, ok
}

// ---------------------------------------------------------------------------
// FLAG-OR

func ruleFLAGOR(c *Ctx) []Obligation {
	var obs []Obligation
	c.eachFunc(pkgASM, func(p *packages.Package, fd *ast.FuncDecl, fn *types.Func) {
		info := p.TypesInfo
		sig := fn.Type().(*types.Signature)
		if sig.Results().Len() < 1 {
			return
		}
		rt := namedOf(sig.Results().At(0).Type())
		if rt == nil || rt.Obj().Pkg() == nil || rt.Obj().Pkg().Path() != pkgENUM {
			return
		}
		if b, ok := rt.Underlying().(*types.Basic); !ok || b.Info()&types.IsInteger == 0 {
			return
		}
		ast.Inspect(fd.Body, func(nd ast.Node) bool {
			var body *ast.BlockStmt
			switch lp := nd.(type) {
			case *ast.RangeStmt:
				body = lp.Body
			case *ast.ForStmt:
				body = lp.Body
			}
			if body == nil {
				return true
			}
			// accumulators: variables of the result type declared outside the loop and OR-ed inside it
			type upd struct {
				tok token.Token
				pos token.Pos
				ok  bool
			}
			updates := map[types.Object][]upd{}
			ast.Inspect(body, func(m ast.Node) bool {
				as, ok := m.(*ast.AssignStmt)
				if !ok {
					return true
				}
				for i, l := range as.Lhs {
					id, ok := unparen(l).(*ast.Ident)
					if !ok {
						continue
					}
					obj := info.ObjectOf(id)
					if obj == nil || namedOf(obj.Type()) != rt || obj.Pos() >= nd.Pos() && obj.Pos() < nd.End() {
						continue
					}
					good := as.Tok == token.OR_ASSIGN
					if as.Tok == token.ASSIGN && i < len(as.Rhs) {
						if be, ok := unparen(as.Rhs[i]).(*ast.BinaryExpr); ok && be.Op == token.OR && (mentionsObj(info, be.X, obj) || mentionsObj(info, be.Y, obj)) {
							good = true
						}
					}
					updates[obj] = append(updates[obj], upd{as.Tok, as.Pos(), good})
				}
				return true
			})
			for obj, us := range updates {
				anyOr := false
				for _, u := range us {
					anyOr = anyOr || u.ok
				}
				if !anyOr {
					continue // not a flag accumulator
				}
				o := Obligation{Key: fmt.Sprintf("%s accumulates %s only by |=", funcKey(fn), obj.Name()), Pos: c.pos(nd.Pos()), Verdict: OK, Tags: []string{"md"},
					Detail: fmt.Sprintf("%d update(s) of the accumulator inside the loop, all bitwise OR", len(us))}
				for _, u := range us {
					if !u.ok {
						o.Verdict, o.Pos = VIOL, c.pos(u.pos)
						o.Detail = fmt.Sprintf("the accumulator %s is updated by `%s` inside the loop over the flag list: bits named earlier in the list are cleared or replaced, so a value the printer spells as several flags (e.g. DIFlagVirtualInheritance = DIFlagSingleInheritance | DIFlagMultipleInheritance) is read back as another value", obj.Name(), u.tok)
						break
					}
				}
				obs = append(obs, o)
			}
			return false
		})
	})
	return obs
}

// ---------------------------------------------------------------------------
// FP-CONST-SIGN / FP-NAN-CMP

var numericSpellingRE = regexp.MustCompile(`^[+-]?(0x[0-9A-Za-z]+|[0-9]+(\.[0-9]*)?([eE][+-]?[0-9]+)?)$`)

// condChain: the conditions of the if statements (and switch-case clauses) the node lies under.
func condChain(pm parentMap, n ast.Node) []ast.Expr {
	var out []ast.Expr
	child := n
	for q := pm[n]; q != nil; child, q = q, pm[q] {
		switch x := q.(type) {
		case *ast.IfStmt:
			if child == ast.Node(x.Body) || child == x.Else {
				out = append(out, x.Cond)
			}
		case *ast.CaseClause:
			out = append(out, x.List...)
		case *ast.FuncLit:
			return out
		}
	}
	return out
}

func ruleFPCONSTSIGN(c *Ctx) []Obligation {
	var obs []Obligation
	identFn := c.lookupFunc(pkgCONS, "Float.Ident")
	if c.funcDecl(identFn) == nil {
		return []Obligation{{Key: "anchors", Verdict: UNDECIDED, Detail: "constant.(*Float).Ident not found"}}
	}
	info := c.pkg(pkgCONS).TypesInfo
	PF := c.constFuncSet(identFn)
	returns := 0
	for _, fd := range PF {
		fn, _ := info.Defs[fd.Name].(*types.Func)
		if fn == nil || fd.Body == nil {
			continue
		}
		sig := fn.Type().(*types.Signature)
		if sig.Results().Len() < 1 || !isPlainString(sig.Results().At(0).Type()) {
			continue
		}
		pm := buildParents(fd)
		n := 0
		ast.Inspect(fd.Body, func(nd ast.Node) bool {
			if _, ok := nd.(*ast.FuncLit); ok {
				return false
			}
			rs, ok := nd.(*ast.ReturnStmt)
			if !ok || len(rs.Results) == 0 {
				return true
			}
			returns++
			tv := info.Types[rs.Results[0]]
			if tv.Value == nil || !numericSpellingRE.MatchString(strings.Trim(tv.Value.ExactString(), `"`)) {
				return true
			}
			n++
			o := Obligation{Key: fmt.Sprintf("%s returns the constant spelling %s #%d", funcKey(fn), tv.Value.ExactString(), n), Pos: c.pos(rs.Pos()), Verdict: VIOL,
				Detail: "a constant numeric spelling is returned under conditions that never read Signbit: the sign of the value (−0 has Sign() == 0) is lost, so -0.0 prints as " + tv.Value.ExactString()}
			for _, cond := range condChain(pm, rs) {
				if strings.Contains(exprString(cond), "Signbit") {
					o.Verdict, o.Detail = OK, "guarded by a test of Signbit"
				}
			}
			obs = append(obs, o)
			return true
		})
	}
	obs = append(obs, Obligation{Key: "float printer: no constant spelling ahead of the sign", Pos: c.pos(c.funcDecl(identFn).Pos()), Verdict: OK,
		Detail: fmt.Sprintf("%d return statements in the %d functions of the printer's set examined", returns, len(PF))})
	return obs
}

func ruleFPNANCMP(c *Ctx) []Obligation {
	var obs []Obligation
	readFn := c.lookupFunc(pkgCONS, "NewFloatFromString")
	if c.funcDecl(readFn) == nil {
		return []Obligation{{Key: "anchors", Verdict: UNDECIDED, Detail: "constant.NewFloatFromString not found"}}
	}
	info := c.pkg(pkgCONS).TypesInfo
	RF := c.constFuncSet(readFn)
	isFloat := func(e ast.Expr) bool {
		t := info.TypeOf(e)
		if t == nil {
			return false
		}
		b, ok := t.Underlying().(*types.Basic)
		return ok && b.Info()&types.IsFloat != 0
	}
	ifs := 0
	for _, fd := range RF {
		fn, _ := info.Defs[fd.Name].(*types.Func)
		if fn == nil || fd.Body == nil {
			continue
		}
		pm := buildParents(fd)
		n := 0
		ast.Inspect(fd.Body, func(nd ast.Node) bool {
			is, ok := nd.(*ast.IfStmt)
			if !ok {
				return true
			}
			ifs++
			var cmp *ast.BinaryExpr
			ast.Inspect(is.Cond, func(m ast.Node) bool {
				if be, ok := m.(*ast.BinaryExpr); ok && (be.Op == token.NEQ || be.Op == token.EQL) && isFloat(be.X) && isFloat(be.Y) && info.Types[be].Value == nil {
					// comparisons against a constant (x == 0) are not NaN-sensitive in the harmful direction for !=
					if info.Types[be.X].Value == nil && info.Types[be.Y].Value == nil {
						cmp = be
					}
				}
				return true
			})
			if cmp == nil || !returnsError(info, is.Body.List) {
				return true
			}
			n++
			o := Obligation{Key: fmt.Sprintf("%s rejects on the floating-point comparison %s #%d", funcKey(fn), exprString(cmp), n), Pos: c.pos(is.Pos()), Verdict: VIOL,
				Detail: "the error return is guarded by a comparison between floating-point values with no test of math.IsNaN over or ahead of it: NaN compares unequal to itself, so every NaN literal of this form is rejected"}
			if strings.Contains(exprString(is.Cond), "IsNaN") {
				o.Verdict, o.Detail = OK, "the condition itself tests IsNaN"
			}
			for _, cond := range condChain(pm, is) {
				if strings.Contains(exprString(cond), "IsNaN") {
					o.Verdict, o.Detail = OK, "lies under a test of IsNaN"
				}
			}
			// an earlier statement of an enclosing block that tests IsNaN and leaves
			child := ast.Node(is)
			for q := pm[is]; q != nil && o.Verdict == VIOL; child, q = q, pm[q] {
				blk, ok := q.(*ast.BlockStmt)
				if !ok {
					continue
				}
				for _, st := range blk.List {
					if st == child {
						break
					}
					if e, ok := st.(*ast.IfStmt); ok && strings.Contains(exprString(e.Cond), "IsNaN") && len(e.Body.List) > 0 {
						if _, ok := e.Body.List[len(e.Body.List)-1].(*ast.ReturnStmt); ok {
							o.Verdict, o.Detail = OK, "NaN is handled (and returned) ahead of the comparison at "+c.pos(e.Pos())
						}
					}
				}
			}
			obs = append(obs, o)
			return true
		})
	}
	obs = append(obs, Obligation{Key: "float reader: no rejection by comparison ahead of the NaN test", Pos: c.pos(c.funcDecl(readFn).Pos()), Verdict: OK,
		Detail: fmt.Sprintf("%d if statements in the %d functions of the reader's set examined", ifs, len(RF))})
	return obs
}

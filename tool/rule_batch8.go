package main

import (
	"fmt"
	"go/ast"
	"go/constant"
	"go/token"
	"go/types"
	"regexp"
	"sort"
	"strings"

	"golang.org/x/tools/go/packages"
)

// Rules added after seeded batch 8: INT-NARROW, EQ-LEN, FLAG-OR, FP-CONST-SIGN, FP-NAN-CMP.

func init() {
	register(&Rule{
		Name:  "INT-NARROW",
		Doc:   "no printer formats an unsigned 64-bit quantity of the IR through a narrower or signed integer type: an argument of a strconv / fmt formatting call (or of a Write of a formatted number) that is a conversion int(x), int64(x), int32(x), uint32(x) … of a value whose type is 64 bits wide and unsigned changes the digits for values ≥ 2^63 (or ≥ 2^31 / 2^32 on a 32-bit platform, where int is 32 bits wide), so the printed text no longer denotes the value held. One obligation per package scanned (count of formatting calls examined), one violation per offending conversion. Generated stringer files are not scanned (their fallback arm prints unknown enumerators for diagnostics only).",
		Floor: 4,
		Run:   ruleINTNARROW,
	})
	register(&Rule{
		Name:  "EQ-LEN",
		Doc:   "a pairwise comparison of two lists in ir/types compares their lengths: for every loop over one slice whose body indexes a second slice with the loop index, the function — or, when both slices are its parameters, every caller — compares len(a) with len(b) by == or != ahead of the loop; a one-sided bound (i >= len(b)) keeps the loop from panicking but makes a list equal to every longer list it is a prefix of, which breaks symmetry of Equal",
		Floor: 2,
		Run:   ruleEQLEN,
	})
	register(&Rule{
		Name:  "FLAG-OR",
		Doc:   "the translators that fold a list of flag nodes into one flag word only ever add bits: in every function of package asm whose result is an integer enum type and which accumulates into a variable of that type inside a loop over AST nodes, every update of the accumulator inside the loop is `|=` (or acc = acc | x); clearing or replacing bits (&^=, &=, plain =) makes the result depend on the spelling of the list (DIFlagVirtualInheritance is printed as its two component bits and would be read back as one of them)",
		Floor: 2,
		Run:   ruleFLAGOR,
	})
	register(&Rule{
		Name: "FP-CONST-SIGN",
		Doc:  "the float printer never returns a constant numeric spelling without having examined the sign: a `return \"0.0\"`-like statement in the printer's function set (Float.Ident and what it calls) is guarded by a condition that reads Signbit of the value — big.Float distinguishes −0 from +0 and Sign() is 0 for both, so a constant spelling for `Sign() == 0` prints −0.0 as 0.0; likewise no function of ir/constant orders big.Float.Sign() against zero (the sign is read with Signbit: a negative NaN decoded from a hexadecimal literal is held as −0)",
		Run:  ruleFPCONSTSIGN,
	})
	register(&Rule{
		Name: "FP-NAN-CMP",
		Doc:  "the float reader rejects no NaN through a comparison: an error return of the reader's function set (NewFloatFromString and what it calls) guarded by == / != between floating-point values (a round-trip test such as float64(float32(f)) != f) lies under, or after, a test of math.IsNaN — NaN != NaN is true, so such a test ahead of the NaN branch rejects every NaN literal",
		Run:  ruleFPNANCMP,
	})
}

// ---------------------------------------------------------------------------
// INT-NARROW

func isGeneratedFile(f *ast.File) bool {
	for _, cg := range f.Comments {
		if cg.Pos() > f.Package {
			break
		}
		for _, cm := range cg.List {
			if strings.Contains(cm.Text, "Code generated") && strings.Contains(cm.Text, "DO NOT EDIT") {
				return true
			}
		}
	}
	return false
}

func intKindInfo(t types.Type) (bits int, unsigned bool, ok bool) {
	if t == nil {
		return 0, false, false
	}
	b, isB := t.Underlying().(*types.Basic)
	if !isB {
		return 0, false, false
	}
	switch b.Kind() {
	case types.Int, types.UntypedInt:
		return 32, false, true // the narrowest width int has on a supported platform
	case types.Int8:
		return 8, false, true
	case types.Int16:
		return 16, false, true
	case types.Int32:
		return 32, false, true
	case types.Int64:
		return 64, false, true
	case types.Uint, types.Uintptr:
		return 32, true, true
	case types.Uint8:
		return 8, true, true
	case types.Uint16:
		return 16, true, true
	case types.Uint32:
		return 32, true, true
	case types.Uint64:
		return 64, true, true
	}
	return 0, false, false
}

func isFormattingCallee(f *types.Func) bool {
	if f == nil || f.Pkg() == nil {
		return false
	}
	switch f.Pkg().Path() {
	case "strconv":
		return strings.HasPrefix(f.Name(), "Format") || strings.HasPrefix(f.Name(), "Append") || f.Name() == "Itoa"
	case "fmt":
		return strings.Contains(f.Name(), "print") || strings.Contains(f.Name(), "Print")
	}
	return false
}

func ruleINTNARROW(c *Ctx) []Obligation {
	var obs []Obligation
	for _, path := range []string{pkgENC, pkgIR, pkgCONS, pkgMD, pkgTYP} {
		p := c.All[path]
		if p == nil {
			continue
		}
		calls := 0
		info := p.TypesInfo
		for _, file := range p.Syntax {
			if isGeneratedFile(file) {
				continue
			}
			for _, d := range file.Decls {
				fd, ok := d.(*ast.FuncDecl)
				if !ok || fd.Body == nil {
					continue
				}
				fn, _ := info.Defs[fd.Name].(*types.Func)
				if fn == nil {
					continue
				}
				pm := buildParents(fd)
				n := 0
				ast.Inspect(fd.Body, func(nd ast.Node) bool {
					call, ok := nd.(*ast.CallExpr)
					if !ok || !isFormattingCallee(calleeOf(info, call)) {
						return true
					}
					// diagnostics are not output
					for q := pm[call]; q != nil; q = pm[q] {
						if oc, ok := q.(*ast.CallExpr); ok {
							fs := exprString(oc.Fun)
							if fs == "panic" || strings.HasSuffix(fs, "Errorf") || strings.HasSuffix(fs, "errors.New") || strings.HasPrefix(fs, "log.") {
								return true
							}
						}
					}
					if fs := exprString(call.Fun); strings.HasSuffix(fs, "Errorf") {
						return true
					}
					calls++
					for _, a := range call.Args {
						ast.Inspect(a, func(m ast.Node) bool {
							cv, ok := m.(*ast.CallExpr)
							if !ok || len(cv.Args) != 1 {
								return true
							}
							tv, ok := info.Types[cv.Fun]
							if !ok || !tv.IsType() {
								return true
							}
							tb, tu, ok1 := intKindInfo(tv.Type)
							sb, su, ok2 := intKindInfo(info.TypeOf(cv.Args[0]))
							if !ok1 || !ok2 || !su || sb != 64 {
								return true
							}
							if info.Types[cv.Args[0]].Value != nil {
								return true // a constant: the compiler rejects an overflowing conversion
							}
							if tu && tb == 64 {
								return true
							}
							n++
							obs = append(obs, Obligation{
								Key:     fmt.Sprintf("%s formats %s through %s #%d", funcKey(fn), types.ExprString(cv.Args[0]), types.ExprString(cv.Fun), n),
								Pos:     c.pos(cv.Pos()),
								Verdict: VIOL,
								Detail:  fmt.Sprintf("%s has the unsigned 64-bit type %s; converted to %s before it is formatted, values from 2^%d on print as other (negative or truncated) numbers, so the text does not denote the value the IR holds", types.ExprString(cv.Args[0]), info.TypeOf(cv.Args[0]), tv.Type, map[bool]int{true: tb, false: tb - 1}[tu]),
							})
							return true
						})
					}
					return true
				})
			}
		}
		obs = append(obs, Obligation{Key: "package " + strings.TrimPrefix(path, modLLVM+"/") + ": formatted integers keep their width", Pos: path, Verdict: OK,
			Detail: fmt.Sprintf("%d formatting calls outside diagnostics examined (hand-written files)", calls)})
	}
	return obs
}

// ---------------------------------------------------------------------------
// EQ-LEN

func ruleEQLEN(c *Ctx) []Obligation {
	var obs []Obligation
	p := c.All[pkgTYP]
	if p == nil {
		return nil
	}
	info := p.TypesInfo
	norm := func(e ast.Expr) string { return strings.ReplaceAll(exprString(e), " ", "") }
	// lenCompared: an ==/!= between len(a) and len(b) in n, positioned before limit (NoPos = anywhere)
	lenCompared := func(n ast.Node, a, b string, limit token.Pos) bool {
		found := false
		ast.Inspect(n, func(m ast.Node) bool {
			be, ok := m.(*ast.BinaryExpr)
			if !ok || be.Op != token.EQL && be.Op != token.NEQ {
				return true
			}
			if limit != token.NoPos && be.Pos() >= limit {
				return true
			}
			x, y := norm(be.X), norm(be.Y)
			if x == "len("+a+")" && y == "len("+b+")" || x == "len("+b+")" && y == "len("+a+")" {
				found = true
			}
			return true
		})
		return found
	}
	c.eachFunc(pkgTYP, func(_ *packages.Package, fd *ast.FuncDecl, fn *types.Func) {
		params := map[types.Object]int{}
		k := 0
		for _, fl := range fd.Type.Params.List {
			for _, nm := range fl.Names {
				params[info.Defs[nm]] = k
				k++
			}
			if len(fl.Names) == 0 {
				k++
			}
		}
		ast.Inspect(fd.Body, func(nd ast.Node) bool {
			var idx types.Object
			var over ast.Expr
			var body *ast.BlockStmt
			switch lp := nd.(type) {
			case *ast.RangeStmt:
				if id, ok := lp.Key.(*ast.Ident); ok && id.Name != "_" {
					idx = info.ObjectOf(id)
				}
				over, body = lp.X, lp.Body
			case *ast.ForStmt:
				// for i := 0; i < len(a); i++
				if as, ok := lp.Init.(*ast.AssignStmt); ok && len(as.Lhs) == 1 {
					if id, ok := as.Lhs[0].(*ast.Ident); ok {
						idx = info.ObjectOf(id)
					}
				}
				if be, ok := lp.Cond.(*ast.BinaryExpr); ok {
					if call, ok := unparen(be.Y).(*ast.CallExpr); ok && exprString(call.Fun) == "len" && len(call.Args) == 1 {
						over = call.Args[0]
					}
				}
				body = lp.Body
			}
			if idx == nil || over == nil || body == nil {
				return true
			}
			if _, ok := info.TypeOf(over).Underlying().(*types.Slice); !ok {
				return true
			}
			a := norm(over)
			// a second slice of the same type indexed with the loop index, where the two elements
			// meet in one comparison: a[i].Equal(b[i]), a[i] == b[i], !eq(a[i], b[i])
			others := map[string]ast.Expr{}
			ast.Inspect(body, func(m ast.Node) bool {
				switch x := m.(type) {
				case *ast.CallExpr:
				case *ast.BinaryExpr:
					if x.Op != token.EQL && x.Op != token.NEQ {
						return true
					}
				default:
					return true
				}
				hasA := false
				found := map[string]ast.Expr{}
				ast.Inspect(m, func(k ast.Node) bool {
					ie, ok := k.(*ast.IndexExpr)
					if !ok {
						return true
					}
					id, ok := unparen(ie.Index).(*ast.Ident)
					if !ok || info.ObjectOf(id) != idx {
						return true
					}
					if b := norm(ie.X); b == a {
						hasA = true
					} else if types.Identical(info.TypeOf(ie.X), info.TypeOf(over)) {
						found[b] = ie.X
					}
					return true
				})
				// `for i, t := range a { t.Equal(b[i]) }`: the element variable stands for a[i]
				if rs, ok := nd.(*ast.RangeStmt); ok && rs.Value != nil {
					if vid, ok := rs.Value.(*ast.Ident); ok && vid.Name != "_" && mentionsObj(info, m.(ast.Expr), info.ObjectOf(vid)) {
						hasA = true
					}
				}
				if hasA {
					for b, bx := range found {
						others[b] = bx
					}
				}
				return true
			})
			for b, bx := range others {
				o := Obligation{Key: fmt.Sprintf("%s compares %s with %s element by element", funcKey(fn), a, b), Pos: c.pos(nd.Pos()), Verdict: OK, Tags: []string{"types"}}
				if lenCompared(fd.Body, a, b, nd.Pos()) {
					o.Detail = "the lengths are compared ahead of the loop"
					obs = append(obs, o)
					continue
				}
				// both lists are parameters: every caller compares the lengths of its arguments
				ai, aIsParam := paramIndexOf(info, over, params)
				bi, bIsParam := paramIndexOf(info, bx, params)
				if aIsParam && bIsParam {
					callers, good := 0, 0
					c.eachFunc(pkgTYP, func(_ *packages.Package, cfd *ast.FuncDecl, _ *types.Func) {
						ast.Inspect(cfd.Body, func(m ast.Node) bool {
							call, ok := m.(*ast.CallExpr)
							if !ok || calleeOf(info, call) != fn || ai >= len(call.Args) || bi >= len(call.Args) {
								return true
							}
							callers++
							if lenCompared(cfd.Body, norm(call.Args[ai]), norm(call.Args[bi]), call.Pos()) {
								good++
							}
							return true
						})
					})
					if callers > 0 && callers == good {
						o.Detail = fmt.Sprintf("all %d callers compare the lengths of the two arguments ahead of the call", callers)
						obs = append(obs, o)
						continue
					}
				}
				o.Verdict = VIOL
				o.Detail = fmt.Sprintf("len(%s) is not compared with len(%s) by == or != ahead of the loop (here or in every caller): a list equals every longer list it is a prefix of, so x.Equal(y) and y.Equal(x) can differ (or the longer side is indexed out of range)", a, b)
				obs = append(obs, o)
			}
			return true
		})
	})
	return obs
}

func paramIndexOf(info *types.Info, e ast.Expr, params map[types.Object]int) (int, bool) {
	id, ok := unparen(e).(*ast.Ident)
	if !ok {
		return 0, false
	}
	i, ok := params[info.ObjectOf(id)]
	return i, ok
}

// ---------------------------------------------------------------------------
// FLAG-OR

func ruleFLAGOR(c *Ctx) []Obligation {
	var obs []Obligation
	c.eachFunc(pkgASM, func(p *packages.Package, fd *ast.FuncDecl, fn *types.Func) {
		info := p.TypesInfo
		sig := fn.Type().(*types.Signature)
		if sig.Results().Len() < 1 {
			return
		}
		rt := namedOf(sig.Results().At(0).Type())
		if rt == nil || rt.Obj().Pkg() == nil || rt.Obj().Pkg().Path() != pkgENUM {
			return
		}
		if b, ok := rt.Underlying().(*types.Basic); !ok || b.Info()&types.IsInteger == 0 {
			return
		}
		ast.Inspect(fd.Body, func(nd ast.Node) bool {
			var body *ast.BlockStmt
			switch lp := nd.(type) {
			case *ast.RangeStmt:
				body = lp.Body
			case *ast.ForStmt:
				body = lp.Body
			}
			if body == nil {
				return true
			}
			// accumulators: variables of the result type declared outside the loop and OR-ed inside it
			type upd struct {
				tok token.Token
				pos token.Pos
				ok  bool
			}
			updates := map[types.Object][]upd{}
			ast.Inspect(body, func(m ast.Node) bool {
				as, ok := m.(*ast.AssignStmt)
				if !ok {
					return true
				}
				for i, l := range as.Lhs {
					id, ok := unparen(l).(*ast.Ident)
					if !ok {
						continue
					}
					obj := info.ObjectOf(id)
					if obj == nil || namedOf(obj.Type()) != rt || obj.Pos() >= nd.Pos() && obj.Pos() < nd.End() {
						continue
					}
					good := as.Tok == token.OR_ASSIGN
					if as.Tok == token.ASSIGN && i < len(as.Rhs) {
						if be, ok := unparen(as.Rhs[i]).(*ast.BinaryExpr); ok && be.Op == token.OR && (mentionsObj(info, be.X, obj) || mentionsObj(info, be.Y, obj)) {
							good = true
						}
					}
					updates[obj] = append(updates[obj], upd{as.Tok, as.Pos(), good})
				}
				return true
			})
			for obj, us := range updates {
				anyOr := false
				for _, u := range us {
					anyOr = anyOr || u.ok
				}
				if !anyOr {
					continue // not a flag accumulator
				}
				o := Obligation{Key: fmt.Sprintf("%s accumulates %s only by |=", funcKey(fn), obj.Name()), Pos: c.pos(nd.Pos()), Verdict: OK, Tags: []string{"md"},
					Detail: fmt.Sprintf("%d update(s) of the accumulator inside the loop, all bitwise OR", len(us))}
				for _, u := range us {
					if !u.ok {
						o.Verdict, o.Pos = VIOL, c.pos(u.pos)
						o.Detail = fmt.Sprintf("the accumulator %s is updated by `%s` inside the loop over the flag list: bits named earlier in the list are cleared or replaced, so a value the printer spells as several flags (e.g. DIFlagVirtualInheritance = DIFlagSingleInheritance | DIFlagMultipleInheritance) is read back as another value", obj.Name(), u.tok)
						break
					}
				}
				obs = append(obs, o)
			}
			return false
		})
	})
	return obs
}

// ---------------------------------------------------------------------------
// FP-CONST-SIGN / FP-NAN-CMP

var numericSpellingRE = regexp.MustCompile(`^[+-]?(0x[0-9A-Za-z]+|[0-9]+(\.[0-9]*)?([eE][+-]?[0-9]+)?)$`)

// condChain: the conditions of the if statements (and switch-case clauses) the node lies under.
func condChain(pm parentMap, n ast.Node) []ast.Expr {
	var out []ast.Expr
	child := n
	for q := pm[n]; q != nil; child, q = q, pm[q] {
		switch x := q.(type) {
		case *ast.IfStmt:
			if child == ast.Node(x.Body) || child == x.Else {
				out = append(out, x.Cond)
			}
		case *ast.CaseClause:
			out = append(out, x.List...)
		case *ast.FuncLit:
			return out
		}
	}
	return out
}

func ruleFPCONSTSIGN(c *Ctx) []Obligation {
	var obs []Obligation
	identFn := c.lookupFunc(pkgCONS, "Float.Ident")
	if c.funcDecl(identFn) == nil {
		return []Obligation{{Key: "anchors", Verdict: UNDECIDED, Detail: "constant.(*Float).Ident not found"}}
	}
	info := c.pkg(pkgCONS).TypesInfo
	PF := c.constFuncSet(identFn)
	returns := 0
	for _, fd := range PF {
		fn, _ := info.Defs[fd.Name].(*types.Func)
		if fn == nil || fd.Body == nil {
			continue
		}
		sig := fn.Type().(*types.Signature)
		if sig.Results().Len() < 1 || !isPlainString(sig.Results().At(0).Type()) {
			continue
		}
		pm := buildParents(fd)
		n := 0
		ast.Inspect(fd.Body, func(nd ast.Node) bool {
			if _, ok := nd.(*ast.FuncLit); ok {
				return false
			}
			rs, ok := nd.(*ast.ReturnStmt)
			if !ok || len(rs.Results) == 0 {
				return true
			}
			returns++
			tv := info.Types[rs.Results[0]]
			if tv.Value == nil || !numericSpellingRE.MatchString(strings.Trim(tv.Value.ExactString(), `"`)) {
				return true
			}
			n++
			o := Obligation{Key: fmt.Sprintf("%s returns the constant spelling %s #%d", funcKey(fn), tv.Value.ExactString(), n), Pos: c.pos(rs.Pos()), Verdict: VIOL,
				Detail: "a constant numeric spelling is returned under conditions that never read Signbit: the sign of the value (−0 has Sign() == 0) is lost, so -0.0 prints as " + tv.Value.ExactString()}
			for _, cond := range condChain(pm, rs) {
				if strings.Contains(exprString(cond), "Signbit") {
					o.Verdict, o.Detail = OK, "guarded by a test of Signbit"
				}
			}
			obs = append(obs, o)
			return true
		})
	}
	// the sign of a floating-point constant is read with Signbit: Sign() is 0 for −0, which is a value of
	// its own and the carrier of the sign of the NaNs decoded by the 0xH / 0xK / 0xL / 0xM codecs
	signCmp := 0
	c.eachFunc(pkgCONS, func(_ *packages.Package, fd *ast.FuncDecl, fn *types.Func) {
		k := 0
		ast.Inspect(fd.Body, func(nd ast.Node) bool {
			be, ok := nd.(*ast.BinaryExpr)
			if !ok {
				return true
			}
			switch be.Op {
			case token.LSS, token.GTR, token.LEQ, token.GEQ:
			default:
				return true
			}
			for _, side := range []ast.Expr{be.X, be.Y} {
				call, ok := unparen(side).(*ast.CallExpr)
				if !ok {
					continue
				}
				f := calleeOf(info, call)
				if f == nil || f.Name() != "Sign" || f.Pkg() == nil || f.Pkg().Path() != "math/big" {
					continue
				}
				if rt := f.Type().(*types.Signature).Recv(); rt == nil || !isNamedPtr(rt.Type(), "math/big", "Float") {
					continue
				}
				signCmp++
				k++
				obs = append(obs, Obligation{Key: fmt.Sprintf("%s reads a sign through big.Float.Sign #%d", funcKey(fn), k), Pos: c.pos(be.Pos()), Verdict: VIOL,
					Detail: "`" + exprString(be) + "`: Sign() is 0 for negative zero, which is how the sign of a NaN decoded from a hexadecimal literal (and of −0.0) is held; Signbit reads it — a negative NaN of those forms prints with the sign bit cleared"})
			}
			return true
		})
	})
	obs = append(obs, Obligation{Key: "float printer: no constant spelling ahead of the sign", Pos: c.pos(c.funcDecl(identFn).Pos()), Verdict: OK,
		Detail: fmt.Sprintf("%d return statements in the %d functions of the printer's set examined", returns, len(PF))})
	return obs
}

func isNamedPtr(t types.Type, pkg, name string) bool {
	pt, ok := t.(*types.Pointer)
	return ok && isNamed(pt.Elem(), pkg, name)
}

func ruleFPNANCMP(c *Ctx) []Obligation {
	var obs []Obligation
	readFn := c.lookupFunc(pkgCONS, "NewFloatFromString")
	if c.funcDecl(readFn) == nil {
		return []Obligation{{Key: "anchors", Verdict: UNDECIDED, Detail: "constant.NewFloatFromString not found"}}
	}
	info := c.pkg(pkgCONS).TypesInfo
	RF := c.constFuncSet(readFn)
	isFloat := func(e ast.Expr) bool {
		t := info.TypeOf(e)
		if t == nil {
			return false
		}
		b, ok := t.Underlying().(*types.Basic)
		return ok && b.Info()&types.IsFloat != 0
	}
	ifs := 0
	for _, fd := range RF {
		fn, _ := info.Defs[fd.Name].(*types.Func)
		if fn == nil || fd.Body == nil {
			continue
		}
		pm := buildParents(fd)
		n := 0
		ast.Inspect(fd.Body, func(nd ast.Node) bool {
			is, ok := nd.(*ast.IfStmt)
			if !ok {
				return true
			}
			ifs++
			var cmp *ast.BinaryExpr
			ast.Inspect(is.Cond, func(m ast.Node) bool {
				if be, ok := m.(*ast.BinaryExpr); ok && (be.Op == token.NEQ || be.Op == token.EQL) && isFloat(be.X) && isFloat(be.Y) && info.Types[be].Value == nil {
					// comparisons against a constant (x == 0) are not NaN-sensitive in the harmful direction for !=
					if info.Types[be.X].Value == nil && info.Types[be.Y].Value == nil {
						cmp = be
					}
				}
				return true
			})
			if cmp == nil || !returnsError(info, is.Body.List) {
				return true
			}
			n++
			o := Obligation{Key: fmt.Sprintf("%s rejects on the floating-point comparison %s #%d", funcKey(fn), exprString(cmp), n), Pos: c.pos(is.Pos()), Verdict: VIOL,
				Detail: "the error return is guarded by a comparison between floating-point values with no test of math.IsNaN over or ahead of it: NaN compares unequal to itself, so every NaN literal of this form is rejected"}
			if strings.Contains(exprString(is.Cond), "IsNaN") {
				o.Verdict, o.Detail = OK, "the condition itself tests IsNaN"
			}
			for _, cond := range condChain(pm, is) {
				if strings.Contains(exprString(cond), "IsNaN") {
					o.Verdict, o.Detail = OK, "lies under a test of IsNaN"
				}
			}
			// an earlier statement of an enclosing block that tests IsNaN and leaves
			child := ast.Node(is)
			for q := pm[is]; q != nil && o.Verdict == VIOL; child, q = q, pm[q] {
				blk, ok := q.(*ast.BlockStmt)
				if !ok {
					continue
				}
				for _, st := range blk.List {
					if st == child {
						break
					}
					if e, ok := st.(*ast.IfStmt); ok && strings.Contains(exprString(e.Cond), "IsNaN") && len(e.Body.List) > 0 {
						if _, ok := e.Body.List[len(e.Body.List)-1].(*ast.ReturnStmt); ok {
							o.Verdict, o.Detail = OK, "NaN is handled (and returned) ahead of the comparison at "+c.pos(e.Pos())
						}
					}
				}
			}
			obs = append(obs, o)
			return true
		})
	}
	obs = append(obs, Obligation{Key: "float reader: no rejection by comparison ahead of the NaN test", Pos: c.pos(c.funcDecl(readFn).Pos()), Verdict: OK,
		Detail: fmt.Sprintf("%d if statements in the %d functions of the reader's set examined", ifs, len(RF))})
	return obs
}

// ---------------------------------------------------------------------------
// ENUM-ARR

func init() {
	register(&Rule{
		Name: "ENUM-ARR",
		Doc:  "an array indexed by a value of an enumerated type has room for every declared member: for every index expression A[e] in the module where A is an array of constant length N and e has an integer enum type of the module, the largest declared member is below N — an array sized by the last enumerator itself (`[enum.FuncAttrWriteOnly]bool`) is one short, and indexing it with that member panics (the compiler checks constant indices only)",
		Run:  ruleENUMARR,
	})
}

func ruleENUMARR(c *Ctx) []Obligation {
	var obs []Obligation
	maxOf := map[*types.Named]*types.Const{}
	maxMember := func(et *types.Named) *types.Const {
		if m, ok := maxOf[et]; ok {
			return m
		}
		var best *types.Const
		sc := et.Obj().Pkg().Scope()
		for _, nm := range sc.Names() {
			k, ok := sc.Lookup(nm).(*types.Const)
			if !ok || namedOf(k.Type()) != et || k.Val().Kind() != constant.Int {
				continue
			}
			if best == nil || constant.Compare(k.Val(), token.GTR, best.Val()) {
				best = k
			}
		}
		maxOf[et] = best
		return best
	}
	sites := 0
	for _, p := range c.llvmPkgs() {
		generated := map[*ast.File]bool{}
		for _, f := range p.Syntax {
			generated[f] = isGeneratedFile(f)
		}
		c.eachFunc(p.PkgPath, func(p *packages.Package, fd *ast.FuncDecl, fn *types.Func) {
			info := p.TypesInfo
			// stringer output indexes its tables with range-checked, re-based values
			for f, g := range generated {
				if g && f.Pos() <= fd.Pos() && fd.End() <= f.End() {
					return
				}
			}
			n := 0
			ast.Inspect(fd.Body, func(nd ast.Node) bool {
				ix, ok := nd.(*ast.IndexExpr)
				if !ok {
					return true
				}
				et := namedOf(info.TypeOf(ix.Index))
				if et == nil || et.Obj().Pkg() == nil || !c.isLLVM(et.Obj().Pkg().Path()) {
					return true
				}
				// a bound test on the array in the same function: the index is range-checked by hand
				guarded := false
				want := "len(" + strings.ReplaceAll(exprString(ix.X), " ", "") + ")"
				ast.Inspect(fd.Body, func(k ast.Node) bool {
					if call, ok := k.(*ast.CallExpr); ok && strings.ReplaceAll(exprString(call), " ", "") == want {
						guarded = true
					}
					return !guarded
				})
				if guarded {
					return true
				}
				if b, ok := et.Underlying().(*types.Basic); !ok || b.Info()&types.IsInteger == 0 {
					return true
				}
				if info.Types[ix.Index].Value != nil {
					return true // a constant index is checked by the compiler
				}
				xt := info.TypeOf(ix.X)
				if xt == nil {
					return true
				}
				if pt, ok := xt.Underlying().(*types.Pointer); ok {
					xt = pt.Elem()
				}
				at, ok := xt.Underlying().(*types.Array)
				if !ok {
					return true
				}
				m := maxMember(et)
				if m == nil {
					return true
				}
				sites++
				n++
				mv, _ := constant.Int64Val(m.Val())
				o := Obligation{Key: fmt.Sprintf("%s: array %s indexed by %s #%d has room for every member", funcKey(fn), types.ExprString(ix.X), typeKey(et), n), Pos: c.pos(ix.Pos()), Verdict: OK,
					Detail: fmt.Sprintf("length %d, largest member %s = %d", at.Len(), m.Name(), mv)}
				if mv >= at.Len() {
					o.Verdict = VIOL
					o.Detail = fmt.Sprintf("the array has length %d but the largest declared member of %s is %s = %d: indexing with that member is out of range and panics at run time", at.Len(), typeKey(et), m.Name(), mv)
				}
				obs = append(obs, o)
				return true
			})
		})
	}
	obs = append(obs, Obligation{Key: "arrays indexed by enum values examined", Verdict: OK, Detail: fmt.Sprintf("%d index expression(s) on fixed-length arrays with an enum-typed, non-constant index", sites)})
	return obs
}

// ---------------------------------------------------------------------------
// ENC-VERB

func init() {
	register(&Rule{
		Name:  "ENC-VERB",
		Doc:   "an identifier encoder of internal/enc writes its argument verbatim and unquoted only when every byte of it is an identifier character: for every func(name string) string of the package and every `+` chain in it that contains the parameter itself (not the output of an escaper) and fewer than two quote literals, the enclosing guard — strconv.ParseUint/ParseInt succeeded, or a predicate over the bytes — accepts only bytes of LLVM's identifier alphabet [-a-zA-Z$._0-9]; a guard that requires a byte outside it (a name that starts and ends with a quote, say) makes two different names print alike, and an unrecognised guard is undecided",
		Floor: 1,
		Run:   ruleENCVERB,
	})
}

// requiredBytes: bytes a predicate func(s string) bool insists on — `if … s[K] != 'c' … { return false }`.
func requiredBytes(info *types.Info, fd *ast.FuncDecl) []byte {
	var out []byte
	if fd.Type.Params == nil || len(fd.Type.Params.List) != 1 || len(fd.Type.Params.List[0].Names) != 1 {
		return nil
	}
	param := info.ObjectOf(fd.Type.Params.List[0].Names[0])
	for _, st := range fd.Body.List {
		is, ok := st.(*ast.IfStmt)
		if !ok || len(is.Body.List) != 1 {
			continue
		}
		ret, ok := is.Body.List[0].(*ast.ReturnStmt)
		if !ok || len(ret.Results) != 1 || exprString(ret.Results[0]) != "false" {
			continue
		}
		conds := []ast.Expr{is.Cond}
		for i := 0; i < len(conds); i++ {
			be, ok := unparen(conds[i]).(*ast.BinaryExpr)
			if !ok {
				continue
			}
			if be.Op == token.LOR {
				conds = append(conds, be.X, be.Y)
				continue
			}
			if be.Op != token.NEQ {
				continue
			}
			ix, ok := unparen(be.X).(*ast.IndexExpr)
			if !ok {
				continue
			}
			if id, ok := unparen(ix.X).(*ast.Ident); !ok || info.ObjectOf(id) != param {
				continue
			}
			if v := info.Types[be.Y].Value; v != nil && v.Kind() == constant.Int {
				if n, ok := constant.Int64Val(v); ok && n >= 0 && n < 256 {
					out = append(out, byte(n))
				}
			}
		}
	}
	return out
}

func ruleENCVERB(c *Ctx) []Obligation {
	var obs []Obligation
	var alphabet [256]bool
	for _, b := range []byte("-$._abcdefghijklmnopqrstuvwxyzABCDEFGHIJKLMNOPQRSTUVWXYZ0123456789") {
		alphabet[b] = true
	}
	c.eachFunc(pkgENC, func(p *packages.Package, fd *ast.FuncDecl, fn *types.Func) {
		info := p.TypesInfo
		sig := fn.Type().(*types.Signature)
		// an encoder: string → string, exported — or the method of a descriptor object that does the work
		// for several exported encoders (identClass.encodeName)
		if sig.Params().Len() != 1 || sig.Results().Len() != 1 || !isPlainString(sig.Params().At(0).Type()) || !isPlainString(sig.Results().At(0).Type()) || !fn.Exported() && sig.Recv() == nil {
			return
		}
		param := types.Object(sig.Params().At(0))
		pm := buildParents(fd)
		n := 0
		ast.Inspect(fd.Body, func(nd ast.Node) bool {
			be, ok := nd.(*ast.BinaryExpr)
			if !ok || be.Op != token.ADD {
				return true
			}
			if par, ok := pm[be].(*ast.BinaryExpr); ok && par.Op == token.ADD {
				return true
			}
			if tv := info.Types[be]; tv.Value != nil || !isPlainString(tv.Type) {
				return true
			}
			var operands []ast.Expr
			var flat func(e ast.Expr)
			flat = func(e ast.Expr) {
				if b, ok := unparen(e).(*ast.BinaryExpr); ok && b.Op == token.ADD {
					flat(b.X)
					flat(b.Y)
					return
				}
				operands = append(operands, unparen(e))
			}
			flat(be)
			quotes, raw := 0, false
			for _, op := range operands {
				if tv := info.Types[op]; tv.Value != nil && tv.Value.Kind() == constant.String && strings.Contains(constant.StringVal(tv.Value), `"`) {
					quotes++
				}
				if id, ok := op.(*ast.Ident); ok && info.ObjectOf(id) == param {
					raw = true
				}
			}
			if !raw || quotes >= 2 {
				return true // quoted by hand: ENC-SET
			}
			for q := pm[be]; q != nil; q = pm[q] {
				if call, ok := q.(*ast.CallExpr); ok {
					fs := exprString(call.Fun)
					if fs == "panic" || strings.HasSuffix(fs, "Errorf") || strings.HasSuffix(fs, "errors.New") {
						return true
					}
				}
			}
			n++
			o := Obligation{Key: fmt.Sprintf("%s writes its argument verbatim and unquoted #%d", funcKey(fn), n), Pos: c.pos(be.Pos()), Verdict: OK}
			acc, how, ok := c.guardAccepts(info, pm, be, param)
			if ok {
				var bad []string
				for b := 0; b < 256; b++ {
					if acc[b] && !alphabet[b] {
						bad = append(bad, fmt.Sprintf("%#02x", b))
					}
				}
				if len(bad) > 0 {
					o.Verdict = VIOL
					o.Detail = fmt.Sprintf("the guard (%s) lets bytes %s through to the unquoted spelling, which are not identifier characters: the lexer ends the name there, or reads the text as another name", how, strings.Join(bad, " "))
				} else {
					o.Detail = "guard " + how + " accepts identifier characters only"
				}
				obs = append(obs, o)
				return true
			}
			// a predicate that cannot be evaluated as a byte class: does it insist on a byte outside the alphabet?
			o.Verdict, o.Detail = UNDECIDED, "the argument is written unquoted under a guard that is neither a strconv parse nor a byte-class predicate"
			child := ast.Node(be)
			for q := pm[be]; q != nil; child, q = q, pm[q] {
				is, isIf := q.(*ast.IfStmt)
				if !isIf || child != ast.Node(is.Body) {
					continue
				}
				if call, ok := unparen(is.Cond).(*ast.CallExpr); ok && len(call.Args) == 1 {
					if f := calleeOf(info, call); f != nil && f.Pkg() != nil {
						if pfd := c.funcDecl(f); pfd != nil && pfd.Body != nil {
							for _, b := range requiredBytes(c.declPkg[pfd].TypesInfo, pfd) {
								if !alphabet[b] {
									o.Verdict = VIOL
									o.Detail = fmt.Sprintf("the guard %s requires the byte %q in the name, which is not an identifier character, and the name is then written verbatim and unquoted: the text is read back as a different name (a quoted one with the quotes stripped), so two different names print alike", f.Name(), string(rune(b)))
								}
							}
						}
					}
				}
			}
			obs = append(obs, o)
			return true
		})
	})
	return obs
}

// ---------------------------------------------------------------------------
// FMT-CONST

func init() {
	register(&Rule{
		Name:  "FMT-CONST",
		Doc:   "no printer hands data to fmt as a format string: in the IR packages every call of fmt.Sprintf / Fprintf / Appendf (and of the writer wrapper's Fprintf) outside diagnostics has a constant format argument — text that was already encoded (a quoted string may contain a raw `%`) and is then interpreted as a format prints `%!d(MISSING)` or swallows what follows, so the printed token no longer denotes the bytes held. One summary obligation per package, one violation per call with a non-constant format",
		Floor: 4,
		Run:   ruleFMTCONST,
	})
}

func ruleFMTCONST(c *Ctx) []Obligation {
	var obs []Obligation
	for _, path := range []string{pkgENC, pkgIR, pkgCONS, pkgMD, pkgTYP} {
		p := c.All[path]
		if p == nil {
			continue
		}
		info := p.TypesInfo
		calls := 0
		c.eachFunc(path, func(_ *packages.Package, fd *ast.FuncDecl, fn *types.Func) {
			pm := buildParents(fd)
			n := 0
			ast.Inspect(fd.Body, func(nd ast.Node) bool {
				call, ok := nd.(*ast.CallExpr)
				if !ok {
					return true
				}
				f := calleeOf(info, call)
				if f == nil || f.Pkg() == nil || !strings.HasSuffix(f.Name(), "f") {
					return true
				}
				sig := f.Type().(*types.Signature)
				if !sig.Variadic() || sig.Params().Len() < 2 {
					return true
				}
				fi := sig.Params().Len() - 2
				if !isPlainString(sig.Params().At(fi).Type()) || fi >= len(call.Args) {
					return true
				}
				switch {
				case f.Pkg().Path() == "fmt" && (f.Name() == "Sprintf" || f.Name() == "Fprintf" || f.Name() == "Appendf" || f.Name() == "Printf"):
				case c.isLLVM(f.Pkg().Path()) && f.Name() == "Fprintf":
				default:
					return true
				}
				for q := pm[call]; q != nil; q = pm[q] {
					if oc, ok := q.(*ast.CallExpr); ok {
						fs := exprString(oc.Fun)
						if fs == "panic" || strings.HasSuffix(fs, "Errorf") || strings.HasSuffix(fs, "errors.New") || strings.HasPrefix(fs, "log.") {
							return true
						}
					}
				}
				calls++
				if info.Types[call.Args[fi]].Value != nil {
					return true
				}
				// a wrapper forwarding its own format parameter (fmtWriter.Fprintf → fmt.Fprintf)
				if id, ok := unparen(call.Args[fi]).(*ast.Ident); ok {
					if v, ok := info.ObjectOf(id).(*types.Var); ok {
						ps := fn.Type().(*types.Signature).Params()
						for i := 0; i < ps.Len(); i++ {
							if ps.At(i) == v {
								return true
							}
						}
					}
				}
				// a local closure forwarding its own format parameter (addField := func(format string, a ...interface{}) { … Sprintf(format, a...) }):
				// judged at the calls of the closure
				if id, ok := unparen(call.Args[fi]).(*ast.Ident); ok {
					forwarded := false
					for q := pm[call]; q != nil; q = pm[q] {
						fl, ok := q.(*ast.FuncLit)
						if !ok {
							continue
						}
						k := 0
						for _, fld := range fl.Type.Params.List {
							for _, pn := range fld.Names {
								if info.Defs[pn] == info.ObjectOf(id) {
									forwarded = true
									// the variable the closure is bound to
									if as, ok := pm[fl].(*ast.AssignStmt); ok && len(as.Lhs) == 1 {
										if vid, ok := as.Lhs[0].(*ast.Ident); ok {
											vobj := info.ObjectOf(vid)
											pk := k
											ast.Inspect(fd.Body, func(m ast.Node) bool {
												cc, ok := m.(*ast.CallExpr)
												if !ok {
													return true
												}
												if cid, ok := unparen(cc.Fun).(*ast.Ident); ok && info.ObjectOf(cid) == vobj && pk < len(cc.Args) && info.Types[cc.Args[pk]].Value == nil {
													n++
													obs = append(obs, Obligation{Key: fmt.Sprintf("%s: format of %s #%d is a constant", funcKey(fn), vid.Name, n), Pos: c.pos(cc.Pos()), Verdict: VIOL,
														Detail: "the format handed to the local formatting closure, `" + exprString(cc.Args[pk]) + "`, is computed from data"})
												}
												return true
											})
										}
									}
								}
								k++
							}
						}
						break
					}
					if forwarded {
						return true
					}
				}
				n++
				obs = append(obs, Obligation{Key: fmt.Sprintf("%s: format of %s #%d is a constant", funcKey(fn), f.Name(), n), Pos: c.pos(call.Pos()), Verdict: VIOL,
					Detail: "the format argument `" + exprString(call.Args[fi]) + "` is computed from data: a `%` in it (quoted strings keep `%` raw) is interpreted by fmt, so the output is not the text that was assembled"})
				return true
			})
		})
		obs = append(obs, Obligation{Key: "package " + strings.TrimPrefix(path, modLLVM+"/") + ": formats are constants", Pos: path, Verdict: OK,
			Detail: fmt.Sprintf("%d formatting calls outside diagnostics examined", calls)})
	}
	return obs
}

// ---------------------------------------------------------------------------
// SCRATCH-BUF

func init() {
	register(&Rule{
		Name: "SCRATCH-BUF",
		Doc:  "the translator hands no reused backing array to the IR: in package asm, a slice obtained by re-slicing a field of a longer-lived object to length zero (buf := fgen.scratch[:0]) and grown by append is not passed to a function of the IR packages, stored in a field of an IR object or placed in a composite literal of an IR type — the constructors keep the slice they are given, so the objects built from one buffer share their operand slots and a write through one changes the others. One summary obligation (re-slices examined), one violation per escaping use",
		Run:  ruleSCRATCHBUF,
	})
}

func ruleSCRATCHBUF(c *Ctx) []Obligation {
	var obs []Obligation
	reslices := 0
	isIRPkg := func(path string) bool {
		return c.isLLVM(path) && path != pkgASM && !strings.HasPrefix(path, pkgASM+"/") && !strings.Contains(path, "/internal/")
	}
	c.eachFunc(pkgASM, func(p *packages.Package, fd *ast.FuncDecl, fn *types.Func) {
		info := p.TypesInfo
		bufs := map[types.Object]token.Pos{}
		isScratch := func(e ast.Expr) bool {
			se, ok := unparen(e).(*ast.SliceExpr)
			if !ok || se.High == nil || se.Low != nil && exprString(se.Low) != "0" {
				return false
			}
			if tv := info.Types[se.High]; tv.Value == nil || tv.Value.ExactString() != "0" {
				return false
			}
			_, isField := unparen(se.X).(*ast.SelectorExpr)
			return isField
		}
		// collect buffers and their append chains (two passes reach chains of length two)
		for pass := 0; pass < 2; pass++ {
			ast.Inspect(fd.Body, func(nd ast.Node) bool {
				as, ok := nd.(*ast.AssignStmt)
				if !ok || len(as.Lhs) != len(as.Rhs) {
					return true
				}
				for i, l := range as.Lhs {
					id, ok := unparen(l).(*ast.Ident)
					if !ok {
						continue
					}
					r := unparen(as.Rhs[i])
					if isScratch(r) {
						if pass == 0 {
							reslices++
						}
						bufs[info.ObjectOf(id)] = r.Pos()
						continue
					}
					if call, ok := r.(*ast.CallExpr); ok && exprString(call.Fun) == "append" && len(call.Args) >= 1 {
						if bid, ok := unparen(call.Args[0]).(*ast.Ident); ok {
							if pos, isBuf := bufs[info.ObjectOf(bid)]; isBuf {
								bufs[info.ObjectOf(id)] = pos
							}
						}
					}
				}
				return true
			})
		}
		if len(bufs) == 0 {
			return
		}
		n := 0
		report := func(pos token.Pos, what string) {
			n++
			obs = append(obs, Obligation{Key: fmt.Sprintf("%s: reused buffer reaches the IR #%d", funcKey(fn), n), Pos: c.pos(pos), Verdict: VIOL,
				Detail: what + ": the slice shares its backing array with every other object built from the same buffer, so their operand slots alias — a write through the slot of one instruction changes another"})
		}
		isBuf := func(e ast.Expr) bool {
			id, ok := unparen(e).(*ast.Ident)
			if !ok {
				return false
			}
			_, ok = bufs[info.ObjectOf(id)]
			return ok
		}
		ast.Inspect(fd.Body, func(nd ast.Node) bool {
			switch x := nd.(type) {
			case *ast.CallExpr:
				f := calleeOf(info, x)
				if f == nil || f.Pkg() == nil || !isIRPkg(f.Pkg().Path()) {
					return true
				}
				for _, a := range x.Args {
					if isBuf(a) {
						report(a.Pos(), "the buffer is passed to "+f.Pkg().Name()+"."+f.Name())
					}
				}
			case *ast.AssignStmt:
				for i, l := range x.Lhs {
					if i < len(x.Rhs) && isBuf(x.Rhs[i]) {
						if se, ok := unparen(l).(*ast.SelectorExpr); ok {
							if nt := namedOf(info.TypeOf(se.X)); nt != nil && nt.Obj().Pkg() != nil && isIRPkg(nt.Obj().Pkg().Path()) {
								report(x.Pos(), "the buffer is stored in "+typeKey(nt)+"."+se.Sel.Name)
							}
						}
					}
				}
			case *ast.CompositeLit:
				if nt := namedOf(info.TypeOf(x)); nt != nil && nt.Obj().Pkg() != nil && isIRPkg(nt.Obj().Pkg().Path()) {
					for _, el := range x.Elts {
						v := el
						if kv, ok := el.(*ast.KeyValueExpr); ok {
							v = kv.Value
						}
						if isBuf(v) {
							report(v.Pos(), "the buffer is placed in a "+typeKey(nt)+" literal")
						}
					}
				}
			}
			return true
		})
	})
	obs = append(obs, Obligation{Key: "package asm: reused buffers stay out of the IR", Verdict: OK, Detail: fmt.Sprintf("%d zero-length re-slice(s) of fields examined", reslices)})
	return obs
}

// ---------------------------------------------------------------------------
// SHIFT-WIDTH

func init() {
	register(&Rule{
		Name: "SHIFT-WIDTH",
		Doc:  "a power of two computed in a machine integer stays inside it: for every shift `c << n` in the module with a constant left operand, a non-constant count and a signed 64-bit result (big.NewInt(1 << n), int64(1) << n) that lies under a guard bounding the count (`n < K`, `n <= K`), the largest admitted count leaves the sign bit alone (K ≤ 63 for `<`, ≤ 62 for `<=`, less the bit length of c beyond one) — `if n < 64 { big.NewInt(1 << n) }` is −2^63 for n = 63, which reads i63 s0x7FFF… as a positive number. Unguarded shifts are not judged. One summary obligation, one violation per offending shift",
		Run:  ruleSHIFTWIDTH,
	})
}

func ruleSHIFTWIDTH(c *Ctx) []Obligation {
	var obs []Obligation
	shifts := 0
	for _, p := range c.llvmPkgs() {
		c.eachFunc(p.PkgPath, func(p *packages.Package, fd *ast.FuncDecl, fn *types.Func) {
			info := p.TypesInfo
			pm := buildParents(fd)
			n := 0
			ast.Inspect(fd.Body, func(nd ast.Node) bool {
				be, ok := nd.(*ast.BinaryExpr)
				if !ok || be.Op != token.SHL {
					return true
				}
				lv := info.Types[be.X].Value
				if lv == nil || lv.Kind() != constant.Int || info.Types[be.Y].Value != nil {
					return true
				}
				bt, ok := info.TypeOf(be).Underlying().(*types.Basic)
				if !ok {
					return true
				}
				signed := bt.Kind() == types.Int64 || bt.Kind() == types.Int
				if !signed && bt.Kind() != types.Uint64 && bt.Kind() != types.Uint {
					return true
				}
				// the count: a variable (possibly converted), or a bit-size field read in place
				var cnt *ast.Ident
				switch y := unparen(be.Y).(type) {
				case *ast.Ident:
					cnt = y
				case *ast.CallExpr:
					if tv, ok := info.Types[y.Fun]; ok && tv.IsType() && len(y.Args) == 1 {
						cnt, _ = unparen(y.Args[0]).(*ast.Ident)
					}
				}
				if cnt == nil && !strings.Contains(exprString(be.Y), ".BitSize") {
					return true
				}
				shifts++
				lbits := int64(constant.BitLen(lv)) // 1 for the constant 1
				// the count is the bit size of an integer type (IntType.BitSize, unbounded for all practical
				// purposes): without a bound the shift leaves the machine word for widths of 64 and more
				isBitSize := func(e ast.Expr) bool {
					if se, ok := unparen(e).(*ast.SelectorExpr); ok && se.Sel.Name == "BitSize" {
						return true
					}
					if call, ok := unparen(e).(*ast.CallExpr); ok && len(call.Args) == 1 {
						if tv, ok := info.Types[call.Fun]; ok && tv.IsType() {
							if se, ok := unparen(call.Args[0]).(*ast.SelectorExpr); ok && se.Sel.Name == "BitSize" {
								return true
							}
						}
					}
					return false
				}
				fromBitSize := isBitSize(be.Y)
				if !fromBitSize && cnt != nil {
					for _, d := range collectDefs(info, fd.Body)[info.ObjectOf(cnt)] {
						if isBitSize(d) {
							fromBitSize = true
						}
					}
				}
				bounded := false
				limit := int64(63)
				if !signed {
					limit = 64
				}
				// the guard: an enclosing if whose condition bounds the count from above
				child := ast.Node(be)
				for q := pm[be]; q != nil; child, q = q, pm[q] {
					is, isIf := q.(*ast.IfStmt)
					if !isIf || child != ast.Node(is.Body) {
						continue
					}
					conds := []ast.Expr{is.Cond}
					for i := 0; i < len(conds); i++ {
						g, ok := unparen(conds[i]).(*ast.BinaryExpr)
						if !ok {
							continue
						}
						if g.Op == token.LAND {
							conds = append(conds, g.X, g.Y)
							continue
						}
						if g.Op != token.LSS && g.Op != token.LEQ {
							continue
						}
						gid, ok := unparen(g.X).(*ast.Ident)
						if !ok || cnt == nil || info.ObjectOf(gid) != info.ObjectOf(cnt) {
							// a bound on the bit-size field itself: `typ.BitSize < 64`
							if cnt != nil || strings.ReplaceAll(exprString(g.X), " ", "") != strings.ReplaceAll(strings.TrimSuffix(strings.TrimPrefix(exprString(unparen(be.Y)), "uint("), ")"), " ", "") {
								continue
							}
						}
						kv := info.Types[g.Y].Value
						if kv == nil || kv.Kind() != constant.Int {
							continue
						}
						k, _ := constant.Int64Val(kv)
						maxCount := k
						if g.Op == token.LSS {
							maxCount = k - 1
						}
						n++
						o := Obligation{Key: fmt.Sprintf("%s: shift %s stays below the sign bit #%d", funcKey(fn), exprString(be), n), Pos: c.pos(be.Pos()), Verdict: OK,
							Detail: fmt.Sprintf("count ≤ %d under `%s`", maxCount, exprString(g))}
						bounded = true
						if maxCount+lbits > limit {
							o.Verdict = VIOL
							o.Detail = fmt.Sprintf("under `%s` the count reaches %d, and %s shifted by %d does not fit a signed 64-bit integer (it is negative or wraps): the value computed for that width is wrong", exprString(g), maxCount, exprString(be.X), maxCount)
						}
						obs = append(obs, o)
						return true
					}
				}
				// a guard clause ahead of the shift: `if n > K { return … }` bounds the count as well
				if !bounded {
					cs := strings.ReplaceAll(exprString(unparen(be.Y)), " ", "")
					if call, ok := unparen(be.Y).(*ast.CallExpr); ok && len(call.Args) == 1 {
						if tv, ok := info.Types[call.Fun]; ok && tv.IsType() {
							cs = strings.ReplaceAll(exprString(unparen(call.Args[0])), " ", "")
						}
					}
					var holder ast.Node = be
					for q := pm[be]; q != nil && !bounded; holder, q = q, pm[q] {
						blk, ok := q.(*ast.BlockStmt)
						if !ok {
							continue
						}
						for _, st := range blk.List {
							if st == holder {
								break
							}
							is, ok := st.(*ast.IfStmt)
							if !ok || len(is.Body.List) == 0 {
								continue
							}
							switch is.Body.List[len(is.Body.List)-1].(type) {
							case *ast.ReturnStmt, *ast.BranchStmt:
							default:
								if !endsInPanic(is.Body.List) {
									continue
								}
							}
							g, ok := unparen(is.Cond).(*ast.BinaryExpr)
							if !ok || g.Op != token.GTR && g.Op != token.GEQ {
								continue
							}
							if strings.ReplaceAll(exprString(g.X), " ", "") != cs {
								continue
							}
							kv := info.Types[g.Y].Value
							if kv == nil || kv.Kind() != constant.Int {
								continue
							}
							k, _ := constant.Int64Val(kv)
							maxCount := k
							if g.Op == token.GEQ {
								maxCount = k - 1
							}
							// a mask `1<<n - 1` in an unsigned word is right at n = 64 too (the shift wraps to 0)
							lim := limit
							if par, ok := pm[be].(*ast.BinaryExpr); ok && par.Op == token.SUB && !signed {
								lim = 65
							} else if pe, ok := pm[be].(*ast.ParenExpr); ok {
								if par, ok := pm[pe].(*ast.BinaryExpr); ok && par.Op == token.SUB && !signed {
									lim = 65
								}
							}
							bounded = true
							n++
							o := Obligation{Key: fmt.Sprintf("%s: shift %s stays inside the word #%d", funcKey(fn), exprString(be), n), Pos: c.pos(be.Pos()), Verdict: OK,
								Detail: fmt.Sprintf("count ≤ %d after the guard clause `%s`", maxCount, exprString(g))}
							if maxCount+lbits > lim {
								o.Verdict = VIOL
								o.Detail = fmt.Sprintf("after the guard clause `%s` the count still reaches %d, and %s shifted by %d leaves the 64-bit word: the value computed for that width is wrong", exprString(g), maxCount, exprString(be.X), maxCount)
							}
							obs = append(obs, o)
							break
						}
					}
				}
				if fromBitSize && !bounded {
					n++
					obs = append(obs, Obligation{Key: fmt.Sprintf("%s: shift %s by a bit size is bounded #%d", funcKey(fn), exprString(be), n), Pos: c.pos(be.Pos()), Verdict: VIOL,
						Detail: fmt.Sprintf("the count is the bit size of an integer type and no enclosing condition bounds it: for widths of %d and more the shift leaves the 64-bit word (the result is 0 or negative), so the value computed for i64 and wider types is wrong", limit)})
				}
				return true
			})
		})
	}
	obs = append(obs, Obligation{Key: "shifts of constants by variable counts examined", Verdict: OK, Detail: fmt.Sprintf("%d shift(s) with a signed 64-bit result", shifts)})
	return obs
}

// ---------------------------------------------------------------------------
// CTOR-PANIC

func init() {
	register(&Rule{
		Name:  "CTOR-PANIC",
		Doc:   "the parser calls no constructor of the IR packages that rejects its operands by panicking on a type comparison: for every function of ir, ir/constant, ir/types and ir/metadata that package asm calls, no panic in its body (or in a same-package helper it calls, depth 2) is guarded by a condition that compares types with Equal — input that LLVM accepts (an element spelled through a named non-struct type, a vector-of-pointers base) would crash the caller of the parser, since Equal on pointer types compares printed names. One obligation per constructor called from asm; the getelementptr constructors of ir and ir/constant are judged the same way although asm does not call them, because they must accept what the shared walk accepts",
		Floor: 20,
		Run:   ruleCTORPANIC,
	})
}

func ruleCTORPANIC(c *Ctx) []Obligation {
	var obs []Obligation
	targets := map[*types.Func]bool{}
	irPkgs := map[string]bool{pkgIR: true, pkgCONS: true, pkgTYP: true, pkgMD: true}
	c.eachFunc(pkgASM, func(p *packages.Package, fd *ast.FuncDecl, _ *types.Func) {
		ast.Inspect(fd.Body, func(nd ast.Node) bool {
			if call, ok := nd.(*ast.CallExpr); ok {
				if f := calleeOf(p.TypesInfo, call); f != nil && f.Pkg() != nil && irPkgs[f.Pkg().Path()] && f.Type().(*types.Signature).Recv() == nil {
					targets[f] = true
				}
			}
			return true
		})
	})
	for _, path := range []string{pkgIR, pkgCONS} {
		c.eachFunc(path, func(_ *packages.Package, fd *ast.FuncDecl, fn *types.Func) {
			if fn.Type().(*types.Signature).Recv() == nil && strings.Contains(fn.Name(), "GetElementPtr") && strings.HasPrefix(fn.Name(), "New") {
				targets[fn] = true
			}
		})
	}
	var typePanic func(fd *ast.FuncDecl, depth int, seen map[*ast.FuncDecl]bool) (token.Pos, string)
	typePanic = func(fd *ast.FuncDecl, depth int, seen map[*ast.FuncDecl]bool) (token.Pos, string) {
		if fd == nil || fd.Body == nil || seen[fd] {
			return token.NoPos, ""
		}
		seen[fd] = true
		info := c.declPkg[fd].TypesInfo
		pm := buildParents(fd)
		var pos token.Pos
		var why string
		ast.Inspect(fd.Body, func(nd ast.Node) bool {
			if pos != token.NoPos {
				return false
			}
			call, ok := nd.(*ast.CallExpr)
			if !ok {
				return true
			}
			if id, ok := unparen(call.Fun).(*ast.Ident); ok && id.Name == "panic" {
				for _, cond := range condChain(pm, call) {
					found := false
					ast.Inspect(cond, func(k ast.Node) bool {
						if cc, ok := k.(*ast.CallExpr); ok {
							if se, ok := unparen(cc.Fun).(*ast.SelectorExpr); ok && se.Sel.Name == "Equal" {
								if f := calleeOf(info, cc); f != nil && f.Pkg() != nil && f.Pkg().Path() == pkgTYP {
									found = true
								}
							}
						}
						// a failed assertion to a concrete type kind: `t, ok := x.Type().(*types.PointerType); if !ok { panic }`
						return !found
					})
					if found {
						pos, why = call.Pos(), "panics under `"+exprString(cond)+"`"
						return false
					}
				}
				return true
			}
			if depth < 2 {
				if f := calleeOf(info, call); f != nil && f.Pkg() != nil && f.Pkg() == c.declPkg[fd].Types {
					if hp, hw := typePanic(c.funcDecl(f), depth+1, seen); hp != token.NoPos {
						pos, why = hp, hw+" (in "+f.Name()+")"
						return false
					}
				}
			}
			return true
		})
		return pos, why
	}
	var fns []*types.Func
	for f := range targets {
		fns = append(fns, f)
	}
	sort.Slice(fns, func(i, j int) bool { return funcKey(fns[i]) < funcKey(fns[j]) })
	for _, f := range fns {
		fd := c.funcDecl(f)
		if fd == nil {
			continue
		}
		o := Obligation{Key: funcKey(f) + " does not reject operands by a panicking type comparison", Pos: c.pos(fd.Pos()), Verdict: OK, Detail: "no panic under a types.Equal comparison"}
		if pos, why := typePanic(fd, 0, map[*ast.FuncDecl]bool{}); pos != token.NoPos {
			o.Verdict, o.Pos = VIOL, c.pos(pos)
			o.Detail = "this constructor is on the parser's path (or is a getelementptr constructor) and " + why + ": Equal on pointer types compares printed names, so an operand spelled through a named non-struct type — valid LLVM — makes asm.Parse* crash its caller, and forms the shared gep walk accepts are rejected"
		}
		obs = append(obs, o)
	}
	return obs
}

// ---------------------------------------------------------------------------
// CALL-SIG

func init() {
	register(&Rule{
		Name:  "CALL-SIG",
		Doc:   "a call-site printer spells the full function type whenever the signature of the call is variadic, whatever kind of value the callee is: in the printer of every IR type that has a Sig() method (call, invoke, callbr), and in the helpers it hands the callee to, every read of a Variadic flag has the result of that Sig() as its base (directly, or through a local or parameter bound to it) and one such read exists — a flag taken from the callee asserted to *ir.Func leaves out calls through bitcast constant expressions and inline assembler, whose printed text the parser then types differently",
		Floor: 3,
		Run:   ruleCALLSIG,
	})
}

func ruleCALLSIG(c *Ctx) []Obligation {
	var obs []Obligation
	p := c.pkg(pkgIR)
	if p == nil {
		return nil
	}
	info := p.TypesInfo
	sc := p.Types.Scope()
	for _, nm := range sc.Names() {
		tn, ok := sc.Lookup(nm).(*types.TypeName)
		if !ok {
			continue
		}
		named, ok := tn.Type().(*types.Named)
		if !ok {
			continue
		}
		var sigM, llM *types.Func
		for i := 0; i < named.NumMethods(); i++ {
			switch m := named.Method(i); m.Name() {
			case "Sig":
				sigM = m
			case "LLString":
				llM = m
			}
		}
		if sigM == nil || llM == nil {
			continue
		}
		fd, pfn := c.printerDecl(llM)
		if fd == nil || fd.Body == nil {
			continue
		}
		o := Obligation{Key: typeKey(named) + ".LLString takes the variadic flag from Sig()", Pos: c.pos(fd.Pos()), Verdict: VIOL, Detail: "no read of Sig().Variadic in the printer or the helpers it calls: the full function type is never (or not for every callee form) spelled"}
		_ = pfn
		var scan func(fd *ast.FuncDecl, sigVars map[types.Object]bool, depth int)
		scan = func(fd *ast.FuncDecl, sigVars map[types.Object]bool, depth int) {
			isSig := func(e ast.Expr) bool {
				e = unparen(e)
				if call, ok := e.(*ast.CallExpr); ok {
					return calleeOf(info, call) == sigM
				}
				if id, ok := e.(*ast.Ident); ok {
					return sigVars[info.ObjectOf(id)]
				}
				return false
			}
			// locals bound to Sig()
			ast.Inspect(fd.Body, func(nd ast.Node) bool {
				if as, ok := nd.(*ast.AssignStmt); ok && len(as.Lhs) == len(as.Rhs) {
					for i, l := range as.Lhs {
						if id, ok := l.(*ast.Ident); ok && isSig(as.Rhs[i]) {
							sigVars[info.ObjectOf(id)] = true
						}
					}
				}
				return true
			})
			ast.Inspect(fd.Body, func(nd ast.Node) bool {
				switch x := nd.(type) {
				case *ast.SelectorExpr:
					if x.Sel.Name != "Variadic" {
						return true
					}
					if isSig(x.X) {
						if o.Verdict == VIOL && strings.HasPrefix(o.Detail, "no read") {
							o.Verdict, o.Detail = OK, "Sig().Variadic decides the spelling"
						}
					} else {
						o.Verdict, o.Pos = VIOL, c.pos(x.Pos())
						o.Detail = "the flag `" + exprString(x) + "` is not that of the call's Sig(): for a callee of another kind (a bitcast constant expression, inline assembler, a local function pointer) a variadic call is printed with its return type only, and the parser then derives a non-variadic signature from the arguments"
					}
				case *ast.CallExpr:
					if depth >= 2 {
						return true
					}
					f := calleeOf(info, x)
					if f == nil || f.Pkg() == nil || f.Pkg().Path() != pkgIR || f == sigM {
						return true
					}
					hfd := c.funcDecl(f)
					if hfd == nil || hfd.Body == nil || hfd == fd {
						return true
					}
					// only helpers that mention a Variadic flag matter
					mentions := false
					ast.Inspect(hfd.Body, func(k ast.Node) bool {
						if se, ok := k.(*ast.SelectorExpr); ok && se.Sel.Name == "Variadic" {
							mentions = true
						}
						return !mentions
					})
					if !mentions {
						return true
					}
					inner := map[types.Object]bool{}
					k := 0
					for _, fl := range hfd.Type.Params.List {
						for _, pn := range fl.Names {
							if k < len(x.Args) && isSig(x.Args[k]) {
								inner[info.Defs[pn]] = true
							}
							k++
						}
					}
					scan(hfd, inner, depth+1)
				}
				return true
			})
		}
		scan(fd, map[types.Object]bool{}, 0)
		obs = append(obs, o)
	}
	return obs
}

// ---------------------------------------------------------------------------
// CALL-SIG-AST

func init() {
	register(&Rule{
		Name:  "CALL-SIG-AST",
		Doc:   "the translators of call sites take the function type from the source, not from the instruction's cached result type: in package asm, the operand of every assertion to *types.FuncType that decides a call's signature is (a local bound to) the translated AST type — never the Typ field of an ir.InstCall / TermInvoke / TermCallBr, which the scaffold phase has already reduced to the return type, so that the assertion could not succeed and every variadic signature spelled in the source would be replaced by one derived from the arguments. One obligation per assertion to *types.FuncType in package asm; an operand that is a parameter of a helper is judged with the arguments passed for it",
		Floor: 3,
		Run:   ruleCALLSIGAST,
	})
}

// hasSigAny: the expression (in whichever package of the module it was type-checked) has an IR type with a Sig() method.
func hasSigAny(c *Ctx, e ast.Expr) bool {
	for _, p := range c.llvmPkgs() {
		if t := p.TypesInfo.TypeOf(e); t != nil {
			n := namedOf(t)
			if n == nil || n.Obj().Pkg() == nil || n.Obj().Pkg().Path() != pkgIR {
				return false
			}
			for i := 0; i < n.NumMethods(); i++ {
				if n.Method(i).Name() == "Sig" {
					return true
				}
			}
			return false
		}
	}
	return false
}

func ruleCALLSIGAST(c *Ctx) []Obligation {
	var obs []Obligation
	c.eachFunc(pkgASM, func(p *packages.Package, fd *ast.FuncDecl, fn *types.Func) {
		info := p.TypesInfo
		defs := collectDefs(info, fd.Body)
		n := 0
		ast.Inspect(fd.Body, func(nd ast.Node) bool {
			ta, ok := nd.(*ast.TypeAssertExpr)
			if !ok || ta.Type == nil || !isNamedPtr(info.TypeOf(ta.Type), pkgTYP, "FuncType") {
				return true
			}
			n++
			o := Obligation{Key: fmt.Sprintf("%s: signature assertion #%d is on the translated source type", funcKey(fn), n), Pos: c.pos(ta.Pos()), Verdict: OK, Detail: "operand " + exprString(ta.X)}
			srcs := []ast.Expr{ta.X}
			if id, ok := unparen(ta.X).(*ast.Ident); ok {
				srcs = append(srcs, defs[info.ObjectOf(id)]...)
			}
			// the operand may be a parameter of a shared helper (callSig(typ, args)): judged with every argument passed for it
			if id, ok := unparen(ta.X).(*ast.Ident); ok {
				ps := fn.Type().(*types.Signature).Params()
				for pi := 0; pi < ps.Len(); pi++ {
					if info.ObjectOf(id) != types.Object(ps.At(pi)) {
						continue
					}
					c.eachFunc(pkgASM, func(p2 *packages.Package, fd2 *ast.FuncDecl, _ *types.Func) {
						defs2 := collectDefs(p2.TypesInfo, fd2.Body)
						ast.Inspect(fd2.Body, func(k ast.Node) bool {
							if call, ok := k.(*ast.CallExpr); ok && calleeOf(p2.TypesInfo, call) == fn && pi < len(call.Args) {
								srcs = append(srcs, call.Args[pi])
								if aid, ok := unparen(call.Args[pi]).(*ast.Ident); ok {
									srcs = append(srcs, defs2[p2.TypesInfo.ObjectOf(aid)]...)
								}
							}
							return true
						})
					})
				}
			}
			for _, s := range srcs {
				if se, ok := unparen(s).(*ast.SelectorExpr); ok && se.Sel.Name == "Typ" && hasSigAny(c, se.X) {
					o.Verdict = VIOL
					o.Detail = "the asserted value is " + exprString(se) + ", the instruction's cached result type — the scaffold phase stores the return type there, so the assertion to *types.FuncType never succeeds and the signature spelled at the call site (`call i32 (i8*, ...) …`) is replaced by one built from the arguments: calls through constant expressions, undef or inline assembler lose their variadic type"
				}
			}
			obs = append(obs, o)
			return true
		})
	})
	return obs
}

// ---------------------------------------------------------------------------
// RUNE-SLICE

func init() {
	register(&Rule{
		Name: "RUNE-SLICE",
		Doc:  "text is cut by the unit it was measured in: in package asm (where diagnostics quote source text), a slice `[]rune(s)[:k]` — or of a local bound to such a conversion — lies under a guard on the length of that rune slice (or on utf8.RuneCountInString), not on len(s): the byte length admits strings with fewer runes than k, and the slice expression panics on them, so an error path (a duplicate definition that contains non-ASCII text) crashes the caller instead of returning the error. One summary obligation, one violation per offending slice",
		Run:  ruleRUNESLICE,
	})
}

func ruleRUNESLICE(c *Ctx) []Obligation {
	var obs []Obligation
	seenSlices := 0
	for _, path := range []string{pkgASM, pkgIR, pkgENC} {
		c.eachFunc(path, func(p *packages.Package, fd *ast.FuncDecl, fn *types.Func) {
			info := p.TypesInfo
			pm := buildParents(fd)
			defs := collectDefs(info, fd.Body)
			isRuneConv := func(e ast.Expr) bool {
				call, ok := unparen(e).(*ast.CallExpr)
				if !ok || len(call.Args) != 1 {
					return false
				}
				tv, ok := info.Types[call.Fun]
				if !ok || !tv.IsType() {
					return false
				}
				sl, ok := tv.Type.Underlying().(*types.Slice)
				if !ok {
					return false
				}
				b, ok := sl.Elem().Underlying().(*types.Basic)
				return ok && b.Kind() == types.Int32 && isStringNamed(info.TypeOf(call.Args[0]))
			}
			n := 0
			ast.Inspect(fd.Body, func(nd ast.Node) bool {
				se, ok := nd.(*ast.SliceExpr)
				if !ok || se.High == nil {
					return true
				}
				runes := isRuneConv(se.X)
				var local types.Object
				if id, ok := unparen(se.X).(*ast.Ident); ok {
					for _, d := range defs[info.ObjectOf(id)] {
						if isRuneConv(d) {
							runes, local = true, info.ObjectOf(id)
						}
					}
				}
				if !runes {
					return true
				}
				seenSlices++
				n++
				o := Obligation{Key: fmt.Sprintf("%s: rune slice %s is guarded by its own length #%d", funcKey(fn), exprString(se), n), Pos: c.pos(se.Pos()), Verdict: VIOL,
					Detail: "no enclosing guard measures the rune slice (len of it, or utf8.RuneCountInString): a guard on the byte length admits strings with fewer runes than the bound, and the slice expression panics on them"}
				want := strings.ReplaceAll(exprString(se.X), " ", "")
				for _, cond := range condChain(pm, se) {
					ast.Inspect(cond, func(k ast.Node) bool {
						call, ok := k.(*ast.CallExpr)
						if !ok {
							return true
						}
						fs := exprString(call.Fun)
						if strings.Contains(fs, "RuneCount") {
							o.Verdict, o.Detail = OK, "guarded by a rune count"
						}
						if fs == "len" && len(call.Args) == 1 {
							if strings.ReplaceAll(exprString(call.Args[0]), " ", "") == want {
								o.Verdict, o.Detail = OK, "guarded by the length of the rune slice"
							}
							if id, ok := unparen(call.Args[0]).(*ast.Ident); ok && local != nil && info.ObjectOf(id) == local {
								o.Verdict, o.Detail = OK, "guarded by the length of the rune slice"
							}
						}
						return true
					})
				}
				obs = append(obs, o)
				return true
			})
		})
	}
	obs = append(obs, Obligation{Key: "slices of rune conversions examined", Verdict: OK, Detail: fmt.Sprintf("%d slice expression(s) on []rune conversions", seenSlices)})
	return obs
}

package main

import (
	"fmt"
	"go/ast"
	"go/constant"
	"go/token"
	"go/types"
	"regexp"
	"sort"
	"strings"

	"golang.org/x/tools/go/ssa"
)

// LIT-FP-TAB — reader / writer table agreement for floating-point literals (C10).
//
// The facts are collected over the *function sets* of the reader (everything of
// package constant that NewFloatFromString refers to: helpers it calls, functions
// listed in a table it iterates) and of the printer (Float.Ident and the helpers /
// methods it calls), so that splitting either function, or driving it by a table,
// does not change what is read off.

var ieeeSignificand = map[string]int64{"types.FloatKindHalf": 11, "types.FloatKindFloat": 24, "types.FloatKindDouble": 53}

var hexPrefixRE = regexp.MustCompile(`^0x[A-Z]$`)

// funcSet: the declarations of package constant reachable from root by reference (calls,
// function values, and functions named in package-level tables the set refers to).
func (c *Ctx) constFuncSet(root *types.Func) []*ast.FuncDecl {
	p := c.pkg(pkgCONS)
	info := p.TypesInfo
	// package-level variable → initialiser
	varInit := map[types.Object]ast.Expr{}
	for _, f := range p.Syntax {
		for _, d := range f.Decls {
			gd, ok := d.(*ast.GenDecl)
			if !ok || gd.Tok != token.VAR {
				continue
			}
			for _, sp := range gd.Specs {
				vs := sp.(*ast.ValueSpec)
				for i, nm := range vs.Names {
					if i < len(vs.Values) {
						varInit[info.Defs[nm]] = vs.Values[i]
					}
				}
			}
		}
	}
	seen := map[*types.Func]bool{}
	seenVar := map[types.Object]bool{}
	var out []*ast.FuncDecl
	var visit func(fn *types.Func)
	var scan func(n ast.Node)
	scan = func(n ast.Node) {
		ast.Inspect(n, func(m ast.Node) bool {
			id, ok := m.(*ast.Ident)
			if !ok {
				return true
			}
			switch obj := info.Uses[id].(type) {
			case *types.Func:
				if obj.Pkg() != nil && obj.Pkg().Path() == pkgCONS {
					visit(obj)
				}
			case *types.Var:
				if init, ok := varInit[obj]; ok && !seenVar[obj] {
					seenVar[obj] = true
					scan(init)
				}
			}
			return true
		})
	}
	visit = func(fn *types.Func) {
		if fn == nil || seen[fn] {
			return
		}
		seen[fn] = true
		fd := c.funcDecl(fn)
		if fd == nil || fd.Body == nil {
			return
		}
		// stay inside the literal code: constructors / methods of Float and unexported helpers
		if fn != root && fn.Exported() {
			if r := fn.Type().(*types.Signature).Recv(); r == nil || !isNamed(r.Type(), pkgCONS, "Float") {
				return
			}
		}
		out = append(out, fd)
		scan(fd.Body)
	}
	visit(root)
	return out
}

type litFPFacts struct {
	c    *Ctx
	info *types.Info
	pm   map[*ast.FuncDecl]parentMap
}

func (lf *litFPFacts) parents(fd *ast.FuncDecl) parentMap {
	if lf.pm[fd] == nil {
		lf.pm[fd] = buildParents(fd)
	}
	return lf.pm[fd]
}

func (lf *litFPFacts) strConst(e ast.Expr) (string, bool) {
	if tv := lf.info.Types[e]; tv.Value != nil && tv.Value.Kind() == constant.String {
		return constant.StringVal(tv.Value), true
	}
	return "", false
}

// codecOf: the mewmew/float sub-package whose function of one of the given names is called inside n.
func (lf *litFPFacts) codecsIn(n ast.Node, names ...string) []string {
	set := map[string]bool{}
	ast.Inspect(n, func(m ast.Node) bool {
		call, ok := m.(*ast.CallExpr)
		if !ok {
			return true
		}
		f := calleeOf(lf.info, call)
		if f == nil || f.Pkg() == nil || !strings.HasPrefix(f.Pkg().Path(), pkgFLT+"/") {
			return true
		}
		for _, nm := range names {
			if f.Name() == nm {
				set[strings.TrimPrefix(f.Pkg().Path(), pkgFLT+"/")] = true
			}
		}
		return true
	})
	return sortedKeys(set)
}

// kindClauses: the case clauses of switches over a floating-point kind inside fd.
func (lf *litFPFacts) kindSwitches(fd *ast.FuncDecl) []*ast.SwitchStmt {
	var out []*ast.SwitchStmt
	ast.Inspect(fd.Body, func(n ast.Node) bool {
		if sw, ok := n.(*ast.SwitchStmt); ok && sw.Tag != nil && isKindTag(lf.info, fd.Body, sw.Tag) {
			out = append(out, sw)
		}
		return true
	})
	return out
}

// kindTableLookup: `v, ok := table[<kind>]` where table is a package-level map literal keyed
// by floating-point kinds with integer constants as values — the table form of a switch over
// the kind whose clauses assign v. Returns the (kind → value) rows and the variable.
type kindLookup struct {
	pos  token.Pos
	v    types.Object
	rows map[string]int64
}

func (lf *litFPFacts) kindTableLookups(n ast.Node) []kindLookup {
	var out []kindLookup
	info := lf.info
	p := lf.c.pkg(pkgCONS)
	ast.Inspect(n, func(m ast.Node) bool {
		as, ok := m.(*ast.AssignStmt)
		if !ok || len(as.Rhs) != 1 || len(as.Lhs) < 1 {
			return true
		}
		// function form: precision, ok := decimalPrecision(typ.Kind), where the helper is a switch
		// over its kind parameter whose clauses return integer constants
		if call, isCall := unparen(as.Rhs[0]).(*ast.CallExpr); isCall && len(call.Args) == 1 {
			if f := calleeOf(info, call); f != nil && f.Pkg() != nil && f.Pkg().Path() == pkgCONS {
				if hfd := lf.c.funcDecl(f); hfd != nil && hfd.Body != nil {
					rows := map[string]int64{}
					good := true
					ast.Inspect(hfd.Body, func(k ast.Node) bool {
						sw, ok := k.(*ast.SwitchStmt)
						if !ok || sw.Tag == nil {
							return true
						}
						if t := info.TypeOf(sw.Tag); t == nil || !isNamed(t, pkgTYP, "FloatKind") {
							return true
						}
						for _, cc := range sw.Body.List {
							cl := cc.(*ast.CaseClause)
							if len(cl.List) == 0 || len(cl.Body) == 0 {
								continue
							}
							ret, ok := cl.Body[len(cl.Body)-1].(*ast.ReturnStmt)
							if !ok || len(ret.Results) == 0 {
								good = false
								continue
							}
							v := info.Types[ret.Results[0]]
							if v.Value == nil || v.Value.Kind() != constant.Int {
								good = false
								continue
							}
							for _, e := range cl.List {
								rows[exprString(e)], _ = constant.Int64Val(v.Value)
							}
						}
						return false
					})
					if lid, ok := as.Lhs[0].(*ast.Ident); ok && good && len(rows) > 0 {
						out = append(out, kindLookup{as.Pos(), info.ObjectOf(lid), rows})
					}
				}
			}
			return true
		}
		ix, ok := unparen(as.Rhs[0]).(*ast.IndexExpr)
		if !ok {
			return true
		}
		tid, ok := unparen(ix.X).(*ast.Ident)
		if !ok {
			return true
		}
		tv, ok := info.ObjectOf(tid).(*types.Var)
		if !ok || tv.Pkg() == nil || tv.Parent() != tv.Pkg().Scope() {
			return true
		}
		var init ast.Expr
		for _, f := range p.Syntax {
			for _, d := range f.Decls {
				if gd, ok := d.(*ast.GenDecl); ok && gd.Tok == token.VAR {
					for _, sp := range gd.Specs {
						vs := sp.(*ast.ValueSpec)
						for i, nm := range vs.Names {
							if info.Defs[nm] == types.Object(tv) && i < len(vs.Values) {
								init = vs.Values[i]
							}
						}
					}
				}
			}
		}
		cl, ok := init.(*ast.CompositeLit)
		if !ok {
			return true
		}
		rows := map[string]int64{}
		for _, el := range cl.Elts {
			kv, ok := el.(*ast.KeyValueExpr)
			if !ok || !strings.Contains(exprString(kv.Key), "FloatKind") {
				return true
			}
			if v := info.Types[kv.Value]; v.Value != nil && v.Value.Kind() == constant.Int {
				rows[exprString(kv.Key)], _ = constant.Int64Val(v.Value)
			} else {
				return true
			}
		}
		if len(rows) == 0 {
			return true
		}
		lid, ok := as.Lhs[0].(*ast.Ident)
		if !ok {
			return true
		}
		out = append(out, kindLookup{as.Pos(), info.ObjectOf(lid), rows})
		return true
	})
	return out
}

// halfOf: which half of the digit string the word e is parsed from — "second" for a slice
// expression with a low bound and no high bound, "first" for the reverse — following local
// variables to their definitions and tuple results into the helper that produced them
// (low, high, err := parseHexWords(hex, 16)).
func (lf *litFPFacts) halfOf(fd *ast.FuncDecl, e ast.Expr, seen map[types.Object]bool, depth int) string {
	info := lf.info
	if depth > 6 {
		return ""
	}
	res := ""
	ast.Inspect(e, func(n ast.Node) bool {
		switch x := n.(type) {
		case *ast.SliceExpr:
			switch {
			case x.Low != nil && x.High == nil:
				res = "second"
			case x.Low == nil && x.High != nil:
				res = "first"
			}
		case *ast.Ident:
			obj := info.Uses[x]
			if obj == nil || seen[obj] || res != "" {
				return res == ""
			}
			seen[obj] = true
			ast.Inspect(fd.Body, func(m ast.Node) bool {
				as, ok := m.(*ast.AssignStmt)
				if !ok || res != "" {
					return res == ""
				}
				for i, l := range as.Lhs {
					id, ok := l.(*ast.Ident)
					if !ok || info.ObjectOf(id) != obj {
						continue
					}
					switch {
					case len(as.Rhs) == len(as.Lhs):
						if r := lf.halfOf(fd, as.Rhs[i], seen, depth+1); r != "" {
							res = r
						}
					case len(as.Rhs) == 1:
						call, ok := unparen(as.Rhs[0]).(*ast.CallExpr)
						if !ok {
							continue
						}
						hfd := lf.c.funcDecl(calleeOf(info, call))
						if hfd == nil || hfd.Body == nil || lf.c.declPkg[hfd] != lf.c.pkg(pkgCONS) {
							// a library call (strconv.ParseUint(part, …)): the half is its argument's
							for _, a := range call.Args {
								if r := lf.halfOf(fd, a, seen, depth+1); r != "" && res == "" {
									res = r
								}
							}
							continue
						}
						// the i-th result of a helper of the package
						ast.Inspect(hfd.Body, func(k ast.Node) bool {
							if _, isLit := k.(*ast.FuncLit); isLit {
								return false
							}
							ret, ok := k.(*ast.ReturnStmt)
							if !ok || res != "" {
								return res == ""
							}
							if i < len(ret.Results) {
								if r := lf.halfOf(hfd, ret.Results[i], map[types.Object]bool{}, depth+1); r != "" {
									res = r
								}
							}
							return true
						})
					}
				}
				return true
			})
		}
		return res == ""
	})
	return res
}

func ruleLITFP(c *Ctx) []Obligation {
	var obs []Obligation
	identFn := c.lookupFunc(pkgCONS, "Float.Ident")
	readFn := c.lookupFunc(pkgCONS, "NewFloatFromString")
	if c.funcDecl(identFn) == nil || c.funcDecl(readFn) == nil {
		return []Obligation{{Key: "anchors", Verdict: UNDECIDED, Detail: "constant.(*Float).Ident / constant.NewFloatFromString not found"}}
	}
	info := c.pkg(pkgCONS).TypesInfo
	lf := &litFPFacts{c: c, info: info, pm: map[*ast.FuncDecl]parentMap{}}
	RF := c.constFuncSet(readFn)
	PF := c.constFuncSet(identFn)
	declOf := map[*types.Func]*ast.FuncDecl{}
	for _, fd := range append(append([]*ast.FuncDecl{}, RF...), PF...) {
		if f, ok := info.Defs[fd.Name].(*types.Func); ok {
			declOf[f] = fd
		}
	}

	// ---- reader: prefix → codec -------------------------------------------------
	// every call of a <codec>.NewFromBits in the reader set is associated with the prefix
	// constant(s) of (a) the enclosing case clause that tests HasPrefix(s, "0x?"), else
	// (b) the table row(s) naming the enclosing function, else (c) the enclosing function's
	// own "0x?" constants
	tableRows := map[*types.Func][]string{} // function named in a row → prefix constants of that row
	scanRows := func(n ast.Node) {
		ast.Inspect(n, func(m ast.Node) bool {
			cl, ok := m.(*ast.CompositeLit)
			if !ok {
				return true
			}
			var pfx []string
			var fns []*types.Func
			for _, el := range cl.Elts {
				v := el
				if kv, ok := el.(*ast.KeyValueExpr); ok {
					v = kv.Value
				}
				if s, ok := lf.strConst(v); ok && hexPrefixRE.MatchString(s) {
					pfx = append(pfx, s)
				}
				if id, ok := unparen(v).(*ast.Ident); ok {
					if f, ok := info.Uses[id].(*types.Func); ok {
						fns = append(fns, f)
					}
				}
			}
			if len(pfx) > 0 {
				for _, f := range fns {
					tableRows[f] = append(tableRows[f], pfx...)
				}
			}
			return true
		})
	}
	for _, f := range c.pkg(pkgCONS).Syntax {
		scanRows(f)
	}
	readCodec := map[string]map[string]bool{} // prefix letter → codecs
	addRC := func(pfx, codec string) {
		l := pfx[2:]
		if readCodec[l] == nil {
			readCodec[l] = map[string]bool{}
		}
		readCodec[l][codec] = true
	}
	for _, fd := range RF {
		pm := lf.parents(fd)
		ast.Inspect(fd.Body, func(n ast.Node) bool {
			call, ok := n.(*ast.CallExpr)
			if !ok {
				return true
			}
			f := calleeOf(info, call)
			if f == nil || f.Pkg() == nil || !strings.HasPrefix(f.Pkg().Path(), pkgFLT+"/") || f.Name() != "NewFromBits" {
				return true
			}
			codec := strings.TrimPrefix(f.Pkg().Path(), pkgFLT+"/")
			var pfx []string
			for p := pm[call]; p != nil && len(pfx) == 0; p = pm[p] {
				if cl, ok := p.(*ast.CaseClause); ok {
					for _, e := range cl.List {
						if hc, ok := e.(*ast.CallExpr); ok && len(hc.Args) == 2 && isPkgFunc(calleeOf(info, hc), "strings", "HasPrefix") {
							if s, ok := lf.strConst(hc.Args[1]); ok && hexPrefixRE.MatchString(s) {
								pfx = append(pfx, s)
							}
						}
					}
				}
			}
			if len(pfx) == 0 {
				if fobj, ok := info.Defs[fd.Name].(*types.Func); ok {
					pfx = append(pfx, tableRows[fobj]...)
				}
			}
			if len(pfx) == 0 {
				ast.Inspect(fd.Body, func(m ast.Node) bool {
					if e, ok := m.(ast.Expr); ok {
						if s, ok := lf.strConst(e); ok && hexPrefixRE.MatchString(s) {
							pfx = append(pfx, s)
						}
					}
					return true
				})
			}
			for _, p := range pfx {
				addRC(p, codec)
			}
			return true
		})
	}

	// ---- printer: kind → (prefix, codec), fall-through kinds -----------------------
	var ksw *ast.SwitchStmt
	ifd := c.funcDecl(identFn)
	for _, st := range ifd.Body.List {
		if sw, ok := st.(*ast.SwitchStmt); ok && sw.Tag != nil && isKindTag(info, ifd.Body, sw.Tag) {
			ksw = sw
		}
	}
	if ksw == nil {
		return []Obligation{{Key: "constant.(*Float).Ident kind switch", Verdict: UNDECIDED, Detail: "no switch over the kind at the top level of Ident"}}
	}
	// nodes of a printer clause: the clause and the declarations of the helpers it calls
	clauseNodes := func(cl *ast.CaseClause) []ast.Node {
		nodes := []ast.Node{cl}
		seen := map[*ast.FuncDecl]bool{}
		var add func(n ast.Node, depth int)
		add = func(n ast.Node, depth int) {
			ast.Inspect(n, func(m ast.Node) bool {
				call, ok := m.(*ast.CallExpr)
				if !ok {
					return true
				}
				if f := calleeOf(info, call); f != nil {
					if fd := declOf[f]; fd != nil && !seen[fd] && fd != ifd && depth < 2 {
						seen[fd] = true
						nodes = append(nodes, fd)
						add(fd.Body, depth+1)
					}
				}
				return true
			})
		}
		add(cl, 0)
		return nodes
	}
	fallKinds := map[string]bool{}
	type printerKind struct {
		kind  string
		cl    *ast.CaseClause
		nodes []ast.Node
	}
	var pkinds []printerKind
	for _, cc := range ksw.Body.List {
		cl := cc.(*ast.CaseClause)
		if cl.List == nil {
			continue
		}
		falls := true
		if len(cl.Body) > 0 {
			switch last := cl.Body[len(cl.Body)-1].(type) {
			case *ast.ReturnStmt:
				falls = false
			case *ast.ExprStmt:
				if endsInPanic([]ast.Stmt{last}) {
					falls = false
				}
			}
		}
		nodes := clauseNodes(cl)
		for _, e := range cl.List {
			kind := exprString(e)
			if falls {
				fallKinds[kind] = true
			}
			pkinds = append(pkinds, printerKind{kind, cl, nodes})
		}
	}
	for _, pk := range pkinds {
		// the prefix letter this kind writes: a character constant 'A'..'Z' in its nodes
		prefix := ""
		var codecs []string
		for _, n := range pk.nodes {
			ast.Inspect(n, func(m ast.Node) bool {
				if lit, ok := m.(*ast.BasicLit); ok && lit.Kind == token.CHAR {
					if tv := info.Types[lit]; tv.Value != nil {
						if r, ok := constant.Int64Val(constant.ToInt(tv.Value)); ok && r >= 'A' && r <= 'Z' && prefix == "" {
							prefix = string(rune(r))
						}
					}
				}
				if e, ok := m.(ast.Expr); ok {
					if s, ok := lf.strConst(e); ok && len(s) >= 3 && hexPrefixRE.MatchString(s[:3]) && prefix == "" {
						prefix = s[2:3]
					}
				}
				return true
			})
			codecs = append(codecs, lf.codecsIn(n, "NewFromBig")...)
		}
		o := Obligation{Key: "float kind " + pk.kind + " hex form", Pos: c.pos(pk.cl.Pos()), Verdict: OK}
		if prefix == "" {
			o.Detail = "16-digit double bit pattern (reader: default hex branch via math.Float64frombits)"
		} else {
			rc, has := readCodec[prefix]
			pc := ""
			if len(codecs) > 0 {
				pc = codecs[0]
			}
			switch {
			case !has:
				o.Verdict, o.Detail = VIOL, fmt.Sprintf("the printer writes 0x%s… for this kind but the reader has no 0x%s branch", prefix, prefix)
			case pc == "" || len(rc) == 0:
				o.Verdict, o.Detail = UNDECIDED, fmt.Sprintf("codec package not identified (printer %q, reader %v)", pc, sortedKeys(rc))
			case !rc[pc] || len(rc) != 1:
				o.Verdict, o.Detail = VIOL, fmt.Sprintf("0x%s is encoded with %s but decoded with %s: the bit pattern is reinterpreted in another format", prefix, pc, strings.Join(sortedKeys(rc), ", "))
			default:
				o.Detail = fmt.Sprintf("0x%s ↔ %s on both sides", prefix, pc)
			}
		}
		obs = append(obs, o)
	}

	// ---- reader: the decimal branch and the 16-digit branch --------------------------
	// decimal: the kind switch (in the reader set) whose function parses with big.ParseFloat
	decimalKinds := map[string]bool{}
	var decFd *ast.FuncDecl
	for _, fd := range RF {
		usesParseFloat := false
		ast.Inspect(fd.Body, func(n ast.Node) bool {
			if call, ok := n.(*ast.CallExpr); ok && isPkgFunc(calleeOf(info, call), "math/big", "ParseFloat") {
				usesParseFloat = true
			}
			return true
		})
		if !usesParseFloat {
			continue
		}
		decFd = fd
		// the last kind switch at the top level of that function (the hexadecimal part, if in
		// the same function, comes first and returns)
		for _, st := range fd.Body.List {
			if sw, ok := st.(*ast.SwitchStmt); ok && sw.Tag != nil && isKindTag(info, fd.Body, sw.Tag) {
				decimalKinds = map[string]bool{}
				for _, cc := range sw.Body.List {
					for _, e := range cc.(*ast.CaseClause).List {
						decimalKinds[exprString(e)] = true
					}
				}
			}
			// table form: precision, ok := table[typ.Kind]
			if _, isAssign := st.(*ast.AssignStmt); isAssign {
				for _, lk := range lf.kindTableLookups(st) {
					decimalKinds = map[string]bool{}
					for k := range lk.rows {
						decimalKinds[k] = true
					}
				}
			}
		}
	}
	od := Obligation{Key: "decimal spelling kinds", Pos: c.pos(ksw.Pos()), Verdict: OK}
	a, b := sortedKeys(fallKinds), sortedKeys(decimalKinds)
	sort.Strings(a)
	sort.Strings(b)
	if strings.Join(a, ",") != strings.Join(b, ",") {
		od.Verdict = VIOL
		od.Detail = fmt.Sprintf("the printer can fall through to the decimal spelling for %v, the reader's decimal branch handles %v: a kind in one set only is printed in a form that cannot be read (or panics)", a, b)
	} else {
		od.Detail = "printer fall-through kinds = reader decimal kinds = " + strings.Join(a, ", ")
	}
	obs = append(obs, od)
	_ = decFd

	// 16-digit: the ParseUint(x, 16, 64) whose text comes from TrimPrefix(s, "0x") (or s[2:])
	var bitsCall *ast.CallExpr
	var bitsFd *ast.FuncDecl
	for _, fd := range RF {
		defs := collectDefs(info, fd.Body)
		ast.Inspect(fd.Body, func(n ast.Node) bool {
			call, ok := n.(*ast.CallExpr)
			if !ok || !isPkgFunc(calleeOf(info, call), "strconv", "ParseUint") || len(call.Args) != 3 {
				return true
			}
			if tv := info.Types[call.Args[2]]; tv.Value == nil || tv.Value.String() != "64" {
				return true
			}
			srcs := []ast.Expr{call.Args[0]}
			if id, ok := unparen(call.Args[0]).(*ast.Ident); ok {
				srcs = append(srcs, defs[info.ObjectOf(id)]...)
			}
			for _, src := range srcs {
				if tc, ok := unparen(src).(*ast.CallExpr); ok && isPkgFunc(calleeOf(info, tc), "strings", "TrimPrefix") && len(tc.Args) == 2 {
					if s, ok := lf.strConst(tc.Args[1]); ok && s == "0x" {
						bitsCall, bitsFd = call, fd
					}
				}
				if sl, ok := unparen(src).(*ast.SliceExpr); ok && sl.Low != nil && sl.High == nil {
					if tv := info.Types[sl.Low]; tv.Value != nil && tv.Value.String() == "2" {
						bitsCall, bitsFd = call, fd
					}
				}
			}
			return true
		})
	}
	if bitsCall == nil {
		obs = append(obs, Obligation{Key: "16-digit double form branch", Verdict: UNDECIDED, Pos: c.pos(c.funcDecl(readFn).Pos()), Detail: "no strconv.ParseUint(<text after \"0x\">, 16, 64) found in the reader"})
	} else {
		obs = append(obs, c.litFPBitsFlow(bitsFd, bitsCall))
	}

	// ---- reader: precision sites -----------------------------------------------------
	// region of the 16-digit branch: the enclosing clause of a prefix switch, else the function
	var hexRegion ast.Node
	if bitsCall != nil {
		hexRegion = bitsFd.Body
		pm := lf.parents(bitsFd)
		for p := pm[bitsCall]; p != nil; p = pm[p] {
			if cl, ok := p.(*ast.CaseClause); ok && cl.List == nil {
				if blk, ok := pm[cl].(*ast.BlockStmt); ok {
					if sw, ok := pm[blk].(*ast.SwitchStmt); ok && sw.Tag == nil {
						hexRegion = cl
					}
				}
			}
		}
	}
	obs = append(obs, lf.precision(RF, hexRegion)...)

	// ---- 0xL: the halves of the 128-bit pattern are in LLVM's order ---------------------------
	// LLVM writes the low 64 bits first (AsmWriter prints the APInt's words little-endian):
	// reader — the high word handed to binary128.NewFromBits (its first parameter) comes from the
	// second half of the digits; printer — of (high, low) := f.Bits() the low word is formatted first
	ow := Obligation{Key: "fp128 0xL word order: low 64 bits first", Pos: c.pos(ifd.Pos()), Verdict: UNDECIDED, Detail: "binary128.NewFromBits / Bits not found in the reader / printer"}
	readerOK, printerOK := 0, 0 // 0 unknown, 1 ok, 2 wrong
	for _, fd := range RF {
		halfOf := func(e ast.Expr) string { return lf.halfOf(fd, e, map[types.Object]bool{}, 0) }
		ast.Inspect(fd.Body, func(n ast.Node) bool {
			call, ok := n.(*ast.CallExpr)
			if !ok || len(call.Args) != 2 {
				return true
			}
			f := calleeOf(info, call)
			if f == nil || f.Pkg() == nil || f.Pkg().Path() != pkgFLT+"/binary128" || f.Name() != "NewFromBits" {
				return true
			}
			hi, lo := halfOf(call.Args[0]), halfOf(call.Args[1])
			switch {
			case hi == "second" && lo == "first":
				readerOK = 1
			case hi == "first" && lo == "second":
				readerOK = 2
				ow.Pos = c.pos(call.Pos())
			}
			return true
		})
	}
	for _, fd := range PF {
		// (high, low) := <binary128 value>.Bits(); the formatted arguments in order
		bitsVars := map[types.Object]string{}
		ast.Inspect(fd.Body, func(n ast.Node) bool {
			as, ok := n.(*ast.AssignStmt)
			if !ok || len(as.Lhs) != 2 || len(as.Rhs) != 1 {
				return true
			}
			call, ok := unparen(as.Rhs[0]).(*ast.CallExpr)
			if !ok {
				return true
			}
			se, ok := unparen(call.Fun).(*ast.SelectorExpr)
			if !ok || se.Sel.Name != "Bits" {
				return true
			}
			if n := namedOf(info.TypeOf(se.X)); n == nil || n.Obj().Pkg() == nil || n.Obj().Pkg().Path() != pkgFLT+"/binary128" {
				return true
			}
			if a, ok := as.Lhs[0].(*ast.Ident); ok {
				bitsVars[info.ObjectOf(a)] = "high"
			}
			if b, ok := as.Lhs[1].(*ast.Ident); ok {
				bitsVars[info.ObjectOf(b)] = "low"
			}
			return true
		})
		if len(bitsVars) == 0 {
			continue
		}
		// the order in which the two words are handed to the formatting code: the arguments of one
		// Sprintf, or of successive calls of a builder (…word(low, 16).word(high, 16)), read in
		// source order within one block
		pm := lf.parents(fd)
		type use struct {
			pos  token.Pos
			word string
		}
		groups := map[ast.Node][]use{}
		ast.Inspect(fd.Body, func(n ast.Node) bool {
			id, ok := n.(*ast.Ident)
			if !ok {
				return true
			}
			w, ok := bitsVars[info.Uses[id]]
			if !ok {
				return true
			}
			isArg := false
			var blk ast.Node
			for q := pm[id]; q != nil && blk == nil; q = pm[q] {
				switch x := q.(type) {
				case *ast.CallExpr:
					for _, a := range x.Args {
						if a.Pos() <= id.Pos() && id.End() <= a.End() {
							isArg = true
						}
					}
				case *ast.BlockStmt, *ast.CaseClause:
					blk = q
				}
			}
			if isArg && blk != nil {
				groups[blk] = append(groups[blk], use{id.Pos(), w})
			}
			return true
		})
		for _, us := range groups {
			sort.Slice(us, func(i, j int) bool { return us[i].pos < us[j].pos })
			first := map[string]token.Pos{}
			for _, u := range us {
				if _, has := first[u.word]; !has {
					first[u.word] = u.pos
				}
			}
			lo, hasLo := first["low"]
			hi, hasHi := first["high"]
			if !hasLo || !hasHi {
				continue
			}
			if lo < hi {
				if printerOK == 0 {
					printerOK = 1
				}
			} else {
				printerOK = 2
				ow.Pos = c.pos(hi)
			}
		}
	}
	switch {
	case readerOK == 2 || printerOK == 2:
		ow.Verdict = VIOL
		ow.Detail = "LLVM writes an fp128 literal as 0xL, the low 64 bits, then the high 64 bits (1.0 is 0xL00000000000000003FFF000000000000); here the halves are taken the other way round (reader: the high word of binary128.NewFromBits must come from the second half of the digits; printer: of high, low := f.Bits() the low word is written first) — a literal is read as another value, or a constant built through the API prints as a literal that LLVM reads as another number"
	case readerOK == 1 && printerOK == 1:
		ow.Verdict, ow.Detail = OK, "reader: NewFromBits(second half, first half); printer: low word, then high word"
	}
	obs = append(obs, ow)

	// ---- printer: the value is spelled by big.Float's own formatter --------------------------
	on := Obligation{Key: "float printer: no spelling through an integer conversion", Pos: c.pos(ifd.Pos()), Verdict: OK, Detail: "no (*big.Float).Int64 / Uint64 / Int in the printer"}
	for _, fd := range PF {
		ast.Inspect(fd.Body, func(n ast.Node) bool {
			call, ok := n.(*ast.CallExpr)
			if !ok {
				return true
			}
			se, ok := unparen(call.Fun).(*ast.SelectorExpr)
			if !ok || !isNamed(info.TypeOf(se.X), "math/big", "Float") {
				return true
			}
			switch se.Sel.Name {
			case "Int64", "Uint64", "Int":
				on.Verdict, on.Pos = VIOL, c.pos(call.Pos())
				on.Detail = fmt.Sprintf("the printer converts the value to an integer (%s): what is then written is the integer's spelling — the sign of a negative zero, and every value an integer of that width cannot hold, are lost — instead of a spelling produced from the big.Float itself", exprString(call))
			}
			return true
		})
	}
	obs = append(obs, on)

	// ---- printer: exactness guards -----------------------------------------------------
	want := map[string]string{"types.FloatKindHalf": "IsExact16", "types.FloatKindFloat": "IsExact32", "types.FloatKindDouble": "IsExact64"}
	for _, pk := range pkinds {
		if !fallKinds[pk.kind] {
			continue
		}
		o := Obligation{Key: "float kind " + pk.kind + " decimal spelling guarded by exactness test", Pos: c.pos(pk.cl.Pos()), Verdict: OK}
		var used []string
		for _, n := range pk.nodes {
			ast.Inspect(n, func(m ast.Node) bool {
				if id, ok := m.(*ast.Ident); ok {
					if f, ok := info.Uses[id].(*types.Func); ok && f.Pkg() != nil && f.Pkg().Path() == pkgFLT && strings.HasPrefix(f.Name(), "IsExact") {
						used = append(used, f.Name())
					}
				}
				return true
			})
		}
		w, known := want[pk.kind]
		switch {
		case !known:
			o.Verdict, o.Detail = UNDECIDED, "no exactness test known for this kind, yet the printer may spell it in decimal"
		case len(used) == 0:
			o.Verdict, o.Detail = VIOL, "the printer can fall through to the decimal spelling of this kind without any float.IsExact test: a value whose shortest decimal is not exact is printed in a form LLVM rejects or reads as another value"
		default:
			for _, u := range used {
				if u != w {
					o.Verdict, o.Detail = VIOL, fmt.Sprintf("the decimal spelling of this kind is guarded by float.%s, the test of another width (want float.%s)", u, w)
				}
			}
			if o.Verdict == OK {
				o.Detail = "float." + w
			}
		}
		obs = append(obs, o)
	}
	return obs
}

// litFPBitsFlow: every use of the 64 bits parsed from the 16-digit form (through phis, local
// cells and parameters of functions of this package) is the argument of math.Float64frombits.
func (c *Ctx) litFPBitsFlow(fd *ast.FuncDecl, bitsCall *ast.CallExpr) Obligation {
	o := Obligation{Key: "16-digit form: the parsed bits are decoded only by math.Float64frombits", Pos: c.pos(bitsCall.Pos()), Verdict: OK}
	fobj, _ := c.pkg(pkgCONS).TypesInfo.Defs[fd.Name].(*types.Func)
	sf := c.ssaFunc(fobj)
	var start ssa.Value
	if sf != nil {
		for _, b := range sf.Blocks {
			for _, in := range b.Instrs {
				if call, ok := in.(*ssa.Call); ok && call.Pos() == bitsCall.Lparen {
					start = call
				}
			}
		}
	}
	if start == nil {
		o.Verdict, o.Detail = UNDECIDED, "SSA call for the ParseUint of the 16-digit branch not found"
		return o
	}
	good := 0
	var other []string
	seen := map[ssa.Value]bool{}
	var follow func(v ssa.Value, tuple bool)
	follow = func(v ssa.Value, tuple bool) {
		if seen[v] {
			return
		}
		seen[v] = true
		refs := v.Referrers()
		if refs == nil {
			return
		}
		for _, r := range *refs {
			switch r := r.(type) {
			case *ssa.Extract:
				if r.Index == 0 {
					follow(r, false)
				}
			case *ssa.Phi:
				follow(r, false)
			case *ssa.DebugRef, *ssa.MakeInterface:
			case *ssa.Store:
				if r.Val == v {
					if a, ok := r.Addr.(*ssa.Alloc); ok {
						for _, ar := range *a.Referrers() {
							if ld, ok := ar.(*ssa.UnOp); ok && ld.Op == token.MUL {
								follow(ld, false)
							}
						}
					} else {
						other = append(other, c.pos(r.Pos())+": stored into memory")
					}
				}
			case *ssa.Call:
				callee := r.Call.StaticCallee()
				switch {
				case callee != nil && callee.Pkg != nil && callee.Pkg.Pkg.Path() == "math" && callee.Name() == "Float64frombits":
					good++
				case callee != nil && callee.Pkg != nil && callee.Pkg.Pkg.Path() == pkgCONS && len(callee.Params) == len(r.Call.Args):
					for i, a := range r.Call.Args {
						if a == v {
							follow(callee.Params[i], false)
						}
					}
				default:
					name := "a dynamic call"
					if callee != nil {
						name = callee.String()
					}
					other = append(other, c.pos(r.Pos())+": passed to "+name)
				}
			case *ssa.BinOp:
				if r.Op == token.EQL || r.Op == token.NEQ {
					continue
				}
				other = append(other, fmt.Sprintf("%s: arithmetic %s on the bit pattern", c.pos(r.Pos()), r.Op))
			case *ssa.Convert:
				other = append(other, c.pos(r.Pos())+": converted to "+r.Type().String())
			default:
				other = append(other, fmt.Sprintf("%s: used by %T", c.pos(r.Pos()), r))
			}
		}
	}
	follow(start, true)
	switch {
	case len(other) > 0:
		sort.Strings(other)
		o.Verdict = VIOL
		o.Detail = "the 16-digit 0x form is the IEEE 754 double bit pattern of the value (LangRef); here the parsed bits are also taken apart by other means — " + strings.Join(other, "; ") + " — so the exponent/significand layout of a double is reinterpreted by hand"
	case good == 0:
		o.Verdict, o.Detail = VIOL, "the parsed bits never reach math.Float64frombits"
	default:
		o.Detail = fmt.Sprintf("%d decode site(s), all math.Float64frombits(bits); no other use of the bit pattern", good)
	}
	return o
}

// precision: the significand width the reader rounds each kind to. A precision site is an
// integer constant inside a case of one kind (in any function of the reader set) that reaches
// SetPrec / big.ParseFloat (as a constant, a local constant, a local variable, or an argument
// of a function of this package). All sites of a kind agree and equal the IEEE significand
// width; half and float — narrower than the double the 16-digit form is decoded as — have a
// site inside the 16-digit branch.
func (lf *litFPFacts) precision(RF []*ast.FuncDecl, hexRegion ast.Node) []Obligation {
	var obs []Obligation
	info := lf.info
	c := lf.c
	type site struct {
		pos token.Pos
		val int64
	}
	sites := map[string][]site{}
	intConst := func(e ast.Expr) (int64, bool) {
		if tv := info.Types[e]; tv.Value != nil && tv.Value.Kind() == constant.Int {
			return constant.Int64Val(tv.Value)
		}
		return 0, false
	}
	for _, fd := range RF {
		precArg := map[types.Object]bool{}
		ast.Inspect(fd.Body, func(nd ast.Node) bool {
			call, ok := nd.(*ast.CallExpr)
			if !ok {
				return true
			}
			relevant := false
			if se, ok := unparen(call.Fun).(*ast.SelectorExpr); ok && (se.Sel.Name == "SetPrec" || se.Sel.Name == "ParseFloat") {
				relevant = true
			}
			if f := calleeOf(info, call); f != nil && f.Pkg() != nil && f.Pkg().Path() == pkgCONS {
				relevant = true
			}
			if relevant {
				for _, a := range call.Args {
					if id, ok := unparen(a).(*ast.Ident); ok {
						precArg[info.ObjectOf(id)] = true
					}
				}
			}
			return true
		})
		ast.Inspect(fd.Body, func(nd ast.Node) bool {
			cl, ok := nd.(*ast.CaseClause)
			if !ok || len(cl.List) == 0 {
				return true
			}
			isKindCase := false
			for _, e := range cl.List {
				if strings.Contains(exprString(e), "FloatKind") {
					isKindCase = true
				}
			}
			if !isKindCase {
				return true
			}
			add := func(pos token.Pos, v int64) {
				for _, e := range cl.List {
					sites[exprString(e)] = append(sites[exprString(e)], site{pos, v})
				}
			}
			for _, st := range cl.Body {
				ast.Inspect(st, func(m ast.Node) bool {
					switch m := m.(type) {
					case *ast.CaseClause:
						return false
					case *ast.ValueSpec:
						for i, nm := range m.Names {
							if i < len(m.Values) && precArg[info.Defs[nm]] {
								if v, ok := intConst(m.Values[i]); ok {
									add(m.Pos(), v)
								}
							}
						}
					case *ast.AssignStmt:
						for i, l := range m.Lhs {
							if id, ok := l.(*ast.Ident); ok && i < len(m.Rhs) && precArg[info.ObjectOf(id)] {
								if v, ok := intConst(m.Rhs[i]); ok {
									add(m.Pos(), v)
								}
							}
						}
					case *ast.CallExpr:
						if se, ok := unparen(m.Fun).(*ast.SelectorExpr); ok {
							switch {
							case se.Sel.Name == "SetPrec" && len(m.Args) == 1:
								if _, isID := unparen(m.Args[0]).(*ast.Ident); !isID {
									if v, ok := intConst(m.Args[0]); ok {
										add(m.Pos(), v)
									}
								}
							case se.Sel.Name == "ParseFloat" && len(m.Args) == 4:
								if _, isID := unparen(m.Args[2]).(*ast.Ident); !isID {
									if v, ok := intConst(m.Args[2]); ok {
										add(m.Pos(), v)
									}
								}
							}
						}
					}
					return true
				})
			}
			return true
		})
	}
	for _, fd := range RF {
		for _, lk := range lf.kindTableLookups(fd.Body) {
			for k, v := range lk.rows {
				sites[k] = append(sites[k], site{lk.pos, v})
			}
		}
		// a per-kind table indexed in place as the precision argument: big.ParseFloat(s, 10, bits[typ.Kind], mode)
		ast.Inspect(fd.Body, func(n ast.Node) bool {
			call, ok := n.(*ast.CallExpr)
			if !ok || len(call.Args) != 4 || !isPkgFunc(calleeOf(info, call), "math/big", "ParseFloat") {
				return true
			}
			ix, ok := unparen(call.Args[2]).(*ast.IndexExpr)
			if !ok {
				return true
			}
			if conv, isCall := unparen(call.Args[2]).(*ast.CallExpr); isCall && len(conv.Args) == 1 {
				ix, _ = unparen(conv.Args[0]).(*ast.IndexExpr)
			}
			if ix == nil {
				return true
			}
			tid, ok := unparen(ix.X).(*ast.Ident)
			if !ok {
				return true
			}
			tv, ok := info.ObjectOf(tid).(*types.Var)
			if !ok || tv.Pkg() == nil || tv.Parent() != tv.Pkg().Scope() {
				return true
			}
			for _, f := range c.pkg(pkgCONS).Syntax {
				for _, d := range f.Decls {
					gd, ok := d.(*ast.GenDecl)
					if !ok || gd.Tok != token.VAR {
						continue
					}
					for _, sp := range gd.Specs {
						vs := sp.(*ast.ValueSpec)
						for i, nm := range vs.Names {
							if info.Defs[nm] != types.Object(tv) || i >= len(vs.Values) {
								continue
							}
							if cl, ok := vs.Values[i].(*ast.CompositeLit); ok {
								for _, el := range cl.Elts {
									if kv, ok := el.(*ast.KeyValueExpr); ok && strings.Contains(exprString(kv.Key), "FloatKind") {
										if v, ok := intConst(kv.Value); ok {
											sites[exprString(kv.Key)] = append(sites[exprString(kv.Key)], site{call.Pos(), v})
										}
									}
								}
							}
						}
					}
				}
			}
			return true
		})
	}
	for _, kind := range sortedKeys(sites) {
		ss := sites[kind]
		o := Obligation{Key: "float kind " + kind + " reader precision", Pos: c.pos(ss[0].pos), Verdict: OK}
		var vals []string
		agree := true
		for _, x := range ss {
			vals = append(vals, fmt.Sprint(x.val))
			if x.val != ss[0].val {
				agree = false
			}
		}
		want, known := ieeeSignificand[kind]
		switch {
		case !agree:
			o.Verdict, o.Detail = VIOL, fmt.Sprintf("the reader rounds this kind to different significand widths at different sites (%s bits): the hexadecimal and the decimal spelling of one value yield different constants", strings.Join(vals, ", "))
		case known && ss[0].val != want:
			o.Verdict, o.Detail = VIOL, fmt.Sprintf("the reader keeps %d significand bits for this kind; the format has %d (the hidden bit counts): values are rounded to a precision the type does not have", ss[0].val, want)
		default:
			o.Detail = fmt.Sprintf("%d sites, %s bits", len(ss), vals[0])
		}
		obs = append(obs, o)
	}
	if hexRegion != nil {
		for _, kind := range []string{"types.FloatKindHalf", "types.FloatKindFloat"} {
			o := Obligation{Key: "float kind " + kind + " is rounded to its own precision in the 16-digit branch", Pos: c.pos(hexRegion.Pos()), Verdict: VIOL,
				Detail: "the 16-digit form is decoded as a double; for this narrower kind no rounding to the kind's significand width happens in that branch, so a literal with more significant bits than the kind holds is stored unrounded and printing it again takes a second step to settle (the printer truncates what the reader kept)"}
			for _, x := range sites[kind] {
				if hexRegion.Pos() <= x.pos && x.pos < hexRegion.End() {
					o.Verdict, o.Detail = OK, fmt.Sprintf("%d bits", x.val)
				}
			}
			obs = append(obs, o)
		}
	}
	return obs
}

package main

import (
	"fmt"
	"go/ast"
	"go/constant"
	"go/token"
	"go/types"
	"sort"
	"strings"

	"golang.org/x/tools/go/packages"
)

// Engine D — writer/reader table agreement for enumerated keywords (C18, C02).
//
// The printer's value→keyword function S_T is the generated String method of
// the enum type, the parser's keyword→value function P_T is the generated
// XFromString function. Both are table lookups of one of a few generator
// shapes; the tables are Go constants and composite literals, which are
// evaluated here with go/constant. Nothing is executed.

func init() {
	register(&Rule{
		Name:  "ENUM-TAB",
		Doc:   "for every declared value v of every enumerated type T: the generated String table defines a keyword S(v) (not the 'T(n)' fallback), the generated FromString table maps S(v) back to v, and no two values share a keyword",
		Floor: 600,
		Run:   ruleEnumTab,
	})
	register(&Rule{
		Name:  "ENUM-LEX",
		Doc:   "every keyword an enum value prints as is a terminal of the llir/ll grammar: a literal of ll.tokenStr, or a member of the lexer's token class for that enum (frozen prefix table)",
		Floor: 600,
		Run:   ruleEnumLex,
	})
	register(&Rule{
		Name:  "ENUM-FLAGS",
		Doc:   "bit-set enums: XFirst/XLast are the least/greatest single-bit declared members, every single-bit member lies in [First,Last], and the set printer loops mask:=First; mask<=Last; mask<<=1 appending mask.String() for each set bit",
		Floor: 3,
		Run:   ruleEnumFlags,
	})
	register(&Rule{
		Name:  "ENUM-USE",
		Doc:   "every XFromString function is applied in package asm to the text of an AST node whose type name corresponds to X (the keyword a printer wrote with X.String() is read back with XFromString, not another family's table)",
		Floor: 30,
		Run:   ruleEnumUse,
	})
}

type enumTables struct {
	T        *types.Named
	Short    string
	S        map[int64]string // value -> keyword (String)
	SShape   string
	SErr     string
	SPos     token.Pos
	P        map[string]int64 // keyword -> value (FromString)
	PShape   string
	PErr     string
	PAmbig   []string // keywords reachable with more than one value in a map-range lookup
	PPos     token.Pos
	Declared []enumConst
}

type enumConst struct {
	Name string
	Val  int64
	Pos  token.Pos
}

// enumTypes discovers the enumerated types: named integer types of ir/enum
// and ir/types that have a String method declared in a *_string.go file.
func (c *Ctx) enumTypes() []*enumTables {
	if v, ok := c.memo["enumTypes"]; ok {
		return v.([]*enumTables)
	}
	var out []*enumTables
	for _, path := range []string{pkgENUM, pkgTYP} {
		p := c.pkg(path)
		scope := p.Types.Scope()
		for _, name := range scope.Names() {
			tn, ok := scope.Lookup(name).(*types.TypeName)
			if !ok {
				continue
			}
			named, ok := tn.Type().(*types.Named)
			if !ok {
				continue
			}
			b, ok := named.Underlying().(*types.Basic)
			if !ok || b.Info()&types.IsInteger == 0 {
				continue
			}
			et := &enumTables{T: named, Short: name}
			// declared constants of the type
			for _, cn := range scope.Names() {
				k, ok := scope.Lookup(cn).(*types.Const)
				if !ok || !types.Identical(k.Type(), named) {
					continue
				}
				v, ok := constant.Int64Val(constant.ToInt(k.Val()))
				if !ok {
					continue
				}
				et.Declared = append(et.Declared, enumConst{cn, v, k.Pos()})
			}
			sort.Slice(et.Declared, func(i, j int) bool { return et.Declared[i].Pos < et.Declared[j].Pos })
			if len(et.Declared) == 0 {
				continue
			}
			c.evalStringer(p, et)
			c.evalFromString(et)
			out = append(out, et)
		}
	}
	sort.Slice(out, func(i, j int) bool { return out[i].Short < out[j].Short })
	c.memo["enumTypes"] = out
	return out
}

type tabEval struct {
	info *types.Info
	pkg  *packages.Package
	c    *Ctx
}

func (e *tabEval) constInt(x ast.Expr) (int64, bool) {
	tv, ok := e.info.Types[x]
	if !ok || tv.Value == nil {
		return 0, false
	}
	return constant.Int64Val(constant.ToInt(tv.Value))
}

func (e *tabEval) constStr(x ast.Expr) (string, bool) {
	tv, ok := e.info.Types[x]
	if !ok || tv.Value == nil || tv.Value.Kind() != constant.String {
		return "", false
	}
	return constant.StringVal(tv.Value), true
}

// varInit returns the initialiser expression of a package-level variable.
func (e *tabEval) varInit(id *ast.Ident) ast.Expr {
	obj, _ := e.info.Uses[id].(*types.Var)
	if obj == nil {
		return nil
	}
	for _, f := range e.pkg.Syntax {
		for _, d := range f.Decls {
			gd, ok := d.(*ast.GenDecl)
			if !ok || gd.Tok != token.VAR {
				continue
			}
			for _, sp := range gd.Specs {
				vs := sp.(*ast.ValueSpec)
				for i, n := range vs.Names {
					if e.info.Defs[n] == obj && i < len(vs.Values) {
						return vs.Values[i]
					}
				}
			}
		}
	}
	return nil
}

// intTable evaluates `[...]uintN{a, b, c}`.
func (e *tabEval) intTable(id *ast.Ident) ([]int64, bool) {
	init := e.varInit(id)
	cl, ok := init.(*ast.CompositeLit)
	if !ok {
		return nil, false
	}
	var out []int64
	for _, el := range cl.Elts {
		if _, kv := el.(*ast.KeyValueExpr); kv {
			return nil, false
		}
		v, ok := e.constInt(el)
		if !ok {
			return nil, false
		}
		out = append(out, v)
	}
	return out, true
}

// runKeywords evaluates NAME[INDEX[i]:INDEX[i+1]] for all i.
func (e *tabEval) runKeywords(name, index ast.Expr) ([]string, bool) {
	s, ok := e.constStr(name)
	if !ok {
		return nil, false
	}
	id, ok := index.(*ast.Ident)
	if !ok {
		return nil, false
	}
	idx, ok := e.intTable(id)
	if !ok || len(idx) < 2 {
		return nil, false
	}
	var out []string
	for i := 0; i+1 < len(idx); i++ {
		if idx[i] < 0 || idx[i+1] < idx[i] || idx[i+1] > int64(len(s)) {
			return nil, false
		}
		out = append(out, s[idx[i]:idx[i+1]])
	}
	return out, true
}

// matchRunSlice matches NAME[INDEX[v]:INDEX[v+1]] and returns NAME, INDEX.
func matchRunSlice(x ast.Expr, v string) (name, index ast.Expr, ok bool) {
	se, ok := unparen(x).(*ast.SliceExpr)
	if !ok || se.Low == nil || se.High == nil || se.Max != nil {
		return nil, nil, false
	}
	lo, ok1 := se.Low.(*ast.IndexExpr)
	hi, ok2 := se.High.(*ast.IndexExpr)
	if !ok1 || !ok2 {
		return nil, nil, false
	}
	if exprString(lo.X) != exprString(hi.X) {
		return nil, nil, false
	}
	if exprString(lo.Index) != v {
		return nil, nil, false
	}
	if s := exprString(hi.Index); s != v+" + 1" && s != v+"+1" {
		return nil, nil, false
	}
	return se.X, lo.X, true
}

// mapTable evaluates `map[T]string{k: NAME[a:b], ...}`.
func (e *tabEval) mapTable(id *ast.Ident) (map[int64]string, bool) {
	cl, ok := e.varInit(id).(*ast.CompositeLit)
	if !ok {
		return nil, false
	}
	out := map[int64]string{}
	for _, el := range cl.Elts {
		kv, ok := el.(*ast.KeyValueExpr)
		if !ok {
			return nil, false
		}
		k, ok := e.constInt(kv.Key)
		if !ok {
			return nil, false
		}
		var val string
		if s, ok := e.constStr(kv.Value); ok {
			val = s
		} else if se, ok := kv.Value.(*ast.SliceExpr); ok && se.Low != nil && se.High != nil {
			s, ok1 := e.constStr(se.X)
			lo, ok2 := e.constInt(se.Low)
			hi, ok3 := e.constInt(se.High)
			if !ok1 || !ok2 || !ok3 || lo < 0 || hi < lo || hi > int64(len(s)) {
				return nil, false
			}
			val = s[lo:hi]
		} else {
			return nil, false
		}
		if _, dup := out[k]; dup {
			return nil, false
		}
		out[k] = val
	}
	return out, true
}

// isFallbackReturn recognises `return "T(" + strconv.FormatInt(...) + ")"`.
func isFallbackReturn(s ast.Stmt) bool {
	r, ok := s.(*ast.ReturnStmt)
	if !ok || len(r.Results) != 1 {
		return false
	}
	str := exprString(r.Results[0])
	return strings.Contains(str, "strconv.FormatInt") || strings.Contains(str, "strconv.Itoa")
}

// evalStringer reads the value→keyword table off the generated String method.
func (c *Ctx) evalStringer(p *packages.Package, et *enumTables) {
	fn := c.lookupFunc(p.PkgPath, et.Short+".String")
	fd := c.funcDecl(fn)
	if fd == nil || fd.Body == nil || fd.Recv == nil || len(fd.Recv.List) != 1 || len(fd.Recv.List[0].Names) != 1 {
		et.SErr = "no String method with source"
		return
	}
	et.SPos = fd.Pos()
	recv := fd.Recv.List[0].Names[0].Name
	e := &tabEval{info: p.TypesInfo, pkg: p, c: c}
	et.S = map[int64]string{}
	fail := func(format string, a ...interface{}) {
		et.S = nil
		et.SErr = fmt.Sprintf(format, a...)
	}
	stmts := fd.Body.List
	off := int64(0)
	// optional leading `i -= k`
	if len(stmts) > 0 {
		if k, ok := matchSubAssign(e, stmts[0], recv); ok {
			off = k
			stmts = stmts[1:]
		}
	}
	switch {
	case len(stmts) == 2 && isMapLookupIf(stmts[0], recv) != nil && isFallbackReturn(stmts[1]):
		m, ok := e.mapTable(isMapLookupIf(stmts[0], recv))
		if !ok || off != 0 {
			fail("map shape: table literal not evaluable")
			return
		}
		et.S = m
		et.SShape = "map"
	case len(stmts) == 2 && isRangeGuardIf(stmts[0]) && isReturn1(stmts[1]):
		name, index, ok := matchRunSlice(stmts[1].(*ast.ReturnStmt).Results[0], recv)
		if !ok {
			fail("single-run shape: return is not NAME[INDEX[i]:INDEX[i+1]]")
			return
		}
		kws, ok := e.runKeywords(name, index)
		if !ok {
			fail("single-run shape: tables not evaluable")
			return
		}
		// the guard must bound i by len(INDEX)-1 of the same table
		if !strings.Contains(exprString(stmts[0].(*ast.IfStmt).Cond), "len("+exprString(index)+")-1") &&
			!strings.Contains(exprString(stmts[0].(*ast.IfStmt).Cond), "len("+exprString(index)+") - 1") {
			fail("single-run shape: guard does not bound by len(%s)-1", exprString(index))
			return
		}
		for i, kw := range kws {
			et.S[int64(i)+off] = kw
		}
		et.SShape = "run"
		if off != 0 {
			et.SShape = "run+offset"
		}
	case len(stmts) == 1 && off == 0:
		sw, ok := stmts[0].(*ast.SwitchStmt)
		if !ok || sw.Tag != nil || sw.Init != nil {
			fail("unrecognised String shape")
			return
		}
		et.SShape = "multi-run"
		for _, cc := range sw.Body.List {
			cl := cc.(*ast.CaseClause)
			if cl.List == nil {
				if len(cl.Body) != 1 || !isFallbackReturn(cl.Body[0]) {
					fail("multi-run shape: default is not the T(n) fallback")
					return
				}
				continue
			}
			if len(cl.List) != 1 {
				fail("multi-run shape: case with several conditions")
				return
			}
			lo, hi, ok := matchRangeCond(e, cl.List[0], recv)
			if !ok {
				fail("multi-run shape: unrecognised case condition %s", exprString(cl.List[0]))
				return
			}
			body := cl.Body
			coff := int64(0)
			if len(body) == 2 {
				k, ok := matchSubAssign(e, body[0], recv)
				if !ok {
					fail("multi-run shape: unrecognised case body")
					return
				}
				coff = k
				body = body[1:]
			}
			if len(body) != 1 || !isReturn1(body[0]) {
				fail("multi-run shape: unrecognised case body")
				return
			}
			ret := body[0].(*ast.ReturnStmt).Results[0]
			if s, ok := e.constStr(ret); ok {
				if lo != hi {
					fail("multi-run shape: constant keyword for a range case")
					return
				}
				if _, dup := et.S[lo]; dup {
					fail("multi-run shape: overlapping cases at %d", lo)
					return
				}
				et.S[lo] = s
				continue
			}
			name, index, ok := matchRunSlice(ret, recv)
			if !ok {
				fail("multi-run shape: return is not NAME[INDEX[i]:INDEX[i+1]]")
				return
			}
			kws, ok := e.runKeywords(name, index)
			if !ok {
				fail("multi-run shape: tables not evaluable")
				return
			}
			for v := lo; v <= hi; v++ {
				i := v - coff
				if i < 0 || i >= int64(len(kws)) {
					fail("multi-run shape: value %d indexes outside %s", v, exprString(index))
					return
				}
				if _, dup := et.S[v]; dup {
					fail("multi-run shape: overlapping cases at %d", v)
					return
				}
				et.S[v] = kws[i]
			}
		}
	default:
		fail("unrecognised String shape")
	}
}

func isReturn1(s ast.Stmt) bool {
	r, ok := s.(*ast.ReturnStmt)
	return ok && len(r.Results) == 1
}

// matchSubAssign matches `i -= k`.
func matchSubAssign(e *tabEval, s ast.Stmt, v string) (int64, bool) {
	as, ok := s.(*ast.AssignStmt)
	if !ok || as.Tok != token.SUB_ASSIGN || len(as.Lhs) != 1 || exprString(as.Lhs[0]) != v {
		return 0, false
	}
	return e.constInt(as.Rhs[0])
}

// isMapLookupIf matches `if str, ok := MAP[i]; ok { return str }`.
func isMapLookupIf(s ast.Stmt, v string) *ast.Ident {
	is, ok := s.(*ast.IfStmt)
	if !ok || is.Init == nil || is.Else != nil {
		return nil
	}
	as, ok := is.Init.(*ast.AssignStmt)
	if !ok || len(as.Lhs) != 2 || len(as.Rhs) != 1 {
		return nil
	}
	ix, ok := as.Rhs[0].(*ast.IndexExpr)
	if !ok || exprString(ix.Index) != v {
		return nil
	}
	if exprString(is.Cond) != exprString(as.Lhs[1]) {
		return nil
	}
	if len(is.Body.List) != 1 || !isReturn1(is.Body.List[0]) {
		return nil
	}
	if exprString(is.Body.List[0].(*ast.ReturnStmt).Results[0]) != exprString(as.Lhs[0]) {
		return nil
	}
	id, _ := ix.X.(*ast.Ident)
	return id
}

// isRangeGuardIf matches `if [i < 0 ||] i >= T(len(INDEX)-1) { return fallback }`.
func isRangeGuardIf(s ast.Stmt) bool {
	is, ok := s.(*ast.IfStmt)
	if !ok || is.Init != nil || is.Else != nil || len(is.Body.List) != 1 {
		return false
	}
	return isFallbackReturn(is.Body.List[0])
}

// matchRangeCond matches `lo <= i && i <= hi`, `i <= hi` (lo = 0) and `i == k`.
func matchRangeCond(e *tabEval, x ast.Expr, v string) (lo, hi int64, ok bool) {
	be, ok := unparen(x).(*ast.BinaryExpr)
	if !ok {
		return 0, 0, false
	}
	switch be.Op {
	case token.EQL:
		if exprString(be.X) != v {
			return 0, 0, false
		}
		k, ok := e.constInt(be.Y)
		return k, k, ok
	case token.LEQ:
		if exprString(be.X) != v {
			return 0, 0, false
		}
		// `i <= hi` alone is only a complete range test for unsigned i
		tv := e.info.Types[be.X]
		if b, ok := tv.Type.Underlying().(*types.Basic); !ok || b.Info()&types.IsUnsigned == 0 {
			return 0, 0, false
		}
		k, ok := e.constInt(be.Y)
		return 0, k, ok
	case token.LAND:
		l, ok1 := unparen(be.X).(*ast.BinaryExpr)
		r, ok2 := unparen(be.Y).(*ast.BinaryExpr)
		if !ok1 || !ok2 || l.Op != token.LEQ || r.Op != token.LEQ {
			return 0, 0, false
		}
		if exprString(l.Y) != v || exprString(r.X) != v {
			return 0, 0, false
		}
		a, ok1 := e.constInt(l.X)
		b, ok2 := e.constInt(r.Y)
		return a, b, ok1 && ok2
	}
	return 0, 0, false
}

// evalFromString reads the keyword→value table off asm/enum.TFromString.
func (c *Ctx) evalFromString(et *enumTables) {
	p := c.pkg(pkgAENM)
	fn := c.lookupFunc(pkgAENM, et.Short+"FromString")
	fd := c.funcDecl(fn)
	if fd == nil || fd.Body == nil {
		et.PErr = "no " + et.Short + "FromString function in asm/enum"
		return
	}
	et.PPos = fd.Pos()
	sig := fn.Type().(*types.Signature)
	if sig.Params().Len() != 1 || sig.Results().Len() != 1 || !types.Identical(sig.Results().At(0).Type(), et.T) {
		et.PErr = "FromString has an unexpected signature"
		return
	}
	sv := sig.Params().At(0).Name()
	e := &tabEval{info: p.TypesInfo, pkg: p, c: c}
	et.P = map[string]int64{}
	fail := func(format string, a ...interface{}) {
		et.P = nil
		et.PErr = fmt.Sprintf(format, a...)
	}
	add := func(kw string, v int64) {
		if _, dup := et.P[kw]; !dup { // first match wins
			et.P[kw] = v
		}
	}
	var shapes []string
	stmts := fd.Body.List
	if len(stmts) == 0 {
		fail("empty body")
		return
	}
	// last statement must be the panic
	if es, ok := stmts[len(stmts)-1].(*ast.ExprStmt); !ok || !strings.HasPrefix(exprString(es.X), "panic(") {
		fail("last statement is not panic(...)")
		return
	}
	for _, st := range stmts[:len(stmts)-1] {
		switch st := st.(type) {
		case *ast.IfStmt:
			if st.Init != nil || st.Else != nil || len(st.Body.List) != 1 || !isReturn1(st.Body.List[0]) {
				fail("unrecognised if statement")
				return
			}
			ret := st.Body.List[0].(*ast.ReturnStmt).Results[0]
			cond := exprString(st.Cond)
			if cond == "len("+sv+") == 0" {
				v, ok := e.constInt(ret)
				if !ok {
					fail("empty-string case does not return a constant")
					return
				}
				add("", v)
				continue
			}
			be, ok := st.Cond.(*ast.BinaryExpr)
			if !ok || be.Op != token.EQL || exprString(be.X) != sv {
				fail("unrecognised condition %s", cond)
				return
			}
			kw, ok1 := e.constStr(be.Y)
			v, ok2 := e.constInt(ret)
			if !ok1 || !ok2 {
				fail("single-keyword case not constant")
				return
			}
			add(kw, v)
			shapes = append(shapes, "single")
		case *ast.RangeStmt:
			if len(st.Body.List) != 1 {
				fail("unrecognised loop body")
				return
			}
			inner, ok := st.Body.List[0].(*ast.IfStmt)
			if !ok || inner.Init != nil || inner.Else != nil || len(inner.Body.List) != 1 || !isReturn1(inner.Body.List[0]) {
				fail("unrecognised loop body")
				return
			}
			be, ok := inner.Cond.(*ast.BinaryExpr)
			if !ok || be.Op != token.EQL || exprString(be.X) != sv {
				fail("unrecognised loop condition")
				return
			}
			ret := inner.Body.List[0].(*ast.ReturnStmt).Results[0]
			if st.Value != nil {
				// for key, val := range MAP { if s == val { return key } }
				id, ok := st.X.(*ast.Ident)
				if !ok || exprString(be.Y) != exprString(st.Value) || exprString(ret) != exprString(st.Key) {
					fail("unrecognised map loop")
					return
				}
				m, ok := e.mapTable(id)
				if !ok {
					fail("map table not evaluable")
					return
				}
				rev := map[string][]int64{}
				for k, v := range m {
					rev[v] = append(rev[v], k)
				}
				for kw, vs := range rev {
					sort.Slice(vs, func(i, j int) bool { return vs[i] < vs[j] })
					if len(vs) > 1 {
						et.PAmbig = append(et.PAmbig, kw)
					}
					add(kw, vs[0])
				}
				shapes = append(shapes, "map")
				continue
			}
			// for i := range INDEX[:len(INDEX)-1] { if s == NAME[INDEX[i]:INDEX[i+1]] { return T(i + k) } }
			iv := exprString(st.Key)
			name, index, ok := matchRunSlice(be.Y, iv)
			if !ok {
				fail("loop does not compare with NAME[INDEX[i]:INDEX[i+1]]")
				return
			}
			want := exprString(index) + "[:len(" + exprString(index) + ")-1]"
			if got := strings.ReplaceAll(exprString(st.X), " ", ""); got != want {
				fail("loop ranges over %s, expected %s", got, want)
				return
			}
			kws, ok := e.runKeywords(name, index)
			if !ok {
				fail("run tables not evaluable")
				return
			}
			// return T(i + k)
			call, ok := ret.(*ast.CallExpr)
			if !ok || len(call.Args) != 1 {
				fail("loop does not return T(i + k)")
				return
			}
			k := int64(0)
			switch a := unparen(call.Args[0]).(type) {
			case *ast.Ident:
				if a.Name != iv {
					fail("loop does not return T(i + k)")
					return
				}
			case *ast.BinaryExpr:
				kk, ok := e.constInt(a.Y)
				if a.Op != token.ADD || exprString(a.X) != iv || !ok {
					fail("loop does not return T(i + k)")
					return
				}
				k = kk
			default:
				fail("loop does not return T(i + k)")
				return
			}
			for i, kw := range kws {
				add(kw, int64(i)+k)
			}
			shapes = append(shapes, "run")
		default:
			fail("unrecognised statement %T", st)
			return
		}
	}
	et.PShape = strings.Join(shapes, "+")
}

func enumTags(et *enumTables) []string {
	return []string{"enum:" + et.Short}
}

func ruleEnumTab(c *Ctx) []Obligation {
	var obs []Obligation
	for _, et := range c.enumTypes() {
		key := typeKey(et.T)
		if et.S == nil {
			obs = append(obs, Obligation{Key: key + " String-table", Verdict: UNDECIDED, Pos: c.pos(et.SPos), Detail: et.SErr, Tags: enumTags(et)})
			continue
		}
		if et.P == nil {
			v := UNDECIDED
			if strings.HasPrefix(et.PErr, "no ") {
				v = VIOL
			}
			obs = append(obs, Obligation{Key: key + " FromString-table", Verdict: v, Pos: c.pos(et.PPos), Detail: et.PErr, Tags: enumTags(et)})
			continue
		}
		// one obligation per distinct declared value; the first declared name is
		// the primary (what stringer prints), later names with the same value are aliases
		seen := map[int64]string{}
		byKw := map[string]int64{}
		for _, d := range et.Declared {
			if first, dup := seen[d.Val]; dup {
				_ = first
				continue
			}
			seen[d.Val] = d.Name
			o := Obligation{Key: fmt.Sprintf("%s value %s", key, d.Name), Pos: c.pos(d.Pos), Tags: enumTags(et)}
			kw, ok := et.S[d.Val]
			switch {
			case !ok:
				o.Verdict = VIOL
				o.Detail = fmt.Sprintf("declared value %d has no keyword in the String table (%s shape): it prints as %s(%d), which the parser cannot read back", d.Val, et.SShape, et.Short, d.Val)
			default:
				back, ok := et.P[kw]
				if prev, dup := byKw[kw]; dup && prev != d.Val {
					o.Verdict = VIOL
					o.Detail = fmt.Sprintf("keyword %q is printed for two values (%d and %d)", kw, prev, d.Val)
				} else if !ok {
					o.Verdict = VIOL
					o.Detail = fmt.Sprintf("keyword %q printed for %d is not in the FromString table (%s)", kw, d.Val, c.pos(et.PPos))
				} else if back != d.Val {
					o.Verdict = VIOL
					o.Detail = fmt.Sprintf("keyword %q printed for %d reads back as %d (%s)", kw, d.Val, back, c.pos(et.PPos))
				} else {
					o.Verdict = OK
					o.Detail = fmt.Sprintf("%d ↔ %q", d.Val, kw)
				}
				byKw[kw] = d.Val
			}
			obs = append(obs, o)
		}
		for _, kw := range et.PAmbig {
			obs = append(obs, Obligation{Key: fmt.Sprintf("%s keyword %q", key, kw), Verdict: VIOL, Pos: c.pos(et.PPos),
				Detail: "FromString ranges over a map in which two values carry this keyword: the value read back depends on map iteration order", Tags: enumTags(et)})
		}
	}
	return obs
}

// lexClass is the frozen table of enum families whose keywords are matched by
// a lexer token class (a regular expression in the llir/ll grammar) instead of
// literal terminals. Source: llir/grammar ll.tm (token definitions), reflected
// in ll.Token constants *_TOK.
var lexClass = map[string]struct {
	prefix string
	set    []string
}{
	"DwarfTag":         {prefix: "DW_TAG_"},
	"DwarfAttEncoding": {prefix: "DW_ATE_"},
	"DIFlag":           {prefix: "DIFlag"},
	"DISPFlag":         {prefix: "DISPFlag"},
	"DwarfLang":        {prefix: "DW_LANG_"},
	"DwarfCC":          {prefix: "DW_CC_"},
	"ChecksumKind":     {prefix: "CSK_"},
	"DwarfVirtuality":  {prefix: "DW_VIRTUALITY_"},
	"DwarfMacinfo":     {prefix: "DW_MACINFO_"},
	"DwarfOp":          {prefix: "DW_OP_"},
	"EmissionKind":     {set: []string{"DebugDirectivesOnly", "FullDebug", "LineTablesOnly", "NoDebug"}},
	"NameTableKind":    {set: []string{"GNU", "None", "Default"}},
}

// lexExempt: frozen exemptions of ENUM-LEX, one reason each.
var lexExempt = map[string]string{
	"AllocKind.*":              "allockind members are printed inside a quoted string (allockind(\"alloc,zeroed\")) and split on ',' by the parser; they are not lexer terminals",
	"TLSModel.TLSModelGeneric": "the generic model is printed as bare `thread_local` by ir.tlsModelString and read back by asm.irTLSModelFromThreadLocal's no-model branch; its table keyword never reaches the output",
}

// allTerminals reports whether every space-separated piece of kw is a literal
// terminal or an integer literal (the `cc 11` numeric calling conventions).
func allTerminals(terms map[string]bool, kw string) bool {
	if kw == "" {
		return false
	}
	for _, f := range strings.Split(kw, " ") {
		if terms[f] {
			continue
		}
		digits := f != ""
		for _, r := range f {
			if r < '0' || r > '9' {
				digits = false
			}
		}
		if !digits {
			return false
		}
	}
	return true
}

// llTerminals returns the literal terminals of the llir/ll grammar (ll.tokenStr).
func (c *Ctx) llTerminals() map[string]bool {
	if v, ok := c.memo["llTerminals"]; ok {
		return v.(map[string]bool)
	}
	p := c.pkg(pkgLL)
	out := map[string]bool{}
	for _, f := range p.Syntax {
		for _, d := range f.Decls {
			gd, ok := d.(*ast.GenDecl)
			if !ok || gd.Tok != token.VAR {
				continue
			}
			for _, sp := range gd.Specs {
				vs := sp.(*ast.ValueSpec)
				if len(vs.Names) != 1 || vs.Names[0].Name != "tokenStr" || len(vs.Values) != 1 {
					continue
				}
				cl, ok := vs.Values[0].(*ast.CompositeLit)
				if !ok {
					continue
				}
				for _, el := range cl.Elts {
					if tv, ok := p.TypesInfo.Types[el]; ok && tv.Value != nil && tv.Value.Kind() == constant.String {
						out[constant.StringVal(tv.Value)] = true
					}
				}
			}
		}
	}
	c.memo["llTerminals"] = out
	return out
}

func ruleEnumLex(c *Ctx) []Obligation {
	terms := c.llTerminals()
	var obs []Obligation
	if len(terms) < 400 {
		return []Obligation{{Key: "ll.tokenStr", Verdict: UNDECIDED, Detail: fmt.Sprintf("only %d terminals found in github.com/llir/ll", len(terms))}}
	}
	for _, et := range c.enumTypes() {
		if et.S == nil {
			continue // reported by ENUM-TAB
		}
		key := typeKey(et.T)
		seen := map[int64]bool{}
		for _, d := range et.Declared {
			if seen[d.Val] {
				continue
			}
			seen[d.Val] = true
			kw, ok := et.S[d.Val]
			if !ok {
				continue // reported by ENUM-TAB
			}
			o := Obligation{Key: fmt.Sprintf("%s value %s", key, d.Name), Pos: c.pos(d.Pos), Tags: enumTags(et), Verdict: OK, Detail: fmt.Sprintf("%q", kw)}
			if cls, ok := lexClass[et.Short]; ok {
				okc := cls.prefix != "" && strings.HasPrefix(kw, cls.prefix) && len(kw) > len(cls.prefix)
				for _, s := range cls.set {
					if s == kw {
						okc = true
					}
				}
				if !okc {
					o.Verdict = VIOL
					o.Detail = fmt.Sprintf("keyword %q is outside the lexer's token class for %s (%s%v)", kw, et.Short, cls.prefix, cls.set)
				}
			} else if why, ok := lexExempt[et.Short+"."+d.Name]; ok {
				o.Verdict = EXEMPT
				o.Detail = why
			} else if why, ok := lexExempt[et.Short+".*"]; ok {
				o.Verdict = EXEMPT
				o.Detail = why
			} else if !allTerminals(terms, kw) {
				if kw == "" || kw == "none" && strings.HasSuffix(d.Name, "None") {
					// the absent-keyword member: printers test for it and print nothing
					o.Verdict = EXEMPT
					o.Detail = fmt.Sprintf("%q is the 'absent' member of %s; printers omit it (checked by FLD-P on the guarding condition)", kw, et.Short)
				} else {
					o.Verdict = VIOL
					o.Detail = fmt.Sprintf("keyword %q is not a terminal of the llir/ll grammar: the lexer cannot produce it, so the printed text cannot be read back", kw)
				}
			}
			obs = append(obs, o)
		}
	}
	return obs
}

// ---------------------------------------------------------------------------

func ruleEnumFlags(c *Ctx) []Obligation {
	var obs []Obligation
	for _, et := range c.enumTypes() {
		var first, last *enumConst
		for i := range et.Declared {
			d := &et.Declared[i]
			if d.Name == et.Short+"First" {
				first = d
			}
			if d.Name == et.Short+"Last" {
				last = d
			}
		}
		if first == nil && last == nil {
			continue
		}
		key := typeKey(et.T)
		if first == nil || last == nil {
			obs = append(obs, Obligation{Key: key + " First/Last", Verdict: UNDECIDED, Detail: "only one of First/Last declared"})
			continue
		}
		// single-bit declared members that have a keyword
		var lo, hi int64 = -1, -1
		for _, d := range et.Declared {
			if d.Name == first.Name || d.Name == last.Name {
				continue
			}
			if d.Val > 0 && d.Val&(d.Val-1) == 0 {
				if _, ok := et.S[d.Val]; !ok {
					continue
				}
				if lo < 0 || d.Val < lo {
					lo = d.Val
				}
				if d.Val > hi {
					hi = d.Val
				}
			}
		}
		o := Obligation{Key: key + " First/Last bounds", Pos: c.pos(first.Pos), Verdict: OK,
			Detail: fmt.Sprintf("First=%d Last=%d; single-bit members span [%d,%d]", first.Val, last.Val, lo, hi)}
		// DIFlag: bits 0..1 are the accessibility field, printed separately (flags & 0x3); First may start above it.
		if hi != last.Val {
			o.Verdict = VIOL
			o.Detail += fmt.Sprintf(": greatest single-bit member %d is not %sLast — the set printer's loop never reaches it", hi, et.Short)
		}
		obs = append(obs, o)
		// members below First must be covered by an explicit mask test in the set printer (checked below)
		obs = append(obs, c.flagPrinterObligations(et, first, last, lo)...)
	}
	return obs
}

// flagPrinterObligations finds the set printer of a bit-set enum: a function
// of ir or ir/metadata with one parameter of type T and a string result that
// contains the mask loop.
func (c *Ctx) flagPrinterObligations(et *enumTables, first, last *enumConst, lo int64) []Obligation {
	var obs []Obligation
	key := typeKey(et.T)
	found := false
	for _, path := range []string{pkgIR, pkgMD} {
		c.eachFunc(path, func(p *packages.Package, fd *ast.FuncDecl, fn *types.Func) {
			sig := fn.Type().(*types.Signature)
			if sig.Recv() != nil || sig.Params().Len() != 1 || !types.Identical(sig.Params().At(0).Type(), et.T) || sig.Results().Len() != 1 {
				return
			}
			if b, ok := sig.Results().At(0).Type().(*types.Basic); !ok || b.Kind() != types.String {
				return
			}
			param := sig.Params().At(0).Name()
			var loop *ast.ForStmt
			ast.Inspect(fd.Body, func(n ast.Node) bool {
				if f, ok := n.(*ast.ForStmt); ok && loop == nil {
					loop = f
				}
				return true
			})
			info := p.TypesInfo
			// the loop may live in a shared helper that receives the set, the bounds and a naming
			// function: appendBitNames(names, uint64(flags), uint64(First), uint64(Last), name)
			linfo := info
			bind := map[types.Object]ast.Expr{} // helper parameter → argument at the call in fn
			strip := func(ii *types.Info, e ast.Expr) ast.Expr {
				for {
					e = unparen(e)
					if call, ok := e.(*ast.CallExpr); ok && len(call.Args) == 1 {
						if tv, ok := ii.Types[call.Fun]; ok && tv.IsType() {
							e = call.Args[0]
							continue
						}
					}
					return e
				}
			}
			if loop == nil {
				ast.Inspect(fd.Body, func(n ast.Node) bool {
					call, ok := n.(*ast.CallExpr)
					if !ok || loop != nil {
						return true
					}
					h := calleeOf(info, call)
					hfd := c.funcDecl(h)
					if hfd == nil || hfd.Body == nil || h.Pkg() == nil || !c.isLLVM(h.Pkg().Path()) {
						return true
					}
					passes := false
					for _, a := range call.Args {
						if id, ok := strip(info, a).(*ast.Ident); ok && id.Name == param {
							passes = true
						}
					}
					if !passes {
						return true
					}
					var hl *ast.ForStmt
					ast.Inspect(hfd.Body, func(m ast.Node) bool {
						if f, ok := m.(*ast.ForStmt); ok && hl == nil {
							hl = f
						}
						return true
					})
					if hl == nil {
						return true
					}
					loop, linfo = hl, c.declPkg[hfd].TypesInfo
					k := 0
					for _, f := range hfd.Type.Params.List {
						for _, nm := range f.Names {
							if k < len(call.Args) {
								bind[linfo.Defs[nm]] = call.Args[k]
							}
							k++
						}
					}
					return true
				})
			}
			if loop == nil {
				return
			}
			found = true
			o := Obligation{Key: fmt.Sprintf("%s set printer %s", key, funcKey(fn)), Pos: c.pos(loop.Pos()), Verdict: OK}
			bad := func(s string) {
				o.Verdict = VIOL
				o.Detail = s
			}
			// resolve an expression of the loop to what it denotes at the call: conversions are
			// stripped, helper parameters replaced by the arguments
			constName := func(e ast.Expr) string {
				e = strip(linfo, e)
				if id, ok := e.(*ast.Ident); ok {
					if a, ok := bind[linfo.ObjectOf(id)]; ok {
						if k, ok := info.Uses[selIdent(strip(info, a))].(*types.Const); ok {
							return k.Name()
						}
						return ""
					}
				}
				if k, ok := linfo.Uses[selIdent(e)].(*types.Const); ok {
					return k.Name()
				}
				return ""
			}
			isSetParam := func(e ast.Expr) bool {
				e = strip(linfo, e)
				id, ok := e.(*ast.Ident)
				if !ok {
					return false
				}
				if a, ok := bind[linfo.ObjectOf(id)]; ok {
					aid, ok := strip(info, a).(*ast.Ident)
					return ok && aid.Name == param
				}
				return len(bind) == 0 && id.Name == param
			}
			// init: mask := First
			mv := ""
			if as, ok := loop.Init.(*ast.AssignStmt); ok && len(as.Lhs) == 1 && len(as.Rhs) == 1 {
				mv = exprString(as.Lhs[0])
				if constName(as.Rhs[0]) != first.Name {
					bad("loop does not start at " + first.Name)
				}
			} else {
				bad("unrecognised loop init")
			}
			if be, ok := loop.Cond.(*ast.BinaryExpr); ok && be.Op == token.LEQ && exprString(be.X) == mv {
				if constName(be.Y) != last.Name {
					bad("loop does not end at " + last.Name)
				}
			} else if o.Verdict == OK {
				bad("loop condition is not mask <= " + last.Name)
			}
			if as, ok := loop.Post.(*ast.AssignStmt); !ok || as.Tok != token.SHL_ASSIGN || exprString(as.Lhs[0]) != mv || exprString(as.Rhs[0]) != "1" {
				if o.Verdict == OK {
					bad("loop step is not mask <<= 1")
				}
			}
			// body: for every set bit the name of *that* mask is emitted —
			//   if flags&mask != 0 { … mask.String() / name(mask) … }
			okBody := false
			ast.Inspect(loop.Body, func(n ast.Node) bool {
				is, ok := n.(*ast.IfStmt)
				if !ok || okBody {
					return true
				}
				be, ok := unparen(is.Cond).(*ast.BinaryExpr)
				if !ok || be.Op != token.NEQ {
					return true
				}
				and, ok := unparen(be.X).(*ast.BinaryExpr)
				if !ok || and.Op != token.AND {
					return true
				}
				if tv := linfo.Types[be.Y]; tv.Value == nil || tv.Value.String() != "0" {
					return true
				}
				x, y := and.X, and.Y
				if exprString(unparen(x)) == mv {
					x, y = y, x
				}
				if exprString(unparen(y)) != mv || !isSetParam(x) {
					return true
				}
				// the emitted name is computed from the mask
				ast.Inspect(is.Body, func(m ast.Node) bool {
					call, ok := m.(*ast.CallExpr)
					if !ok {
						return true
					}
					if se, ok := unparen(call.Fun).(*ast.SelectorExpr); ok && se.Sel.Name == "String" && exprString(unparen(se.X)) == mv {
						okBody = true
					}
					if len(call.Args) == 1 && exprString(strip(linfo, call.Args[0])) == mv {
						if t := linfo.TypeOf(call); t != nil && isPlainString(t) {
							okBody = true // name(mask): a naming function applied to the mask
						}
					}
					return true
				})
				return true
			})
			if !okBody && o.Verdict == OK {
				bad("loop body does not emit the name of the mask for every set bit (`if flags&mask != 0 { … mask.String() … }`)")
			}
			// the mask visits every bit: only the loop's own step changes it, and no iteration is
			// cut short before the test
			if o.Verdict == OK {
				ast.Inspect(loop.Body, func(n ast.Node) bool {
					switch x := n.(type) {
					case *ast.FuncLit:
						return false
					case *ast.AssignStmt:
						for _, l := range x.Lhs {
							if exprString(unparen(l)) == mv {
								bad(fmt.Sprintf("the mask is also changed inside the loop body (`%s %s …`): together with the loop's own step some bit is never visited, so the flag with that bit is silently dropped from the printed set", mv, x.Tok))
							}
						}
					case *ast.IncDecStmt:
						if exprString(unparen(x.X)) == mv {
							bad("the mask is also changed inside the loop body")
						}
					case *ast.BranchStmt:
						if x.Tok == token.BREAK || x.Tok == token.GOTO {
							bad("the loop over the bits can be left early")
						}
					}
					return true
				})
			}
			// declared single-bit members below First need their own mask test before the loop
			if o.Verdict == OK && lo >= 0 && lo < first.Val {
				covered := false
				ast.Inspect(fd.Body, func(n ast.Node) bool {
					if be, ok := n.(*ast.BinaryExpr); ok && be.Op == token.AND && exprString(strip(info, be.X)) == param {
						if tv, ok := info.Types[be.Y]; ok && tv.Value != nil {
							if m, ok := constant.Int64Val(constant.ToInt(tv.Value)); ok && m == first.Val-1 {
								covered = true
							}
						}
					}
					return true
				})
				if !covered {
					bad(fmt.Sprintf("members below %s (from %d) are not printed: no `flags & %#x` field test before the loop", first.Name, lo, first.Val-1))
				}
			}
			if o.Verdict == OK {
				o.Detail = fmt.Sprintf("for %s := %s; %s <= %s; %s <<= 1 { append(%s.String()) }", mv, first.Name, mv, last.Name, mv, mv)
			}
			obs = append(obs, o)
			// the empty set is tested first, on the unmodified parameter
			oz := Obligation{Key: fmt.Sprintf("%s set printer %s tests the empty set on the set to print", key, funcKey(fn)), Pos: c.pos(fd.Pos()), Verdict: VIOL,
				Detail: "no `if " + param + " == <zero member> { return … }` at the top level: the empty set is printed as the empty string, which is not a keyword"}
			pobj := sig.Params().At(0)
			modified := token.NoPos
			if _, hasZero := et.S[0]; !hasZero {
				// no keyword for the empty set (AllocKind): the empty set is outside the printable domain
				oz.Verdict, oz.Detail = OK, "the enum declares no keyword for the empty set; nothing to test"
				obs = append(obs, oz)
				return
			}
			for _, st := range fd.Body.List {
				if is, ok := st.(*ast.IfStmt); ok && is.Init == nil {
					if be, ok := is.Cond.(*ast.BinaryExpr); ok && be.Op == token.EQL {
						x, y := unparen(be.X), unparen(be.Y)
						if id, ok := y.(*ast.Ident); ok && info.ObjectOf(id) == pobj {
							x, y = y, x
						}
						id, isParam := x.(*ast.Ident)
						tv := info.Types[y]
						if isParam && info.ObjectOf(id) == pobj && tv.Value != nil && constant.Sign(constant.ToInt(tv.Value)) == 0 && len(is.Body.List) > 0 {
							if _, ok := is.Body.List[len(is.Body.List)-1].(*ast.ReturnStmt); ok {
								if modified != token.NoPos {
									oz.Pos = c.pos(modified)
									oz.Detail = "the parameter is modified before the empty-set test: a non-empty set whose members were all removed by then is printed as the zero keyword and reads back as the empty set"
								} else {
									oz.Verdict, oz.Pos, oz.Detail = OK, c.pos(is.Pos()), "first use of the parameter; nothing is collected or cleared before it"
								}
								break
							}
						}
					}
				}
				ast.Inspect(st, func(m ast.Node) bool {
					switch m := m.(type) {
					case *ast.AssignStmt:
						for _, l := range m.Lhs {
							if id, ok := unparen(l).(*ast.Ident); ok && info.ObjectOf(id) == pobj && modified == token.NoPos {
								modified = m.Pos()
							}
						}
					case *ast.IncDecStmt:
						if id, ok := unparen(m.X).(*ast.Ident); ok && info.ObjectOf(id) == pobj && modified == token.NoPos {
							modified = m.Pos()
						}
					}
					return true
				})
			}
			obs = append(obs, oz)
		})
	}
	if !found {
		obs = append(obs, Obligation{Key: key + " set printer", Verdict: UNDECIDED, Detail: "no set-printer function (one " + et.Short + " parameter, string result, mask loop) found in ir or ir/metadata"})
	}
	return obs
}

func selIdent(e ast.Expr) *ast.Ident {
	switch x := unparen(e).(type) {
	case *ast.Ident:
		return x
	case *ast.SelectorExpr:
		return x.Sel
	}
	return nil
}

// ---------------------------------------------------------------------------

// enumASTName maps an enum type to the AST node type names whose text carries
// its keyword. Most follow by name; the frozen remainder is listed.
var enumASTAlias = map[string][]string{
	"Linkage":         {"ExternLinkage"}, // the grammar splits `external`/`extern_weak` into their own production
	"AtomicOp":        {"AtomicOp"},
	"Tail":            {"Tail"},
	"FloatKind":       {"FloatKind"},
	"SelectionKind":   {"SelectionKind"},
	"OverflowFlag":    {"OverflowFlag"},
	"FastMathFlag":    {"FastMathFlag"},
	"ClauseType":      {"ClauseType"},
	"DIFlag":          {"DIFlagEnum"},
	"DISPFlag":        {"DISPFlagEnum"},
	"UnwindTableKind": {"UnwindTableKind"},
}

func ruleEnumUse(c *Ctx) []Obligation {
	var obs []Obligation
	p := c.pkg(pkgASM)
	info := p.TypesInfo
	type use struct {
		pos  token.Pos
		argT string
		fn   string
	}
	uses := map[string][]use{}
	for _, f := range p.Syntax {
		var encl string
		ast.Inspect(f, func(n ast.Node) bool {
			if fd, ok := n.(*ast.FuncDecl); ok {
				encl = fd.Name.Name
			}
			call, ok := n.(*ast.CallExpr)
			if !ok {
				return true
			}
			fn := calleeOf(info, call)
			if fn == nil || fn.Pkg() == nil || fn.Pkg().Path() != pkgAENM || !strings.HasSuffix(fn.Name(), "FromString") || len(call.Args) != 1 {
				return true
			}
			// the argument is X.Text() (or X.LlvmNode().Text()): find the AST node type of X
			argT := ""
			ast.Inspect(call.Args[0], func(m ast.Node) bool {
				if argT != "" {
					return false
				}
				if ce, ok := m.(*ast.CallExpr); ok {
					if se, ok := ce.Fun.(*ast.SelectorExpr); ok && se.Sel.Name == "Text" {
						x := se.X
						if inner, ok := x.(*ast.CallExpr); ok {
							if s2, ok := inner.Fun.(*ast.SelectorExpr); ok && s2.Sel.Name == "LlvmNode" {
								x = s2.X
							}
						}
						if tv, ok := info.Types[x]; ok {
							if n := namedOf(tv.Type); n != nil && n.Obj().Pkg() != nil && n.Obj().Pkg().Path() == pkgAST {
								argT = n.Obj().Name()
							}
						}
					}
				}
				return true
			})
			uses[strings.TrimSuffix(fn.Name(), "FromString")] = append(uses[strings.TrimSuffix(fn.Name(), "FromString")], use{call.Pos(), argT, encl})
			return true
		})
	}
	for _, et := range c.enumTypes() {
		us := uses[et.Short]
		key := typeKey(et.T)
		if len(us) == 0 {
			// a table nobody reads is harmless for reading but means the parser obtains the value some other way
			obs = append(obs, Obligation{Key: key + " FromString use", Verdict: EXEMPT, Detail: "FromString not called from package asm (value obtained structurally)"})
			continue
		}
		for i, u := range us {
			o := Obligation{Key: fmt.Sprintf("%s FromString use in asm.%s #%d", key, u.fn, indexWithin(us, i)), Pos: c.pos(u.pos), Verdict: OK, Detail: "argument text of ast." + u.argT}
			if u.argT == "" || u.argT == "LlvmNode" {
				o.Verdict = EXEMPT
				o.Detail = "argument is not the text of a typed AST node (string computed locally)"
			} else if !enumASTMatches(et.Short, u.argT) {
				o.Verdict = VIOL
				o.Detail = fmt.Sprintf("%sFromString applied to the text of ast.%s: keyword family mismatch", et.Short, u.argT)
			}
			obs = append(obs, o)
		}
	}
	return obs
}

func indexWithin[T any](us []T, i int) int { return i }

func enumASTMatches(enumName, astName string) bool {
	for _, a := range enumASTAlias[enumName] {
		if a == astName {
			return true
		}
	}
	norm := func(s string) string {
		s = strings.ToLower(s)
		for _, suf := range []string{"enum", "tok"} {
			s = strings.TrimSuffix(s, suf)
		}
		return s
	}
	return norm(enumName) == norm(astName)
}

// llvmlint decides structural necessary conditions of the properties C01–C20
// of llir/llvm by static analysis of the repository's current source tree.
// It contains no llir/llvm code and executes none.
package main

import (
	"flag"
	"fmt"
	"os"
	"path/filepath"
	"runtime/debug"
	"sort"
	"strconv"
	"strings"
	"time"
)

func main() {
	repo := flag.String("repo", "/repo", "llir/llvm source tree to analyse")
	prop := flag.String("prop", "", "property id (C01..C20), or 'all'")
	tier := flag.String("tier", "quick", "quick | thorough")
	verif := flag.String("verif", "", "verification directory (default: parent of the binary's directory)")
	expl := flag.String("explain", "", "pretty-print a replay file and exit")
	list := flag.Bool("list", false, "list properties and rules")
	dump := flag.String("dump", "", "print every obligation of a rule (debugging)")
	manifest := flag.Bool("manifest", false, "print MANIFEST.json generated from the property table")
	noEvidence := flag.Bool("no-evidence", false, "do not write evidence/replay files (used by selftests on scratch trees)")
	flag.Parse()

	if *expl != "" {
		if err := explain(*expl); err != nil {
			fmt.Fprintln(os.Stderr, "llvmlint:", err)
			os.Exit(2)
		}
		return
	}
	if *manifest {
		fmt.Print(manifestJSON())
		return
	}
	if *list {
		for _, p := range properties {
			var rs []string
			for _, u := range p.Rules {
				rs = append(rs, u.Rule)
			}
			fmt.Printf("%s  %s\n     rules: %s\n", p.ID, p.Title, strings.Join(rs, " "))
		}
		var names []string
		for n := range rules {
			names = append(names, n)
		}
		sort.Strings(names)
		for _, n := range names {
			fmt.Printf("%-14s %s\n", n, rules[n].Doc)
		}
		return
	}
	if *verif == "" {
		exe, err := os.Executable()
		if err == nil {
			*verif = filepath.Dir(filepath.Dir(exe))
		} else {
			*verif = "/verif"
		}
	}
	if *tier != "quick" && *tier != "thorough" {
		if t := os.Getenv("VERIF_TIER"); t == "quick" || t == "thorough" {
			*tier = t
		} else {
			fmt.Fprintln(os.Stderr, "llvmlint: bad -tier")
			os.Exit(2)
		}
	}
	seed := 0
	if s := os.Getenv("VERIF_SEED"); s != "" {
		seed, _ = strconv.Atoi(s) // no random choices are made; recorded only
	}

	start := time.Now()
	// a rule that does not terminate on an unforeseen shape must not hang the check
	time.AfterFunc(20*time.Minute, func() {
		fmt.Fprintln(os.Stderr, "llvmlint: watchdog: the analysis did not finish within 20 minutes (this is not 'property holds')")
		os.Exit(2)
	})
	defer func() {
		if r := recover(); r != nil {
			fmt.Fprintf(os.Stderr, "llvmlint: analyser panic: %v\n%s\n", r, debug.Stack())
			os.Exit(2)
		}
	}()
	c, err := load(*repo)
	if err != nil {
		fmt.Fprintln(os.Stderr, "llvmlint: cannot analyse the tree (this is not 'property holds'):", err)
		os.Exit(2)
	}

	if *dump != "" {
		for _, name := range strings.Split(*dump, ",") {
			if rules[name] == nil {
				fmt.Fprintln(os.Stderr, "unknown rule", name)
				os.Exit(2)
			}
			obs := c.runRule(name)
			cnt := map[string]int{}
			for _, o := range obs {
				cnt[o.Verdict]++
				fmt.Printf("%-9s %-12s %s  [%s] %s  %v\n", o.Verdict, o.Rule, o.Key, o.Pos, o.Detail, o.Tags)
			}
			fmt.Printf("-- %s: %d obligations %v (%.1fs)\n", name, len(obs), cnt, time.Since(start).Seconds())
		}
		return
	}

	findings, err := loadFindings(filepath.Join(*verif, "known_findings.txt"))
	if err != nil {
		fmt.Fprintln(os.Stderr, "llvmlint:", err)
		os.Exit(2)
	}

	var todo []*Property
	for _, p := range properties {
		if *prop == "all" || *prop == p.ID {
			todo = append(todo, p)
		}
	}
	if len(todo) == 0 {
		fmt.Fprintln(os.Stderr, "llvmlint: unknown property", *prop)
		os.Exit(2)
	}
	exit := 0
	for _, p := range todo {
		t0 := time.Now()
		res := runProperty(c, p, *tier, findings)
		wall := time.Since(t0).Seconds()
		if len(todo) == 1 {
			wall = time.Since(start).Seconds()
		}
		// thorough: the same property on the other build configurations
		if *tier == "thorough" {
			for _, cfg := range thoroughConfigs {
				buildGOOS, buildGOARCH = cfg[0], cfg[1]
				c2, err := load(*repo)
				if err != nil {
					fmt.Fprintf(os.Stderr, "llvmlint: cannot analyse the tree under %s/%s (this is not 'property holds'): %v\n", cfg[0], cfg[1], err)
					os.Exit(2)
				}
				r2 := runProperty(c2, p, *tier, findings)
				res.Configs = append(res.Configs, fmt.Sprintf("%s/%s: %d packages, %d files, %d obligations, %d new violations, %d floor failures", cfg[0], cfg[1], len(c2.All), c2.nFiles, len(r2.Obs), len(r2.NewViol), len(r2.FloorFails)))
				have := map[string]bool{}
				for _, o := range res.NewViol {
					have[o.Rule+"\x00"+o.Key] = true
				}
				for _, o := range r2.NewViol {
					if !have[o.Rule+"\x00"+o.Key] {
						o.Detail = "[" + cfg[0] + "/" + cfg[1] + "] " + o.Detail
						res.NewViol = append(res.NewViol, o)
					}
				}
				for _, f := range r2.FloorFails {
					res.FloorFails = append(res.FloorFails, "["+cfg[0]+"/"+cfg[1]+"] "+f)
				}
			}
			buildGOOS, buildGOARCH = "", ""
			curCtx = c
			wall = time.Since(t0).Seconds()
			if len(todo) == 1 {
				wall = time.Since(start).Seconds()
			}
		}
		cmd := fmt.Sprintf("bin/llvmlint -repo %s -prop %s -tier %s", *repo, p.ID, *tier)
		if !*noEvidence {
			if err := writeEvidence(c, *verif, res, seed, wall, cmd); err != nil {
				fmt.Fprintln(os.Stderr, "llvmlint: evidence:", err)
				os.Exit(2)
			}
		}
		fmt.Printf("property %s tier=%s: %d obligations over %d rules (%.1fs)\n", p.ID, *tier, len(res.Obs), len(res.Stats), wall)
		for _, st := range res.Stats {
			fmt.Printf("  %-14s instances=%-4d ok=%-4d exempt=%-3d known=%-2d violations=%d undecided=%d (floor %d)\n",
				st.Rule, st.Instances, st.OK, st.Exempt, st.Known, st.Violations, st.Undecided, st.Floor)
		}
		for i, o := range res.Known {
			fmt.Printf("KNOWN-FINDING: property=%s %s %s — %s [%s]\n", p.ID, o.Rule, o.Key, res.KnownBy[i].Input, o.Pos)
		}
		for _, f := range res.Stale {
			fmt.Printf("note: listed finding no longer observed (%s %s); consider recording it as fixed\n", f.Rule, f.Construct)
		}
		if len(res.NewViol) > 0 || len(res.FloorFails) > 0 {
			path := filepath.Join(*verif, "out", p.ID+"."+*tier+".violations.json")
			if !*noEvidence {
				path, err = writeReplay(*verif, res)
				if err != nil {
					fmt.Fprintln(os.Stderr, "llvmlint: replay:", err)
					os.Exit(2)
				}
			}
			for _, o := range res.NewViol {
				fmt.Printf("  %s: %s [%s] %s: %s\n", o.Pos, o.Verdict, o.Rule, o.Key, o.Detail)
			}
			for _, f := range res.FloorFails {
				fmt.Printf("  floor: %s\n", f)
			}
			fmt.Printf("VIOLATION property=%s replay=%s\n", p.ID, path)
			exit = 1
		}
	}
	os.Exit(exit)
}

package main

import (
	"fmt"
	"go/token"
	"go/types"
	"sort"
	"strings"

	"golang.org/x/tools/go/ssa"
)

// GEP-RES on SSA, over the functions of package gep reachable from ResultType (so that the walk
// may be one function, a method object, or a driver with helpers).

func ruleGEPRES(c *Ctx) []Obligation {
	tags := []string{"gep"}
	fn := c.lookupFunc(pkgGEP, "ResultType")
	root := c.ssaFunc(fn)
	if root == nil || len(root.Blocks) == 0 {
		return []Obligation{{Key: "gep.ResultType", Verdict: UNDECIDED, Detail: "function not found", Tags: tags}}
	}
	// function set
	set := map[*ssa.Function]bool{}
	var order []*ssa.Function
	var visit func(f *ssa.Function)
	visit = func(f *ssa.Function) {
		if f == nil || set[f] || len(f.Blocks) == 0 {
			return
		}
		pkg := f.Pkg
		if pkg == nil && f.Parent() != nil {
			pkg = f.Parent().Pkg
		}
		if pkg == nil || pkg.Pkg.Path() != pkgGEP {
			return
		}
		set[f] = true
		order = append(order, f)
		for _, b := range f.Blocks {
			for _, in := range b.Instrs {
				if ci, ok := in.(ssa.CallInstruction); ok {
					visit(ci.Common().StaticCallee())
				}
			}
		}
		for _, a := range f.AnonFuncs {
			visit(a)
		}
	}
	visit(root)
	isIndex := func(t types.Type) bool {
		if p, ok := t.(*types.Pointer); ok {
			t = p.Elem()
		}
		return isNamed(t, pkgGEP, "Index")
	}
	fieldOf := func(structT types.Type, i int) (owner, field string) {
		if p, ok := structT.(*types.Pointer); ok {
			structT = p.Elem()
		}
		st, ok := structT.Underlying().(*types.Struct)
		if !ok {
			return "", ""
		}
		n := namedOf(structT)
		if n != nil {
			owner = n.Obj().Name()
		}
		return owner, st.Field(i).Name()
	}
	// reads of Index.VectorLen, per function
	readsLen := map[*ssa.Function][]ssa.Instruction{}
	for _, f := range order {
		for _, b := range f.Blocks {
			for _, in := range b.Instrs {
				switch x := in.(type) {
				case *ssa.FieldAddr:
					if o, fl := fieldOf(x.X.Type(), x.Field); o == "Index" && fl == "VectorLen" && isIndex(x.X.Type()) {
						readsLen[f] = append(readsLen[f], x)
					}
				case *ssa.Field:
					if o, fl := fieldOf(x.X.Type(), x.Field); o == "Index" && fl == "VectorLen" && isIndex(x.X.Type()) {
						readsLen[f] = append(readsLen[f], x)
					}
				}
			}
		}
	}
	// covers: every path from `from` that reaches a return, or comes round to `from` again (the
	// next iteration), passes through `through`
	covers := func(from, through *ssa.BasicBlock) (bool, *ssa.BasicBlock) {
		if from == through {
			return true, nil
		}
		seen := map[*ssa.BasicBlock]bool{through: true}
		var esc *ssa.BasicBlock
		var dfs func(b *ssa.BasicBlock, first bool) bool
		dfs = func(b *ssa.BasicBlock, first bool) bool {
			if b == from && !first {
				esc = b
				return true
			}
			if seen[b] {
				return false
			}
			seen[b] = true
			if len(b.Instrs) > 0 {
				if _, ok := b.Instrs[len(b.Instrs)-1].(*ssa.Return); ok {
					esc = b
					return true
				}
			}
			for _, s := range b.Succs {
				if dfs(s, false) {
					if esc == from || esc == nil {
						esc = b
					}
					return true
				}
			}
			return false
		}
		if dfs(from, true) {
			return false, esc
		}
		return true, nil
	}
	var examined func(f *ssa.Function, from *ssa.BasicBlock, depth int) (bool, token.Pos)
	examined = func(f *ssa.Function, from *ssa.BasicBlock, depth int) (bool, token.Pos) {
		var skipAt token.Pos
		for _, r := range readsLen[f] {
			ok, esc := covers(from, r.Block())
			if ok {
				return true, token.NoPos
			}
			if esc != nil && len(esc.Instrs) > 0 && skipAt == token.NoPos {
				skipAt = esc.Instrs[len(esc.Instrs)-1].Pos()
			}
		}
		if depth > 3 {
			return false, skipAt
		}
		for _, b := range f.Blocks {
			for _, in := range b.Instrs {
				ci, ok := in.(ssa.CallInstruction)
				if !ok {
					continue
				}
				callee := ci.Common().StaticCallee()
				if callee == nil || !set[callee] || callee == f {
					continue
				}
				passes := false
				for _, a := range ci.Common().Args {
					if isIndex(a.Type()) {
						passes = true
					}
				}
				if !passes {
					continue
				}
				if ok, _ := covers(from, b); !ok {
					continue
				}
				if ok, _ := examined(callee, callee.Blocks[0], depth+1); ok {
					return true, token.NoPos
				}
			}
		}
		return false, skipAt
	}
	var obs []Obligation
	o1 := Obligation{Key: "gep.ResultType examines every index for a vector length", Pos: c.pos(root.Pos()), Verdict: UNDECIDED, Detail: "no iteration over the index list found", Tags: tags}
	for _, f := range order {
		for _, b := range f.Blocks {
			for _, in := range b.Instrs {
				ia, ok := in.(*ssa.IndexAddr)
				if !ok {
					continue
				}
				sl, ok := ia.X.Type().Underlying().(*types.Slice)
				if !ok || !isIndex(sl.Elem()) {
					continue
				}
				ok2, skip := examined(f, b, 0)
				switch {
				case ok2 && o1.Verdict == UNDECIDED:
					o1.Verdict, o1.Pos, o1.Detail = OK, c.pos(ia.Pos()), "Index.VectorLen is read on every path through the iteration (in the loop or in the function the index is handed to)"
				case !ok2:
					o1.Verdict, o1.Pos = VIOL, c.pos(ia.Pos())
					where := ""
					if skip.IsValid() {
						where = " (the iteration can be left at " + c.pos(skip) + " first)"
					}
					if len(readsLen) == 0 {
						o1.Detail = "the walk over the indices never reads Index.VectorLen: a vector index does not make the result a vector of pointers"
					} else {
						o1.Detail = "an index can pass through its iteration without its vector length being examined" + where + ": an index skipped there — the first index steps through the pointer but still decides whether the result is a vector of pointers — is ignored, and `getelementptr T, T* %p, <4 x i64> %v` is typed T* instead of <4 x T*>"
					}
				}
			}
		}
	}
	obs = append(obs, o1)

	// (2) address space of the result pointer
	o2 := Obligation{Key: "gep.ResultType gives the result pointer the source's address space on every path", Pos: c.pos(root.Pos()), Verdict: UNDECIDED, Detail: "no result pointer construction found", Tags: tags}
	for _, f := range order {
		for _, b := range f.Blocks {
			for i, in := range b.Instrs {
				var ptr ssa.Value
				switch x := in.(type) {
				case *ssa.Call:
					if callee := x.Call.StaticCallee(); callee != nil && callee.Pkg != nil && callee.Pkg.Pkg.Path() == pkgTYP && callee.Name() == "NewPointer" {
						ptr = x
					}
				case *ssa.Alloc:
					if x.Heap && isNamed(x.Type().(*types.Pointer).Elem(), pkgTYP, "PointerType") {
						ptr = x
					}
				}
				if ptr == nil {
					continue
				}
				set := false
				for _, later := range b.Instrs[i+1:] {
					if st, ok := later.(*ssa.Store); ok {
						if fa, ok := st.Addr.(*ssa.FieldAddr); ok && fa.X == ptr {
							if _, fl := fieldOf(fa.X.Type(), fa.Field); fl == "AddrSpace" {
								set = true
							}
						}
					}
				}
				switch {
				case set && o2.Verdict == UNDECIDED:
					o2.Verdict, o2.Pos, o2.Detail = OK, c.pos(in.Pos()), "AddrSpace stored directly after construction, in the same basic block"
				case !set:
					o2.Verdict, o2.Pos = VIOL, c.pos(in.Pos())
					o2.Detail = "the result pointer type is built and can be used (returned, or wrapped in a vector) on a path on which its address space has not been set: a gep on an addrspace(K) base yields a pointer in address space 0"
				}
			}
		}
	}
	obs = append(obs, o2)

	// (3) provenance of the vector-of-pointers result's length and scalable flag
	pv := &gepProv{set: set, order: order, fieldOf: fieldOf}
	o3 := Obligation{Key: "gep.ResultType vector result: length and scalable flag derive from the source vector type and from the index", Pos: c.pos(root.Pos()), Verdict: UNDECIDED, Detail: "no vector-of-pointers construction found", Tags: tags}
	for _, f := range order {
		for _, b := range f.Blocks {
			for _, in := range b.Instrs {
				call, ok := in.(*ssa.Call)
				if !ok {
					continue
				}
				callee := call.Call.StaticCallee()
				if callee == nil || callee.Pkg == nil || callee.Pkg.Pkg.Path() != pkgTYP || callee.Name() != "NewVector" || len(call.Call.Args) < 1 {
					continue
				}
				lenLeaves := pv.leaves(call.Call.Args[0])
				var scalLeaves map[string]bool
				if call.Referrers() != nil {
					for _, r := range *call.Referrers() {
						if fa, ok := r.(*ssa.FieldAddr); ok {
							if _, fl := fieldOf(fa.X.Type(), fa.Field); fl == "Scalable" && fa.Referrers() != nil {
								for _, rr := range *fa.Referrers() {
									if st, ok := rr.(*ssa.Store); ok && st.Addr == fa {
										scalLeaves = pv.leaves(st.Val)
									}
								}
							}
						}
					}
				}
				var missing []string
				for _, w := range []string{"Index.VectorLen", "VectorType.Len"} {
					if !lenLeaves[w] {
						missing = append(missing, "length ⊉ "+w)
					}
				}
				if scalLeaves == nil {
					missing = append(missing, "the Scalable field of the result vector is never set")
				} else {
					for _, w := range []string{"Index.VectorScalable", "VectorType.Scalable"} {
						if !scalLeaves[w] {
							missing = append(missing, "scalable ⊉ "+w)
						}
					}
				}
				o3.Pos = c.pos(call.Pos())
				if len(missing) == 0 {
					o3.Verdict = OK
					o3.Detail = fmt.Sprintf("length ← {%s}; scalable ← {%s}", strings.Join(sortedKeys(lenLeaves), ", "), strings.Join(sortedKeys(scalLeaves), ", "))
				} else {
					sort.Strings(missing)
					o3.Verdict = VIOL
					o3.Detail = "the vector-of-pointers result does not take " + strings.Join(missing, "; ") + ": a scalar base indexed by a <vscale x N x iM> vector (or a vector base) is typed with the wrong length or as a fixed-length vector"
				}
			}
		}
	}
	obs = append(obs, o3)
	return obs
}

// gepProv: backwards data-flow provenance of a value inside the function set of package gep.
type gepProv struct {
	set     map[*ssa.Function]bool
	order   []*ssa.Function
	fieldOf func(t types.Type, i int) (string, string)
}

func (p *gepProv) leaves(v ssa.Value) map[string]bool {
	out := map[string]bool{}
	seen := map[ssa.Value]bool{}
	var trace func(v ssa.Value, depth int)
	storesTo := func(match func(*ssa.Store) bool) {
		for _, f := range p.order {
			for _, b := range f.Blocks {
				for _, in := range b.Instrs {
					if st, ok := in.(*ssa.Store); ok && match(st) {
						trace(st.Val, 0)
					}
				}
			}
		}
	}
	trace = func(v ssa.Value, depth int) {
		if v == nil || seen[v] || depth > 40 {
			return
		}
		seen[v] = true
		switch x := v.(type) {
		case *ssa.Const:
			out["const"] = true
		case *ssa.Phi:
			for _, e := range x.Edges {
				trace(e, depth+1)
			}
		case *ssa.Convert:
			trace(x.X, depth+1)
		case *ssa.ChangeType:
			trace(x.X, depth+1)
		case *ssa.BinOp:
			trace(x.X, depth+1)
			trace(x.Y, depth+1)
		case *ssa.Field:
			if o, f := p.fieldOf(x.X.Type(), x.Field); o != "" {
				out[o+"."+f] = true
			}
		case *ssa.UnOp:
			if x.Op != token.MUL {
				trace(x.X, depth+1)
				return
			}
			switch a := x.X.(type) {
			case *ssa.FieldAddr:
				o, f := p.fieldOf(a.X.Type(), a.Field)
				switch o {
				case "Index", "VectorType", "PointerType", "ArrayType", "StructType":
					out[o+"."+f] = true
				default:
					// a field of a helper object of the walk: everything stored into that field
					st := a.X.Type()
					storesTo(func(s *ssa.Store) bool {
						fa, ok := s.Addr.(*ssa.FieldAddr)
						return ok && fa.Field == a.Field && types.Identical(fa.X.Type(), st)
					})
					out["field "+o+"."+f] = true
				}
			case *ssa.Alloc:
				storesTo(func(s *ssa.Store) bool { return s.Addr == a })
			}
		case *ssa.Parameter:
			fn := x.Parent()
			idx := -1
			for i, pp := range fn.Params {
				if pp == x {
					idx = i
				}
			}
			for _, f := range p.order {
				for _, b := range f.Blocks {
					for _, in := range b.Instrs {
						if ci, ok := in.(ssa.CallInstruction); ok && ci.Common().StaticCallee() == fn && idx >= 0 && idx < len(ci.Common().Args) {
							trace(ci.Common().Args[idx], depth+1)
						}
					}
				}
			}
		case *ssa.Call:
			if callee := x.Call.StaticCallee(); callee != nil && p.set[callee] {
				for _, b := range callee.Blocks {
					if len(b.Instrs) > 0 {
						if r, ok := b.Instrs[len(b.Instrs)-1].(*ssa.Return); ok && len(r.Results) > 0 {
							trace(r.Results[0], depth+1)
						}
					}
				}
			}
		case *ssa.Extract:
			if call, ok := x.Tuple.(*ssa.Call); ok {
				if callee := call.Call.StaticCallee(); callee != nil && p.set[callee] {
					for _, b := range callee.Blocks {
						if len(b.Instrs) > 0 {
							if r, ok := b.Instrs[len(b.Instrs)-1].(*ssa.Return); ok && x.Index < len(r.Results) {
								trace(r.Results[x.Index], depth+1)
							}
						}
					}
				}
			}
		}
	}
	trace(v, 0)
	return out
}

package main

import (
	"bufio"
	"encoding/json"
	"fmt"
	"os"
	"path/filepath"
	"runtime"
	"sort"
	"strings"
)

// Verdicts.
const (
	OK        = "ok"
	VIOL      = "violation"
	EXEMPT    = "exempt"
	UNDECIDED = "undecided"
)

// Obligation is one decided instance of a rule.
type Obligation struct {
	Rule    string `json:"rule"`
	Key     string `json:"construct"` // semantic key of the construct, never a line number
	Verdict string `json:"verdict"`
	Pos     string `json:"pos"`
	Detail  string `json:"detail,omitempty"`
	// Tags classify the instance for per-property filtering (e.g. "md", "gep").
	Tags []string `json:"tags,omitempty"`
}

func (o Obligation) hasTag(t string) bool {
	for _, x := range o.Tags {
		if x == t {
			return true
		}
	}
	return false
}

// Rule is one static rule of the catalogue (DESIGN.md §2).
type Rule struct {
	Name  string
	Doc   string // the rule, in one or two sentences (goes to evidence)
	Floor int    // minimum number of instances the rule must see on any tree
	NeedS bool   // needs SSA / call graph
	Run   func(c *Ctx) []Obligation
}

var rules = map[string]*Rule{}

func register(r *Rule) {
	if _, dup := rules[r.Name]; dup {
		panic("duplicate rule " + r.Name)
	}
	rules[r.Name] = r
}

// runRule runs a rule once per process and memoises the result.
func (c *Ctx) runRule(name string) []Obligation {
	if v, ok := c.memo["rule:"+name]; ok {
		return v.([]Obligation)
	}
	r := rules[name]
	if r == nil {
		panic("unknown rule " + name)
	}
	// a rule that panics on an unforeseen shape has not decided anything: reported as an
	// undecided obligation (which fails the check with a diagnosable line), not as a crash
	var obs []Obligation
	func() {
		defer func() {
			if rec := recover(); rec != nil {
				obs = []Obligation{{Key: "rule " + name + " ran to completion", Verdict: UNDECIDED,
					Detail: fmt.Sprintf("the rule panicked on this tree (%v): nothing is decided by it", rec)}}
			}
		}()
		obs = r.Run(c)
	}()
	for i := range obs {
		if obs[i].Rule == "" {
			obs[i].Rule = name
		}
	}
	sort.SliceStable(obs, func(i, j int) bool {
		if obs[i].Rule != obs[j].Rule {
			return obs[i].Rule < obs[j].Rule
		}
		return obs[i].Key < obs[j].Key
	})
	c.memo["rule:"+name] = obs
	return obs
}

// ---------------------------------------------------------------------------
// Known findings.

type Finding struct {
	Props     []string
	Rule      string
	Construct string
	Input     string
	Line      string
}

func parseKV(s string) map[string]string {
	out := map[string]string{}
	i := 0
	for i < len(s) {
		for i < len(s) && s[i] == ' ' {
			i++
		}
		j := i
		for j < len(s) && s[j] != '=' && s[j] != ' ' {
			j++
		}
		if j >= len(s) || s[j] != '=' {
			i = j
			continue
		}
		key := s[i:j]
		j++
		var val string
		if j < len(s) && s[j] == '"' {
			k := j + 1
			var b strings.Builder
			for k < len(s) && s[k] != '"' {
				if s[k] == '\\' && k+1 < len(s) {
					k++
				}
				b.WriteByte(s[k])
				k++
			}
			val = b.String()
			i = k + 1
		} else {
			k := j
			for k < len(s) && s[k] != ' ' {
				k++
			}
			val = s[j:k]
			i = k
		}
		out[key] = val
	}
	return out
}

func loadFindings(path string) ([]Finding, error) {
	f, err := os.Open(path)
	if err != nil {
		if os.IsNotExist(err) {
			return nil, nil
		}
		return nil, err
	}
	defer f.Close()
	var out []Finding
	sc := bufio.NewScanner(f)
	sc.Buffer(make([]byte, 1<<20), 1<<20)
	for sc.Scan() {
		line := strings.TrimSpace(sc.Text())
		if !strings.HasPrefix(line, "finding:") {
			continue // comments, blank lines and "fixed:" entries suppress nothing
		}
		kv := parseKV(strings.TrimPrefix(line, "finding:"))
		if kv["rule"] == "" || kv["construct"] == "" || kv["property"] == "" {
			return nil, fmt.Errorf("malformed finding line: %s", line)
		}
		out = append(out, Finding{
			Props:     strings.Split(kv["property"], ","),
			Rule:      kv["rule"],
			Construct: kv["construct"],
			Input:     kv["input"],
			Line:      line,
		})
	}
	return out, sc.Err()
}

func (f Finding) matches(prop string, o Obligation) bool {
	if f.Rule != o.Rule || f.Construct != o.Key {
		return false
	}
	for _, p := range f.Props {
		if p == prop {
			return true
		}
	}
	return false
}

// ---------------------------------------------------------------------------
// Property run, protocol output, evidence.

type ruleStat struct {
	Rule       string `json:"rule"`
	Doc        string `json:"doc"`
	Instances  int    `json:"instances"`
	Floor      int    `json:"floor"`
	OK         int    `json:"ok"`
	Exempt     int    `json:"exempt"`
	Violations int    `json:"violations"`
	Undecided  int    `json:"undecided"`
	Known      int    `json:"known_findings"`
}

type runResult struct {
	Prop       *Property
	Tier       string
	Obs        []Obligation
	Stats      []ruleStat
	NewViol    []Obligation // violations / undecided not listed in known_findings
	Known      []Obligation
	KnownBy    map[int]Finding
	FloorFails []string
	Stale      []Finding
	// Configs: per additional build configuration analysed in the thorough tier, a summary line
	Configs []string
}

func runProperty(c *Ctx, p *Property, tier string, findings []Finding) *runResult {
	res := &runResult{Prop: p, Tier: tier, KnownBy: map[int]Finding{}}
	seen := map[string]bool{}
	matched := map[string]bool{}
	for _, use := range p.Rules {
		if use.ThoroughOnly && tier != "thorough" {
			continue
		}
		r := rules[use.Rule]
		if r == nil {
			panic("property " + p.ID + " uses unknown rule " + use.Rule)
		}
		all := c.runRule(use.Rule)
		st := ruleStat{Rule: r.Name, Doc: r.Doc, Floor: use.Floor}
		if st.Floor == 0 && use.Filter == nil {
			st.Floor = r.Floor
		}
		// The floors written next to the rules are the instance counts confirmed by hand on the
		// pinned tree (rounded down). The guard is against vacuity — an anchor that is no longer
		// found — not against clean-ups that merge or remove a few instances, so half of the
		// confirmed count is required.
		if st.Floor > 1 {
			st.Floor = (st.Floor + 1) / 2
		}
		for _, o := range all {
			if use.Filter != nil && !use.Filter(o) {
				continue
			}
			k := o.Rule + "\x00" + o.Key
			if seen[k] {
				// a construct key must identify one obligation; a clash is a checker bug
				o.Verdict = UNDECIDED
				o.Detail = "duplicate construct key (checker defect): " + o.Detail
			}
			seen[k] = true
			st.Instances++
			switch o.Verdict {
			case OK:
				st.OK++
			case EXEMPT:
				st.Exempt++
			case VIOL, UNDECIDED:
				known := false
				if o.Verdict == VIOL {
					for _, f := range findings {
						if f.matches(p.ID, o) {
							known = true
							matched[f.Line] = true
							res.KnownBy[len(res.Known)] = f
							break
						}
					}
				}
				if known {
					st.Known++
					res.Known = append(res.Known, o)
				} else {
					if o.Verdict == VIOL {
						st.Violations++
					} else {
						st.Undecided++
					}
					res.NewViol = append(res.NewViol, o)
				}
			default:
				panic("bad verdict " + o.Verdict)
			}
			res.Obs = append(res.Obs, o)
		}
		if st.Instances < st.Floor {
			res.FloorFails = append(res.FloorFails, fmt.Sprintf("rule %s matched %d instances, floor is %d (anchor lost: the rule would pass vacuously)", r.Name, st.Instances, st.Floor))
		}
		res.Stats = append(res.Stats, st)
	}
	for _, f := range findings {
		for _, fp := range f.Props {
			if fp == p.ID && !matched[f.Line] {
				// only stale if one of this property's active rules could have produced it
				for _, st := range res.Stats {
					if st.Rule == f.Rule {
						res.Stale = append(res.Stale, f)
						break
					}
				}
			}
		}
	}
	return res
}

type evidence struct {
	PropertyID  string                 `json:"property_id"`
	Tier        string                 `json:"tier"`
	Seed        int                    `json:"seed"`
	Level       string                 `json:"level"`
	Coverage    map[string]interface{} `json:"coverage"`
	Assumptions []string               `json:"assumptions"`
	WallS       float64                `json:"wall_s"`
	Violations  int                    `json:"violations"`
}

func sampleObs(res *runResult, n int) []Obligation {
	var out []Obligation
	out = append(out, res.NewViol...)
	out = append(out, res.Known...)
	// a few of each rule, ok and exempt alike
	perRule := map[string]int{}
	for _, o := range res.Obs {
		if o.Verdict == VIOL || o.Verdict == UNDECIDED {
			continue
		}
		lim := 3
		if o.Verdict == EXEMPT {
			lim = 6
		}
		if perRule[o.Rule+o.Verdict] < lim {
			perRule[o.Rule+o.Verdict]++
			out = append(out, o)
		}
	}
	if len(out) > n {
		out = out[:n]
	}
	return out
}

func writeEvidence(c *Ctx, verifDir string, res *runResult, seed int, wall float64, cmd string) error {
	p := res.Prop
	nObl, nDis := len(res.Obs), 0
	distinct := map[string]bool{}
	for _, o := range res.Obs {
		if o.Verdict == OK || o.Verdict == EXEMPT {
			nDis++
		}
		distinct[o.Rule+"\x00"+o.Key] = true
	}
	nDis += len(res.Known) * 0
	var ruleNames []string
	for _, st := range res.Stats {
		ruleNames = append(ruleNames, st.Rule)
	}
	analysed := map[string]interface{}{
		"repo":      c.Repo,
		"packages":  len(c.All),
		"llvm_pkgs": len(c.llvmPkgs()),
		"files":     c.nFiles,
		"functions": c.nFuncs,
	}
	if c.ssaProg != nil {
		analysed["ssa_functions"] = len(c.allFuncs)
	}
	if c.cg != nil {
		analysed["callgraph_nodes"] = len(c.cg.Nodes)
	}
	known := []string{}
	for i, o := range res.Known {
		known = append(known, fmt.Sprintf("%s %s — %s", o.Rule, o.Key, res.KnownBy[i].Input))
	}
	cov := map[string]interface{}{
		"explanation": fmt.Sprintf("Static analysis of %s (go/packages+go/types%s), no llir/llvm code executed. "+
			"Decided clauses: %s Not decided: %s Rules applied: %s. Each obligation is one construct of the current source tree "+
			"(keyed by rule+construct, never by line); undecided or below-floor counts fail the check.",
			c.Repo, map[bool]string{true: "+go/ssa+VTA call graph", false: ""}[c.ssaProg != nil],
			p.Decided, p.NotDecided, strings.Join(ruleNames, ", ")),
		"obligations":          nObl,
		"discharged":           nDis,
		"evaluations":          nObl,
		"distinct_nontrivial":  len(distinct),
		"rule":                 "one obligation per (rule, construct) instance found in the current source; distinct = distinct construct keys; every instance is a real source construct (non-trivial by construction)",
		"samples":              sampleObs(res, 40),
		"per_rule":             res.Stats,
		"analysed":             analysed,
		"known_findings_seen":  known,
		"floor_failures":       res.FloorFails,
		"checker_cmd":          cmd,
		"exhaustive":           true,
		"trusted_base":         []string{"go/packages, go/types, go/constant (x/tools v0.29.0)", "go/ssa + VTA call graph where a rule needs it (sound for the loaded code; no reflection in llir/llvm printers or parser)", "frozen exemption / alias tables in /verif/tool (one reason per entry)", "llir/ll generated AST as the grammar oracle"},
		"clauses_decided":      p.Decided,
		"clauses_not_decided":  p.NotDecided,
		"violations_new":       res.NewViol,
		"stale_known_findings": len(res.Stale),
	}
	if len(res.Configs) > 0 {
		cov["build_configurations"] = append([]string{"host: " + runtime.GOOS + "/" + runtime.GOARCH + " (all figures above)"}, res.Configs...)
	}
	ev := evidence{
		PropertyID: p.ID, Tier: res.Tier, Seed: seed, Level: "other", Coverage: cov,
		Assumptions: p.Assumptions, WallS: wall, Violations: len(res.NewViol) + len(res.Known),
	}
	b, err := json.MarshalIndent(ev, "", " ")
	if err != nil {
		return err
	}
	dir := filepath.Join(verifDir, "evidence")
	if err := os.MkdirAll(dir, 0o755); err != nil {
		return err
	}
	return os.WriteFile(filepath.Join(dir, p.ID+".json"), append(b, '\n'), 0o644)
}

func writeReplay(verifDir string, res *runResult) (string, error) {
	dir := filepath.Join(verifDir, "out")
	if err := os.MkdirAll(dir, 0o755); err != nil {
		return "", err
	}
	path := filepath.Join(dir, fmt.Sprintf("%s.%s.violations.json", res.Prop.ID, res.Tier))
	doc := map[string]interface{}{
		"property":       res.Prop.ID,
		"tier":           res.Tier,
		"violations":     res.NewViol,
		"floor_failures": res.FloorFails,
	}
	b, _ := json.MarshalIndent(doc, "", " ")
	return path, os.WriteFile(path, append(b, '\n'), 0o644)
}

func explain(path string) error {
	b, err := os.ReadFile(path)
	if err != nil {
		return err
	}
	var doc struct {
		Property   string       `json:"property"`
		Tier       string       `json:"tier"`
		Violations []Obligation `json:"violations"`
		Floor      []string     `json:"floor_failures"`
	}
	if err := json.Unmarshal(b, &doc); err != nil {
		return err
	}
	fmt.Printf("property %s (%s tier): %d violation(s)\n", doc.Property, doc.Tier, len(doc.Violations))
	for _, o := range doc.Violations {
		r := rules[o.Rule]
		fmt.Printf("\n%s: [%s] %s\n  %s: %s\n", o.Pos, o.Rule, o.Key, o.Verdict, o.Detail)
		if r != nil {
			fmt.Printf("  rule: %s\n", r.Doc)
		}
	}
	for _, f := range doc.Floor {
		fmt.Printf("\nfloor: %s\n", f)
	}
	return nil
}

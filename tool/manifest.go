package main

import (
	"encoding/json"
	"fmt"
	"strings"
)

const setupCmd = "cd /verif/tool && env -u GOWORK GOFLAGS=-mod=mod GOPROXY=off GOSUMDB=off GOTOOLCHAIN=local go build -o /verif/bin/llvmlint ."

// manifestJSON renders MANIFEST.json from the property table, so that the
// registered commands, level texts and the not_applicable list cannot drift
// from what the binary implements.
func manifestJSON() string {
	type check map[string]interface{}
	var checks []check
	for _, p := range properties {
		var rs []string
		for _, u := range p.Rules {
			rs = append(rs, u.Rule)
		}
		tech := p.Technique
		if tech == "" {
			tech = "static analysis: custom go/types+go/ast rules over the resolved program (" + strings.Join(rs, ", ") + ")"
		}
		checks = append(checks, check{
			"property_id":         p.ID,
			"quick_cmd":           fmt.Sprintf("/verif/bin/llvmlint -repo /repo -prop %s -tier quick", p.ID),
			"thorough_cmd":        fmt.Sprintf("/verif/bin/llvmlint -repo /repo -prop %s -tier thorough", p.ID),
			"evidence_file":       fmt.Sprintf("/verif/evidence/%s.json", p.ID),
			"replay_cmd_template": "/verif/bin/llvmlint -explain {path}",
			"engine":              "llvmlint",
			"level_claimed": map[string]string{
				"category":   "other",
				"text":       "Static decision of structural necessary conditions, over every instance in the current source. Decided: " + p.Decided + " NOT decided: " + p.NotDecided,
				"design_ref": "DESIGN.md §3 " + p.ID,
			},
			"level_note": "Trusted: go/types, go/constant" + map[bool]string{true: ", go/ssa, VTA call graph", false: ""}[p.usesSSA()] + " (x/tools v0.29.0); the frozen exemption/alias tables in /verif/tool; the llir/ll generated AST as grammar oracle. The behaviour itself (round-trip equality, all inputs/schedules) is not established, only the listed clauses.",
			"technique":  tech,
		})
	}
	doc := map[string]interface{}{
		"version":   1,
		"setup_cmd": setupCmd,
		"hooks": map[string]interface{}{
			"guard":            "verif",
			"enable":           "none needed: the checks are pure static analysis and read /repo's working tree; no guarded file exists",
			"baseline_off_cmd": "cd /repo && GOFLAGS=-mod=mod GOPROXY=off GOSUMDB=off go test -vet=off -count=1 ./...",
			"source_commits":   []string{},
			"add_only":         true,
		},
		"engines": []map[string]interface{}{{
			"name":              "llvmlint",
			"path":              "/verif/tool",
			"serves_properties": propIDs(),
			"kind_free_text":    "repository-specific static analyser (go/packages, go/types, go/cfg, go/ssa + VTA); reports named constructs; no llir/llvm code is executed",
		}},
		"checks":         checks,
		"not_applicable": naList(),
		"notes":          "All checks are level 'other': each decides named structural clauses of its property and says which clauses it does not decide. known_findings.txt lists genuine defects (finding:) and repaired ones (fixed:).",
	}
	b, _ := json.MarshalIndent(doc, "", " ")
	return string(b) + "\n"
}

func propIDs() []string {
	var out []string
	for _, p := range properties {
		out = append(out, p.ID)
	}
	return out
}

func (p *Property) usesSSA() bool {
	for _, u := range p.Rules {
		if r := rules[u.Rule]; r != nil && r.NeedS {
			return true
		}
	}
	return false
}

type naEntry struct {
	PropertyID string `json:"property_id"`
	Reason     string `json:"reason"`
}

// notApplicable lists the properties not (yet) claimed, with the reason.
var notApplicable = []naEntry{}

// naList returns the explicit not-applicable entries plus every property of
// properties.jsonl for which no check is registered in this binary.
func naList() []naEntry {
	out := append([]naEntry{}, notApplicable...)
	have := map[string]bool{}
	for _, p := range properties {
		have[p.ID] = true
	}
	for _, e := range out {
		have[e.PropertyID] = true
	}
	for i := 1; i <= 20; i++ {
		id := fmt.Sprintf("C%02d", i)
		if !have[id] {
			out = append(out, naEntry{id, "no check registered in this revision of the analyser (rules for it are not built yet); not claimed"})
		}
	}
	return out
}

package main

import (
	"fmt"
	"go/ast"
	"go/types"
	"sort"
	"strings"

	"golang.org/x/tools/go/packages"
)

// CTOR — constructors and builder wrappers of the public construction API (C03, C04).

func init() {
	register(&Rule{
		Name:  "CTOR-1",
		Doc:   "every parameter of a New* constructor of ir / ir/constant / ir/types / ir/metadata reaches a field of the constructed value; parameters sharing a type land in the field of their own name (where a swap can hide)",
		Floor: 250,
		Run:   ruleCTOR1,
	})
	register(&Rule{
		Name:  "CTOR-2",
		Doc:   "a constructor of a type whose Type() lazily caches its result type fills that cache before returning (calls Type() or sets Typ), so printing a constructed value never writes it",
		Floor: 40,
		Run:   ruleCTOR2,
	})
	register(&Rule{
		Name:  "CTOR-3",
		Doc:   "every builder method (*Block).NewX / (*Func).NewBlock / (*Module).NewX calls the like-named constructor with its own parameters in order, stores exactly that result in the receiver's container (append or terminator slot), sets Parent where the result has one, and returns it",
		Floor: 65,
		Run:   ruleCTOR3,
	})
}

type ctorInfo struct {
	fn     *types.Func
	fd     *ast.FuncDecl
	p      *packages.Package
	result *types.Named
	// param name -> fields it flows into
	flows map[string]map[string]bool
}

// constructors lists package-level New* functions returning a pointer to a
// struct type of the same package.
func (c *Ctx) constructors() []*ctorInfo {
	if v, ok := c.memo["constructors"]; ok {
		return v.([]*ctorInfo)
	}
	var out []*ctorInfo
	for _, path := range []string{pkgIR, pkgCONS, pkgTYP, pkgMD} {
		c.eachFunc(path, func(p *packages.Package, fd *ast.FuncDecl, fn *types.Func) {
			sig := fn.Type().(*types.Signature)
			// exported New* and the unexported new* helpers they are split into
			if sig.Recv() != nil || !strings.HasPrefix(strings.ToLower(fn.Name()), "new") || sig.Results().Len() < 1 {
				return
			}
			n := isIRStructPtr(c, sig.Results().At(0).Type())
			if n == nil || n.Obj().Pkg() != fn.Pkg() {
				return
			}
			ci := &ctorInfo{fn: fn, fd: fd, p: p, result: n, flows: map[string]map[string]bool{}}
			info := p.TypesInfo
			defs := collectDefs(info, fd.Body)
			// a method called on a local for its effect feeds the local: x.SetPrec(precision)
			ast.Inspect(fd.Body, func(nd ast.Node) bool {
				if es, ok := nd.(*ast.ExprStmt); ok {
					if call, ok := es.X.(*ast.CallExpr); ok {
						if se, ok := unparen(call.Fun).(*ast.SelectorExpr); ok {
							if id, ok := unparen(se.X).(*ast.Ident); ok {
								if obj := info.ObjectOf(id); obj != nil && namedOf(obj.Type()) != n {
									defs[obj] = append(defs[obj], call.Args...)
								}
							}
						}
					}
				}
				return true
			})
			// derives(e) = set of parameter names reaching e
			params := map[types.Object]string{}
			for i := 0; i < sig.Params().Len(); i++ {
				params[sig.Params().At(i)] = sig.Params().At(i).Name()
			}
			// map declared param idents (Defs) to names as well
			for _, f := range fd.Type.Params.List {
				for _, nm := range f.Names {
					if obj := info.Defs[nm]; obj != nil {
						params[obj] = nm.Name
					}
				}
			}
			var derive func(e ast.Expr, out map[string]bool, seen map[types.Object]bool)
			derive = func(e ast.Expr, out map[string]bool, seen map[types.Object]bool) {
				ast.Inspect(e, func(nd ast.Node) bool {
					id, ok := nd.(*ast.Ident)
					if !ok {
						return true
					}
					obj := info.Uses[id]
					if obj == nil {
						return true
					}
					if nm, ok := params[obj]; ok {
						out[nm] = true
						return true
					}
					if seen[obj] {
						return true
					}
					// the object under construction is not a source of its own fields
					// (term.F = append(term.F, v) mentions term, whose literal mentions other parameters)
					if namedOf(obj.Type()) == n && isPtr(obj.Type()) {
						return true
					}
					if ds, ok := defs[obj]; ok {
						seen[obj] = true
						for _, d := range ds {
							derive(d, out, seen)
						}
					}
					return true
				})
			}
			record := func(field string, rhs ast.Expr) {
				ps := map[string]bool{}
				derive(rhs, ps, map[types.Object]bool{})
				for pn := range ps {
					if ci.flows[pn] == nil {
						ci.flows[pn] = map[string]bool{}
					}
					ci.flows[pn][field] = true
				}
			}
			ast.Inspect(fd.Body, func(nd ast.Node) bool {
				switch nd := nd.(type) {
				case *ast.CompositeLit:
					if namedOf(info.TypeOf(nd)) != n {
						return true
					}
					st := n.Underlying().(*types.Struct)
					for i, el := range nd.Elts {
						if kv, ok := el.(*ast.KeyValueExpr); ok {
							if id, ok := kv.Key.(*ast.Ident); ok {
								record(id.Name, kv.Value)
							}
						} else if i < st.NumFields() {
							record(st.Field(i).Name(), el)
						}
					}
				case *ast.AssignStmt:
					for i, l := range nd.Lhs {
						nn, f := c.irFieldOf(info, l)
						if nn != n {
							continue
						}
						if len(nd.Rhs) == 1 {
							record(f.Name(), nd.Rhs[0])
						} else if i < len(nd.Rhs) {
							record(f.Name(), nd.Rhs[i])
						}
					}
				case *ast.CallExpr:
					// x.SetName(name) / x.SetID(id): setter on the fresh object (possibly promoted)
					if se, ok := unparen(nd.Fun).(*ast.SelectorExpr); ok {
						if sel, ok := info.Selections[se]; ok && sel.Kind() == types.MethodVal && namedOf(sel.Recv()) == n && strings.HasPrefix(se.Sel.Name, "Set") {
							st := n.Underlying().(*types.Struct)
							field := st.Field(sel.Index()[0]).Name()
							if len(sel.Index()) == 1 {
								field = strings.TrimPrefix(se.Sel.Name, "Set")
							}
							for _, a := range nd.Args {
								record(field, a)
							}
						}
					}
					// delegation to another constructor of the same type: NewX(a, b) inside NewY
					// … or to a function value of that shape (a table of per-form constructors)
					var csig *types.Signature
					cname := ""
					if callee := calleeOf(info, nd); callee != nil {
						if callee != fn && callee.Pkg() == fn.Pkg() && strings.HasPrefix(strings.ToLower(callee.Name()), "new") && callee.Type().(*types.Signature).Recv() == nil {
							csig, cname = callee.Type().(*types.Signature), callee.Name()
						}
					} else if tv, ok := info.Types[nd.Fun]; ok && !tv.IsType() {
						if fs, ok := tv.Type.Underlying().(*types.Signature); ok {
							csig, cname = fs, "("+exprString(nd.Fun)+")"
						}
					}
					if csig != nil {
						if rs := csig.Results(); rs.Len() >= 1 && isIRStructPtr(c, rs.At(0).Type()) == n {
							for i, a := range nd.Args {
								pi := i
								if pi >= csig.Params().Len() {
									pi = csig.Params().Len() - 1
								}
								if pi >= 0 {
									pn := csig.Params().At(pi).Name()
									if pn == "" {
										pn = fmt.Sprint(pi)
									}
									record("→"+cname+"."+pn, a)
								}
							}
						}
					}
				}
				return true
			})
			out = append(out, ci)
		})
	}
	sort.Slice(out, func(i, j int) bool { return funcKey(out[i].fn) < funcKey(out[j].fn) })
	c.memo["constructors"] = out
	return out
}

func ctorTags(ci *ctorInfo) []string {
	return irTags(ci.result)
}

// ctor1Exempt: frozen exemptions of CTOR-1, keyed "pkg.NewX.param".
var ctor1Exempt = map[string]string{
	"ir/constant.NewBool.x": "selects between the package singletons True and False; the parameter is consumed by the branch, not stored",
}

func ruleCTOR1(c *Ctx) []Obligation {
	var obs []Obligation
	byName := map[string]*ctorInfo{}
	for _, ci := range c.constructors() {
		byName[funcKey(ci.fn)] = ci
	}
	// a parameter handed to an unexported helper counts only if the helper stores it in turn
	var helperStores func(name string, depth int) bool
	helperStores = func(f string, depth int) bool {
		// f is "→callee.param"
		if !strings.HasPrefix(f, "→") || depth > 3 {
			return true
		}
		j := strings.LastIndex(f, ".")
		callee, param := strings.TrimPrefix(f[:j], "→"), f[j+1:]
		for _, h := range c.constructors() {
			if h.fn.Name() == callee && !h.fn.Exported() {
				for hf := range h.flows[param] {
					if helperStores(hf, depth+1) {
						return true
					}
				}
				return false
			}
		}
		return true
	}
	for _, ci := range c.constructors() {
		if !ci.fn.Exported() {
			continue // helpers are judged through the exported constructors that call them
		}
		sig := ci.fn.Type().(*types.Signature)
		// group parameters by type
		sameType := map[string]int{}
		for i := 0; i < sig.Params().Len(); i++ {
			sameType[types.TypeString(sig.Params().At(i).Type(), nil)]++
		}
		for i := 0; i < sig.Params().Len(); i++ {
			pv := sig.Params().At(i)
			key := fmt.Sprintf("%s(%s)", funcKey(ci.fn), pv.Name())
			o := Obligation{Key: key, Pos: c.pos(ci.fd.Pos()), Verdict: OK, Tags: ctorTags(ci)}
			var fields []string
			for _, f := range sortedKeys(ci.flows[pv.Name()]) {
				if helperStores(f, 0) {
					fields = append(fields, f)
				}
			}
			if why, ok := ctor1Exempt[funcKey(ci.fn)+"."+pv.Name()]; ok {
				o.Verdict, o.Detail = EXEMPT, why
				obs = append(obs, o)
				continue
			}
			if len(fields) == 0 {
				if pv.Name() == "_" {
					o.Verdict, o.Detail = EXEMPT, "blank parameter"
				} else {
					o.Verdict = VIOL
					o.Detail = fmt.Sprintf("parameter %s of %s never reaches a field of %s: the constructed value does not contain what the caller passed", pv.Name(), ci.fn.Name(), typeKey(ci.result))
				}
				obs = append(obs, o)
				continue
			}
			o.Detail = "→ " + strings.Join(fields, ", ")
			if sameType[types.TypeString(pv.Type(), nil)] > 1 {
				// must land in the field (or delegated parameter) of its own name
				match := false
				for _, f := range fields {
					name := f
					if j := strings.LastIndex(f, "."); j >= 0 {
						name = f[j+1:]
					}
					if strings.EqualFold(name, pv.Name()) {
						match = true
					}
				}
				if !match {
					o.Verdict = VIOL
					o.Detail = fmt.Sprintf("parameter %s shares its type with another parameter but is stored into {%s}, not into the field named %s: operands are swapped or misplaced", pv.Name(), strings.Join(fields, ", "), pv.Name())
				}
			}
			obs = append(obs, o)
		}
	}
	return obs
}

func ruleCTOR2(c *Ctx) []Obligation {
	var obs []Obligation
	for _, ci := range c.constructors() {
		if !c.lazilyComputed(ci.result, "Typ") {
			continue
		}
		info := ci.p.TypesInfo
		filled := false
		how := ""
		ast.Inspect(ci.fd.Body, func(nd ast.Node) bool {
			switch nd := nd.(type) {
			case *ast.CallExpr:
				if se, ok := unparen(nd.Fun).(*ast.SelectorExpr); ok && se.Sel.Name == "Type" {
					if sel, ok := info.Selections[se]; ok && namedOf(sel.Recv()) == ci.result {
						filled, how = true, "calls Type()"
					}
				}
				if callee := calleeOf(info, nd); callee != nil && callee != ci.fn && callee.Pkg() == ci.fn.Pkg() && strings.HasPrefix(strings.ToLower(callee.Name()), "new") {
					if rs := callee.Type().(*types.Signature).Results(); rs.Len() >= 1 && isIRStructPtr(c, rs.At(0).Type()) == ci.result {
						filled, how = true, "delegates to "+callee.Name()
					}
				}
			case *ast.KeyValueExpr:
				if id, ok := nd.Key.(*ast.Ident); ok && id.Name == "Typ" {
					filled, how = true, "sets Typ in the literal"
				}
			case *ast.AssignStmt:
				for _, l := range nd.Lhs {
					if nn, f := c.irFieldOf(info, l); nn == ci.result && f.Name() == "Typ" {
						filled, how = true, "assigns Typ"
					}
				}
			}
			return true
		})
		o := Obligation{Key: funcKey(ci.fn) + " prefills Typ", Pos: c.pos(ci.fd.Pos()), Verdict: OK, Detail: how, Tags: ctorTags(ci)}
		if !filled {
			o.Verdict = VIOL
			o.Detail = fmt.Sprintf("%s.Type() caches lazily but %s returns without computing it: the first Type()/String() call (e.g. from a concurrent printer) writes the value", typeKey(ci.result), ci.fn.Name())
		}
		obs = append(obs, o)
	}
	return obs
}

func ruleCTOR3(c *Ctx) []Obligation {
	var obs []Obligation
	p := c.pkg(pkgIR)
	info := p.TypesInfo
	c.eachFunc(pkgIR, func(_ *packages.Package, fd *ast.FuncDecl, fn *types.Func) {
		sig := fn.Type().(*types.Signature)
		if sig.Recv() == nil || !strings.HasPrefix(fn.Name(), "New") || !fn.Exported() {
			return
		}
		recvN := namedOf(sig.Recv().Type())
		if recvN == nil {
			return
		}
		switch recvN.Obj().Name() {
		case "Block", "Func", "Module":
		default:
			return
		}
		key := funcKey(fn)
		o := Obligation{Key: key, Pos: c.pos(fd.Pos()), Verdict: OK}
		fail := func(v, s string) {
			if o.Verdict == OK {
				o.Verdict, o.Detail = v, s
			}
		}
		var recvObj types.Object
		if len(fd.Recv.List[0].Names) == 1 {
			recvObj = info.Defs[fd.Recv.List[0].Names[0]]
		}
		// parameter objects in order
		var params []types.Object
		for _, f := range fd.Type.Params.List {
			for _, nm := range f.Names {
				params = append(params, info.Defs[nm])
			}
		}
		ctor := c.lookupFunc(pkgIR, fn.Name())
		if ctor == nil {
			// (*Module).NewTypeDef has no package-level twin: it names and appends the given type
			if fn.Name() == "NewTypeDef" {
				o.Verdict, o.Detail = EXEMPT, "no constructor twin: names the given type and appends it (checked: SetName + append + return below would be a different shape)"
				obs = append(obs, o)
				return
			}
			// a builder without a constructor twin builds its object itself: the forwarding
			// discipline (construct with the like-named constructor, store once, return) does not
			// apply to it; what it allocates is held to ALLOC / RACE-3 / CTOR-2 like any other site
			o.Verdict, o.Detail = EXEMPT, "no package-level constructor named "+fn.Name()+": not a forwarding builder"
			obs = append(obs, o)
			return
		}
		// 1. first statement: v := NewX(params...)
		var resObj types.Object
		if len(fd.Body.List) < 3 {
			fail(UNDECIDED, "builder body shorter than construct/store/return")
		} else if as, ok := fd.Body.List[0].(*ast.AssignStmt); !ok || len(as.Lhs) != 1 || len(as.Rhs) != 1 {
			fail(UNDECIDED, "first statement is not `v := NewX(...)`")
		} else if call, ok := as.Rhs[0].(*ast.CallExpr); !ok || calleeOf(info, call) != ctor {
			fail(VIOL, fmt.Sprintf("first statement does not call the package-level constructor %s", ctor.Name()))
		} else {
			resObj = info.ObjectOf(as.Lhs[0].(*ast.Ident))
			if len(call.Args) != len(params) {
				fail(VIOL, fmt.Sprintf("builder takes %d parameters but passes %d arguments to %s", len(params), len(call.Args), ctor.Name()))
			} else {
				for i, a := range call.Args {
					id, ok := unparen(a).(*ast.Ident)
					if !ok || info.ObjectOf(id) != params[i] {
						fail(VIOL, fmt.Sprintf("argument %d of %s is %s, expected the builder's own parameter %s: operands are reordered or replaced", i+1, ctor.Name(), exprString(a), params[i].Name()))
						break
					}
				}
				csig := ctor.Type().(*types.Signature)
				if csig.Variadic() != sig.Variadic() || csig.Variadic() && !call.Ellipsis.IsValid() {
					fail(VIOL, "variadic parameter is not forwarded with `...`")
				}
			}
		}
		if resObj != nil {
			// 2. stored into the receiver's container exactly once
			stores := 0
			parentSet := false
			for _, st := range fd.Body.List[1:] {
				// recv.addHelper(v): a method of the receiver that stores its parameter into the
				// receiver's container (and may set the parent)
				if es, ok := st.(*ast.ExprStmt); ok {
					if call, ok := es.X.(*ast.CallExpr); ok && len(call.Args) == 1 {
						if id, ok := unparen(call.Args[0]).(*ast.Ident); ok && info.ObjectOf(id) == resObj {
							if se, ok := unparen(call.Fun).(*ast.SelectorExpr); ok {
								if rid, ok := unparen(se.X).(*ast.Ident); ok && info.ObjectOf(rid) == recvObj {
									if hs, hp := c.storesParamIntoReceiver(calleeOf(info, call)); hs > 0 {
										stores += hs
										parentSet = parentSet || hp
									}
								}
							}
						}
					}
					continue
				}
				as, ok := st.(*ast.AssignStmt)
				if !ok || len(as.Lhs) != 1 || len(as.Rhs) != 1 {
					continue
				}
				lhs, ok := unparen(as.Lhs[0]).(*ast.SelectorExpr)
				if !ok {
					continue
				}
				root, ok := unparen(lhs.X).(*ast.Ident)
				if !ok {
					continue
				}
				switch info.ObjectOf(root) {
				case recvObj:
					// recv.F = append(recv.F, v)  or  recv.Term = v
					if call, ok := as.Rhs[0].(*ast.CallExpr); ok && len(call.Args) == 2 && exprString(call.Fun) == "append" {
						if exprString(call.Args[0]) == exprString(as.Lhs[0]) {
							if id, ok := unparen(call.Args[1]).(*ast.Ident); ok && info.ObjectOf(id) == resObj {
								stores++
							}
						}
					} else if id, ok := unparen(as.Rhs[0]).(*ast.Ident); ok && info.ObjectOf(id) == resObj {
						stores++
					}
				case resObj:
					if lhs.Sel.Name == "Parent" {
						if id, ok := unparen(as.Rhs[0]).(*ast.Ident); ok && info.ObjectOf(id) == recvObj {
							parentSet = true
						}
					}
				}
			}
			if stores != 1 {
				fail(VIOL, fmt.Sprintf("the constructed value is stored into the receiver %d times (expected exactly one append / terminator assignment): the builder does not add what it returns", stores))
			}
			// 3. Parent
			if rn := namedOf(resObj.Type()); rn != nil {
				if st, ok := rn.Underlying().(*types.Struct); ok {
					for i := 0; i < st.NumFields(); i++ {
						if st.Field(i).Name() == "Parent" && namedOf(st.Field(i).Type()) == recvN && !parentSet {
							fail(VIOL, fmt.Sprintf("%s has a Parent field of the receiver's type but the builder does not set it", typeKey(rn)))
						}
					}
				}
			}
			// 4. returns the result
			last, ok := fd.Body.List[len(fd.Body.List)-1].(*ast.ReturnStmt)
			if !ok || len(last.Results) != 1 {
				fail(UNDECIDED, "last statement is not a single-value return")
			} else if id, ok := unparen(last.Results[0]).(*ast.Ident); !ok || info.ObjectOf(id) != resObj {
				fail(VIOL, "the builder does not return the value it stored")
			}
		}
		if o.Verdict == OK {
			o.Detail = "construct with own parameters in order; store once; return"
		}
		obs = append(obs, o)
	})
	return obs
}

// storesParamIntoReceiver: for a one-parameter method, how many times it stores
// its parameter into a field of its receiver (recv.F = append(recv.F, p) or
// recv.F = p), and whether it sets p.Parent = recv.
func (c *Ctx) storesParamIntoReceiver(m *types.Func) (stores int, parent bool) {
	fd := c.funcDecl(m)
	if m == nil || fd == nil || fd.Recv == nil || len(fd.Recv.List) != 1 || len(fd.Recv.List[0].Names) != 1 {
		return 0, false
	}
	info := c.declPkg[fd].TypesInfo
	recvObj := info.Defs[fd.Recv.List[0].Names[0]]
	sig := m.Type().(*types.Signature)
	if sig.Params().Len() != 1 {
		return 0, false
	}
	param := sig.Params().At(0)
	isParam := func(e ast.Expr) bool {
		e = unparen(e)
		if ta, ok := e.(*ast.TypeAssertExpr); ok {
			e = unparen(ta.X)
		}
		id, ok := e.(*ast.Ident)
		return ok && info.ObjectOf(id) == param
	}
	for _, st := range fd.Body.List {
		as, ok := st.(*ast.AssignStmt)
		if !ok || len(as.Lhs) != 1 || len(as.Rhs) != 1 {
			continue
		}
		lhs, ok := unparen(as.Lhs[0]).(*ast.SelectorExpr)
		if !ok {
			continue
		}
		root, ok := unparen(lhs.X).(*ast.Ident)
		if !ok {
			continue
		}
		switch {
		case info.ObjectOf(root) == recvObj:
			if call, ok := as.Rhs[0].(*ast.CallExpr); ok && len(call.Args) == 2 && exprString(call.Fun) == "append" && exprString(call.Args[0]) == exprString(as.Lhs[0]) && isParam(call.Args[1]) {
				stores++
			} else if isParam(as.Rhs[0]) {
				stores++
			}
		case info.ObjectOf(root) == param && lhs.Sel.Name == "Parent":
			if id, ok := unparen(as.Rhs[0]).(*ast.Ident); ok && info.ObjectOf(id) == recvObj {
				parent = true
			}
		}
	}
	return stores, parent
}

package main

import (
	"fmt"
	"go/ast"
	"go/token"
	"go/types"
	"sort"
	"strings"

	"golang.org/x/tools/go/packages"
)

// TYP-AGREE — the parser and the library compute the same result-type term (C06).
//
// Both implementations are straight-line code over single-assignment locals
// with, at most, one type switch. Each is normalised to a term over
//   TyOf(F)   the type of operand F      (asm: irType(old.F().Typ()); ir: inst.F.Type())
//   Syn(F)    a syntactic component F    (asm: irType(old.F()) / uintSlice(old.F()); ir: inst.F)
//   Assert[K](t), t.Sel, NewStruct/NewPointer/NewVector(..), T.I1 …, H:helper(..), Case(t){K→t;…}
// and the two terms must be equal. Nothing is executed.

func init() {
	register(&Rule{
		Name:  "TYP-AGREE",
		Doc:   "for every instruction, terminator and constant-expression kind whose result type is computed lazily by the IR library and precomputed by the parser, both computations normalise to the same term over operand types, syntactic type components, assertions, selections and type constructors; same-named helper functions on the two sides agree on their common case domain",
		Floor: 30,
		Run:   ruleTYPAGREE,
	})
}

type symDef struct {
	expr   ast.Expr
	clause *ast.CaseClause
	sw     *ast.TypeSwitchStmt
	ifs    *ast.IfStmt // innermost enclosing `if v, ok := x.(*T); cond {` whose body contains the definition
	pos    token.Pos
}

type symEval struct {
	c     *Ctx
	info  *types.Info
	fd    *ast.FuncDecl
	side  string // "asm" | "ir"
	recv  types.Object
	old   types.Object
	defs  map[types.Object][]symDef
	impl  map[types.Object]*implBinding
	over  map[types.Object]string // temporary term overrides (refinement idiom, inlined parameters)
	depth int
	ret   types.Object                 // pseudo-variable that collects the function's return expressions
	lits  map[*ast.CompositeLit]symDef // enclosing clause of every composite literal
	deref map[types.Object][]symDef    // `*p = e` stores through a pointer variable p (a cache cell handed to a helper)
}

type implBinding struct {
	operand ast.Expr
	types   []string
}

func newSymEval(c *Ctx, p *packages.Package, fd *ast.FuncDecl, side string) *symEval {
	se := &symEval{c: c, info: p.TypesInfo, fd: fd, side: side, defs: map[types.Object][]symDef{}, impl: map[types.Object]*implBinding{}, over: map[types.Object]string{}}
	se.ret = types.NewVar(token.NoPos, nil, "$ret", types.Typ[types.Invalid])
	info := p.TypesInfo
	if fd.Recv != nil && len(fd.Recv.List) == 1 && len(fd.Recv.List[0].Names) == 1 {
		se.recv = info.Defs[fd.Recv.List[0].Names[0]]
	}
	for _, f := range fd.Type.Params.List {
		for _, n := range f.Names {
			if astNode(info.TypeOf(n)) != nil {
				se.old = info.Defs[n]
			}
		}
	}
	// definitions with their enclosing type-switch clause
	var curIf *ast.IfStmt
	var walk func(n ast.Node, cl *ast.CaseClause, sw *ast.TypeSwitchStmt)
	walk = func(n ast.Node, cl *ast.CaseClause, sw *ast.TypeSwitchStmt) {
		ast.Inspect(n, func(m ast.Node) bool {
			switch m := m.(type) {
			case *ast.FuncLit:
				return false
			case *ast.IfStmt:
				if m == n {
					return true
				}
				if as, ok := m.Init.(*ast.AssignStmt); ok && len(as.Rhs) == 1 {
					if _, isTA := as.Rhs[0].(*ast.TypeAssertExpr); isTA {
						walk(m.Init, cl, sw)
						saved := curIf
						curIf = m
						walk(m.Body, cl, sw)
						curIf = saved
						if m.Else != nil {
							walk(m.Else, cl, sw)
						}
						return false
					}
				}
				return true
			case *ast.TypeSwitchStmt:
				if m == n {
					return true
				}
				var operand ast.Expr
				if as, ok := m.Assign.(*ast.AssignStmt); ok {
					operand = as.Rhs[0].(*ast.TypeAssertExpr).X
				} else if es, ok := m.Assign.(*ast.ExprStmt); ok {
					operand = es.X.(*ast.TypeAssertExpr).X
				}
				if m.Init != nil {
					walk(m.Init, cl, sw)
				}
				for _, cc := range m.Body.List {
					c2 := cc.(*ast.CaseClause)
					if obj := info.Implicits[c2]; obj != nil {
						ib := &implBinding{operand: operand}
						for _, e := range c2.List {
							ib.types = append(ib.types, typeKey(info.TypeOf(e)))
						}
						se.impl[obj] = ib
					}
					for _, st := range c2.Body {
						walk(st, c2, m)
					}
				}
				return false
			case *ast.CompositeLit:
				if se.lits == nil {
					se.lits = map[*ast.CompositeLit]symDef{}
				}
				se.lits[m] = symDef{nil, cl, sw, curIf, m.Pos()}
			case *ast.ReturnStmt:
				if len(m.Results) >= 1 {
					se.defs[se.ret] = append(se.defs[se.ret], symDef{m.Results[0], cl, sw, curIf, m.Pos()})
				}
			case *ast.AssignStmt:
				for i, l := range m.Lhs {
					var rhs ast.Expr
					if len(m.Rhs) == 1 {
						rhs = m.Rhs[0]
						if i > 0 {
							continue // ok / err results
						}
					} else if i < len(m.Rhs) {
						rhs = m.Rhs[i]
					}
					if rhs == nil {
						continue
					}
					switch l := unparen(l).(type) {
					case *ast.Ident:
						if obj := info.ObjectOf(l); obj != nil && l.Name != "_" {
							se.defs[obj] = append(se.defs[obj], symDef{rhs, cl, sw, curIf, m.Pos()})
						}
					case *ast.StarExpr:
						// *p = e: what the cell p points to holds afterwards (operandType(&inst.Typ, inst.X))
						if id, ok := unparen(l.X).(*ast.Ident); ok {
							if obj := info.ObjectOf(id); obj != nil {
								if se.deref == nil {
									se.deref = map[types.Object][]symDef{}
								}
								se.deref[obj] = append(se.deref[obj], symDef{rhs, cl, sw, curIf, m.Pos()})
							}
						}
					case *ast.SelectorExpr:
						// recv.Typ = e  (library side): recorded under the field object
						if id, ok := unparen(l.X).(*ast.Ident); ok && se.recv != nil && info.ObjectOf(id) == se.recv {
							if f := info.ObjectOf(l.Sel); f != nil {
								se.defs[f] = append(se.defs[f], symDef{rhs, cl, sw, curIf, m.Pos()})
							}
						}
					}
				}
			}
			return true
		})
	}
	walk(fd.Body, nil, nil)
	return se
}

func (se *symEval) termOfDefs(ds []symDef, name string) string {
	// drop definitions in clauses that end in panic, and a leading nil/zero decl
	var live []symDef
	for _, d := range ds {
		live = append(live, d)
	}
	if len(live) == 1 && live[0].clause == nil && live[0].ifs == nil {
		return se.term(live[0].expr)
	}
	// refinement idiom: x := e0; if v, ok := x.(*T); cond { x = e1 }
	if len(live) == 2 && live[0].ifs == nil && live[0].clause == nil && live[1].ifs != nil && live[1].clause == nil {
		if t, ok := se.refine(live[0], live[1]); ok {
			return t
		}
	}
	if len(live) == 0 {
		return "?undefined:" + name
	}
	// all in clauses of one type switch
	sw := live[0].sw
	for _, d := range live {
		if d.clause == nil || d.sw != sw || sw == nil {
			return "?multi:" + name
		}
	}
	var operand ast.Expr
	if as, ok := sw.Assign.(*ast.AssignStmt); ok {
		operand = as.Rhs[0].(*ast.TypeAssertExpr).X
	} else if es, ok := sw.Assign.(*ast.ExprStmt); ok {
		operand = es.X.(*ast.TypeAssertExpr).X
	}
	var arms []string
	for _, d := range live {
		var ks []string
		for _, e := range d.clause.List {
			ks = append(ks, shortTypeName(typeKey(se.info.TypeOf(e))))
		}
		sort.Strings(ks)
		at := se.term(d.expr)
		// an arm that switches again on the same operand (a helper inlined into the arm)
		// is reduced to the inner arm of its own kind
		if pre := "Case(" + se.term(operand) + "){"; strings.HasPrefix(at, pre) && strings.HasSuffix(at, "}") && len(ks) == 1 {
			for _, inner := range splitTopLevel(at[len(pre):len(at)-1], "; ") {
				if i := strings.Index(inner, "→"); i > 0 {
					for _, k := range strings.Split(inner[:i], "|") {
						if k == ks[0] {
							at = inner[i+len("→"):]
						}
					}
				}
			}
		}
		arms = append(arms, strings.Join(ks, "|")+"→"+at)
	}
	sort.Strings(arms)
	return "Case(" + se.term(operand) + "){" + strings.Join(arms, "; ") + "}"
}

// refine renders `x := e0; if v, ok := x.(*T); cond { x = e1 }` as IfIs(e0; T[; extra]){e1}{e0}.
func (se *symEval) refine(d0, d1 symDef) (string, bool) {
	as, ok := d1.ifs.Init.(*ast.AssignStmt)
	if !ok || len(as.Rhs) != 1 {
		return "", false
	}
	ta, ok := as.Rhs[0].(*ast.TypeAssertExpr)
	if !ok || ta.Type == nil {
		return "", false
	}
	subjID, ok := unparen(ta.X).(*ast.Ident)
	if !ok {
		return "", false
	}
	subj := se.info.ObjectOf(subjID)
	base := se.term(d0.expr)
	tname := shortTypeName(typeKey(se.info.TypeOf(ta.Type)))
	extra := ""
	okName := ""
	if len(as.Lhs) == 2 {
		okName = exprString(as.Lhs[1])
	}
	if c := strings.ReplaceAll(exprString(d1.ifs.Cond), " ", ""); c != okName {
		extra = "; " + c
	}
	saved := se.over[subj]
	se.over[subj] = base
	var vobj types.Object
	if id, ok := as.Lhs[0].(*ast.Ident); ok && id.Name != "_" {
		vobj = se.info.ObjectOf(id)
		se.over[vobj] = "Assert[" + tname + "](" + base + ")"
	}
	then := se.term(d1.expr)
	if vobj != nil {
		delete(se.over, vobj)
	}
	if saved == "" {
		delete(se.over, subj)
	} else {
		se.over[subj] = saved
	}
	return "IfIs(" + base + "; " + tname + extra + "){" + then + "}{" + base + "}", true
}

// inlineHelper renders a small helper `if v, ok := p.(*T); cond { return e1 }; return e2` with its arguments substituted.
func (se *symEval) inlineHelper(callee *types.Func, args []string) (string, bool) {
	if t, ok := se.inlineHelperShapes(callee, args); ok {
		return t, true
	}
	// general form: the helper's result is what its return statements yield — one
	// unconditional return, or one return per arm of a type switch (arms that panic yield nothing)
	fd := se.c.funcDecl(callee)
	if fd == nil || fd.Body == nil || se.depth > 30 {
		return "", false
	}
	// helpers that iterate (the gep walks) stay opaque: both sides name the same helper
	loops := false
	ast.Inspect(fd.Body, func(n ast.Node) bool {
		switch n.(type) {
		case *ast.ForStmt, *ast.RangeStmt:
			loops = true
		}
		return true
	})
	if loops {
		return "", false
	}
	p := se.c.declPkg[fd]
	sub := newSymEval(se.c, p, fd, se.side)
	sub.depth = se.depth + 1
	i := 0
	for _, f := range fd.Type.Params.List {
		for _, n := range f.Names {
			if i < len(args) {
				if obj := p.TypesInfo.Defs[n]; obj != nil {
					sub.over[obj] = args[i]
				}
			}
			i++
		}
	}
	sub.old = nil
	t := sub.termOfDefs(sub.defs[sub.ret], "$ret")
	if strings.Contains(t, "?multi:") || strings.Contains(t, "?undefined:") {
		return "", false
	}
	return t, true
}

func (se *symEval) inlineHelperShapes(callee *types.Func, args []string) (string, bool) {
	fd := se.c.funcDecl(callee)
	if fd == nil || fd.Body == nil || len(fd.Body.List) == 0 {
		return "", false
	}
	p := se.c.declPkg[fd]
	// local definitions (typ, err := gen.irType(old)) are resolved through the evaluator's
	// definitions, and `if err != nil { return …, err }` is not part of the value computed
	var list []ast.Stmt
	for _, st := range fd.Body.List {
		switch x := st.(type) {
		case *ast.AssignStmt:
			if x.Tok == token.DEFINE {
				continue
			}
		case *ast.IfStmt:
			if c := strings.ReplaceAll(exprString(x.Cond), " ", ""); c == "err!=nil" && x.Init == nil && returnsError(p.TypesInfo, x.Body.List) {
				continue
			}
		}
		list = append(list, st)
	}
	if len(list) == 0 || len(list) > 3 {
		return "", false
	}
	sub := newSymEval(se.c, p, fd, se.side)
	sub.depth = se.depth
	i := 0
	for _, f := range fd.Type.Params.List {
		for _, n := range f.Names {
			if i < len(args) {
				if obj := p.TypesInfo.Defs[n]; obj != nil {
					sub.over[obj] = args[i]
				}
			}
			i++
		}
	}
	sub.old = nil
	last, ok := list[len(list)-1].(*ast.ReturnStmt)
	if !ok || len(last.Results) < 1 {
		return "", false
	}
	elseT := sub.term(last.Results[0])
	if len(list) == 1 {
		return elseT, true
	}
	if len(list) != 2 {
		return "", false
	}
	is, ok := list[0].(*ast.IfStmt)
	if !ok || is.Else != nil || len(is.Body.List) == 0 {
		return "", false
	}
	as, ok := is.Init.(*ast.AssignStmt)
	if !ok || len(as.Rhs) != 1 {
		return "", false
	}
	ta, ok := as.Rhs[0].(*ast.TypeAssertExpr)
	if !ok || ta.Type == nil {
		return "", false
	}
	base := sub.term(ta.X)
	tname := shortTypeName(typeKey(p.TypesInfo.TypeOf(ta.Type)))
	extra := ""
	okName := ""
	if len(as.Lhs) == 2 {
		okName = exprString(as.Lhs[1])
	}
	if c := strings.ReplaceAll(exprString(is.Cond), " ", ""); c != okName {
		extra = "; " + c
	}
	if id, ok := as.Lhs[0].(*ast.Ident); ok && id.Name != "_" {
		sub.over[p.TypesInfo.ObjectOf(id)] = "Assert[" + tname + "](" + base + ")"
	}
	switch body := is.Body.List[len(is.Body.List)-1].(type) {
	case *ast.ReturnStmt:
		if len(is.Body.List) != 1 || len(body.Results) < 1 {
			return "", false
		}
		return "IfIs(" + base + "; " + tname + extra + "){" + sub.term(body.Results[0]) + "}{" + elseT + "}", true
	case *ast.AssignStmt:
		// if v, ok := p.(*T); ok { p = e1 }; return f(p)
		if len(is.Body.List) != 1 || len(body.Lhs) != 1 || len(body.Rhs) != 1 {
			return "", false
		}
		lid, ok := body.Lhs[0].(*ast.Ident)
		if !ok {
			return "", false
		}
		then := sub.term(body.Rhs[0])
		lobj := p.TypesInfo.ObjectOf(lid)
		saved := sub.over[lobj]
		sub.over[lobj] = "IfIs(" + base + "; " + tname + extra + "){" + then + "}{" + saved + "}"
		// the parameter was reassigned: drop its recorded definitions so that the override is used
		delete(sub.defs, lobj)
		return sub.term(last.Results[0]), true
	}
	return "", false
}

func shortTypeName(k string) string {
	k = strings.TrimPrefix(k, "*")
	if i := strings.LastIndex(k, "."); i >= 0 {
		k = k[i+1:]
	}
	return k
}

func (se *symEval) term(e ast.Expr) string {
	se.depth++
	defer func() { se.depth-- }()
	if se.depth > 40 {
		return "?deep"
	}
	info := se.info
	switch e := unparen(e).(type) {
	case *ast.Ident:
		if e.Name == "nil" {
			return "nil"
		}
		obj := info.ObjectOf(e)
		switch {
		case obj == nil:
			return "?" + e.Name
		case se.over[obj] != "":
			return se.over[obj]
		case obj == se.old:
			return "OLD"
		case obj == se.recv:
			return "RECV"
		}
		if ib, ok := se.impl[obj]; ok {
			t := se.term(ib.operand)
			if len(ib.types) == 1 {
				return "Assert[" + shortTypeName(ib.types[0]) + "](" + t + ")"
			}
			return t
		}
		if ds, ok := se.defs[obj]; ok {
			return se.termOfDefs(ds, e.Name)
		}
		if cn, ok := obj.(*types.Const); ok {
			return cn.Val().String()
		}
		return "?" + e.Name
	case *ast.BasicLit:
		return e.Value
	case *ast.SelectorExpr:
		if id, ok := e.X.(*ast.Ident); ok {
			if pn, ok := info.ObjectOf(id).(*types.PkgName); ok {
				if pn.Imported().Path() == pkgTYP {
					return "T." + e.Sel.Name
				}
				return pn.Imported().Name() + "." + e.Sel.Name
			}
		}
		x := se.term(e.X)
		if x == "RECV" {
			// a field of the instruction: syntactic component or operand value
			if f, ok := info.ObjectOf(e.Sel).(*types.Var); ok && f.IsField() {
				if isValueValue(f.Type()) || types.IsInterface(f.Type()) && !isNamed(f.Type(), pkgTYP, "Type") {
					return "Val(" + e.Sel.Name + ")"
				}
				return "Syn(" + e.Sel.Name + ")"
			}
		}
		return x + "." + e.Sel.Name
	case *ast.TypeAssertExpr:
		if e.Type == nil {
			return se.term(e.X)
		}
		return "Assert[" + shortTypeName(typeKey(info.TypeOf(e.Type))) + "](" + se.term(e.X) + ")"
	case *ast.IndexExpr:
		return se.term(e.X) + "[" + se.term(e.Index) + "]"
	case *ast.SliceExpr:
		s := se.term(e.X) + "["
		if e.Low != nil {
			s += se.term(e.Low)
		}
		s += ":"
		if e.High != nil {
			s += se.term(e.High)
		}
		return s + "]"
	case *ast.UnaryExpr:
		return e.Op.String() + se.term(e.X)
	case *ast.BinaryExpr:
		return "(" + se.term(e.X) + e.Op.String() + se.term(e.Y) + ")"
	case *ast.StarExpr:
		// the content of a cache cell filled in this function: `if *p == nil { *p = e }; return *p` is e
		if id, ok := unparen(e.X).(*ast.Ident); ok {
			if ds := se.deref[info.ObjectOf(id)]; len(ds) == 1 {
				return se.term(ds[0].expr)
			}
		}
		return se.term(e.X)
	case *ast.CallExpr:
		return se.callTerm(e)
	case *ast.CompositeLit:
		return "Lit:" + typeKey(info.TypeOf(e))
	}
	return "?" + exprString(e)
}

func (se *symEval) callTerm(e *ast.CallExpr) string {
	info := se.info
	// conversions
	if tv, ok := info.Types[e.Fun]; ok && tv.IsType() && len(e.Args) == 1 {
		return se.term(e.Args[0])
	}
	callee := calleeOf(info, e)
	// the shared getelementptr walk: gep.ResultType(elem, src, <index list built in a loop over the
	// operand list>) and every wrapper that calls it (GEP-WALK, GEP-VLEN and GEP-SIB hold the
	// wrappers to account) read as GEP(elem, src, operand list)
	if callee != nil && len(e.Args) == 3 {
		if callee == se.c.lookupFunc(pkgGEP, "ResultType") {
			idx := "?indices"
			if id, ok := unparen(e.Args[2]).(*ast.Ident); ok {
				obj := info.ObjectOf(id)
				ast.Inspect(se.fd.Body, func(n ast.Node) bool {
					rs, ok := n.(*ast.RangeStmt)
					if !ok {
						return true
					}
					appends := false
					ast.Inspect(rs.Body, func(m ast.Node) bool {
						if as, ok := m.(*ast.AssignStmt); ok && len(as.Lhs) == 1 {
							if l, ok := as.Lhs[0].(*ast.Ident); ok && info.ObjectOf(l) == obj {
								appends = true
							}
						}
						return true
					})
					if appends {
						idx = se.term(rs.X)
					}
					return true
				})
			}
			return "GEP(" + se.term(e.Args[0]) + ", " + se.term(e.Args[1]) + ", " + idx + ")"
		}
		if _, isWrapper := se.c.gepWrappers()[callee]; isWrapper {
			return "GEP(" + se.term(e.Args[0]) + ", " + se.term(e.Args[1]) + ", " + se.term(e.Args[2]) + ")"
		}
	}
	var args []string
	for _, a := range e.Args {
		args = append(args, se.term(a))
	}
	if sel, ok := unparen(e.Fun).(*ast.SelectorExpr); ok {
		// accessor chain on the AST node (parser side)
		if s, ok := info.Selections[sel]; ok && s.Kind() == types.MethodVal {
			x := se.term(sel.X)
			if astNode(s.Recv()) != nil || strings.HasPrefix(x, "Acc(") || x == "OLD" {
				if x == "OLD" {
					return "Acc(" + sel.Sel.Name + ")"
				}
				if strings.HasPrefix(x, "Acc(") {
					return "Acc(" + strings.TrimSuffix(strings.TrimPrefix(x, "Acc("), ")") + "." + sel.Sel.Name + ")"
				}
			}
			// x.Type() on an operand value
			if sel.Sel.Name == "Type" && len(e.Args) == 0 {
				if strings.HasPrefix(x, "Val(") {
					return "TyOf(" + strings.TrimSuffix(strings.TrimPrefix(x, "Val("), ")") + ")"
				}
				return "TypeOf(" + x + ")"
			}
			// the parser's irType(node)
			if sel.Sel.Name == "irType" && len(args) == 1 {
				a := args[0]
				if strings.HasPrefix(a, "Acc(") {
					p := strings.TrimSuffix(strings.TrimPrefix(a, "Acc("), ")")
					if strings.HasSuffix(p, ".Typ") {
						return "TyOf(" + strings.TrimSuffix(p, ".Typ") + ")"
					}
					return "Syn(" + p + ")"
				}
				return "irType(" + a + ")"
			}
			// same-receiver helper method (library side): inline its returned term
			if x == "RECV" && callee != nil && len(e.Args) == 0 {
				if fd := se.c.funcDecl(callee); fd != nil {
					sub := newSymEval(se.c, se.c.declPkg[fd], fd, se.side)
					sub.depth = se.depth
					var rets []string
					ast.Inspect(fd.Body, func(n ast.Node) bool {
						if _, ok := n.(*ast.FuncLit); ok {
							return false
						}
						if r, ok := n.(*ast.ReturnStmt); ok && len(r.Results) == 1 {
							rets = append(rets, sub.term(r.Results[0]))
						}
						return true
					})
					if len(rets) == 1 {
						return rets[0]
					}
					return "?inline:" + callee.Name()
				}
			}
			if callee != nil && callee.Pkg() != nil && se.c.isLLVM(callee.Pkg().Path()) && callee.Pkg().Path() != pkgTYP {
				// method helper of the generator (gen.gepInstType): inline it when it is a small type refinement, else name it
				if t, ok := se.inlineHelper(callee, args); ok {
					return t
				}
				return "H:" + callee.Name() + "(" + strings.Join(args, ", ") + ")"
			}
			return x + "." + sel.Sel.Name + "(" + strings.Join(args, ", ") + ")"
		}
	}
	if callee != nil && callee.Pkg() != nil {
		switch {
		case callee.Pkg().Path() == pkgTYP && strings.HasPrefix(callee.Name(), "New"):
			return callee.Name() + "(" + strings.Join(args, ", ") + ")"
		case callee.Name() == "uintSlice" && len(args) == 1 && strings.HasPrefix(args[0], "Acc("):
			return "Syn(" + strings.TrimSuffix(strings.TrimPrefix(args[0], "Acc("), ")") + ")"
		case se.c.isLLVM(callee.Pkg().Path()):
			if t, ok := se.inlineHelper(callee, args); ok {
				return t
			}
			return "H:" + callee.Name() + "(" + strings.Join(args, ", ") + ")"
		}
		return callee.Pkg().Name() + "." + callee.Name() + "(" + strings.Join(args, ", ") + ")"
	}
	if id, ok := e.Fun.(*ast.Ident); ok {
		return id.Name + "(" + strings.Join(args, ", ") + ")"
	}
	return "?call:" + exprString(e.Fun)
}

// typAgreeExempt: kinds whose parser side is an explicit annotation, compared by an LLVM typing axiom instead of term equality.
var typAgreeExempt = map[string]string{
	"ir.InstCall":   "the syntax carries the result (or, for variadic callees, the whole function) type explicitly; the library derives it from the callee's signature. Agreement is LLVM's verifier rule `call type = callee return type`, not a term equality",
	"ir.TermInvoke": "as for call: explicit annotation vs. signature of the invokee",
	"ir.TermCallBr": "as for call: explicit annotation vs. signature of the callee",
	"ir.InstAlloca": "the parser calls the library's own Type() on the fresh instruction (same code on both sides; ordering is CACHE-ORDER)",
	"ir.InstPhi":    "the syntax carries the phi's type explicitly; the library takes the type of the first incoming value. Agreement is LLVM's verifier rule `incoming values have the phi's type`, not a term equality",
}

// typAgreeFieldAlias: operand names that differ between an instruction and the constant expression of the same opcode.
var typAgreeFieldAlias = map[string][2]string{
	"ir/constant.ExprSelect": {"TyOf(X)", "TyOf(ValueTrue)"}, // select (cond, x, y) vs select cond, valueTrue, valueFalse
}

func ruleTYPAGREE(c *Ctx) []Obligation {
	var obs []Obligation
	// parser side: scaffold functions that set Typ in a literal of a lazily typed IR type
	type side struct {
		term string
		pos  token.Pos
		fn   string
	}
	parser := map[*types.Named]side{}
	c.eachFunc(pkgASM, func(p *packages.Package, fd *ast.FuncDecl, fn *types.Func) {
		info := p.TypesInfo
		// several literals of one type in one function (one per arm of a switch, each returned
		// directly) are read like one literal whose Typ is assigned in the arms
		perType := map[*types.Named][]symDef{}
		var se0 *symEval
		defer func() {
			for n, ds := range perType {
				if len(ds) > 1 {
					parser[n] = side{se0.termOfDefs(ds, "Typ"), ds[0].pos, funcKey(fn)}
				}
			}
		}()
		ast.Inspect(fd.Body, func(nd ast.Node) bool {
			cl, ok := nd.(*ast.CompositeLit)
			if !ok {
				return true
			}
			n := namedOf(info.TypeOf(cl))
			if n == nil || !isIRPkg(n.Obj().Pkg().Path()) || !c.lazilyComputed(n, "Typ") {
				return true
			}
			if nm := n.Obj().Name(); !strings.HasPrefix(nm, "Inst") && !strings.HasPrefix(nm, "Term") {
				return true // globals, functions and constants have no parser/library twin computation
			}
			for _, el := range cl.Elts {
				if kv, ok := el.(*ast.KeyValueExpr); ok && exprString(kv.Key) == "Typ" {
					se := newSymEval(c, p, fd, "asm")
					parser[n] = side{se.term(kv.Value), kv.Pos(), funcKey(fn)}
					se0 = se
					d := se.lits[cl]
					d.expr = kv.Value
					perType[n] = append(perType[n], d)
				}
			}
			return true
		})
	})
	var ns []*types.Named
	for n := range parser {
		ns = append(ns, n)
	}
	sort.Slice(ns, func(i, j int) bool { return typeKey(ns[i]) < typeKey(ns[j]) })
	for _, n := range ns {
		ps := parser[n]
		tkey := typeKey(n)
		o := Obligation{Key: tkey + " result type: parser ≡ library", Pos: c.pos(ps.pos), Verdict: OK, Tags: irTags(n)}
		if declaredMethodOf(n, "Sig") != nil {
			o.Tags = append(o.Tags, "call")
		}
		tm := declaredMethodOf(n, "Type")
		tfd := c.funcDecl(tm)
		if tfd == nil {
			o.Verdict, o.Detail = UNDECIDED, "no Type method with source"
			obs = append(obs, o)
			continue
		}
		le := newSymEval(c, c.declPkg[tfd], tfd, "ir")
		// the term stored into recv.Typ
		var typField types.Object
		st := n.Underlying().(*types.Struct)
		for i := 0; i < st.NumFields(); i++ {
			if st.Field(i).Name() == "Typ" {
				typField = st.Field(i)
			}
		}
		lterm := le.termOfDefs(le.defs[typField], "Typ")
		if strings.Contains(lterm, "?undefined:") {
			// the cell is filled by a helper that is handed its address: what Type() returns is what the cell holds
			lterm = le.termOfDefs(le.defs[le.ret], "$ret")
		}
		pterm := ps.term
		norm := func(s string) string {
			// a list of typed operands handed to a helper as AST nodes (parser) or as IR values (library)
			return strings.ReplaceAll(s, "Acc(", "Syn(")
		}
		switch {
		case declaredMethodOf(n, "Sig") != nil:
			// call-like: the syntax states the result type, or the whole function type; LLVM's rule is
			// result = (stated type is a function type ? its return type : the stated type), for every callee.
			const want = "IfIs(Syn(Typ); FuncType){Assert[FuncType](Syn(Typ)).RetType}{Syn(Typ)}"
			switch {
			case pterm == want:
				o.Detail = "stated type, or its return type when a function type is stated (LLVM call rule): " + pterm
			case strings.Contains(pterm, "?"):
				o.Verdict, o.Detail = UNDECIDED, fmt.Sprintf("call result-type term not extractable: %s = %s", ps.fn, pterm)
			default:
				o.Verdict = VIOL
				o.Detail = fmt.Sprintf("the parser (%s) types the call result as %s; LLVM's rule is %s — a call whose callee type is spelled out (possible for any callee, also through a named function type) gets the wrong result type, which also shifts the numbering of later unnamed values", ps.fn, pterm, want)
			}
		case typAgreeExempt[tkey] != "":
			o.Verdict, o.Detail = EXEMPT, typAgreeExempt[tkey]
		case strings.Contains(pterm, "?") || strings.Contains(lterm, "?"):
			o.Verdict = UNDECIDED
			o.Detail = fmt.Sprintf("result-type term not extractable: parser %s = %s; library = %s", ps.fn, pterm, lterm)
		case norm(pterm) != norm(lterm):
			o.Verdict = VIOL
			o.Detail = fmt.Sprintf("the parser (%s) types the result as %s but %s.Type() computes %s: a parsed and a constructed instruction with the same operands have different types", ps.fn, pterm, tkey, lterm)
		default:
			o.Detail = pterm
		}
		obs = append(obs, o)
	}
	// constant expressions mirror the instruction of the same opcode
	for _, path := range []string{pkgCONS} {
		scope := c.pkg(path).Types.Scope()
		for _, name := range scope.Names() {
			if !strings.HasPrefix(name, "Expr") {
				continue
			}
			tn, _ := scope.Lookup(name).(*types.TypeName)
			if tn == nil {
				continue
			}
			en, _ := tn.Type().(*types.Named)
			if en == nil || !c.lazilyComputed(en, "Typ") {
				continue
			}
			instT := c.lookupType(pkgIR, "Inst"+strings.TrimPrefix(name, "Expr"))
			if instT == nil {
				continue
			}
			in := instT.Type().(*types.Named)
			etm, itm := declaredMethodOf(en, "Type"), declaredMethodOf(in, "Type")
			efd, ifd := c.funcDecl(etm), c.funcDecl(itm)
			if efd == nil || ifd == nil {
				continue
			}
			termOf := func(n *types.Named, fd *ast.FuncDecl) string {
				se := newSymEval(c, c.declPkg[fd], fd, "ir")
				st := n.Underlying().(*types.Struct)
				for i := 0; i < st.NumFields(); i++ {
					if st.Field(i).Name() == "Typ" {
						if t := se.termOfDefs(se.defs[st.Field(i)], "Typ"); !strings.Contains(t, "?undefined:") {
							return t
						}
						return se.termOfDefs(se.defs[se.ret], "$ret")
					}
				}
				return "?noTyp"
			}
			et, it := termOf(en, efd), termOf(in, ifd)
			// helper names differ by design between the two packages (gepExprType / gepInstType)
			et2 := strings.ReplaceAll(et, "H:gepExprType", "H:gepType")
			it2 := strings.ReplaceAll(it, "H:gepInstType", "H:gepType")
			if al, ok := typAgreeFieldAlias[typeKey(en)]; ok {
				et2 = strings.ReplaceAll(et2, al[0], al[1])
			}
			o := Obligation{Key: typeKey(en) + " result type ≡ " + typeKey(in), Pos: c.pos(efd.Pos()), Verdict: OK, Detail: et, Tags: irTags(en)}
			switch {
			case strings.Contains(et, "?") || strings.Contains(it, "?"):
				o.Verdict, o.Detail = UNDECIDED, fmt.Sprintf("term not extractable: expression %s; instruction %s", et, it)
			case et2 != it2:
				o.Verdict = VIOL
				o.Detail = fmt.Sprintf("the constant expression computes %s, the instruction of the same opcode computes %s", et, it)
			}
			obs = append(obs, o)
		}
	}
	// helper siblings: same-named package-level helpers used in the terms agree on their common case domain
	obs = append(obs, c.helperSiblings()...)
	return obs
}

// helperSiblings compares same-named helper functions of asm and ir whose
// bodies are a type switch over a types.Type parameter.
func (c *Ctx) helperSiblings() []Obligation {
	var obs []Obligation
	type helper struct {
		fn    *types.Func
		fd    *ast.FuncDecl
		arms  map[string]string
		pre   string
		found bool
	}
	get := func(path, name string) *helper {
		fn := c.lookupFunc(path, name)
		fd := c.funcDecl(fn)
		if fd == nil {
			return nil
		}
		h := &helper{fn: fn, fd: fd, arms: map[string]string{}}
		p := c.declPkg[fd]
		_ = newSymEval
		// parameters print as P0, P1 …
		i := 0
		pnames := map[types.Object]string{}
		for _, f := range fd.Type.Params.List {
			for _, n := range f.Names {
				pnames[p.TypesInfo.Defs[n]] = fmt.Sprintf("P%d", i)
				i++
			}
		}
		subst := func(s string) string {
			for obj, pn := range pnames {
				s = strings.ReplaceAll(s, "?"+obj.Name(), pn)
			}
			return s
		}
		// The helper is a fold over the index path: step(t, idx) is given by the arms of a type
		// switch over t. Two spellings are read: the recursive one
		//     if len(indices) == 0 { return t };  switch t := t.(type) { case K: return self(NEXT, indices[1:]) }
		// and the iterative one
		//     for _, idx := range indices { switch v := t.(type) { case K: t = NEXT } };  return t
		// NEXT is normalised on the switch variable ($t) and the current index ($idx).
		_ = subst
		info := p.TypesInfo
		var tParam, idxParam types.Object
		if ps := fn.Type().(*types.Signature).Params(); ps.Len() == 2 {
			tParam, idxParam = ps.At(0), ps.At(1)
		}
		acc := tParam
		norm := func(e ast.Expr, tv, iv types.Object, recursive bool) string {
			var render func(x ast.Expr) string
			render = func(x ast.Expr) string {
				switch x := unparen(x).(type) {
				case *ast.Ident:
					obj := info.ObjectOf(x)
					switch {
					case obj != nil && (obj == tv):
						return "$t"
					case obj != nil && iv != nil && obj == iv:
						return "$idx"
					}
					return x.Name
				case *ast.SelectorExpr:
					return render(x.X) + "." + x.Sel.Name
				case *ast.IndexExpr:
					if recursive {
						if id, ok := unparen(x.X).(*ast.Ident); ok && info.ObjectOf(id) == idxParam && exprString(x.Index) == "0" {
							return "$idx"
						}
					}
					return render(x.X) + "[" + render(x.Index) + "]"
				}
				return exprString(x)
			}
			return render(e)
		}
		readSwitch := func(ts *ast.TypeSwitchStmt, iv types.Object, recursive bool) {
			// the switch variable (or, without one, the switched expression itself)
			var tv types.Object
			if as, ok := ts.Assign.(*ast.AssignStmt); ok && len(as.Lhs) == 1 {
				if id, ok := as.Lhs[0].(*ast.Ident); ok {
					_ = id // implicit objects per clause, resolved below
				}
			}
			for _, cc := range ts.Body.List {
				cl := cc.(*ast.CaseClause)
				if cl.List == nil || len(cl.Body) != 1 {
					continue
				}
				tv = info.Implicits[cl]
				var next ast.Expr
				switch st := cl.Body[0].(type) {
				case *ast.ReturnStmt:
					if recursive && len(st.Results) == 1 {
						if call, ok := st.Results[0].(*ast.CallExpr); ok && calleeOf(info, call) == fn && len(call.Args) == 2 {
							if strings.ReplaceAll(exprString(call.Args[1]), " ", "") == idxParam.Name()+"[1:]" {
								next = call.Args[0]
							}
						}
					}
				case *ast.AssignStmt:
					if !recursive && len(st.Lhs) == 1 && len(st.Rhs) == 1 && st.Tok == token.ASSIGN {
						if id, ok := st.Lhs[0].(*ast.Ident); ok && info.ObjectOf(id) == acc {
							next = st.Rhs[0]
						}
					}
				}
				if next == nil {
					continue
				}
				for _, e := range cl.List {
					h.arms[shortTypeName(typeKey(info.TypeOf(e)))] = norm(next, tv, iv, recursive)
				}
			}
		}
		for i, st := range fd.Body.List {
			switch st := st.(type) {
			case *ast.AssignStmt:
				// the fold may accumulate in a local initialised from the type parameter (elemType := t)
				if st.Tok == token.DEFINE && len(st.Lhs) == 1 && len(st.Rhs) == 1 {
					if r, ok := unparen(st.Rhs[0]).(*ast.Ident); ok && info.ObjectOf(r) == tParam {
						if l, ok := st.Lhs[0].(*ast.Ident); ok {
							acc = info.ObjectOf(l)
						}
					}
				}
			case *ast.IfStmt:
				if len(st.Body.List) == 1 && isReturn1(st.Body.List[0]) {
					cond := strings.ReplaceAll(exprString(st.Cond), " ", "")
					ret := st.Body.List[0].(*ast.ReturnStmt).Results[0]
					if id, ok := unparen(ret).(*ast.Ident); ok && idxParam != nil && cond == "len("+idxParam.Name()+")==0" && info.ObjectOf(id) == tParam {
						h.pre = "empty index path → the type itself"
					} else {
						h.pre += "if " + exprString(st.Cond) + " → " + exprString(ret) + "; "
					}
				}
			case *ast.TypeSwitchStmt:
				h.found = true
				readSwitch(st, nil, true)
			case *ast.RangeStmt:
				if id, ok := unparen(st.X).(*ast.Ident); !ok || info.ObjectOf(id) != idxParam {
					continue
				}
				var iv types.Object
				if v, ok := st.Value.(*ast.Ident); ok {
					iv = info.ObjectOf(v)
				}
				for _, inner := range st.Body.List {
					if ts, ok := inner.(*ast.TypeSwitchStmt); ok {
						h.found = true
						readSwitch(ts, iv, false)
					}
				}
				// the fold returns the accumulated type
				if i+1 < len(fd.Body.List) {
					if r, ok := fd.Body.List[i+1].(*ast.ReturnStmt); ok && len(r.Results) == 1 {
						if id, ok := unparen(r.Results[0]).(*ast.Ident); ok && info.ObjectOf(id) == acc && h.pre == "" {
							h.pre = "empty index path → the type itself"
						}
					}
				}
			}
		}
		return h
	}
	for _, name := range []string{"aggregateElemType"} {
		a, b := get(pkgASM, name), get(pkgIR, name)
		if a == nil || b == nil || !a.found || !b.found {
			obs = append(obs, Obligation{Key: "helper " + name + " asm ≡ ir", Verdict: UNDECIDED, Detail: "same-named helper with a type-switch body not found on both sides"})
			continue
		}
		if a.pre != b.pre {
			obs = append(obs, Obligation{Key: "helper " + name + " base case", Pos: c.pos(a.fd.Pos()), Verdict: VIOL, Detail: fmt.Sprintf("asm: %s; ir: %s", a.pre, b.pre)})
		} else {
			obs = append(obs, Obligation{Key: "helper " + name + " base case", Pos: c.pos(a.fd.Pos()), Verdict: OK, Detail: a.pre})
		}
		for _, k := range sortedKeys(a.arms) {
			bt, common := b.arms[k]
			o := Obligation{Key: fmt.Sprintf("helper %s case %s", name, k), Pos: c.pos(a.fd.Pos()), Verdict: OK, Detail: a.arms[k]}
			if !common {
				o.Detail = "handled by the parser side only (the other side panics): outside the common domain"
			} else if bt != a.arms[k] {
				o.Verdict = VIOL
				o.Detail = fmt.Sprintf("asm computes %s, ir computes %s", a.arms[k], bt)
			}
			obs = append(obs, o)
		}
	}
	return obs
}

// splitTopLevel splits s at occurrences of sep that are not nested in (), {} or [].
func splitTopLevel(s, sep string) []string {
	var out []string
	depth, start := 0, 0
	for i := 0; i < len(s); i++ {
		switch s[i] {
		case '(', '{', '[':
			depth++
		case ')', '}', ']':
			depth--
		}
		if depth == 0 && strings.HasPrefix(s[i:], sep) {
			out = append(out, s[start:i])
			start = i + len(sep)
			i += len(sep) - 1
		}
	}
	return append(out, s[start:])
}

package main

import (
	"go/ast"
	"go/token"
	"go/types"
	"sort"
	"strings"

	"golang.org/x/tools/go/packages"
)

// numWalk computes the order in which a traversal of a function's parameters,
// blocks, instructions and terminators applies an action (numbering a value /
// registering a local), as a string such as
//
//	Params{act(Params)}Blocks{act(Blocks)Insts{act(Insts|assert+nonvoid)}act(Term|assert+nonvoid)}
//
// It follows calls into functions, methods and closures of the same package
// (binding their parameters to what the caller passes), so that the result does
// not depend on how the traversal is split into helpers, on guard clauses versus
// nested conditions, or on the names of locals.
type numWalk struct {
	c      *Ctx
	action func(p *packages.Package, call *ast.CallExpr) (arg ast.Expr, ok bool)
	out    strings.Builder
	depth  int
	loops  int // traversal loops the walk is inside of
}

type numVal struct {
	origin  string
	filters map[string]bool
}

func (v numVal) String() string {
	if len(v.filters) == 0 {
		return v.origin
	}
	var fs []string
	for f := range v.filters {
		fs = append(fs, f)
	}
	sort.Strings(fs)
	return v.origin + "|" + strings.Join(fs, "+")
}

func (v numVal) with(f string) numVal {
	n := numVal{origin: v.origin, filters: map[string]bool{}}
	for k := range v.filters {
		n.filters[k] = true
	}
	n.filters[f] = true
	return n
}

type numEnv struct {
	vals     map[types.Object]numVal
	okOf     map[types.Object]types.Object // ok variable → the asserted variable it belongs to
	closures map[types.Object]*ast.FuncLit
}

func newNumEnv() *numEnv {
	return &numEnv{vals: map[types.Object]numVal{}, okOf: map[types.Object]types.Object{}, closures: map[types.Object]*ast.FuncLit{}}
}

func (e *numEnv) clone() *numEnv {
	n := newNumEnv()
	for k, v := range e.vals {
		n.vals[k] = v
	}
	for k, v := range e.okOf {
		n.okOf[k] = v
	}
	for k, v := range e.closures {
		n.closures[k] = v
	}
	return n
}

var numFields = map[string]bool{"Params": true, "Blocks": true, "Insts": true}

// valueOf resolves an expression to the traversal value it denotes.
func (w *numWalk) valueOf(info *types.Info, env *numEnv, e ast.Expr) (numVal, bool) {
	e = unparen(e)
	switch x := e.(type) {
	case *ast.Ident:
		v, ok := env.vals[info.ObjectOf(x)]
		return v, ok
	case *ast.SelectorExpr:
		if x.Sel.Name == "Term" {
			return numVal{origin: "Term"}, true
		}
		// a whole list handed to a helper (assigner.assignParams(f.Params)): ranging over the
		// parameter it is bound to is ranging over the list
		if numFields[x.Sel.Name] {
			return numVal{origin: "list:" + x.Sel.Name}, true
		}
	case *ast.TypeAssertExpr:
		if v, ok := w.valueOf(info, env, x.X); ok {
			return v.with("assert"), true
		}
	}
	return numVal{}, false
}

// voidTestVar: e is `v.Type().Equal(types.Void)` / `types.Equal(v.Type(), types.Void)`; returns v.
func voidTestVar(info *types.Info, e ast.Expr) types.Object {
	call, ok := unparen(e).(*ast.CallExpr)
	if !ok || !strings.Contains(exprString(call), "Void") {
		return nil
	}
	var obj types.Object
	ast.Inspect(call, func(n ast.Node) bool {
		if c2, ok := n.(*ast.CallExpr); ok && len(c2.Args) == 0 {
			if se, ok := unparen(c2.Fun).(*ast.SelectorExpr); ok && se.Sel.Name == "Type" {
				if id, ok := unparen(se.X).(*ast.Ident); ok && obj == nil {
					obj = info.ObjectOf(id)
				}
			}
		}
		return true
	})
	return obj
}

// condFilters splits a condition into the filters it establishes when it is
// TRUE (pos) and when it is FALSE (neg), keyed by variable.
func (w *numWalk) condFilters(info *types.Info, env *numEnv, cond ast.Expr) (pos, neg map[types.Object][]string) {
	pos, neg = map[types.Object][]string{}, map[types.Object][]string{}
	var conj func(e ast.Expr, into map[types.Object][]string, negated bool)
	conj = func(e ast.Expr, into map[types.Object][]string, negated bool) {
		e = unparen(e)
		switch x := e.(type) {
		case *ast.UnaryExpr:
			if x.Op == token.NOT {
				conj(x.X, into, !negated)
				return
			}
		case *ast.BinaryExpr:
			// a conjunction holds term by term; the negation of a disjunction too
			if (x.Op == token.LAND && !negated) || (x.Op == token.LOR && negated) {
				conj(x.X, into, negated)
				conj(x.Y, into, negated)
				return
			}
		case *ast.Ident:
			if v := env.okOf[info.ObjectOf(x)]; v != nil && !negated {
				into[v] = append(into[v], "assert")
			}
			return
		}
		if v := voidTestVar(info, e); v != nil && negated {
			into[v] = append(into[v], "nonvoid")
		}
	}
	conj(cond, pos, false)
	conj(cond, neg, true)
	return pos, neg
}

func terminates(b *ast.BlockStmt) bool {
	if b == nil || len(b.List) == 0 {
		return false
	}
	switch last := b.List[len(b.List)-1].(type) {
	case *ast.ReturnStmt:
		return true
	case *ast.BranchStmt:
		return last.Tok == token.CONTINUE || last.Tok == token.BREAK
	}
	return false
}

// successReturn: the block ends in `return` / `return nil` (all results nil).
func successReturn(b *ast.BlockStmt) bool {
	if b == nil || len(b.List) == 0 {
		return false
	}
	r, ok := b.List[len(b.List)-1].(*ast.ReturnStmt)
	if !ok {
		return false
	}
	for _, e := range r.Results {
		if id, ok := unparen(e).(*ast.Ident); !ok || id.Name != "nil" {
			return false
		}
	}
	return true
}

func (w *numWalk) walkStmts(p *packages.Package, env *numEnv, list []ast.Stmt) {
	info := p.TypesInfo
	apply := func(e *numEnv, m map[types.Object][]string) {
		for v, fs := range m {
			if cur, ok := e.vals[v]; ok {
				for _, f := range fs {
					cur = cur.with(f)
				}
				e.vals[v] = cur
			}
		}
	}
	for _, st := range list {
		switch st := st.(type) {
		case *ast.RangeStmt:
			field := ""
			if se, ok := unparen(st.X).(*ast.SelectorExpr); ok && numFields[se.Sel.Name] {
				field = se.Sel.Name
			}
			if id, ok := unparen(st.X).(*ast.Ident); ok {
				if v, ok := env.vals[info.ObjectOf(id)]; ok && strings.HasPrefix(v.origin, "list:") {
					field = strings.TrimPrefix(v.origin, "list:")
				}
			}
			if field == "" {
				w.walkStmts(p, env, st.Body.List)
				continue
			}
			inner := env.clone()
			if id, ok := st.Value.(*ast.Ident); ok {
				inner.vals[info.ObjectOf(id)] = numVal{origin: field}
			}
			w.out.WriteString(field + "{")
			w.loops++
			w.walkStmts(p, inner, st.Body.List)
			w.loops--
			w.out.WriteString("}")
		case *ast.AssignStmt:
			// closures
			if len(st.Lhs) == 1 && len(st.Rhs) == 1 {
				if fl, ok := st.Rhs[0].(*ast.FuncLit); ok {
					if id, ok := st.Lhs[0].(*ast.Ident); ok {
						env.closures[info.ObjectOf(id)] = fl
					}
					continue
				}
			}
			// v, ok := x.(I)
			if len(st.Rhs) == 1 && len(st.Lhs) == 2 {
				if ta, ok := unparen(st.Rhs[0]).(*ast.TypeAssertExpr); ok && ta.Type != nil {
					if src, ok := w.valueOf(info, env, ta.X); ok {
						if id, ok := st.Lhs[0].(*ast.Ident); ok {
							vobj := info.ObjectOf(id)
							env.vals[vobj] = numVal{origin: src.origin, filters: src.filters}
							if okID, ok := st.Lhs[1].(*ast.Ident); ok {
								env.okOf[info.ObjectOf(okID)] = vobj
							}
						}
						continue
					}
				}
			}
			// plain copies  v := x
			if len(st.Lhs) == len(st.Rhs) {
				for i, l := range st.Lhs {
					if id, ok := l.(*ast.Ident); ok {
						if v, ok := w.valueOf(info, env, st.Rhs[i]); ok {
							env.vals[info.ObjectOf(id)] = v
						}
					}
				}
			}
			w.walkCalls(p, env, st)
		case *ast.IfStmt:
			if st.Init != nil {
				w.walkStmts(p, env, []ast.Stmt{st.Init})
			}
			pos, neg := w.condFilters(info, env, st.Cond)
			w.walkCalls(p, env, st.Cond)
			// a success return of the routine itself, outside every traversal loop, under a condition
			// that says nothing about a traversal value: whatever follows is skipped for some
			// functions as a whole (`if len(f.Blocks) == 0 { return nil }` skips the parameters of
			// declarations) — part of the order the two sides must agree on
			if w.depth == 0 && w.loops == 0 && st.Else == nil && len(pos) == 0 && len(neg) == 0 && successReturn(st.Body) && st != list[len(list)-1] {
				w.out.WriteString("exit?")
			}
			then := env.clone()
			apply(then, pos)
			w.walkStmts(p, then, st.Body.List)
			if st.Else != nil {
				els := env.clone()
				apply(els, neg)
				switch e := st.Else.(type) {
				case *ast.BlockStmt:
					w.walkStmts(p, els, e.List)
				case *ast.IfStmt:
					w.walkStmts(p, els, []ast.Stmt{e})
				}
			}
			// a guard clause: what follows only runs when the condition was false
			if terminates(st.Body) && st.Else == nil {
				apply(env, neg)
			}
		case *ast.TypeSwitchStmt:
			var operand ast.Expr
			switch a := st.Assign.(type) {
			case *ast.AssignStmt:
				operand = a.Rhs[0].(*ast.TypeAssertExpr).X
			case *ast.ExprStmt:
				operand = a.X.(*ast.TypeAssertExpr).X
			}
			src, known := w.valueOf(info, env, operand)
			for _, cc := range st.Body.List {
				cl := cc.(*ast.CaseClause)
				inner := env.clone()
				if known && cl.List != nil {
					var ks []string
					for _, e := range cl.List {
						ks = append(ks, shortTypeName(typeKey(info.TypeOf(e))))
					}
					sort.Strings(ks)
					v := src.with("case:" + strings.Join(ks, ","))
					if obj := info.Implicits[cl]; obj != nil {
						inner.vals[obj] = v
					}
					if id, ok := unparen(operand).(*ast.Ident); ok {
						inner.vals[info.ObjectOf(id)] = v
					}
				}
				w.walkStmts(p, inner, cl.Body)
			}
		case *ast.BlockStmt:
			w.walkStmts(p, env, st.List)
		case *ast.ForStmt:
			w.walkStmts(p, env, st.Body.List)
		case *ast.SwitchStmt:
			for _, cc := range st.Body.List {
				w.walkStmts(p, env.clone(), cc.(*ast.CaseClause).Body)
			}
		default:
			w.walkCalls(p, env, st)
		}
	}
}

// walkCalls handles the calls inside one statement or expression, in source order.
func (w *numWalk) walkCalls(p *packages.Package, env *numEnv, n ast.Node) {
	if n == nil {
		return
	}
	info := p.TypesInfo
	ast.Inspect(n, func(m ast.Node) bool {
		switch m := m.(type) {
		case *ast.FuncLit:
			return false
		case *ast.CallExpr:
			// arguments first (they are evaluated before the call)
			for _, a := range m.Args {
				w.walkCalls(p, env, a)
			}
			if arg, ok := w.action(p, m); ok {
				if v, ok := w.valueOf(info, env, arg); ok {
					w.out.WriteString("act(" + v.String() + ")")
				} else {
					w.out.WriteString("act(?" + exprString(arg) + ")")
				}
				return false
			}
			if w.depth >= 4 {
				return false
			}
			// closure of the enclosing function
			if id, ok := unparen(m.Fun).(*ast.Ident); ok {
				if fl := env.closures[info.ObjectOf(id)]; fl != nil {
					inner := env.clone()
					w.bind(info, env, inner, fl.Type, m.Args, info)
					w.depth++
					w.walkStmts(p, inner, fl.Body.List)
					w.depth--
					return false
				}
			}
			// function / method of the same module with a body
			if callee := calleeOf(info, m); callee != nil && callee.Pkg() != nil && w.c.isLLVM(callee.Pkg().Path()) {
				if fd := w.c.funcDecl(callee); fd != nil && fd.Body != nil {
					cp := w.c.declPkg[fd]
					if !numRelevant(fd) {
						return false
					}
					inner := newNumEnv()
					w.bind(info, env, inner, fd.Type, m.Args, cp.TypesInfo)
					// the receiver, if it is a traversal value (block.method())
					if se, ok := unparen(m.Fun).(*ast.SelectorExpr); ok && fd.Recv != nil && len(fd.Recv.List) == 1 && len(fd.Recv.List[0].Names) == 1 {
						if v, ok := w.valueOf(info, env, se.X); ok {
							inner.vals[cp.TypesInfo.Defs[fd.Recv.List[0].Names[0]]] = v
						}
					}
					w.depth++
					w.walkStmts(cp, inner, fd.Body.List)
					w.depth--
				}
			}
			return false
		}
		return true
	})
}

// numRelevant: the function mentions the traversal (ranges over Params/Blocks/Insts, reads
// .Term, asserts a value, or calls something) — cheap filter to keep the walk small.
func numRelevant(fd *ast.FuncDecl) bool {
	rel := false
	ast.Inspect(fd.Body, func(n ast.Node) bool {
		switch n := n.(type) {
		case *ast.RangeStmt, *ast.TypeAssertExpr, *ast.CallExpr:
			rel = true
		case *ast.SelectorExpr:
			if n.Sel.Name == "Term" {
				rel = true
			}
		}
		return !rel
	})
	return rel
}

func (w *numWalk) bind(callerInfo *types.Info, caller, inner *numEnv, ft *ast.FuncType, args []ast.Expr, calleeInfo *types.Info) {
	i := 0
	for _, f := range ft.Params.List {
		for _, nm := range f.Names {
			if i < len(args) {
				if v, ok := w.valueOf(callerInfo, caller, args[i]); ok {
					inner.vals[calleeInfo.Defs[nm]] = v
				}
			}
			i++
		}
	}
}

// numSignature runs the walk over a function.
func (c *Ctx) numSignature(fd *ast.FuncDecl, action func(p *packages.Package, call *ast.CallExpr) (ast.Expr, bool)) string {
	w := &numWalk{c: c, action: action}
	w.walkStmts(c.declPkg[fd], newNumEnv(), fd.Body.List)
	return w.out.String()
}

package main

import (
	"fmt"
	"go/ast"
	"go/token"
	"go/types"
	"sort"
	"strings"

	"golang.org/x/tools/go/packages"
)

// Engine A (part 1) — dispatch over the grammar's sum types: EXH, SIB, PAIR, ACC.

func init() {
	register(&Rule{
		Name:  "EXH",
		Doc:   "every type switch in package asm over a sealed sum interface of the llir/ll AST covers every member of the sum (directly or through an interface case), or its default branch returns an error; a default that panics or a missing default loses/crashes on an alternative the grammar accepts",
		Floor: 60,
		Run:   ruleEXH,
	})
	register(&Rule{
		Name:  "SIB",
		Doc:   "type switches of package asm over the same operand type with near-equal case sets (scaffold/fill siblings over open node types) must have equal case sets",
		Floor: 2,
		Run:   ruleSIB,
	})
	register(&Rule{
		Name:  "PAIR",
		Doc:   "for each AST node type K, the IR type created by the scaffold translator taking *ast.K equals the IR type the fill translator taking *ast.K asserts its `new` argument to",
		Floor: 90,
		Run:   rulePAIR,
	})
	register(&Rule{
		Name:  "ACC",
		Doc:   "every syntax accessor of every llir/ll AST node type that package asm handles is called in asm and its result is used: an uncalled accessor is a piece of accepted syntax the parser cannot see",
		Floor: 600,
		Run:   ruleACC,
	})
}

// sealedInfo describes the sum interfaces of the AST package.
type sealedInfo struct {
	ifaces  map[*types.Named][]*types.Named // sealed interface -> member struct types (sorted by name)
	structs []*types.Named                  // all node struct types
}

func (c *Ctx) sealed() *sealedInfo {
	if v, ok := c.memo["sealed"]; ok {
		return v.(*sealedInfo)
	}
	p := c.pkg(pkgAST)
	si := &sealedInfo{ifaces: map[*types.Named][]*types.Named{}}
	scope := p.Types.Scope()
	var ifaces []*types.Named
	for _, name := range scope.Names() {
		tn, ok := scope.Lookup(name).(*types.TypeName)
		if !ok {
			continue
		}
		n, ok := tn.Type().(*types.Named)
		if !ok {
			continue
		}
		switch u := n.Underlying().(type) {
		case *types.Interface:
			sealed := false
			for i := 0; i < u.NumMethods(); i++ {
				if !u.Method(i).Exported() {
					sealed = true
				}
			}
			if sealed {
				ifaces = append(ifaces, n)
			}
		case *types.Struct:
			if name != "NilNode" && name != "Node" && name != "Tree" {
				// node types embed *Node
				if u.NumFields() == 1 && u.Field(0).Embedded() {
					si.structs = append(si.structs, n)
				}
			}
		}
	}
	for _, in := range ifaces {
		iface := in.Underlying().(*types.Interface)
		for _, s := range si.structs {
			if types.Implements(s, iface) || types.Implements(types.NewPointer(s), iface) {
				si.ifaces[in] = append(si.ifaces[in], s)
			}
		}
	}
	c.memo["sealed"] = si
	return si
}

type typeSwitch struct {
	p       *packages.Package
	fn      *types.Func
	fd      *ast.FuncDecl
	sw      *ast.TypeSwitchStmt
	operand types.Type
	cases   []types.Type // case types in order (nil entry for `nil`)
	deflt   *ast.CaseClause
	ord     int // ordinal among switches over the same operand type in the function
}

func (ts *typeSwitch) key() string {
	k := fmt.Sprintf("%s switch(%s)", funcKey(ts.fn), typeKey(ts.operand))
	if ts.ord > 0 {
		k += fmt.Sprintf("#%d", ts.ord+1)
	}
	return k
}

// typeSwitches collects the type switches of a package.
func (c *Ctx) typeSwitches(path string) []*typeSwitch {
	if v, ok := c.memo["typeSwitches:"+path]; ok {
		return v.([]*typeSwitch)
	}
	var out []*typeSwitch
	c.eachFunc(path, func(p *packages.Package, fd *ast.FuncDecl, fn *types.Func) {
		ords := map[string]int{}
		ast.Inspect(fd.Body, func(n ast.Node) bool {
			sw, ok := n.(*ast.TypeSwitchStmt)
			if !ok {
				return true
			}
			var x ast.Expr
			switch a := sw.Assign.(type) {
			case *ast.AssignStmt:
				x = a.Rhs[0].(*ast.TypeAssertExpr).X
			case *ast.ExprStmt:
				x = a.X.(*ast.TypeAssertExpr).X
			}
			ts := &typeSwitch{p: p, fn: fn, fd: fd, sw: sw, operand: p.TypesInfo.TypeOf(x)}
			for _, cc := range sw.Body.List {
				cl := cc.(*ast.CaseClause)
				if cl.List == nil {
					ts.deflt = cl
					continue
				}
				for _, e := range cl.List {
					ts.cases = append(ts.cases, p.TypesInfo.TypeOf(e))
				}
			}
			ok2 := typeKey(ts.operand)
			ts.ord = ords[ok2]
			ords[ok2]++
			out = append(out, ts)
			return true
		})
	})
	c.memo["typeSwitches:"+path] = out
	return out
}

// returnsError reports whether the clause's last statement returns a non-nil
// error value (the enclosing function's last result being of type error).
func returnsError(info *types.Info, body []ast.Stmt) bool {
	if len(body) == 0 {
		return false
	}
	r, ok := body[len(body)-1].(*ast.ReturnStmt)
	if !ok || len(r.Results) == 0 {
		return false
	}
	last := r.Results[len(r.Results)-1]
	t := info.TypeOf(last)
	if t == nil || !isErrorType(t) && !types.Implements(t, types.Universe.Lookup("error").Type().Underlying().(*types.Interface)) {
		return false
	}
	if id, ok := last.(*ast.Ident); ok && id.Name == "nil" {
		return false
	}
	return true
}

func endsInPanic(body []ast.Stmt) bool {
	if len(body) == 0 {
		return false
	}
	es, ok := body[len(body)-1].(*ast.ExprStmt)
	if !ok {
		return false
	}
	call, ok := es.X.(*ast.CallExpr)
	if !ok {
		return false
	}
	id, ok := call.Fun.(*ast.Ident)
	return ok && id.Name == "panic"
}

// exhExempt: frozen exemptions of EXH, keyed by "sumtype∌member", one reason each.
var exhExempt = map[string]string{
	"ast.FuncAttribute∌ast.VectorScaleRangetok": "keyword token that only occurs as a child of ast.VectorScaleRange; the grammar never produces it as a direct function attribute",
}

// exhExemptAt: frozen exemptions for one switch, keyed by the switch's
// construct key; the listed members cannot occur there in a valid module.
var exhExemptAt = map[string]struct {
	members []string
	reason  string
}{
	"asm.(*generator).getIndex switch(ast.Constant)": {
		[]string{"ast.ArrayConst", "ast.BlockAddressConst", "ast.CharArrayConst", "ast.DSOLocalEquivalentConst", "ast.FloatConst", "ast.GlobalIdent", "ast.NoCFIConst", "ast.NoneConst", "ast.NullConst", "ast.StructConst"},
		"a getelementptr index must have integer or integer-vector type; this constant kind never has one, so LLVM rejects the input (not a valid module)",
	},
	"asm.newType switch(ast.LlvmNode)": {
		[]string{"ast.NamedType"},
		"createTypeDefs calls newType only for definitions whose body is not a named type; aliases (`%a = type %b`) are resolved by resolveTypeAlias to the entry of the aliased definition instead of getting an object of their own",
	},
	"asm.(*generator).irMetadata switch(ast.Metadata)": {
		[]string{"ast.DIArgList"},
		"module-level metadata context: !DIArgList is function-local metadata, which LLVM rejects outside a function (the function-level translator handles it before delegating here)",
	},
	"asm.(*generator).irMetadata switch(ast.Value)": {
		[]string{"ast.InlineAsm", "ast.LocalIdent"},
		"module-level metadata context: a local value or inline asm as metadata operand is function-local metadata, which LLVM rejects here (the function-level translator handles TypeValue before delegating)",
	},
}

func exhSwitchExempt(switchKey, member string) string {
	if e, ok := exhExemptAt[switchKey]; ok {
		for _, m := range e.members {
			if m == member {
				return e.reason
			}
		}
	}
	return ""
}

// tagsForFunc classifies a construct of package asm by the property areas it belongs to.
func asmTags(fnName, extra string) []string {
	var tags []string
	l := strings.ToLower(fnName + " " + extra)
	if strings.Contains(l, "getindex") || strings.Contains(l, "gep") || strings.Contains(l, "getelementptr") {
		tags = append(tags, "gep")
	}
	if strings.Contains(l, "metadata") || strings.Contains(l, "mdnode") || strings.Contains(l, "mdfield") || strings.Contains(l, "mdtuple") ||
		strings.Contains(fnName, "irDI") || strings.Contains(fnName, "DI") && strings.Contains(extra, "ast.DI") || strings.Contains(extra, "ast.DI") || strings.Contains(extra, "ast.GenericDINode") || strings.Contains(extra, "ast.MD") || strings.Contains(extra, "metadata.") {
		tags = append(tags, "md")
	}
	return tags
}

func ruleEXH(c *Ctx) []Obligation {
	si := c.sealed()
	var obs []Obligation
	for _, ts := range c.typeSwitches(pkgASM) {
		in := namedOf(ts.operand)
		if in == nil || isPtr(ts.operand) {
			continue
		}
		members, ok := si.ifaces[in]
		if !ok {
			continue
		}
		info := ts.p.TypesInfo
		covered := map[*types.Named]string{}
		for _, ct := range ts.cases {
			if ct == nil {
				continue
			}
			if n := namedOf(ct); n != nil {
				if _, isIface := n.Underlying().(*types.Interface); isIface && !isPtr(ct) {
					iface := n.Underlying().(*types.Interface)
					for _, m := range members {
						if types.Implements(m, iface) || types.Implements(types.NewPointer(m), iface) {
							if covered[m] == "" {
								covered[m] = "via case " + typeKey(ct)
							}
						}
					}
					continue
				}
				covered[n] = "case " + typeKey(ct)
			}
		}
		mode := "no default: an uncovered member is silently ignored"
		if ts.deflt != nil {
			switch {
			case returnsError(info, ts.deflt.Body):
				mode = "error"
			case endsInPanic(ts.deflt.Body):
				mode = "default panics: an uncovered member crashes the parser"
			default:
				mode = "default neither returns an error nor panics: an uncovered member is handled generically"
			}
		}
		tags := asmTags(ts.fn.Name(), typeKey(ts.operand))
		domain, domainWhy := c.switchDomain(ts, members)
		for _, m := range members {
			o := Obligation{Key: fmt.Sprintf("%s ∋ %s", ts.key(), typeKey(m)), Pos: c.pos(ts.sw.Pos()), Tags: tags}
			ek := typeKey(in) + "∌" + typeKey(m)
			switch {
			case covered[m] != "":
				o.Verdict, o.Detail = OK, covered[m]
			case domain != nil && !domain[m]:
				o.Verdict, o.Detail = OK, "cannot reach this switch: "+domainWhy
			case mode == "error":
				o.Verdict, o.Detail = OK, "default returns an error"
			case exhExempt[ek] != "":
				o.Verdict, o.Detail = EXEMPT, exhExempt[ek]
			case exhSwitchExempt(ts.key(), typeKey(m)) != "":
				o.Verdict, o.Detail = EXEMPT, exhSwitchExempt(ts.key(), typeKey(m))
			case strings.HasPrefix(mode, "default neither"):
				o.Verdict, o.Detail = OK, "handled by a generic default branch"
			default:
				o.Verdict = VIOL
				o.Detail = fmt.Sprintf("%s is a member of the grammar's sum type %s but has no case; %s", typeKey(m), typeKey(in), mode)
			}
			obs = append(obs, o)
		}
	}
	return obs
}

// switchDomain: the members of the sum type that can reach a type switch over a parameter of
// an unexported function (a second-level dispatcher): when every call of the function passes a
// variable bound by a case clause of another type switch, only the types listed in those clauses
// arrive. nil: unrestricted.
func (c *Ctx) switchDomain(ts *typeSwitch, members []*types.Named) (map[*types.Named]bool, string) {
	info := ts.p.TypesInfo
	var x ast.Expr
	switch a := ts.sw.Assign.(type) {
	case *ast.AssignStmt:
		x = a.Rhs[0].(*ast.TypeAssertExpr).X
	case *ast.ExprStmt:
		x = a.X.(*ast.TypeAssertExpr).X
	}
	id, ok := unparen(x).(*ast.Ident)
	if !ok || ts.fn.Exported() {
		return nil, ""
	}
	sig := ts.fn.Type().(*types.Signature)
	pidx := -1
	for i := 0; i < sig.Params().Len(); i++ {
		if info.ObjectOf(id) == sig.Params().At(i) {
			pidx = i
		}
	}
	if pidx < 0 {
		return nil, ""
	}
	// the parameter must not be reassigned before the switch
	reassigned := false
	ast.Inspect(ts.fd.Body, func(n ast.Node) bool {
		if as, ok := n.(*ast.AssignStmt); ok && as.Tok == token.ASSIGN {
			for _, l := range as.Lhs {
				if li, ok := l.(*ast.Ident); ok && info.ObjectOf(li) == sig.Params().At(pidx) {
					reassigned = true
				}
			}
		}
		return true
	})
	if reassigned {
		return nil, ""
	}
	// implicit objects of case clauses → the clause
	dom := map[*types.Named]bool{}
	var callers []string
	sites, unrestricted := 0, false
	for _, path := range []string{pkgASM} {
		c.eachFunc(path, func(p *packages.Package, fd *ast.FuncDecl, caller *types.Func) {
			ci := p.TypesInfo
			clauseOf := map[types.Object]*ast.CaseClause{}
			ast.Inspect(fd.Body, func(n ast.Node) bool {
				if cl, ok := n.(*ast.CaseClause); ok {
					if obj := ci.Implicits[cl]; obj != nil {
						clauseOf[obj] = cl
					}
				}
				return true
			})
			ast.Inspect(fd.Body, func(n ast.Node) bool {
				// a function value taken without a call cannot be narrowed
				if idn, ok := n.(*ast.Ident); ok && ci.Uses[idn] == ts.fn {
					sites++
				}
				call, ok := n.(*ast.CallExpr)
				if !ok || calleeOf(ci, call) != ts.fn || pidx >= len(call.Args) {
					return true
				}
				sites--
				aid, ok := unparen(call.Args[pidx]).(*ast.Ident)
				var cl *ast.CaseClause
				if ok {
					cl = clauseOf[ci.ObjectOf(aid)]
				}
				if cl == nil || len(cl.List) == 0 {
					unrestricted = true
					return true
				}
				sites++
				callers = append(callers, funcKey(caller))
				for _, e := range cl.List {
					t := ci.TypeOf(e)
					n := namedOf(t)
					if n == nil {
						continue
					}
					if iface, isIface := n.Underlying().(*types.Interface); isIface && !isPtr(t) {
						for _, m := range members {
							if types.Implements(m, iface) || types.Implements(types.NewPointer(m), iface) {
								dom[m] = true
							}
						}
						continue
					}
					dom[n] = true
				}
				return true
			})
		})
	}
	if unrestricted || len(callers) == 0 || sites != len(callers) {
		return nil, ""
	}
	sort.Strings(callers)
	return dom, fmt.Sprintf("every call (%s) passes a variable that a case clause of the caller's type switch has narrowed to %d member(s)", strings.Join(dedupStrings(callers), ", "), len(dom))
}

func dedupStrings(xs []string) []string {
	var out []string
	for i, x := range xs {
		if i == 0 || x != xs[i-1] {
			out = append(out, x)
		}
	}
	return out
}

// ---------------------------------------------------------------------------

func ruleSIB(c *Ctx) []Obligation {
	si := c.sealed()
	var cands []*typeSwitch
	for _, ts := range c.typeSwitches(pkgASM) {
		if ts.operand == nil {
			continue
		}
		if _, ok := ts.operand.Underlying().(*types.Interface); !ok {
			continue
		}
		if in := namedOf(ts.operand); in != nil {
			if _, sealed := si.ifaces[in]; sealed {
				continue // EXH decides these
			}
		}
		if len(ts.cases) >= 4 {
			cands = append(cands, ts)
		}
	}
	caseSet := func(ts *typeSwitch) map[string]bool {
		m := map[string]bool{}
		for _, t := range ts.cases {
			if t != nil {
				m[typeKey(t)] = true
			}
		}
		return m
	}
	// union-find over sibling pairs
	parent := make([]int, len(cands))
	for i := range parent {
		parent[i] = i
	}
	var find func(int) int
	find = func(i int) int {
		if parent[i] != i {
			parent[i] = find(parent[i])
		}
		return parent[i]
	}
	for i := range cands {
		for j := i + 1; j < len(cands); j++ {
			if !types.Identical(cands[i].operand, cands[j].operand) {
				continue
			}
			a, b := caseSet(cands[i]), caseSet(cands[j])
			inter := 0
			for k := range a {
				if b[k] {
					inter++
				}
			}
			union := len(a) + len(b) - inter
			if union > 0 && float64(inter)/float64(union) >= 0.8 {
				parent[find(i)] = find(j)
			}
		}
	}
	groups := map[int][]*typeSwitch{}
	for i, ts := range cands {
		groups[find(i)] = append(groups[find(i)], ts)
	}
	var obs []Obligation
	for _, g := range groups {
		if len(g) < 2 {
			continue
		}
		all := map[string]bool{}
		for _, ts := range g {
			for k := range caseSet(ts) {
				all[k] = true
			}
		}
		var names []string
		for _, ts := range g {
			names = append(names, funcKey(ts.fn))
		}
		sort.Strings(names)
		for _, ts := range g {
			cs := caseSet(ts)
			for _, k := range sortedKeys(all) {
				o := Obligation{Key: fmt.Sprintf("%s ∋ %s", ts.key(), k), Pos: c.pos(ts.sw.Pos()), Verdict: OK,
					Detail: "sibling group {" + strings.Join(names, ", ") + "}", Tags: asmTags(ts.fn.Name(), k)}
				if !cs[k] {
					o.Verdict = VIOL
					mode := "is silently skipped"
					if ts.deflt != nil && endsInPanic(ts.deflt.Body) {
						mode = "reaches the panicking default"
					} else if ts.deflt != nil && returnsError(ts.p.TypesInfo, ts.deflt.Body) {
						o.Verdict = OK
						mode = "reaches the error-returning default"
					}
					o.Detail = fmt.Sprintf("case %s is handled by a sibling switch (%s) but missing here: the node %s", k, strings.Join(names, ", "), mode)
					if why := exhSwitchExempt(ts.key(), strings.TrimPrefix(k, "*")); why != "" && o.Verdict == VIOL {
						o.Verdict, o.Detail = EXEMPT, why
					}
				}
				obs = append(obs, o)
			}
		}
	}
	return obs
}

// ---------------------------------------------------------------------------

// astNodeParam returns the AST node struct type K if t is *ast.K or ast.K.
func astNode(t types.Type) *types.Named {
	n := namedOf(t)
	if n == nil || n.Obj().Pkg() == nil || n.Obj().Pkg().Path() != pkgAST {
		return nil
	}
	if _, ok := n.Underlying().(*types.Struct); !ok {
		return nil
	}
	return n
}

func isIRStructPtr(c *Ctx, t types.Type) *types.Named {
	pt, ok := t.(*types.Pointer)
	if !ok {
		return nil
	}
	n, ok := pt.Elem().(*types.Named)
	if !ok || n.Obj().Pkg() == nil || !c.isLLVM(n.Obj().Pkg().Path()) {
		return nil
	}
	if _, ok := n.Underlying().(*types.Struct); !ok {
		return nil
	}
	return n
}

func rulePAIR(c *Ctx) []Obligation {
	type side struct {
		t   *types.Named
		fn  string
		pos token.Pos
	}
	scaffold := map[*types.Named][]side{}
	fill := map[*types.Named][]side{}
	c.eachFunc(pkgASM, func(p *packages.Package, fd *ast.FuncDecl, fn *types.Func) {
		sig := fn.Type().(*types.Signature)
		var k *types.Named
		var newParam *types.Var
		for i := 0; i < sig.Params().Len(); i++ {
			pv := sig.Params().At(i)
			if n := astNode(pv.Type()); n != nil && isPtr(pv.Type()) {
				k = n
			} else if _, ok := pv.Type().Underlying().(*types.Interface); ok && namedOf(pv.Type()) != nil && c.isLLVM(namedOf(pv.Type()).Obj().Pkg().Path()) {
				newParam = pv
			}
		}
		if k == nil {
			return
		}
		info := p.TypesInfo
		// fill: first statement `x, ok := new.(*ir.T)`
		if newParam != nil && len(fd.Body.List) > 0 {
			if as, ok := fd.Body.List[0].(*ast.AssignStmt); ok && len(as.Rhs) == 1 {
				if ta, ok := as.Rhs[0].(*ast.TypeAssertExpr); ok && ta.Type != nil {
					if id, ok := unparen(ta.X).(*ast.Ident); ok && info.ObjectOf(id) == newParam {
						if t := isIRStructPtr(c, info.TypeOf(ta.Type)); t != nil {
							fill[k] = append(fill[k], side{t, funcKey(fn), fd.Pos()})
						}
					}
				}
			}
			return
		}
		// scaffold: result type *ir.T, function name starts with "new"
		if newParam == nil && sig.Results().Len() >= 1 && strings.HasPrefix(fn.Name(), "new") {
			if t := isIRStructPtr(c, sig.Results().At(0).Type()); t != nil {
				scaffold[k] = append(scaffold[k], side{t, funcKey(fn), fd.Pos()})
			}
		}
	})
	// scaffold literals directly in a switch case: `case *ast.K: return &ir.T{...}, nil`
	for _, ts := range c.typeSwitches(pkgASM) {
		if !strings.HasPrefix(ts.fn.Name(), "new") {
			continue
		}
		for _, cc := range ts.sw.Body.List {
			cl := cc.(*ast.CaseClause)
			if len(cl.List) != 1 {
				continue
			}
			k := astNode(ts.p.TypesInfo.TypeOf(cl.List[0]))
			if k == nil {
				continue
			}
			for _, st := range cl.Body {
				ast.Inspect(st, func(n ast.Node) bool {
					ue, ok := n.(*ast.UnaryExpr)
					if !ok || ue.Op != token.AND {
						return true
					}
					if cl2, ok := ue.X.(*ast.CompositeLit); ok {
						if t := isIRStructPtr(c, ts.p.TypesInfo.TypeOf(ue)); t != nil {
							_ = cl2
							scaffold[k] = append(scaffold[k], side{t, funcKey(ts.fn) + " (literal)", ue.Pos()})
						}
					}
					return true
				})
			}
		}
	}
	var obs []Obligation
	var ks []*types.Named
	for k := range fill {
		if len(scaffold[k]) > 0 {
			ks = append(ks, k)
		}
	}
	sort.Slice(ks, func(i, j int) bool { return ks[i].Obj().Name() < ks[j].Obj().Name() })
	for _, k := range ks {
		for _, f := range fill[k] {
			o := Obligation{Key: fmt.Sprintf("%s scaffold/fill of %s", typeKey(k), f.fn), Pos: c.pos(f.pos), Verdict: OK, Tags: asmTags(f.fn, typeKey(k)+" "+typeKey(f.t))}
			match := false
			var got []string
			for _, s := range scaffold[k] {
				got = append(got, fmt.Sprintf("%s→*%s", s.fn, typeKey(s.t)))
				if s.t == f.t {
					match = true
				}
			}
			if match {
				o.Detail = fmt.Sprintf("*%s on both sides", typeKey(f.t))
			} else {
				o.Verdict = VIOL
				o.Detail = fmt.Sprintf("fill translator asserts *%s but the scaffold for %s creates %s: the assertion fails for every such node", typeKey(f.t), typeKey(k), strings.Join(got, ", "))
			}
			obs = append(obs, o)
		}
	}
	return obs
}

// ---------------------------------------------------------------------------

var accInfra = map[string]bool{
	"LlvmNode": true, "Text": true, "LineColumn": true, "Offset": true, "Endoffset": true, "IsValid": true,
	"Type": true, "Child": true, "Children": true, "Next": true, "NextAll": true, "SourceRange": true, "String": true,
	"Tree": true, "Parent": true, "Prev": true, "PrevAll": true, "Path": true,
}

// accExempt: frozen exemptions of ACC, keyed by "K.Accessor".
var accExempt = map[string]string{
	"AttrString.Val":    "the node's own text (a string literal) is used instead of the child token",
	"Label.Typ":         "a label operand's type is always `label`; nothing to read",
	"NullConst.NullLit": "the `null` token carries no information",
}

func ruleACC(c *Ctx) []Obligation {
	pa := c.pkg(pkgASM)
	info := pa.TypesInfo
	// AST node types mentioned in asm, and accessor calls with use classification
	mentioned := map[*types.Named]bool{}
	for _, tv := range info.Types {
		if n := astNode(tv.Type); n != nil {
			mentioned[n] = true
		}
	}
	type callInfo struct {
		used   bool
		pos    token.Pos
		unused token.Pos
	}
	called := map[string]*callInfo{}
	type ifaceCall struct {
		method string
		pos    token.Pos
	}
	ifaceCalls := map[*types.Named][]ifaceCall{}
	for _, f := range pa.Syntax {
		var stack []ast.Node
		ast.Inspect(f, func(n ast.Node) bool {
			if n == nil {
				stack = stack[:len(stack)-1]
				return true
			}
			stack = append(stack, n)
			// an accessor handed on as a method value (irCallSiteOperands(…, old.Callee, …)): the function
			// that receives it calls it — a read whose result is used
			if mv, isSel := n.(*ast.SelectorExpr); isSel && len(stack) >= 2 {
				if sel, ok := info.Selections[mv]; ok && sel.Kind() == types.MethodVal {
					if recv := astNode(sel.Recv()); recv != nil {
						if pc, isCall := stack[len(stack)-2].(*ast.CallExpr); isCall && unparen(pc.Fun) != ast.Expr(mv) {
							isArg := false
							for _, a := range pc.Args {
								if unparen(a) == ast.Expr(mv) {
									isArg = true
								}
							}
							if isArg {
								key := recv.Obj().Name() + "." + mv.Sel.Name
								if called[key] == nil {
									called[key] = &callInfo{pos: mv.Pos()}
								}
								called[key].used = true
							}
						}
					}
				}
			}
			call, ok := n.(*ast.CallExpr)
			if !ok {
				return true
			}
			se, ok := unparen(call.Fun).(*ast.SelectorExpr)
			if !ok {
				return true
			}
			sel, ok := info.Selections[se]
			if !ok || sel.Kind() != types.MethodVal {
				return true
			}
			recv := astNode(sel.Recv())
			if recv == nil {
				// an accessor called through an interface declared in package asm
				// (astBinaryInst{X(); Y()}): it counts for every node type converted to it
				if in := namedOf(sel.Recv()); in != nil && in.Obj().Pkg() != nil && in.Obj().Pkg().Path() == pkgASM && types.IsInterface(in) {
					ifaceCalls[in] = append(ifaceCalls[in], ifaceCall{se.Sel.Name, call.Pos()})
				}
				return true
			}
			key := recv.Obj().Name() + "." + se.Sel.Name
			ci := called[key]
			if ci == nil {
				ci = &callInfo{pos: call.Pos()}
				called[key] = ci
			}
			// is the result used?
			used := true
			if len(stack) >= 2 {
				switch par := stack[len(stack)-2].(type) {
				case *ast.ExprStmt:
					used = false
				case *ast.AssignStmt:
					allBlank := true
					for _, l := range par.Lhs {
						if id, ok := l.(*ast.Ident); !ok || id.Name != "_" {
							allBlank = false
						}
					}
					if allBlank {
						used = false
					}
				}
			}
			if used {
				ci.used = true
			} else {
				ci.unused = call.Pos()
			}
			return true
		})
	}
	// node types handed to such an interface (as an argument or in an assignment)
	if len(ifaceCalls) > 0 {
		convert := func(from types.Type, to types.Type) {
			in := namedOf(to)
			k := astNode(from)
			if in == nil || k == nil || len(ifaceCalls[in]) == 0 {
				return
			}
			for _, ic := range ifaceCalls[in] {
				key := k.Obj().Name() + "." + ic.method
				if called[key] == nil {
					called[key] = &callInfo{pos: ic.pos}
				}
				called[key].used = true
			}
		}
		for _, f := range pa.Syntax {
			ast.Inspect(f, func(n ast.Node) bool {
				switch n := n.(type) {
				case *ast.CallExpr:
					sig, ok := info.TypeOf(n.Fun).(*types.Signature)
					if !ok {
						return true
					}
					for i, a := range n.Args {
						pi := i
						if pi >= sig.Params().Len() {
							pi = sig.Params().Len() - 1
						}
						if pi >= 0 {
							convert(info.TypeOf(a), sig.Params().At(pi).Type())
						}
					}
				case *ast.AssignStmt:
					if len(n.Lhs) == len(n.Rhs) {
						for i := range n.Lhs {
							if lt, rt := info.TypeOf(n.Lhs[i]), info.TypeOf(n.Rhs[i]); lt != nil && rt != nil {
								convert(rt, lt)
							}
						}
					}
				case *ast.ValueSpec:
					if n.Type != nil {
						for _, v := range n.Values {
							convert(info.TypeOf(v), info.TypeOf(n.Type))
						}
					}
				}
				return true
			})
		}
	}
	var obs []Obligation
	var nodes []*types.Named
	for n := range mentioned {
		nodes = append(nodes, n)
	}
	sort.Slice(nodes, func(i, j int) bool { return nodes[i].Obj().Name() < nodes[j].Obj().Name() })
	for _, k := range nodes {
		for i := 0; i < k.NumMethods(); i++ {
			m := k.Method(i)
			if !m.Exported() || accInfra[m.Name()] {
				continue
			}
			sig := m.Type().(*types.Signature)
			if sig.Params().Len() != 0 || sig.Results().Len() == 0 {
				continue
			}
			key := k.Obj().Name() + "." + m.Name()
			tags := asmTags("", "ast."+k.Obj().Name())
			if c.mdASTNodes()[k] && len(tags) == 0 {
				tags = append(tags, "md")
			}
			// accessors that carry a written type (Typ(), ElemType(), ContentType(), RetType() …)
			if rt := typeKey(sig.Results().At(0).Type()); rt == "ast.Type" || strings.HasSuffix(rt, "Type") && strings.HasPrefix(rt, "ast.") || strings.HasPrefix(rt, "*ast.") && strings.HasSuffix(rt, "Type") {
				tags = append(append([]string{}, tags...), "typeacc")
			}
			o := Obligation{Key: "ast." + key, Pos: c.pos(m.Pos()), Tags: tags}
			ci := called[key]
			switch {
			case ci != nil && ci.used:
				o.Verdict, o.Detail, o.Pos = OK, "called and used", c.pos(ci.pos)
			case accExempt[key] != "":
				o.Verdict, o.Detail = EXEMPT, accExempt[key]
			case ci != nil:
				o.Verdict, o.Pos = VIOL, c.pos(ci.unused)
				o.Detail = "accessor is called but its result is discarded: the syntax it carries is dropped"
			default:
				o.Verdict = VIOL
				o.Detail = fmt.Sprintf("package asm handles ast.%s but never calls %s(): whatever the input says there (%s) is dropped", k.Obj().Name(), m.Name(), typeKey(sig.Results().At(0).Type()))
			}
			obs = append(obs, o)
		}
	}
	return obs
}

// mdASTNodes: AST node types that belong to the metadata part of the grammar:
// members of a sum type whose name marks it as metadata (DI*Field, MDField,
// Metadata, MetadataNode, SpecializedMDNode, ...).
func (c *Ctx) mdASTNodes() map[*types.Named]bool {
	if v, ok := c.memo["mdASTNodes"]; ok {
		return v.(map[*types.Named]bool)
	}
	out := map[*types.Named]bool{}
	for in, members := range c.sealed().ifaces {
		name := in.Obj().Name()
		if strings.HasPrefix(name, "DI") || strings.HasPrefix(name, "MD") || strings.HasPrefix(name, "Metadata") || name == "SpecializedMDNode" || name == "GenericDINodeField" {
			for _, m := range members {
				out[m] = true
			}
		}
	}
	c.memo["mdASTNodes"] = out
	return out
}

package main

import "strings"

// Property → rule mapping (DESIGN.md §3). A rule is attached to a property
// only when it is a necessary condition of it; Filter restricts the instances
// reported under the property to those anchored in the property's code.

type RuleUse struct {
	Rule         string
	Filter       func(Obligation) bool
	Floor        int // floor on the filtered instance count (0: rule floor when unfiltered)
	ThoroughOnly bool
}

type Property struct {
	ID          string
	Title       string
	Decided     string
	NotDecided  string
	Technique   string
	Assumptions []string
	Rules       []RuleUse
}

func tag(t string) func(Obligation) bool {
	return func(o Obligation) bool { return o.hasTag(t) }
}

func notTag(t string) func(Obligation) bool {
	return func(o Obligation) bool { return !o.hasTag(t) }
}

// keyPrefix selects obligations whose construct key starts with one of the prefixes.
func keyPrefix(ps ...string) func(Obligation) bool {
	return func(o Obligation) bool {
		for _, p := range ps {
			if strings.HasPrefix(o.Key, p) {
				return true
			}
		}
		return false
	}
}

// keyHas selects obligations whose construct key contains the substring.
func keyHas(sub string) func(Obligation) bool {
	return func(o Obligation) bool { return strings.Contains(o.Key, sub) }
}

func anyTag(ts ...string) func(Obligation) bool {
	return func(o Obligation) bool {
		for _, t := range ts {
			if o.hasTag(t) {
				return true
			}
		}
		return false
	}
}

var commonAssumptions = []string{
	"the Go type checker and go/constant evaluate the source as the compiler does",
	"only non-test files of asm, ir/..., internal/... and their dependency closure (llir/ll, mewmew/float) are analysed, under the default build configuration",
	"rules decide structural necessary conditions; the behavioural clauses listed under clauses_not_decided are not established",
}

var properties []*Property

func addProperty(p *Property) {
	p.Assumptions = append(append([]string{}, commonAssumptions...), p.Assumptions...)
	properties = append(properties, p)
}

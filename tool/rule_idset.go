package main

import (
	"go/ast"
	"go/types"

	"golang.org/x/tools/go/packages"
)

// ID-setting calls. The numbering rules (RACE-2, NUM-REDERIVE, NUM-AUTH, NUM-SHAPE's
// action) are stated about "the call that stores an ID". That is x.SetID(v), or a call of a
// wrapper: a function or method of the module that hands two of its own parameters (or its
// receiver and a parameter) on to an ID-setting call, or stores the parameter into the ID
// field directly. Wrappers are summarised as (object index, id index) with -1 for the receiver
// and looked through, so `setAutoID(n, id)` reads like `n.SetID(id)` at the wrapper's call site.

type idSetSummary struct {
	obj, id int // parameter indices; obj == -1: the receiver
}

// idFieldOf: the field a SetID method stores its parameter into.
func (c *Ctx) idFieldOf(setID *types.Func) string {
	fd := c.funcDecl(setID)
	if fd == nil || fd.Body == nil {
		return ""
	}
	info := c.declPkg[fd].TypesInfo
	sig := setID.Type().(*types.Signature)
	field := ""
	ast.Inspect(fd.Body, func(n ast.Node) bool {
		as, ok := n.(*ast.AssignStmt)
		if !ok || len(as.Lhs) != 1 || len(as.Rhs) != 1 {
			return true
		}
		se, ok := unparen(as.Lhs[0]).(*ast.SelectorExpr)
		if !ok {
			return true
		}
		rhs := unparen(as.Rhs[0])
		if call, ok := rhs.(*ast.CallExpr); ok && len(call.Args) == 1 { // conversion T(id)
			if tv, ok := info.Types[call.Fun]; ok && tv.IsType() {
				rhs = unparen(call.Args[0])
			}
		}
		if id, ok := rhs.(*ast.Ident); ok && sig.Params().Len() == 1 && info.ObjectOf(id) == sig.Params().At(0) {
			field = se.Sel.Name
		}
		return true
	})
	return field
}

// idFields: the names of the fields SetID methods of the ir packages store into.
func (c *Ctx) idFields() map[*types.Var]bool {
	if v, ok := c.memo["idFields"]; ok {
		return v.(map[*types.Var]bool)
	}
	out := map[*types.Var]bool{}
	for _, path := range []string{pkgIR, pkgMD} {
		c.eachFunc(path, func(p *packages.Package, fd *ast.FuncDecl, fn *types.Func) {
			if fn.Name() != "SetID" || fn.Type().(*types.Signature).Recv() == nil {
				return
			}
			name := c.idFieldOf(fn)
			if name == "" {
				return
			}
			if n := namedOf(fn.Type().(*types.Signature).Recv().Type()); n != nil {
				if st, ok := n.Underlying().(*types.Struct); ok {
					for i := 0; i < st.NumFields(); i++ {
						if st.Field(i).Name() == name {
							out[st.Field(i)] = true
						}
					}
				}
			}
		})
	}
	c.memo["idFields"] = out
	return out
}

func (c *Ctx) idSetSummaries() map[*types.Func]*idSetSummary {
	if v, ok := c.memo["idSetSummaries"]; ok {
		return v.(map[*types.Func]*idSetSummary)
	}
	sums := map[*types.Func]*idSetSummary{}
	c.memo["idSetSummaries"] = sums
	idFields := c.idFields()
	// iterate to a fixed point (wrappers of wrappers); three rounds are plenty
	for round := 0; round < 3; round++ {
		for _, path := range []string{pkgIR, pkgMD, pkgASM} {
			c.eachFunc(path, func(p *packages.Package, fd *ast.FuncDecl, fn *types.Func) {
				if fn.Name() == "SetID" || sums[fn] != nil {
					return
				}
				info := p.TypesInfo
				sig := fn.Type().(*types.Signature)
				defs := collectDefs(info, fd.Body)
				// index of the parameter (or -1 for the receiver) an expression denotes, following
				// local rebinding (n, ok := n.(T)) and address-of / dereference
				var paramOf func(e ast.Expr, depth int) (int, bool)
				paramOf = func(e ast.Expr, depth int) (int, bool) {
					e = unparen(e)
					switch x := e.(type) {
					case *ast.UnaryExpr:
						return paramOf(x.X, depth)
					case *ast.StarExpr:
						return paramOf(x.X, depth)
					case *ast.TypeAssertExpr:
						return paramOf(x.X, depth)
					case *ast.CallExpr: // conversion
						if tv, ok := info.Types[x.Fun]; ok && tv.IsType() && len(x.Args) == 1 {
							return paramOf(x.Args[0], depth)
						}
					case *ast.Ident:
						obj := info.ObjectOf(x)
						if obj == nil {
							return 0, false
						}
						if sig.Recv() != nil && obj == sig.Recv() {
							return -1, true
						}
						for i := 0; i < sig.Params().Len(); i++ {
							if obj == sig.Params().At(i) {
								return i, true
							}
						}
						if depth < 3 {
							ds := defs[obj]
							if len(ds) == 1 {
								return paramOf(ds[0], depth+1)
							}
						}
					}
					return 0, false
				}
				var found *idSetSummary
				ast.Inspect(fd.Body, func(n ast.Node) bool {
					switch n := n.(type) {
					case *ast.FuncLit:
						return false
					case *ast.AssignStmt:
						// recv.LocalID = id
						if len(n.Lhs) == 1 && len(n.Rhs) == 1 {
							if se, ok := unparen(n.Lhs[0]).(*ast.SelectorExpr); ok {
								if fv, ok := info.ObjectOf(se.Sel).(*types.Var); ok && idFields[fv] {
									oi, ok1 := paramOf(se.X, 0)
									ii, ok2 := paramOf(n.Rhs[0], 0)
									if ok1 && ok2 && oi != ii {
										found = &idSetSummary{oi, ii}
									}
								}
							}
						}
					case *ast.CallExpr:
						if objE, idE, ok := c.idSetCall(info, n); ok {
							oi, ok1 := paramOf(objE, 0)
							ii, ok2 := paramOf(idE, 0)
							if ok1 && ok2 && oi != ii {
								found = &idSetSummary{oi, ii}
							}
						}
					}
					return true
				})
				if found != nil {
					sums[fn] = found
				}
			})
		}
	}
	return sums
}

// idSetCall reports whether call stores an ID, and if so on which object and which value.
func (c *Ctx) idSetCall(info *types.Info, call *ast.CallExpr) (obj, id ast.Expr, ok bool) {
	se, isSel := unparen(call.Fun).(*ast.SelectorExpr)
	if isSel && se.Sel.Name == "SetID" && len(call.Args) == 1 {
		if _, isMethod := info.Selections[se]; isMethod {
			return se.X, call.Args[0], true
		}
	}
	callee := calleeOf(info, call)
	if callee == nil || callee.Pkg() == nil || !c.isOurs(callee.Pkg().Path()) {
		return nil, nil, false
	}
	sums, _ := c.memo["idSetSummaries"].(map[*types.Func]*idSetSummary)
	if sums == nil {
		sums = c.idSetSummaries()
	}
	s := sums[callee]
	if s == nil {
		// an interface method: every implementation declared in the module must agree
		if sig := callee.Type().(*types.Signature); sig.Recv() != nil && types.IsInterface(sig.Recv().Type()) {
			var agreed *idSetSummary
			n := 0
			for f, fs := range sums {
				fsig := f.Type().(*types.Signature)
				if f.Name() != callee.Name() || fsig.Recv() == nil || f.Pkg() != callee.Pkg() {
					continue
				}
				n++
				if agreed == nil {
					agreed = fs
				} else if *agreed != *fs {
					return nil, nil, false
				}
			}
			// … and no implementation of that name lacks a summary
			if n > 0 && c.countMethodsNamed(callee.Pkg().Path(), callee.Name()) == n {
				s = agreed
			}
		}
	}
	if s == nil || s.id >= len(call.Args) || s.obj >= len(call.Args) {
		return nil, nil, false
	}
	if s.obj == -1 {
		if !isSel {
			return nil, nil, false
		}
		return se.X, call.Args[s.id], true
	}
	return call.Args[s.obj], call.Args[s.id], true
}

func (c *Ctx) countMethodsNamed(path, name string) int {
	n := 0
	c.eachFunc(path, func(_ *packages.Package, fd *ast.FuncDecl, fn *types.Func) {
		if fn.Name() == name && fn.Type().(*types.Signature).Recv() != nil {
			n++
		}
	})
	return n
}

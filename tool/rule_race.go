package main

import (
	"fmt"
	"go/ast"
	"go/constant"
	"go/token"
	"go/types"
	"golang.org/x/tools/go/ssa"
	"regexp"
	"strings"

	"golang.org/x/tools/go/packages"
)

// RACE-2, RACE-3 (C13) and OBS-4, OBS-5 (C14): lock/guard discipline of the
// numbering routines, prefilled type caches, observer self-dependence.

func init() {
	register(&Rule{
		Name:  "RACE-2",
		Doc:   "every call that stores an ID (x.SetID(v)) in a numbering routine of package ir runs with the owner's mutex held (Lock at entry, deferred Unlock) and is guarded by a change test — the store happens only when the current ID differs from v, or only while the ID is still unassigned — so a second printer of an already numbered object performs no write that races with lock-free readers of the ID",
		Floor: 3,
		Run:   ruleRACE2,
	})
	register(&Rule{
		Name:  "RACE-3",
		Doc:   "for every type whose Type() fills a result-type cache lazily, every allocation site of the type in non-test code of llir/llvm sets the cache in the literal or computes it (Type() call / Typ assignment) in the same function, so the lazy write is dead for parsed and constructor-built values",
		Floor: 80,
		Run:   ruleRACE3,
	})
	register(&Rule{
		Name:  "OBS-4",
		Doc:   "no branch of a numbering routine whose condition depends on a previously assigned ID (a field that observing itself writes) leads to an error return or panic: otherwise printing once makes a later, legitimate edit-and-print fail",
		Floor: 3,
		Run:   ruleOBS4,
	})
	register(&Rule{
		Name:  "OBS-5",
		Doc:   "every SetName of an identifier type that carries an ID clears that ID, so renaming a value cannot leave a stale number behind",
		Floor: 2,
		Run:   ruleOBS5,
	})
}

// numberingRoutines: functions of package ir containing a call of a method named SetID.
type setIDCall struct {
	fd   *ast.FuncDecl
	fn   *types.Func
	call *ast.CallExpr
	recv ast.Expr // x in x.SetID(v)
	arg  ast.Expr
	// the ID-setting calls inside the wrapper(s) this call goes through (setAutoID(n, id) → n.SetID(id))
	inner []setIDCall
}

func (c *Ctx) setIDCalls() []setIDCall {
	if v, ok := c.memo["setIDCalls"]; ok {
		return v.([]setIDCall)
	}
	sums := c.idSetSummaries()
	// every ID-setting call of package ir, by enclosing function
	var all []setIDCall
	c.eachFunc(pkgIR, func(p *packages.Package, fd *ast.FuncDecl, fn *types.Func) {
		if fn.Name() == "SetID" {
			return
		}
		ast.Inspect(fd.Body, func(n ast.Node) bool {
			call, ok := n.(*ast.CallExpr)
			if !ok {
				return true
			}
			if obj, id, ok := c.idSetCall(p.TypesInfo, call); ok {
				all = append(all, setIDCall{fd: fd, fn: fn, call: call, recv: obj, arg: id})
			}
			return true
		})
	})
	// a call inside a wrapper (a function that passes its own parameters on) is represented by
	// the wrapper's call sites; the inner levels are kept for the guard test
	// the numbering discipline concerns what printing can reach; an editing helper that clears or
	// renumbers IDs when the caller edits a block is not a printer (nothing prints concurrently
	// with an edit)
	reach := map[*ssa.Function]bool{}
	{
		order, _ := c.effects().reach(c.methodRoots(irPkgs, printRootNames))
		for _, f := range order {
			reach[f] = true
		}
	}
	var out []setIDCall
	for _, sc := range all {
		if sums[sc.fn] != nil {
			continue
		}
		if sf := c.ssaFunc(sc.fn); sf != nil && !reach[sf] {
			continue
		}
		// collect the inner levels: the wrapper bodies this call leads to
		cur := sc
		for depth := 0; depth < 3; depth++ {
			callee := calleeOf(c.pkg(pkgIR).TypesInfo, cur.call)
			if callee == nil || sums[callee] == nil {
				break
			}
			var next *setIDCall
			for i := range all {
				if all[i].fn == callee {
					next = &all[i]
				}
			}
			if next == nil {
				break
			}
			sc.inner = append(sc.inner, *next)
			cur = *next
		}
		out = append(out, sc)
	}
	c.memo["setIDCalls"] = out
	return out
}

// holdsReceiverMutex: the function starts with recv.mu.Lock() followed by defer recv.mu.Unlock().
// calledOnlyUnderMutex: fn has at least one call site in package ir, and every call site
// lies in a function that holds its receiver's mutex (Lock / defer Unlock prologue) or is
// itself only called under a held mutex.
func (c *Ctx) calledOnlyUnderMutex(fn *types.Func, visiting map[*types.Func]bool, depth int) (bool, string) {
	if fn == nil || visiting[fn] || depth > 3 {
		return false, ""
	}
	visiting[fn] = true
	defer delete(visiting, fn)
	sites, held := 0, 0
	via := ""
	c.eachFunc(pkgIR, func(p *packages.Package, fd *ast.FuncDecl, caller *types.Func) {
		calls := false
		ast.Inspect(fd.Body, func(n ast.Node) bool {
			if call, ok := n.(*ast.CallExpr); ok && calleeOf(p.TypesInfo, call) == fn {
				calls = true
			}
			return true
		})
		if !calls || caller == fn {
			return
		}
		sites++
		if ok, mu := holdsReceiverMutex(p.TypesInfo, fd); ok {
			held++
			via = mu + " held by " + funcKey(caller)
		} else if ok, v := c.calledOnlyUnderMutex(caller, visiting, depth+1); ok {
			held++
			via = v
		}
	})
	return sites > 0 && sites == held, via
}

func holdsReceiverMutex(info *types.Info, fd *ast.FuncDecl) (bool, string) {
	if fd.Recv == nil || len(fd.Recv.List) != 1 || len(fd.Recv.List[0].Names) != 1 || len(fd.Body.List) < 2 {
		return false, "not a method with a Lock/defer Unlock prologue"
	}
	recv := info.Defs[fd.Recv.List[0].Names[0]]
	isMuCall := func(e ast.Expr, name string) (string, bool) {
		call, ok := e.(*ast.CallExpr)
		if !ok {
			return "", false
		}
		se, ok := call.Fun.(*ast.SelectorExpr)
		if !ok || se.Sel.Name != name {
			return "", false
		}
		fe, ok := unparen(se.X).(*ast.SelectorExpr)
		if !ok {
			return "", false
		}
		id, ok := unparen(fe.X).(*ast.Ident)
		if !ok || info.ObjectOf(id) != recv {
			return "", false
		}
		t := info.TypeOf(fe)
		if !isNamed(t, "sync", "Mutex") && !isNamed(t, "sync", "RWMutex") {
			return "", false
		}
		return exprString(fe), true
	}
	es, ok := fd.Body.List[0].(*ast.ExprStmt)
	if !ok {
		return false, "first statement is not recv.mu.Lock()"
	}
	mu, ok := isMuCall(es.X, "Lock")
	if !ok {
		return false, "first statement is not recv.mu.Lock()"
	}
	ds, ok := fd.Body.List[1].(*ast.DeferStmt)
	if !ok {
		return false, "Lock is not followed by a deferred Unlock"
	}
	mu2, ok := isMuCall(ds.Call, "Unlock")
	if !ok || mu2 != mu {
		return false, "Lock is not followed by a deferred Unlock of the same mutex"
	}
	return true, mu
}

// idStoreGuarded: the ID-setting call is guarded by a change test — an ancestor `if` comparing
// the current ID with the stored value, or the unassigned-sentinel idiom.
func idStoreGuarded(info *types.Info, sc setIDCall) (bool, string) {
	// guard: ancestor `if` comparing the current ID with the stored value, or the unassigned-sentinel idiom
	pm := buildParents(sc.fd.Body)
	guarded, how := false, ""
	recvS, argS := exprString(sc.recv), exprString(sc.arg)
	// locals that hold the current ID (cur := n.ID()) read like the call itself
	curLocals := map[string]bool{}
	ast.Inspect(sc.fd.Body, func(n ast.Node) bool {
		if as, ok := n.(*ast.AssignStmt); ok && as.Pos() < sc.call.Pos() && len(as.Lhs) == 1 && len(as.Rhs) == 1 {
			if strings.ReplaceAll(exprString(as.Rhs[0]), " ", "") == recvS+".ID()" {
				if id, ok := as.Lhs[0].(*ast.Ident); ok {
					curLocals[id.Name] = true
				}
			}
		}
		return true
	})
	var node ast.Node = sc.call
	for node != nil && !guarded {
		par := pm[node]
		if is, ok := par.(*ast.IfStmt); ok && is.Body == node {
			cond := strings.ReplaceAll(exprString(is.Cond), " ", "")
			for l := range curLocals {
				cond = regexp.MustCompile(`\b`+regexp.QuoteMeta(l)+`\b`).ReplaceAllString(cond, recvS+".ID()")
			}
			for _, pat := range []string{recvS + ".ID()!=" + argS, argS + "!=" + recvS + ".ID()"} {
				if strings.Contains(cond, strings.ReplaceAll(pat, " ", "")) {
					guarded, how = true, "if "+exprString(is.Cond)
				}
			}
		}
		// unassigned-sentinel idiom in the enclosing block: `id := x.ID(); if id != -1 { continue }` before the call
		if blk, ok := par.(*ast.BlockStmt); ok {
			var idVar string
			for _, st := range blk.List {
				if st.Pos() >= sc.call.Pos() {
					break
				}
				if as, ok := st.(*ast.AssignStmt); ok && len(as.Lhs) == 1 && len(as.Rhs) == 1 && strings.ReplaceAll(exprString(as.Rhs[0]), " ", "") == recvS+".ID()" {
					idVar = exprString(as.Lhs[0])
				}
				if is, ok := st.(*ast.IfStmt); ok && is.Else == nil && len(is.Body.List) >= 1 {
					cond := strings.ReplaceAll(exprString(is.Cond), " ", "")
					// `id != -1` on a local holding recv.ID(), or `recv.ID() != -1` itself; the
					// sentinel may be a named constant
					sentinel := false
					if be, ok := unparen(is.Cond).(*ast.BinaryExpr); ok && be.Op == token.NEQ {
						if tv := info.Types[be.Y]; tv.Value != nil && tv.Value.String() == "-1" {
							lhs := strings.ReplaceAll(exprString(be.X), " ", "")
							if (idVar != "" && lhs == idVar) || lhs == recvS+".ID()" {
								sentinel = true
								if idVar == "" {
									idVar = recvS + ".ID()"
								}
							}
						}
					}
					if sentinel || (idVar != "" && cond == idVar+"!=-1") {
						// the branch for an already assigned ID ends the iteration (whatever else it does first)
						switch b := is.Body.List[len(is.Body.List)-1].(type) {
						case *ast.BranchStmt:
							if b.Tok == token.CONTINUE {
								guarded, how = true, fmt.Sprintf("skipped unless %s == -1 (still unassigned)", idVar)
							}
						case *ast.ReturnStmt:
							guarded, how = true, fmt.Sprintf("returns unless %s == -1 (still unassigned)", idVar)
						}
					}
				}
			}
		}
		node = par
	}
	return guarded, how
}

func ruleRACE2(c *Ctx) []Obligation {
	var obs []Obligation
	info := c.pkg(pkgIR).TypesInfo
	ord := map[string]int{}
	for _, sc := range c.setIDCalls() {
		key := fmt.Sprintf("%s: %s.SetID", funcKey(sc.fn), exprString(sc.recv))
		ord[key]++
		if ord[key] > 1 {
			key += fmt.Sprintf("#%d", ord[key])
		}
		o := Obligation{Key: key, Pos: c.pos(sc.call.Pos()), Verdict: OK}
		locked, mu := holdsReceiverMutex(info, sc.fd)
		if !locked {
			// a helper (method object, extracted step) that is only ever called with the owner's
			// mutex held: every call of it in the package sits in a function that holds its
			// receiver's mutex (directly, or itself only called that way)
			if ok, via := c.calledOnlyUnderMutex(sc.fn, map[*types.Func]bool{}, 0); ok {
				locked, mu = true, via
			}
		}
		if !locked {
			o.Verdict = VIOL
			o.Detail = fmt.Sprintf("the ID is stored without the owner's mutex held (%s): two printers can number the same object concurrently", mu)
			obs = append(obs, o)
			continue
		}
		guarded, how := idStoreGuarded(info, sc)
		for _, in := range sc.inner {
			if guarded {
				break
			}
			guarded, how = idStoreGuarded(info, in)
		}
		recvS, argS := exprString(sc.recv), exprString(sc.arg)
		if guarded {
			o.Detail = fmt.Sprintf("under %s; %s", mu, how)
		} else {
			o.Verdict = VIOL
			o.Detail = fmt.Sprintf("%s.SetID(%s) rewrites the ID even when it is unchanged: every further printer of an already numbered object stores to the ID field while other printers read it without the lock (data race)", recvS, argS)
		}
		obs = append(obs, o)
	}
	return obs
}

// ---------------------------------------------------------------------------

func ruleRACE3(c *Ctx) []Obligation {
	var obs []Obligation
	lazy := map[*types.Named]bool{}
	for _, path := range []string{pkgIR, pkgCONS} {
		scope := c.pkg(path).Types.Scope()
		for _, name := range scope.Names() {
			if tn, ok := scope.Lookup(name).(*types.TypeName); ok {
				if n, ok := tn.Type().(*types.Named); ok {
					if _, isStruct := n.Underlying().(*types.Struct); isStruct && c.lazilyComputed(n, "Typ") {
						lazy[n] = true
					}
				}
			}
		}
	}
	for _, p := range c.llvmPkgs() {
		info := p.TypesInfo
		for _, file := range p.Syntax {
			for _, d := range file.Decls {
				fd, ok := d.(*ast.FuncDecl)
				if !ok || fd.Body == nil {
					continue
				}
				fn, _ := info.Defs[fd.Name].(*types.Func)
				if fn == nil {
					continue
				}
				ord := map[string]int{}
				ast.Inspect(fd.Body, func(nd ast.Node) bool {
					cl, ok := nd.(*ast.CompositeLit)
					if !ok {
						return true
					}
					n := namedOf(info.TypeOf(cl))
					if n == nil || !lazy[n] {
						return true
					}
					key := fmt.Sprintf("%s allocates %s", funcKey(fn), typeKey(n))
					ord[key]++
					if ord[key] > 1 {
						key += fmt.Sprintf("#%d", ord[key])
					}
					o := Obligation{Key: key, Pos: c.pos(cl.Pos()), Verdict: OK, Tags: irTags(n)}
					inLit := false
					for _, el := range cl.Elts {
						if kv, ok := el.(*ast.KeyValueExpr); ok {
							if id, ok := kv.Key.(*ast.Ident); ok && id.Name == "Typ" {
								inLit = true
							}
						}
					}
					computed := false
					ast.Inspect(fd.Body, func(m ast.Node) bool {
						switch m := m.(type) {
						case *ast.CallExpr:
							if se, ok := unparen(m.Fun).(*ast.SelectorExpr); ok && se.Sel.Name == "Type" && len(m.Args) == 0 {
								if namedOf(info.TypeOf(se.X)) == n {
									computed = true
								}
							}
						case *ast.AssignStmt:
							for _, l := range m.Lhs {
								if se, ok := unparen(l).(*ast.SelectorExpr); ok && se.Sel.Name == "Typ" && namedOf(info.TypeOf(se.X)) == n {
									computed = true
								}
							}
						}
						return true
					})
					switch {
					case inLit:
						o.Detail = "Typ set in the literal"
					case computed:
						o.Detail = "Type() called / Typ assigned in the allocating function"
					default:
						o.Verdict = VIOL
						o.Detail = fmt.Sprintf("%s is allocated without its result-type cache: the first Type()/String() call — possibly from concurrent printers — writes %s.Typ", typeKey(n), typeKey(n))
					}
					obs = append(obs, o)
					return true
				})
			}
		}
	}
	return obs
}

// ---------------------------------------------------------------------------

// dependsOnID reports whether e (through local definitions) reads an assigned ID.
func dependsOnID(info *types.Info, defs map[types.Object][]ast.Expr, e ast.Expr) bool {
	found := false
	seen := map[types.Object]bool{}
	var walk func(e ast.Expr)
	walk = func(e ast.Expr) {
		ast.Inspect(e, func(n ast.Node) bool {
			if found {
				return false
			}
			switch n := n.(type) {
			case *ast.CallExpr:
				if se, ok := unparen(n.Fun).(*ast.SelectorExpr); ok && se.Sel.Name == "ID" && len(n.Args) == 0 {
					if _, ok := info.Selections[se]; ok {
						found = true
					}
				}
			case *ast.SelectorExpr:
				switch n.Sel.Name {
				case "LocalID", "GlobalID", "MetadataID":
					if sel, ok := info.Selections[n]; ok && sel.Kind() == types.FieldVal {
						found = true
					}
				}
			case *ast.Ident:
				obj := info.Uses[n]
				if obj != nil && !seen[obj] {
					seen[obj] = true
					for _, d := range defs[obj] {
						if _, isFn := d.(*ast.FuncLit); isFn {
							continue // a call's result, not the body of the called closure
						}
						walk(d)
					}
				}
			case *ast.FuncLit:
				return false
			}
			return true
		})
	}
	walk(e)
	return found
}

// insideFuncLit: n lies inside a function literal of root.
func insideFuncLit(root ast.Node, n ast.Node) bool {
	in := false
	ast.Inspect(root, func(m ast.Node) bool {
		if fl, ok := m.(*ast.FuncLit); ok && fl.Pos() <= n.Pos() && n.End() <= fl.End() {
			in = true
		}
		return !in
	})
	return in
}

// callReadsID: e calls a function or method of the package whose body reads an assigned ID
// (f.hasIDs() → n.ID() != 0), directly or one level down.
func (c *Ctx) callReadsID(info *types.Info, e ast.Expr) bool {
	found := false
	var look func(n ast.Node, depth int)
	look = func(n ast.Node, depth int) {
		ast.Inspect(n, func(m ast.Node) bool {
			call, ok := m.(*ast.CallExpr)
			if !ok || found {
				return !found
			}
			f := calleeOf(info, call)
			if f == nil || f.Pkg() == nil || !c.isLLVM(f.Pkg().Path()) {
				return true
			}
			// x.ID() of a value of package ir or of a metadata definition (ir/metadata)
			if f.Name() == "ID" && len(call.Args) == 0 {
				found = true
				return false
			}
			if f.Pkg().Path() != pkgIR {
				return true
			}
			if fd := c.funcDecl(f); fd != nil && fd.Body != nil && depth < 2 {
				look(fd.Body, depth+1)
			}
			return true
		})
	}
	look(e, 0)
	return found
}

// neverForAssignedIDs: cond compares an ID (x.ID(), or a local defined as such) with a constant
// and is false for every ID ≥ 0.
func neverForAssignedIDs(info *types.Info, defs map[types.Object][]ast.Expr, cond ast.Expr) bool {
	be, ok := unparen(cond).(*ast.BinaryExpr)
	if !ok {
		return false
	}
	isID := func(e ast.Expr) bool {
		e = unparen(e)
		if call, ok := e.(*ast.CallExpr); ok && len(call.Args) == 0 {
			if se, ok := unparen(call.Fun).(*ast.SelectorExpr); ok && se.Sel.Name == "ID" {
				return true
			}
		}
		if id, ok := e.(*ast.Ident); ok {
			ds := defs[info.ObjectOf(id)]
			if len(ds) == 0 {
				return false
			}
			for _, d := range ds {
				call, ok := unparen(d).(*ast.CallExpr)
				if !ok || len(call.Args) != 0 {
					return false
				}
				se, ok := unparen(call.Fun).(*ast.SelectorExpr)
				if !ok || se.Sel.Name != "ID" {
					return false
				}
			}
			return true
		}
		return false
	}
	var k constant.Value
	op := be.Op
	switch {
	case isID(be.X) && info.Types[be.Y].Value != nil:
		k = info.Types[be.Y].Value
	case isID(be.Y) && info.Types[be.X].Value != nil:
		k = info.Types[be.X].Value
		// mirror the operator: k op id  ≡  id op' k
		switch op {
		case token.LSS:
			op = token.GTR
		case token.LEQ:
			op = token.GEQ
		case token.GTR:
			op = token.LSS
		case token.GEQ:
			op = token.LEQ
		}
	default:
		return false
	}
	if k.Kind() != constant.Int {
		return false
	}
	switch op {
	case token.LSS, token.LEQ, token.EQL:
		// false for all id ≥ 0 iff false at id = 0 (LSS / LEQ are monotone; EQL with a negative constant)
		if op == token.EQL {
			return constant.Sign(k) < 0
		}
		return !constant.Compare(constant.MakeInt64(0), op, k)
	}
	return false
}

func ruleOBS4(c *Ctx) []Obligation {
	var obs []Obligation
	info := c.pkg(pkgIR).TypesInfo
	done := map[*ast.FuncDecl]bool{}
	perSpace := map[string]int{}
	for _, sc := range c.setIDCalls() {
		if done[sc.fd] {
			continue
		}
		done[sc.fd] = true
		defs := collectDefs(info, sc.fd.Body)
		n := 0
		// keyed by the ID space, not by the function the routine happens to live in, so that a
		// recorded finding follows the code when the routine is moved into a helper or method object
		space := c.idSpaceOfStore(info, sc.fn, sc.recv)
		ast.Inspect(sc.fd.Body, func(nd ast.Node) bool {
			is, ok := nd.(*ast.IfStmt)
			if !ok {
				return true
			}
			fails := returnsError(info, is.Body.List) || endsInPanic(is.Body.List)
			// an early success exit that depends on assigned IDs skips the numbering for some
			// histories (a value edited in after a print keeps no or a stale ID)
			skips := false
			if !fails && len(is.Body.List) == 1 && !insideFuncLit(sc.fd.Body, is) {
				// a return of the numbering routine itself (not of a generator closure inside it,
				// whose `return id` hands out a value)
				if r, ok := is.Body.List[0].(*ast.ReturnStmt); ok && !returnsError(info, []ast.Stmt{r}) {
					skips = true
				}
			}
			if skips {
				dep := dependsOnID(info, defs, is.Cond) || c.callReadsID(info, is.Cond)
				if dep && !neverForAssignedIDs(info, defs, is.Cond) {
					n++
					for _, space := range strings.Split(space, "+") {
						perSpace[space+" skip"]++
						obs = append(obs, Obligation{Key: fmt.Sprintf("numbering of %s IDs: early exit #%d on assigned IDs", space, perSpace[space+" skip"]), Pos: c.pos(is.Pos()), Verdict: VIOL,
							Detail: fmt.Sprintf("`if %s { return }` leaves the numbering routine depending on IDs that an earlier print assigned: a function edited after a print (an instruction replaced, a value unnamed) is not renumbered, so the next print shows stale or duplicate %%N although the same edits before the first print give a correct module", exprString(is.Cond))})
					}
				}
				return true
			}
			if !fails {
				return true
			}
			dep := dependsOnID(info, defs, is.Cond)
			if !dep && is.Init != nil {
				if as, ok := is.Init.(*ast.AssignStmt); ok {
					for _, r := range as.Rhs {
						dep = dep || dependsOnID(info, defs, r)
					}
				}
			}
			if !dep {
				return true
			}
			// a test that no assigned ID can satisfy (`id < -1`: numbering hands out IDs ≥ 0) does
			// not depend on what an earlier print assigned
			if neverForAssignedIDs(info, defs, is.Cond) {
				return true
			}
			n++
			for _, space := range strings.Split(space, "+") {
				perSpace[space]++
				obs = append(obs, Obligation{Key: fmt.Sprintf("numbering of %s IDs: failing branch #%d on assigned IDs", space, perSpace[space]), Pos: c.pos(is.Pos()), Verdict: VIOL,
					Detail: fmt.Sprintf("`if %s` fails (error / panic) depending on IDs that an earlier print assigned: after printing once, inserting or reordering unnamed values (or reusing a number) makes the next print fail although the same edit before the first print succeeds", exprString(is.Cond))})
			}
			return true
		})
		if n == 0 {
			obs = append(obs, Obligation{Key: funcKey(sc.fn) + " has no failing branch on assigned IDs", Pos: c.pos(sc.fd.Pos()), Verdict: OK, Detail: "numbering re-derives IDs from position without validating earlier ones"})
		}
	}
	return obs
}

// idSpaceOfStore: which IDs ("local", "global", "metadata") an ID-setting call numbers.
func (c *Ctx) idSpaceOfStore(info *types.Info, fn *types.Func, obj ast.Expr) string {
	t := info.TypeOf(obj)
	switch {
	case t == nil:
		return "?"
	case isNamed(t, pkgIR, "GlobalIdent"):
		return "global"
	case isNamed(t, pkgIR, "LocalIdent"):
		return "local"
	case namedOf(t) != nil && namedOf(t).Obj().Pkg() != nil && namedOf(t).Obj().Pkg().Path() == pkgMD:
		return "metadata"
	case types.IsInterface(t):
		return c.idSpaceOfMethod(fn, map[*types.Func]bool{}, 0)
	}
	return "?"
}

func ruleOBS5(c *Ctx) []Obligation {
	var obs []Obligation
	for _, path := range []string{pkgIR, pkgMD} {
		p := c.pkg(path)
		scope := p.Types.Scope()
		for _, name := range scope.Names() {
			tn, ok := scope.Lookup(name).(*types.TypeName)
			if !ok {
				continue
			}
			n, ok := tn.Type().(*types.Named)
			if !ok {
				continue
			}
			st, ok := n.Underlying().(*types.Struct)
			if !ok {
				continue
			}
			setName := declaredMethodOf(n, "SetName")
			setID := declaredMethodOf(n, "SetID")
			if setName == nil || setID == nil {
				continue
			}
			// the ID field: the one SetID writes
			idField := c.idFieldOf(setID)
			if idField == "" {
				for _, e := range c.subjectFields(setID, -1) {
					if e.Write {
						idField = e.Field
					}
				}
			}
			o := Obligation{Key: typeKey(n) + ".SetName clears the ID", Pos: c.pos(c.funcDecl(setName).Pos()), Verdict: VIOL}
			if idField == "" {
				o.Verdict, o.Detail = UNDECIDED, "could not determine the ID field from SetID"
				obs = append(obs, o)
				continue
			}
			_ = st
			fd := c.funcDecl(setName)
			info := p.TypesInfo
			var resetPos token.Pos
			ast.Inspect(fd.Body, func(nd ast.Node) bool {
				as, ok := nd.(*ast.AssignStmt)
				if !ok || len(as.Lhs) != 1 || len(as.Rhs) != 1 {
					return true
				}
				if se, ok := unparen(as.Lhs[0]).(*ast.SelectorExpr); ok && se.Sel.Name == idField {
					if tv, ok := info.Types[as.Rhs[0]]; ok && tv.Value != nil && tv.Value.String() == "0" {
						o.Verdict, o.Detail = OK, idField+" = 0"
						resetPos = as.Pos()
					}
				}
				return true
			})
			if o.Verdict == VIOL {
				o.Detail = fmt.Sprintf("SetName does not reset %s: a value that was unnamed and numbered, then named, then unnamed again keeps a stale number", idField)
			}
			// the reset happens on every path: it is a top-level statement and no return precedes it
			if o.Verdict == OK {
				top := false
				for _, st := range fd.Body.List {
					if st.Pos() == resetPos {
						top = true
						break
					}
					early := false
					ast.Inspect(st, func(m ast.Node) bool {
						if _, ok := m.(*ast.ReturnStmt); ok {
							early = true
						}
						return true
					})
					if early {
						o.Verdict, o.Pos = VIOL, c.pos(st.Pos())
						o.Detail = fmt.Sprintf("SetName can return before %s is reset: SetName(\"\") on a value that is already unnamed no longer hands it back to automatic numbering, so after an earlier print the stale number survives an edit and the next print fails or differs", idField)
						break
					}
				}
				if o.Verdict == OK && !top {
					o.Verdict, o.Detail = VIOL, fmt.Sprintf("%s is reset only conditionally in SetName", idField)
				}
			}
			obs = append(obs, o)
		}
	}
	return obs
}

package main

import (
	"fmt"
	"go/ast"
	"go/token"
	"go/types"
	"strings"

	"golang.org/x/tools/go/packages"
)

// Rules added after seeded batch 11: WRAP-NIL, ELLIPSIS-LOOP, GEP-VLEN-ALL, UNESC-ONEPASS.

func init() {
	register(&Rule{
		Name:  "WRAP-NIL",
		Doc:   "an error is not built by wrapping a nil one: in package asm, a returned errors.Wrap / Wrapf / WithStack / WithMessage(f) of an error variable lies under a test that the variable is non-nil (`if x != nil`, or the else side of `x == nil`) — pkg/errors returns nil for a nil argument, so `return nil, errors.Wrapf(err, \"unable to locate …\")` on a path where err is the nil result of an earlier call reports success and hands back an unresolved placeholder",
		Floor: 100,
		Run:   ruleWRAPNIL,
	})
	register(&Rule{
		Name: "ELLIPSIS-LOOP",
		Doc:  "the ellipsis of a variadic parameter list does not depend on there being parameters: in the IR packages no printer reads a Variadic flag inside a loop over the parameters — written from inside the loop, `i32 (...)` prints as `i32 ()`, and pointer types that differ only in variadicity compare equal through their printed form",
		Run:  ruleELLIPSISLOOP,
	})
	register(&Rule{
		Name:  "GEP-VLEN-ALL",
		Doc:   "the shared gep walk reads the vector shape of every index: in internal/gep, the loop whose body reads Index.VectorLen ranges over the whole index-list parameter, not over a re-slice of it (nor over the parameter after it has been re-sliced) — the first index steps through the base pointer and selects no element, but a vector first index still makes the result a vector of pointers",
		Run:   ruleGEPVLENALL,
	})
	register(&Rule{
		Name:  "UNESC-ONEPASS",
		Doc:   "escape sequences are decoded in one pass: enc.Unescape hands its decoded bytes to no Replace / ReplaceAll / Replacer of packages bytes and strings — a second pass over decoded data re-reads as syntax what the first pass produced (`\\5C\\5C` decodes to two backslashes, which a later replacement of `\\\\` folds into one)",
		Floor: 1,
		Run:   ruleUNESCONEPASS,
	})
}

func ruleWRAPNIL(c *Ctx) []Obligation {
	var obs []Obligation
	wraps := map[string]bool{"Wrap": true, "Wrapf": true, "WithStack": true, "WithMessage": true, "WithMessagef": true}
	c.eachFunc(pkgASM, func(p *packages.Package, fd *ast.FuncDecl, fn *types.Func) {
		info := p.TypesInfo
		pm := buildParents(fd)
		n := 0
		ast.Inspect(fd.Body, func(nd ast.Node) bool {
			call, ok := nd.(*ast.CallExpr)
			if !ok || len(call.Args) == 0 {
				return true
			}
			f := calleeOf(info, call)
			if f == nil || f.Pkg() == nil || f.Pkg().Path() != "github.com/pkg/errors" || !wraps[f.Name()] {
				return true
			}
			id, ok := unparen(call.Args[0]).(*ast.Ident)
			if !ok {
				return true
			}
			obj := info.ObjectOf(id)
			n++
			o := Obligation{Key: fmt.Sprintf("%s: errors.%s(%s) wraps a non-nil error #%d", funcKey(fn), f.Name(), id.Name, n), Pos: c.pos(call.Pos()), Verdict: VIOL,
				Detail: fmt.Sprintf("no enclosing condition establishes %s != nil: errors.%s returns nil for a nil error, so this failure path returns success", id.Name, f.Name())}
			child := ast.Node(call)
			for q := pm[call]; q != nil && o.Verdict == VIOL; child, q = q, pm[q] {
				is, isIf := q.(*ast.IfStmt)
				if !isIf {
					continue
				}
				conds := []ast.Expr{is.Cond}
				for i := 0; i < len(conds); i++ {
					be, ok := unparen(conds[i]).(*ast.BinaryExpr)
					if !ok {
						continue
					}
					if be.Op == token.LAND && child == ast.Node(is.Body) {
						conds = append(conds, be.X, be.Y)
						continue
					}
					x, isID := unparen(be.X).(*ast.Ident)
					if !isID || info.ObjectOf(x) != obj || exprString(be.Y) != "nil" {
						continue
					}
					if be.Op == token.NEQ && child == ast.Node(is.Body) || be.Op == token.EQL && child == is.Else {
						o.Verdict, o.Detail = OK, "under `"+exprString(be)+"`"
					}
				}
			}
			// guard-clause form: `if x == nil { return … }` ahead of the call, in an enclosing block
			if o.Verdict == VIOL {
				var holder ast.Node = call
				for q := pm[call]; q != nil && o.Verdict == VIOL; holder, q = q, pm[q] {
					blk, ok := q.(*ast.BlockStmt)
					if !ok {
						continue
					}
					for _, st := range blk.List {
						if st.Pos() >= holder.Pos() {
							break
						}
						is, ok := st.(*ast.IfStmt)
						if !ok || len(is.Body.List) == 0 {
							continue
						}
						switch is.Body.List[len(is.Body.List)-1].(type) {
						case *ast.ReturnStmt, *ast.BranchStmt:
						default:
							continue
						}
						if be, ok := unparen(is.Cond).(*ast.BinaryExpr); ok && be.Op == token.EQL && exprString(be.Y) == "nil" {
							if x, ok := unparen(be.X).(*ast.Ident); ok && info.ObjectOf(x) == obj {
								o.Verdict, o.Detail = OK, "after the guard clause `"+exprString(be)+"`"
							}
						}
					}
				}
			}
			obs = append(obs, o)
			return true
		})
	})
	return obs
}

func ruleELLIPSISLOOP(c *Ctx) []Obligation {
	var obs []Obligation
	reads := 0
	for _, path := range []string{pkgTYP, pkgIR, pkgCONS, pkgMD} {
		c.eachFunc(path, func(p *packages.Package, fd *ast.FuncDecl, fn *types.Func) {
			info := p.TypesInfo
			rs := fn.Type().(*types.Signature).Results()
			if rs.Len() != 1 || !isStringNamed(rs.At(0).Type()) {
				return
			}
			pm := buildParents(fd)
			n := 0
			ast.Inspect(fd.Body, func(nd ast.Node) bool {
				se, ok := nd.(*ast.SelectorExpr)
				if !ok || se.Sel.Name != "Variadic" {
					return true
				}
				if sel, ok := info.Selections[se]; !ok || sel.Kind() != types.FieldVal {
					return true
				}
				reads++
				for q := pm[se]; q != nil; q = pm[q] {
					var over ast.Expr
					switch lp := q.(type) {
					case *ast.RangeStmt:
						over = lp.X
					case *ast.ForStmt:
						over = lp.Cond
					case *ast.FuncLit:
						return true
					}
					if over != nil && strings.Contains(exprString(over), "Params") {
						n++
						obs = append(obs, Obligation{Key: fmt.Sprintf("%s reads %s outside the loop over the parameters #%d", funcKey(fn), exprString(se), n), Pos: c.pos(se.Pos()), Verdict: VIOL,
							Detail: "the Variadic flag is consulted inside the loop over the parameters: with no fixed parameter the loop body never runs and the ellipsis is not written — `i32 (...)` prints as `i32 ()`"})
						return true
					}
				}
				return true
			})
		})
	}
	obs = append(obs, Obligation{Key: "printers: the variadic flag is read outside parameter loops", Verdict: OK, Detail: fmt.Sprintf("%d read(s) of a Variadic field in functions that return text", reads)})
	return obs
}

func ruleGEPVLENALL(c *Ctx) []Obligation {
	var obs []Obligation
	c.eachFunc(pkgGEP, func(p *packages.Package, fd *ast.FuncDecl, fn *types.Func) {
		info := p.TypesInfo
		var idx types.Object
		for _, fl := range fd.Type.Params.List {
			for _, nm := range fl.Names {
				if sl, ok := info.TypeOf(fl.Type).Underlying().(*types.Slice); ok && isNamed(sl.Elem(), pkgGEP, "Index") {
					idx = info.Defs[nm]
				}
			}
		}
		if idx == nil {
			return
		}
		// is the parameter itself reassigned (indices = indices[1:])?
		var reslicedAt token.Pos
		ast.Inspect(fd.Body, func(nd ast.Node) bool {
			if as, ok := nd.(*ast.AssignStmt); ok {
				for _, l := range as.Lhs {
					if id, ok := unparen(l).(*ast.Ident); ok && info.ObjectOf(id) == idx && reslicedAt == token.NoPos {
						reslicedAt = as.Pos()
					}
				}
			}
			return true
		})
		ast.Inspect(fd.Body, func(nd ast.Node) bool {
			rs, ok := nd.(*ast.RangeStmt)
			if !ok {
				return true
			}
			readsLen := false
			ast.Inspect(rs.Body, func(m ast.Node) bool {
				if se, ok := m.(*ast.SelectorExpr); ok && se.Sel.Name == "VectorLen" {
					readsLen = true
				}
				return true
			})
			if !readsLen {
				return true
			}
			o := Obligation{Key: funcKey(fn) + " reads the vector shape of every index", Pos: c.pos(rs.Pos()), Verdict: OK, Tags: []string{"gep"}, Detail: "the loop that reads VectorLen ranges over the whole index list"}
			id, isID := unparen(rs.X).(*ast.Ident)
			switch {
			case !isID || info.ObjectOf(id) != idx:
				o.Verdict, o.Detail = VIOL, "the loop that reads VectorLen ranges over `"+exprString(rs.X)+"`, not over the whole index list: the indices left out (the first one) do not contribute their vector shape, so `getelementptr i32, i32* %p, <4 x i64> %i` is typed i32* instead of <4 x i32*>"
			case reslicedAt != token.NoPos && reslicedAt < rs.Pos():
				o.Verdict, o.Detail = VIOL, "the index list is re-sliced at "+c.pos(reslicedAt)+" before the loop that reads VectorLen: the indices cut off do not contribute their vector shape"
			}
			obs = append(obs, o)
			return true
		})
	})
	obs = append(obs, Obligation{Key: "internal/gep: loops that read the vector shape examined", Verdict: OK, Detail: fmt.Sprintf("%d loop(s) over the index-list parameter read VectorLen in place (a walk split into helpers is judged by GEP-RES and GEP-ALL)", len(obs))})
	return obs
}

func ruleUNESCONEPASS(c *Ctx) []Obligation {
	var obs []Obligation
	fn := c.lookupFunc(pkgENC, "Unescape")
	fd := c.funcDecl(fn)
	if fd == nil || fd.Body == nil {
		return []Obligation{{Key: "anchors", Verdict: UNDECIDED, Detail: "enc.Unescape not found"}}
	}
	info := c.pkg(pkgENC).TypesInfo
	o := Obligation{Key: "internal/enc.Unescape decodes in one pass", Pos: c.pos(fd.Pos()), Verdict: OK, Detail: "no Replace / Replacer over the decoded bytes"}
	ast.Inspect(fd.Body, func(nd ast.Node) bool {
		call, ok := nd.(*ast.CallExpr)
		if !ok {
			return true
		}
		f := calleeOf(info, call)
		if f == nil || f.Pkg() == nil || f.Pkg().Path() != "bytes" && f.Pkg().Path() != "strings" {
			return true
		}
		if strings.HasPrefix(f.Name(), "Replace") || f.Name() == "NewReplacer" || f.Name() == "Map" {
			o.Verdict, o.Pos = VIOL, c.pos(call.Pos())
			o.Detail = f.Pkg().Name() + "." + f.Name() + " runs over bytes that have already been decoded: a backslash produced by `\\5C` is read as the start of another escape, so `\\5C\\5C` (two backslashes) comes back as one"
		}
		return true
	})
	return append(obs, o)
}

// ---------------------------------------------------------------------------
// W-COPY

func init() {
	register(&Rule{
		Name:  "W-COPY",
		Doc:   "the counting writer is never copied: no function of package ir takes, returns or declares the wrapper struct {io.Writer, count, error} by value — its methods have pointer receivers, so a helper that receives a copy adds the bytes it writes (and the error it meets) to the copy, and WriteTo returns a count that is short and a nil error after a failed write",
		Floor: 1,
		Run:   ruleWCOPY,
	})
}

func ruleWCOPY(c *Ctx) []Obligation {
	wi := c.writerAnchors()
	if wi.wrapper == nil {
		return []Obligation{{Key: "wrapper by reference", Verdict: OK, Detail: "package ir has no {io.Writer, count, error} wrapper struct (closure design: W-1…W-4 are stated over WriteTo's named results)"}}
	}
	var obs []Obligation
	info := wi.p.TypesInfo
	byValue := func(t types.Type) bool {
		n, ok := t.(*types.Named)
		return ok && n == wi.wrapper
	}
	o := Obligation{Key: "the wrapper " + typeKey(wi.wrapper) + " is handled by reference only", Verdict: OK, Detail: "no parameter, result or local variable of the wrapper's value type"}
	c.eachFunc(pkgIR, func(p *packages.Package, fd *ast.FuncDecl, fn *types.Func) {
		sig := fn.Type().(*types.Signature)
		for i := 0; i < sig.Params().Len(); i++ {
			if byValue(sig.Params().At(i).Type()) && o.Verdict == OK {
				o.Verdict, o.Pos = VIOL, c.pos(fd.Pos())
				o.Detail = fmt.Sprintf("%s takes the wrapper by value (parameter %s): the bytes written through the copy are counted on the copy, and a write error met there is lost — WriteTo returns a short count and a nil error", funcKey(fn), sig.Params().At(i).Name())
			}
		}
		for i := 0; i < sig.Results().Len(); i++ {
			if byValue(sig.Results().At(i).Type()) && o.Verdict == OK {
				o.Verdict, o.Pos = VIOL, c.pos(fd.Pos())
				o.Detail = funcKey(fn) + " returns the wrapper by value"
			}
		}
		ast.Inspect(fd.Body, func(n ast.Node) bool {
			if as, ok := n.(*ast.AssignStmt); ok && as.Tok == token.DEFINE {
				for i, l := range as.Lhs {
					if id, ok := l.(*ast.Ident); ok && info.Defs[id] != nil && byValue(info.Defs[id].Type()) && o.Verdict == OK && i < len(as.Rhs) {
						// a value-typed local is fine as long as it is only used through its address (method calls);
						// handing it to a function copies it
						obj := info.Defs[id]
						ast.Inspect(fd.Body, func(m ast.Node) bool {
							if call, ok := m.(*ast.CallExpr); ok {
								for _, a := range call.Args {
									if aid, ok := unparen(a).(*ast.Ident); ok && info.ObjectOf(aid) == obj && o.Verdict == OK {
										o.Verdict, o.Pos = VIOL, c.pos(call.Pos())
										o.Detail = fmt.Sprintf("%s hands the wrapper %s to %s by value: what the callee writes is counted on a copy", funcKey(fn), id.Name, exprString(call.Fun))
									}
								}
							}
							return true
						})
					}
				}
			}
			return true
		})
	})
	return append(obs, o)
}

package main

import (
	"fmt"
	"go/ast"
	"go/constant"
	"go/token"
	"go/types"
	"sort"
	"strings"

	"golang.org/x/tools/go/packages"
)

// ENC — names and strings (C11): ENC-NUM, ENC-STR, ENC-TEXT, ENC-PAIR, ENC-RAW.

func init() {
	register(&Rule{
		Name:  "ENC-NUM",
		Doc:   "every site that decides whether an identifier spelled with digits is an unnamed ID or a name — the encoders of internal/enc that choose quoted vs bare spelling, the decoders of package asm, and constructors of identifier values in ir — applies one predicate (the same strconv function with the same sign test), so a name is never printed in a form that is read back as an ID or vice versa",
		Floor: 4,
		Run:   ruleENCNUM,
	})
	register(&Rule{
		Name:  "ENC-STR",
		Doc:   "no string-typed field of an IR value reaches a formatting or writing call of a printer directly: it passes through quote / enc.* first (Go's %q and raw %s are not LLVM escaping)",
		Floor: 40,
		Run:   ruleENCSTR,
	})
	register(&Rule{
		Name:  "ENC-TEXT",
		Doc:   "in package asm the raw text of a string-literal or identifier token is consumed only by the decoder for that token class (or directly by unquote): no translator stores undecoded token text into the IR",
		Floor: 14,
		Run:   ruleENCTEXT,
	})
	register(&Rule{
		Name:  "ENC-PAIR",
		Doc:   "per token class the sigil the encoder writes equals the sigil the decoder strips (@ % : # $ !), and each encoder of internal/enc is applied only to the identifier field of its own class",
		Floor: 12,
		Run:   ruleENCPAIR,
	})
	register(&Rule{
		Name:  "ENC-RAW",
		Doc:   "a decoder returns the bytes the token denotes: a returned name is never built by formatting or concatenating literal quote characters into it",
		Floor: 5,
		Run:   ruleENCRAW,
	})
}

// numericSites: functions that decide ID-vs-name for digit strings.
type numSite struct {
	fn   *types.Func
	pos  token.Pos
	pred string
	role string
}

func (c *Ctx) numericSites() []numSite {
	var out []numSite
	isIdentType := func(t types.Type) bool {
		return isNamed(t, pkgIR, "GlobalIdent") || isNamed(t, pkgIR, "LocalIdent")
	}
	for _, path := range []string{pkgENC, pkgASM, pkgIR} {
		c.eachFunc(path, func(p *packages.Package, fd *ast.FuncDecl, fn *types.Func) {
			sig := fn.Type().(*types.Signature)
			role := ""
			switch {
			case path == pkgENC && strings.HasSuffix(fn.Name(), "Name") && sig.Recv() == nil:
				role = "encoder"
			case sig.Recv() == nil && sig.Results().Len() == 1 && isIdentType(sig.Results().At(0).Type()) && !isPtr(sig.Results().At(0).Type()):
				if sig.Params().Len() == 1 {
					if b, ok := sig.Params().At(0).Type().Underlying().(*types.Basic); ok && b.Kind() == types.String {
						role = "constructor"
					} else if n := namedOf(sig.Params().At(0).Type()); n != nil && n.Obj().Pkg().Path() == pkgAST {
						role = "decoder"
					}
				}
			}
			if role == "" {
				return
			}
			// the predicate may sit in the function itself or in a same-package helper it
			// calls (isUintLit, a method of a small syntax object, …): followed to depth 3;
			// the site is the statement of the role function that leads there.
			seen := map[*types.Func]bool{fn: true}
			var walk func(info *types.Info, body ast.Node, depth int, at token.Pos)
			walk = func(info *types.Info, body ast.Node, depth int, at token.Pos) {
				ast.Inspect(body, func(nd ast.Node) bool {
					call, ok := nd.(*ast.CallExpr)
					if !ok {
						return true
					}
					f := calleeOf(info, call)
					if f == nil || f.Pkg() == nil {
						return true
					}
					pos := at
					if depth == 0 {
						pos = call.Pos()
					}
					if f.Pkg().Path() == "strconv" && (strings.HasPrefix(f.Name(), "Parse") || f.Name() == "Atoi") && f.Name() != "ParseFloat" && f.Name() != "ParseBool" {
						pred := f.Name()
						if numSignTest(body, call) {
							pred += "&&>=0"
						}
						if strings.HasPrefix(pred, "Atoi") {
							pred = "ParseInt" + strings.TrimPrefix(pred, "Atoi")
						}
						out = append(out, numSite{fn, pos, pred, role})
						return true
					}
					if f.Pkg().Path() == path && depth < 3 && !seen[f] && !f.Exported() {
						if hd := c.funcDecl(f); hd != nil && hd.Body != nil {
							seen[f] = true
							walk(c.pkg(path).TypesInfo, hd.Body, depth+1, pos)
						}
					}
					return true
				})
			}
			walk(p.TypesInfo, fd.Body, 0, fd.Pos())
		})
	}
	return out
}

// numSignTest: the value parsed by call is additionally tested `>= 0` in body (in the
// condition of the if statement that holds the call, or on the variable it is assigned to).
func numSignTest(body ast.Node, call *ast.CallExpr) bool {
	found := false
	ast.Inspect(body, func(nd ast.Node) bool {
		switch x := nd.(type) {
		case *ast.IfStmt:
			if as, ok := x.Init.(*ast.AssignStmt); ok && len(as.Rhs) == 1 && as.Rhs[0] == ast.Expr(call) {
				if strings.Contains(strings.ReplaceAll(exprString(x.Cond), " ", ""), ">=0") {
					found = true
				}
			}
		case *ast.AssignStmt:
			if len(x.Rhs) == 1 && x.Rhs[0] == ast.Expr(call) && len(x.Lhs) > 0 {
				if id, ok := x.Lhs[0].(*ast.Ident); ok && id.Name != "_" {
					ast.Inspect(body, func(m ast.Node) bool {
						if be, ok := m.(*ast.BinaryExpr); ok && be.Op == token.GEQ && exprString(be.X) == id.Name && exprString(be.Y) == "0" {
							found = true
						}
						return true
					})
				}
			}
		}
		return true
	})
	return found
}

func ruleENCNUM(c *Ctx) []Obligation {
	sites := c.numericSites()
	count := map[string]int{}
	for _, s := range sites {
		count[s.pred]++
	}
	// the reference predicate is the encoders' (what the printer relies on)
	ref := ""
	for _, s := range sites {
		if s.role == "encoder" {
			if ref == "" {
				ref = s.pred
			} else if ref != s.pred {
				ref = "?"
			}
		}
	}
	var obs []Obligation
	ord := map[string]int{}
	for _, s := range sites {
		k := fmt.Sprintf("%s (%s) numeric-name predicate", funcKey(s.fn), s.role)
		ord[k]++
		if ord[k] > 1 {
			k += fmt.Sprintf("#%d", ord[k])
		}
		o := Obligation{Key: k, Pos: c.pos(s.pos), Verdict: OK, Detail: s.pred}
		switch {
		case ref == "" || ref == "?":
			o.Verdict, o.Detail = UNDECIDED, "the encoders of internal/enc do not share one predicate"
		case s.pred != ref:
			o.Verdict = VIOL
			o.Detail = fmt.Sprintf("uses %s where the encoders use %s: a digit string with a sign (e.g. -0, +1) is an ID on one side and a name on the other, so a name can be printed bare and read back as an unnamed ID", s.pred, ref)
		}
		obs = append(obs, o)
	}
	return obs
}

// ---------------------------------------------------------------------------

func isPlainString(t types.Type) bool {
	b, ok := t.(*types.Basic)
	return ok && b.Kind() == types.String
}

var escapers = map[string]bool{
	pkgENC + ".Quote": true, pkgENC + ".EscapeString": true, pkgENC + ".EscapeIdent": true, pkgENC + ".Escape": true,
	pkgENC + ".GlobalName": true, pkgENC + ".LocalName": true, pkgENC + ".LabelName": true, pkgENC + ".TypeName": true,
	pkgENC + ".ComdatName": true, pkgENC + ".MetadataName": true,
	pkgIR + ".quote": true, pkgMD + ".quote": true, pkgCONS + ".quote": true, pkgTYP + ".quote": true,
}

func ruleENCSTR(c *Ctx) []Obligation {
	var obs []Obligation
	for _, path := range []string{pkgIR, pkgCONS, pkgMD, pkgTYP} {
		c.eachFunc(path, func(p *packages.Package, fd *ast.FuncDecl, fn *types.Func) {
			info := p.TypesInfo
			pm := buildParents(fd.Body)
			ord := map[string]int{}
			ast.Inspect(fd.Body, func(nd ast.Node) bool {
				se, ok := nd.(*ast.SelectorExpr)
				if !ok {
					return true
				}
				sel, ok := info.Selections[se]
				if !ok || sel.Kind() != types.FieldVal || !isPlainString(sel.Type()) {
					return true
				}
				owner := namedOf(sel.Recv())
				if owner == nil || owner.Obj().Pkg() == nil || !isIRPkg(owner.Obj().Pkg().Path()) {
					return true
				}
				// an unexported helper type of a printer (a field-list builder holding the node's
				// keyword) is not an IR value: what it holds was put there by the printer itself
				if !owner.Obj().Exported() {
					return true
				}
				field := se.Sel.Name
				// climb through parens / conversions to the consuming construct
				var node ast.Node = se
				par := pm[node]
				for {
					switch pp := par.(type) {
					case *ast.ParenExpr:
						node, par = pp, pm[pp]
						continue
					case *ast.CallExpr:
						// type conversion []byte(x) / string(x)
						if tv, ok := info.Types[pp.Fun]; ok && tv.IsType() {
							node, par = pp, pm[pp]
							continue
						}
					}
					break
				}
				call, ok := par.(*ast.CallExpr)
				if !ok {
					return true // comparisons, len(), assignments, returns of the raw name are not output
				}
				callee := calleeOf(info, call)
				isArg := false
				for _, a := range call.Args {
					if a == node {
						isArg = true
					}
				}
				if !isArg {
					return true // receiver of a method call etc.
				}
				k := fmt.Sprintf("%s prints %s.%s", funcKey(fn), typeKey(owner), field)
				ord[k]++
				if ord[k] > 1 {
					k += fmt.Sprintf("#%d", ord[k])
				}
				o := Obligation{Key: k, Pos: c.pos(se.Pos()), Verdict: OK, Tags: irTags(owner)}
				name := ""
				if callee != nil && callee.Pkg() != nil {
					name = callee.Pkg().Path() + "." + callee.Name()
				}
				isOutput := false
				if callee != nil && callee.Pkg() != nil && callee.Pkg().Path() == "fmt" {
					isOutput = true
				}
				if s2, ok := unparen(call.Fun).(*ast.SelectorExpr); ok {
					switch s2.Sel.Name {
					case "WriteString", "Write", "Fprint", "Fprintf", "Fprintln":
						isOutput = true
					}
				}
				switch {
				case escapers[name]:
					o.Detail = "through " + callee.Name()
				case isOutput:
					o.Verdict = VIOL
					o.Detail = fmt.Sprintf("the raw string %s.%s is written by %s without LLVM escaping: a quote, backslash or non-printable byte in it produces text that reads back differently (or not at all)", typeKey(owner), field, exprString(call.Fun))
				default:
					return true // passed to a helper: followed there when the helper writes it
				}
				obs = append(obs, o)
				return true
			})
		})
	}
	return obs
}

// ---------------------------------------------------------------------------

var tokenTypes = map[string]bool{
	"StringLit": true, "GlobalIdent": true, "LocalIdent": true, "LabelIdent": true, "ComdatName": true,
	"MetadataName": true, "MetadataID": true, "AttrGroupID": true,
}

func ruleENCTEXT(c *Ctx) []Obligation {
	var obs []Obligation
	c.eachFunc(pkgASM, func(p *packages.Package, fd *ast.FuncDecl, fn *types.Func) {
		info := p.TypesInfo
		pm := buildParents(fd.Body)
		sig := fn.Type().(*types.Signature)
		// is this function the decoder of a token class?
		decoderOf := ""
		if sig.Params().Len() == 1 && sig.Recv() == nil {
			if n := namedOf(sig.Params().At(0).Type()); n != nil && n.Obj().Pkg() != nil && n.Obj().Pkg().Path() == pkgAST && tokenTypes[n.Obj().Name()] {
				decoderOf = n.Obj().Name()
			}
		}
		ord := 0
		ast.Inspect(fd.Body, func(nd ast.Node) bool {
			call, ok := nd.(*ast.CallExpr)
			if !ok || len(call.Args) != 0 {
				return true
			}
			se, ok := unparen(call.Fun).(*ast.SelectorExpr)
			if !ok || se.Sel.Name != "Text" {
				return true
			}
			n := namedOf(info.TypeOf(se.X))
			if n == nil || n.Obj().Pkg() == nil || n.Obj().Pkg().Path() != pkgAST || !tokenTypes[n.Obj().Name()] {
				return true
			}
			ord++
			o := Obligation{Key: fmt.Sprintf("%s reads the text of ast.%s #%d", funcKey(fn), n.Obj().Name(), ord), Pos: c.pos(call.Pos()), Verdict: OK}
			classify := func(use ast.Node) (argOfUnquote, inDiagnostic bool) {
				if pc, ok := pm[use].(*ast.CallExpr); ok {
					if f := calleeOf(info, pc); f != nil && (f.Name() == "unquote" || f.Name() == "Unquote") {
						argOfUnquote = true
					}
				}
				for x := use; x != nil; x = pm[x] {
					if pc, ok := x.(*ast.CallExpr); ok {
						if f := calleeOf(info, pc); f != nil && f.Pkg() != nil && (f.Pkg().Path() == "fmt" || strings.HasSuffix(f.Pkg().Path(), "/errors")) {
							inDiagnostic = true
						}
						// an error constructor of the package (errorf(node, format, args…) error)
						if f := calleeOf(info, pc); f != nil {
							if rs := f.Type().(*types.Signature).Results(); rs.Len() == 1 && isErrorType(rs.At(0).Type()) {
								inDiagnostic = true
							}
						}
						if id, ok := pc.Fun.(*ast.Ident); ok && id.Name == "panic" {
							inDiagnostic = true
						}
					}
				}
				return
			}
			argOfUnquote, inDiagnostic := classify(call)
			// the text held in a local (text := tok.Text()): judged by the uses of the local — all
			// of them decode it or report it, and at least one decodes it
			if as, ok := pm[call].(*ast.AssignStmt); ok && len(as.Lhs) == 1 && len(as.Rhs) == 1 {
				if id, ok := as.Lhs[0].(*ast.Ident); ok && id.Name != "_" {
					obj := info.ObjectOf(id)
					uses, unq, diag := 0, 0, 0
					ast.Inspect(fd.Body, func(m ast.Node) bool {
						if u, ok := m.(*ast.Ident); ok && u != id && info.ObjectOf(u) == obj {
							uses++
							a, d := classify(u)
							if a {
								unq++
							} else if d {
								diag++
							}
						}
						return true
					})
					if uses > 0 && unq+diag == uses {
						argOfUnquote, inDiagnostic = unq > 0, unq == 0
					}
				}
			}
			switch {
			case decoderOf == n.Obj().Name():
				o.Detail = "inside the decoder of this token class"
			case argOfUnquote:
				o.Detail = "directly unquoted"
			case inDiagnostic:
				o.Verdict, o.Detail = EXEMPT, "used in an error message only"
			default:
				o.Verdict = VIOL
				o.Detail = fmt.Sprintf("the undecoded text of an ast.%s token is used outside its decoder: escapes, quotes or the sigil end up in the IR", n.Obj().Name())
			}
			obs = append(obs, o)
			return true
		})
	})
	return obs
}

// ---------------------------------------------------------------------------

// encPairs: token class → (encoders in internal/enc, AST token type decoded in asm). Frozen table.
var encPairs = []struct {
	class    string
	encoders []string
	token    string
	fields   []string // identifier fields the encoders may be applied to
}{
	{"global", []string{"GlobalName", "GlobalID"}, "GlobalIdent", []string{"GlobalName", "GlobalID"}},
	{"local", []string{"LocalName", "LocalID"}, "LocalIdent", []string{"LocalName", "LocalID"}},
	{"label", []string{"LabelName", "LabelID"}, "LabelIdent", []string{"LocalName", "LocalID"}},
	{"attribute group", []string{"AttrGroupID"}, "AttrGroupID", []string{"ID"}},
	{"comdat", []string{"ComdatName"}, "ComdatName", []string{"Name"}},
	{"metadata name", []string{"MetadataName"}, "MetadataName", []string{"Name"}},
	{"metadata ID", []string{"MetadataID"}, "MetadataID", []string{"MetadataID"}},
	{"type", []string{"TypeName"}, "", []string{"TypeName"}},
}

// sigilOfEncoder returns the constant prefix and suffix an encoder writes around the name.
// encPiece: one piece of the text an encoder returns — a constant, or something computed.
type encPiece struct {
	s     string
	known bool
}

// encPieces lists, in output order, the pieces of the string the expression e denotes inside
// fd: the parts of a `+` chain, the writes to a local strings.Builder whose String() is
// returned, and the pieces of a helper of internal/enc called with constant arguments (the
// sigil handed to sigilIdent('@', name)). bind maps parameters to constant values.
func (c *Ctx) encPieces(fd *ast.FuncDecl, e ast.Expr, bind map[types.Object]string, depth int) []encPiece {
	info := c.declPkg[fd].TypesInfo
	e = unparen(e)
	constOf := func(x ast.Expr) (string, bool) {
		x = unparen(x)
		if tv := info.Types[x]; tv.Value != nil {
			switch tv.Value.Kind() {
			case constant.String:
				return constant.StringVal(tv.Value), true
			case constant.Int:
				if v, ok := constant.Int64Val(tv.Value); ok && v >= 0 && v < 0x80 {
					if b, isBasic := tv.Type.Underlying().(*types.Basic); isBasic && (b.Kind() == types.UntypedRune || b.Kind() == types.Byte || b.Kind() == types.Uint8 || b.Kind() == types.Rune || b.Kind() == types.Int32) {
						return string(rune(v)), true
					}
				}
			}
		}
		if id, ok := x.(*ast.Ident); ok {
			if v, ok := bind[info.ObjectOf(id)]; ok {
				return v, true
			}
		}
		// a field of the receiver of a descriptor method (c.prefix), bound from the descriptor's literal
		if se, ok := x.(*ast.SelectorExpr); ok {
			if v, ok := bind[info.ObjectOf(se.Sel)]; ok {
				return v, true
			}
		}
		// string(c) / byte(c) conversions of a constant
		if call, ok := x.(*ast.CallExpr); ok && len(call.Args) == 1 {
			if tv, ok := info.Types[call.Fun]; ok && tv.IsType() {
				if id, ok := unparen(call.Args[0]).(*ast.Ident); ok {
					if v, ok := bind[info.ObjectOf(id)]; ok {
						return v, true
					}
				}
			}
		}
		return "", false
	}
	if v, ok := constOf(e); ok {
		return []encPiece{{v, true}}
	}
	switch x := e.(type) {
	case *ast.BinaryExpr:
		if x.Op == token.ADD {
			return append(c.encPieces(fd, x.X, bind, depth), c.encPieces(fd, x.Y, bind, depth)...)
		}
	case *ast.CallExpr:
		// b.String() of a local builder: its writes, in source order
		if se, ok := unparen(x.Fun).(*ast.SelectorExpr); ok && se.Sel.Name == "String" && len(x.Args) == 0 {
			if id, ok := unparen(se.X).(*ast.Ident); ok {
				t := info.TypeOf(id)
				if isNamed(t, "strings", "Builder") || isNamed(t, "bytes", "Buffer") {
					obj := info.ObjectOf(id)
					var out []encPiece
					pm := buildParents(fd.Body)
					ast.Inspect(fd.Body, func(n ast.Node) bool {
						call, ok := n.(*ast.CallExpr)
						if !ok || len(call.Args) != 1 {
							return true
						}
						ws, ok := unparen(call.Fun).(*ast.SelectorExpr)
						if !ok || !strings.HasPrefix(ws.Sel.Name, "Write") {
							return true
						}
						if wid, ok := unparen(ws.X).(*ast.Ident); !ok || info.ObjectOf(wid) != obj {
							return true
						}
						// a write under a loop or a condition contributes an unknown piece
						conditional := false
						for q := pm[call]; q != nil; q = pm[q] {
							switch q.(type) {
							case *ast.ForStmt, *ast.RangeStmt, *ast.IfStmt, *ast.SwitchStmt:
								conditional = true
							}
						}
						if v, ok := constOf(call.Args[0]); ok && !conditional {
							out = append(out, encPiece{v, true})
						} else {
							out = append(out, encPiece{"", false})
						}
						return true
					})
					return out
				}
			}
		}
		// a helper of the package
		if f := calleeOf(info, x); f != nil && f.Pkg() != nil && f.Pkg().Path() == pkgENC && depth < 3 {
			if hfd := c.funcDecl(f); hfd != nil && hfd.Body != nil && hfd != fd && f.Name() != "EscapeIdent" && f.Name() != "Escape" {
				hinfo := c.declPkg[hfd].TypesInfo
				nb := map[types.Object]string{}
				// a method of a descriptor held in a package-level variable (globalIdent.encodeName(name) with
				// var globalIdent = identClass{prefix: "@"}): the string fields of the literal are bound, absent ones to ""
				if se, ok := unparen(x.Fun).(*ast.SelectorExpr); ok && hfd.Recv != nil {
					if rid, ok := unparen(se.X).(*ast.Ident); ok {
						if rv, ok := info.ObjectOf(rid).(*types.Var); ok && rv.Pkg() != nil && rv.Parent() == rv.Pkg().Scope() {
							if st, ok := rv.Type().Underlying().(*types.Struct); ok {
								for i := 0; i < st.NumFields(); i++ {
									if isPlainString(st.Field(i).Type()) {
										nb[st.Field(i)] = ""
									}
								}
								if ep := c.pkg(pkgENC); ep != nil {
									for _, f := range ep.Syntax {
										for _, d := range f.Decls {
											gd, ok := d.(*ast.GenDecl)
											if !ok || gd.Tok != token.VAR {
												continue
											}
											for _, sp := range gd.Specs {
												vs := sp.(*ast.ValueSpec)
												for i, nm := range vs.Names {
													if ep.TypesInfo.Defs[nm] != types.Object(rv) || i >= len(vs.Values) {
														continue
													}
													lit := unparen(vs.Values[i])
													if u, ok := lit.(*ast.UnaryExpr); ok && u.Op == token.AND {
														lit = unparen(u.X)
													}
													if cl, ok := lit.(*ast.CompositeLit); ok {
														for _, el := range cl.Elts {
															if kv, ok := el.(*ast.KeyValueExpr); ok {
																if kid, ok := kv.Key.(*ast.Ident); ok {
																	if tv := ep.TypesInfo.Types[kv.Value]; tv.Value != nil && tv.Value.Kind() == constant.String {
																		nb[ep.TypesInfo.ObjectOf(kid)] = constant.StringVal(tv.Value)
																	}
																}
															}
														}
													}
												}
											}
										}
									}
								}
							}
						}
					}
				}
				k := 0
				for _, fl := range hfd.Type.Params.List {
					for _, nm := range fl.Names {
						if k < len(x.Args) {
							if v, ok := constOf(x.Args[k]); ok {
								nb[hinfo.Defs[nm]] = v
							}
						}
						k++
					}
				}
				// every return of the helper must give the same leading / trailing constants;
				// take the pieces of each and merge position-wise where they agree
				var merged []encPiece
				first := true
				ast.Inspect(hfd.Body, func(n ast.Node) bool {
					if _, isLit := n.(*ast.FuncLit); isLit {
						return false
					}
					r, ok := n.(*ast.ReturnStmt)
					if !ok || len(r.Results) != 1 {
						return true
					}
					ps := c.encPieces(hfd, r.Results[0], nb, depth+1)
					if first {
						merged, first = ps, false
						return true
					}
					// keep the common constant head and tail
					head := 0
					for head < len(merged) && head < len(ps) && merged[head].known && ps[head].known && merged[head].s == ps[head].s {
						head++
					}
					tail := 0
					for tail < len(merged)-head && tail < len(ps)-head && merged[len(merged)-1-tail].known && ps[len(ps)-1-tail].known && merged[len(merged)-1-tail].s == ps[len(ps)-1-tail].s {
						tail++
					}
					nm := append([]encPiece{}, merged[:head]...)
					nm = append(nm, encPiece{"", false})
					nm = append(nm, merged[len(merged)-tail:]...)
					merged = nm
					return true
				})
				if !first {
					return merged
				}
			}
		}
	case *ast.Ident:
		// a local defined once
		var def ast.Expr
		n := 0
		obj := info.ObjectOf(x)
		ast.Inspect(fd.Body, func(m ast.Node) bool {
			if as, ok := m.(*ast.AssignStmt); ok && len(as.Lhs) == len(as.Rhs) {
				for i, l := range as.Lhs {
					if id, ok := l.(*ast.Ident); ok && info.ObjectOf(id) == obj {
						n++
						def = as.Rhs[i]
					}
				}
			}
			return true
		})
		if n == 1 && def != nil && depth < 4 {
			return c.encPieces(fd, def, bind, depth+1)
		}
	}
	return []encPiece{{"", false}}
}

func (c *Ctx) sigilOfEncoder(fn *types.Func) (prefix, suffix string, ok bool) {
	fd := c.funcDecl(fn)
	if fd == nil {
		return
	}
	prefixes, suffixes := map[string]bool{}, map[string]bool{}
	ast.Inspect(fd.Body, func(nd ast.Node) bool {
		if _, isLit := nd.(*ast.FuncLit); isLit {
			return false
		}
		r, ok := nd.(*ast.ReturnStmt)
		if !ok || len(r.Results) != 1 {
			return true
		}
		ps := c.encPieces(fd, r.Results[0], map[types.Object]string{}, 0)
		if len(ps) < 2 {
			return true
		}
		head, tail := "", ""
		for _, p := range ps {
			if !p.known {
				break
			}
			head += p.s
		}
		for i := len(ps) - 1; i >= 0 && ps[i].known; i-- {
			tail = ps[i].s + tail
		}
		prefixes[strings.TrimRight(strings.TrimSuffix(head, `"`), `\3`)] = true
		suffixes[strings.TrimPrefix(tail, `"`)] = true
		return true
	})
	if len(prefixes) != 1 || len(suffixes) != 1 {
		return "", "", false
	}
	for p := range prefixes {
		prefix = p
	}
	for s := range suffixes {
		suffix = s
	}
	return prefix, suffix, true
}

func ruleENCPAIR(c *Ctx) []Obligation {
	var obs []Obligation
	// decoder sigils: `const prefix = "@"` / `const suffix = ":"` in the decoder of each token type
	decSigil := map[string][2]string{}
	cutsetUse := map[string]string{}
	c.eachFunc(pkgASM, func(p *packages.Package, fd *ast.FuncDecl, fn *types.Func) {
		sig := fn.Type().(*types.Signature)
		if sig.Params().Len() != 1 || sig.Recv() != nil {
			return
		}
		n := namedOf(sig.Params().At(0).Type())
		if n == nil || n.Obj().Pkg() == nil || n.Obj().Pkg().Path() != pkgAST || !tokenTypes[n.Obj().Name()] {
			return
		}
		pre, suf, cutset := c.strippedSigils(p, fd, map[*types.Func]bool{})
		if cutset != "" {
			cutsetUse[n.Obj().Name()] = cutset
		}
		decSigil[n.Obj().Name()] = [2]string{pre, suf}
	})
	for _, pr := range encPairs {
		for _, en := range pr.encoders {
			fn := c.lookupFunc(pkgENC, en)
			o := Obligation{Key: fmt.Sprintf("enc.%s ↔ decoder of ast.%s", en, pr.token), Verdict: OK}
			if fn == nil {
				o.Verdict, o.Detail = UNDECIDED, "encoder not found"
				obs = append(obs, o)
				continue
			}
			o.Pos = c.pos(fn.Pos())
			pre, suf, ok := c.sigilOfEncoder(fn)
			if !ok {
				o.Verdict, o.Detail = UNDECIDED, "the encoder's sigil could not be read off its return expressions"
				obs = append(obs, o)
				continue
			}
			if pr.token == "" {
				// type names are decoded through the local-identifier decoder
				d := decSigil["LocalIdent"]
				if pre != d[0] {
					o.Verdict, o.Detail = VIOL, fmt.Sprintf("encoder writes %q, the decoder used for type names strips %q", pre, d[0])
				} else {
					o.Detail = fmt.Sprintf("sigil %q on both sides (decoded as a local identifier)", pre)
				}
				obs = append(obs, o)
				continue
			}
			d, has := decSigil[pr.token]
			switch {
			case cutsetUse[pr.token] != "":
				o.Verdict = VIOL
				o.Detail = fmt.Sprintf("the decoder strips the sigil with %s, which removes every leading/trailing byte of the cutset, not one occurrence of the sigil: a name that itself begins with the sigil character (`$$x` is the comdat `$x`) loses part of its name", cutsetUse[pr.token])
			case !has:
				o.Verdict, o.Detail = UNDECIDED, "no decoder taking ast."+pr.token+" in package asm"
			case pre != d[0] || suf != d[1]:
				o.Verdict = VIOL
				o.Detail = fmt.Sprintf("the encoder writes prefix %q suffix %q but the decoder strips prefix %q suffix %q: the printed token is not what the parser expects", pre, suf, d[0], d[1])
			default:
				o.Detail = fmt.Sprintf("prefix %q suffix %q on both sides", pre, suf)
			}
			obs = append(obs, o)
		}
	}
	// each encoder is applied only to the identifier field of its class
	allowed := map[string]map[string]bool{}
	for _, pr := range encPairs {
		for _, en := range pr.encoders {
			allowed[en] = map[string]bool{}
			for _, f := range pr.fields {
				allowed[en][f] = true
			}
		}
	}
	for _, path := range []string{pkgIR, pkgCONS, pkgMD, pkgTYP} {
		c.eachFunc(path, func(p *packages.Package, fd *ast.FuncDecl, fn *types.Func) {
			info := p.TypesInfo
			ord := map[string]int{}
			ast.Inspect(fd.Body, func(nd ast.Node) bool {
				call, ok := nd.(*ast.CallExpr)
				if !ok || len(call.Args) != 1 {
					return true
				}
				f := calleeOf(info, call)
				if f == nil || f.Pkg() == nil || f.Pkg().Path() != pkgENC || allowed[f.Name()] == nil {
					return true
				}
				// the argument: a field selector (possibly converted)
				arg := unparen(call.Args[0])
				if cv, ok := arg.(*ast.CallExpr); ok && len(cv.Args) == 1 {
					if tv, ok := info.Types[cv.Fun]; ok && tv.IsType() {
						arg = unparen(cv.Args[0])
					}
				}
				se, ok := arg.(*ast.SelectorExpr)
				if !ok {
					return true
				}
				if sel, ok := info.Selections[se]; !ok || sel.Kind() != types.FieldVal {
					return true
				}
				k := fmt.Sprintf("%s encodes %s with enc.%s", funcKey(fn), se.Sel.Name, f.Name())
				ord[k]++
				if ord[k] > 1 {
					k += fmt.Sprintf("#%d", ord[k])
				}
				o := Obligation{Key: k, Pos: c.pos(call.Pos()), Verdict: OK, Detail: "field of the encoder's own class"}
				if !allowed[f.Name()][se.Sel.Name] {
					o.Verdict = VIOL
					o.Detail = fmt.Sprintf("enc.%s is applied to the field %s, which belongs to another token class: the name is printed with the wrong sigil / quoting rule and read back as something else", f.Name(), se.Sel.Name)
				}
				obs = append(obs, o)
				return true
			})
		})
	}
	sort.SliceStable(obs, func(i, j int) bool { return obs[i].Key < obs[j].Key })
	return obs
}

// ---------------------------------------------------------------------------

func ruleENCRAW(c *Ctx) []Obligation {
	var obs []Obligation
	c.eachFunc(pkgASM, func(p *packages.Package, fd *ast.FuncDecl, fn *types.Func) {
		sig := fn.Type().(*types.Signature)
		if sig.Recv() != nil || sig.Params().Len() != 1 || sig.Results().Len() != 1 {
			return
		}
		pt := namedOf(sig.Params().At(0).Type())
		isTok := pt != nil && pt.Obj().Pkg() != nil && pt.Obj().Pkg().Path() == pkgAST && tokenTypes[pt.Obj().Name()]
		isIdent := pt != nil && pt.Obj().Pkg() != nil && pt.Obj().Pkg().Path() == pkgIR && (pt.Obj().Name() == "LocalIdent" || pt.Obj().Name() == "GlobalIdent")
		rt := sig.Results().At(0).Type()
		returnsName := isPlainString(rt) || isNamed(rt, pkgIR, "LocalIdent") || isNamed(rt, pkgIR, "GlobalIdent")
		if !(isTok || isIdent) || !returnsName {
			return
		}
		info := p.TypesInfo
		o := Obligation{Key: funcKey(fn) + " returns raw name bytes", Pos: c.pos(fd.Pos()), Verdict: OK, Detail: "names are slices / unquotings of the token text"}
		ast.Inspect(fd.Body, func(nd ast.Node) bool {
			r, ok := nd.(*ast.ReturnStmt)
			if !ok || len(r.Results) != 1 {
				return true
			}
			ast.Inspect(r.Results[0], func(m ast.Node) bool {
				lit, ok := m.(*ast.BasicLit)
				if !ok || lit.Kind != token.STRING {
					return true
				}
				if tv := info.Types[lit]; tv.Value != nil && strings.Contains(constant.StringVal(tv.Value), `"`) {
					o.Verdict = VIOL
					o.Pos = c.pos(r.Pos())
					o.Detail = fmt.Sprintf("the decoder builds the returned name with a literal containing quote characters (%s): the quotes become part of the name, so a quoted numeric name such as %%\"42\" is stored as `\"42\"` and printed as %%\"\\2242\\22\"", lit.Value)
				}
				return true
			})
			return true
		})
		obs = append(obs, o)
	})
	return obs
}

// strippedSigils reads off a decoder which constant prefix / suffix it removes
// from the token text: the constant second argument of strings.HasPrefix /
// TrimPrefix (HasSuffix / TrimSuffix), directly or through a helper of package
// asm that receives the constant as an argument. cutset names a strings.Trim /
// TrimLeft / TrimRight call, which strips a set of bytes rather than one sigil.
func (c *Ctx) strippedSigils(p *packages.Package, fd *ast.FuncDecl, visiting map[*types.Func]bool) (pre, suf, cutset string) {
	info := p.TypesInfo
	// constant strings held in the fields of a small syntax object (a local or package-level
	// variable initialised with a composite literal, or the literal itself):
	// fbind[receiver object][field] inside a method called on it
	type fields = map[string]string
	var litFields func(e ast.Expr, body ast.Node, fbind map[types.Object]fields) fields
	litFields = func(e ast.Expr, body ast.Node, fbind map[types.Object]fields) fields {
		e = unparen(e)
		if u, ok := e.(*ast.UnaryExpr); ok && u.Op == token.AND {
			e = unparen(u.X)
		}
		switch x := e.(type) {
		case *ast.CompositeLit:
			st := structOf(info.TypeOf(x))
			if st == nil {
				return nil
			}
			out := fields{}
			for i, el := range x.Elts {
				name, val := "", el
				if kv, ok := el.(*ast.KeyValueExpr); ok {
					if id, ok := kv.Key.(*ast.Ident); ok {
						name, val = id.Name, kv.Value
					}
				} else if i < st.NumFields() {
					name = st.Field(i).Name()
				}
				if tv := info.Types[val]; name != "" && tv.Value != nil && tv.Value.Kind() == constant.String {
					out[name] = constant.StringVal(tv.Value)
				}
			}
			return out
		case *ast.Ident:
			obj := info.ObjectOf(x)
			if f, ok := fbind[obj]; ok {
				return f
			}
			v, isVar := obj.(*types.Var)
			if !isVar {
				return nil
			}
			var init ast.Expr
			n := 0
			find := func(root ast.Node) {
				ast.Inspect(root, func(nd ast.Node) bool {
					switch y := nd.(type) {
					case *ast.AssignStmt:
						for i, l := range y.Lhs {
							if id, ok := l.(*ast.Ident); ok && info.ObjectOf(id) == obj {
								n++
								if len(y.Lhs) == len(y.Rhs) {
									init = y.Rhs[i]
								}
							}
						}
					case *ast.ValueSpec:
						for i, id := range y.Names {
							if info.ObjectOf(id) == obj && i < len(y.Values) {
								n++
								init = y.Values[i]
							}
						}
					}
					return true
				})
			}
			if v.Parent() == v.Pkg().Scope() {
				if pk := c.pkg(v.Pkg().Path()); pk != nil {
					for _, f := range pk.Syntax {
						for _, d := range f.Decls {
							if gd, ok := d.(*ast.GenDecl); ok {
								find(gd)
							}
						}
					}
				}
			} else if body != nil {
				find(body)
			}
			if n == 1 && init != nil {
				if _, isID := unparen(init).(*ast.Ident); !isID {
					return litFields(init, body, fbind)
				}
			}
		}
		return nil
	}
	constOf := func(e ast.Expr, bind map[types.Object]string, body ast.Node, fbind map[types.Object]fields) (string, bool) {
		if tv := info.Types[e]; tv.Value != nil && tv.Value.Kind() == constant.String {
			return constant.StringVal(tv.Value), true
		}
		switch x := unparen(e).(type) {
		case *ast.Ident:
			if v, ok := bind[info.ObjectOf(x)]; ok {
				return v, true
			}
		case *ast.SelectorExpr:
			if sel, ok := info.Selections[x]; ok && sel.Kind() == types.FieldVal {
				if f := litFields(x.X, body, fbind); f != nil {
					if v, ok := f[x.Sel.Name]; ok {
						return v, true
					}
				}
			}
		}
		return "", false
	}
	var scan func(p *packages.Package, fd *ast.FuncDecl, bind map[types.Object]string, fbind map[types.Object]fields)
	scan = func(p *packages.Package, fd *ast.FuncDecl, bind map[types.Object]string, fbind map[types.Object]fields) {
		info = p.TypesInfo
		ast.Inspect(fd.Body, func(nd ast.Node) bool {
			call, ok := nd.(*ast.CallExpr)
			if !ok {
				return true
			}
			f := calleeOf(info, call)
			if f == nil || f.Pkg() == nil {
				return true
			}
			if f.Pkg().Path() == "strings" && len(call.Args) == 2 {
				v, isConst := constOf(call.Args[1], bind, fd.Body, fbind)
				switch f.Name() {
				case "HasPrefix", "TrimPrefix":
					if isConst {
						pre = v
					}
				case "HasSuffix", "TrimSuffix":
					if isConst {
						suf = v
					}
				case "Trim", "TrimLeft", "TrimRight":
					cutset = "strings." + f.Name()
				}
				return true
			}
			if f.Pkg().Path() == pkgASM && !visiting[f] {
				hfd := c.funcDecl(f)
				if hfd == nil || hfd.Body == nil {
					return true
				}
				sig := f.Type().(*types.Signature)
				nb := map[types.Object]string{}
				nfb := map[types.Object]fields{}
				for i, a := range call.Args {
					if i >= sig.Params().Len() {
						break
					}
					if v, ok := constOf(a, bind, fd.Body, fbind); ok {
						nb[sig.Params().At(i)] = v
					} else if fl := litFields(a, fd.Body, fbind); len(fl) > 0 {
						nfb[sig.Params().At(i)] = fl
					}
				}
				if se, ok := unparen(call.Fun).(*ast.SelectorExpr); ok && sig.Recv() != nil {
					if fl := litFields(se.X, fd.Body, fbind); len(fl) > 0 {
						nfb[sig.Recv()] = fl
					}
				}
				if len(nb) == 0 && len(nfb) == 0 {
					return true
				}
				visiting[f] = true
				saved := info
				scan(c.declPkg[hfd], hfd, nb, nfb)
				info = saved
				delete(visiting, f)
			}
			return true
		})
	}
	scan(p, fd, map[types.Object]string{}, map[types.Object]map[string]string{})
	return pre, suf, cutset
}

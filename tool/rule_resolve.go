package main

import (
	"fmt"
	"go/ast"
	"go/token"
	"go/types"
	"regexp"
	"strings"

	"golang.org/x/tools/go/packages"
)

// Engine B — resolution and error discipline in package asm (C04, C05).

func init() {
	register(&Rule{
		Name:  "LK-1",
		Doc:   "no single-value lookup in a map whose elements are pointers or interfaces (a miss yields nil, which is then dereferenced or stored) except the append-merge idiom and frozen phase-order exemptions",
		Floor: 1,
		Run:   ruleLK1,
	})
	register(&Rule{
		Name:  "LK-2",
		Doc:   "every comma-ok lookup of a decoded identifier in an index of definitions returns a non-nil error on a miss (never panics, never substitutes a fresh object) and hands out the looked-up object itself on a hit",
		Floor: 10,
		Run:   ruleLK2,
	})
	register(&Rule{
		Name:  "DUP",
		Doc:   "every insertion of a decoded identifier into an index of definitions is preceded by a presence test whose hit branch returns an error on every path (frozen exemptions: the two indices LLVM itself merges)",
		Floor: 6,
		Run:   ruleDUP,
	})
	register(&Rule{
		Name:  "ERR",
		Doc:   "the error result of every call to a function of package asm is tested and, when non-nil, returned (possibly wrapped): never discarded, never turned into a panic",
		Floor: 300,
		Run:   ruleERR,
	})
	register(&Rule{
		Name:  "NILMOD",
		Doc:   "every return of translate / Parse* that carries a non-nil error carries a nil module",
		Floor: 8,
		Run:   ruleNILMOD,
	})
}

// identDecoders: functions of asm that turn an AST identifier token into an
// index key, recognised by their parameter type.
var identNodeTypes = map[string]bool{
	"GlobalIdent": true, "LocalIdent": true, "LabelIdent": true, "ComdatName": true,
	"MetadataID": true, "MetadataName": true, "AttrGroupID": true,
}

func (c *Ctx) isIdentDecoder(fn *types.Func) bool {
	if fn == nil || fn.Pkg() == nil || fn.Pkg().Path() != pkgASM {
		return false
	}
	sig := fn.Type().(*types.Signature)
	if sig.Recv() != nil || sig.Params().Len() != 1 {
		return false
	}
	t := sig.Params().At(0).Type()
	if n := namedOf(t); n != nil && n.Obj().Pkg() != nil {
		if n.Obj().Pkg().Path() == pkgAST && identNodeTypes[n.Obj().Name()] {
			return true
		}
		// getTypeName(ir.LocalIdent) string: decodes a type name from a decoded local identifier
		if n.Obj().Pkg().Path() == pkgIR && n.Obj().Name() == "LocalIdent" && sig.Results().Len() == 1 {
			if b, ok := sig.Results().At(0).Type().(*types.Basic); ok && b.Kind() == types.String {
				return true
			}
		}
	}
	return false
}

// keyIsDecoded reports whether key derives (through local definitions) from a call to an identifier decoder.
func (c *Ctx) keyIsDecoded(info *types.Info, defs map[types.Object][]ast.Expr, key ast.Expr) bool {
	found := false
	seen := map[types.Object]bool{}
	var walk func(e ast.Expr)
	walk = func(e ast.Expr) {
		ast.Inspect(e, func(n ast.Node) bool {
			if found {
				return false
			}
			switch n := n.(type) {
			case *ast.CallExpr:
				if c.isIdentDecoder(calleeOf(info, n)) {
					found = true
					return false
				}
			case *ast.Ident:
				obj := info.Uses[n]
				if obj != nil && !seen[obj] {
					seen[obj] = true
					for _, d := range defs[obj] {
						walk(d)
					}
				}
			}
			return true
		})
	}
	walk(key)
	return found
}

// mapFieldName names the map being indexed: the selected field path (gen.new.globals → newIndex.globals).
func mapFieldName(info *types.Info, x ast.Expr) string {
	x = unparen(x)
	if se, ok := x.(*ast.SelectorExpr); ok {
		if sel, ok := info.Selections[se]; ok && sel.Kind() == types.FieldVal {
			owner := "?"
			if n := namedOf(sel.Recv()); n != nil {
				owner = n.Obj().Name()
			}
			return owner + "." + se.Sel.Name
		}
	}
	if id, ok := x.(*ast.Ident); ok {
		return id.Name
	}
	return exprString(x)
}

type parentMap map[ast.Node]ast.Node

func buildParents(root ast.Node) parentMap {
	pm := parentMap{}
	var stack []ast.Node
	ast.Inspect(root, func(n ast.Node) bool {
		if n == nil {
			stack = stack[:len(stack)-1]
			return true
		}
		if len(stack) > 0 {
			pm[n] = stack[len(stack)-1]
		}
		stack = append(stack, n)
		return true
	})
	return pm
}

// lk1Exempt: frozen exemptions of LK-1 keyed "func map".
var lk1Exempt = map[string]string{
	"asm.(*generator).translateTypeDefs newIndex.typeDefs": "phase order: createTypeDefs stores new.typeDefs[k] for every key of old.typeDefs on all non-error paths (checked by this rule's companion obligation) and runs first in resolveTypeDefs; the loop ranges over the same key set",
}

// keyLists: slice fields of the generator's indices that list exactly keys of one of its map
// fields — every append site `L = append(L, k)` in package asm lies in a clause (or
// function body) that also stores `M[k] = …` under the same key expression. Ranging over
// such a list yields keys that are present in the map.
func (c *Ctx) keyLists() map[string]string {
	if v, ok := c.memo["keyLists"]; ok {
		return v.(map[string]string)
	}
	out := map[string]string{}
	bad := map[string]bool{}
	c.eachFunc(pkgASM, func(p *packages.Package, fd *ast.FuncDecl, fn *types.Func) {
		info := p.TypesInfo
		pm := buildParents(fd.Body)
		ast.Inspect(fd.Body, func(n ast.Node) bool {
			as, ok := n.(*ast.AssignStmt)
			if !ok || len(as.Lhs) != 1 || len(as.Rhs) != 1 {
				return true
			}
			call, ok := unparen(as.Rhs[0]).(*ast.CallExpr)
			if !ok || exprString(call.Fun) != "append" || len(call.Args) != 2 || exprString(call.Args[0]) != exprString(as.Lhs[0]) {
				return true
			}
			if _, isSel := unparen(as.Lhs[0]).(*ast.SelectorExpr); !isSel {
				return true
			}
			lname := mapFieldName(info, as.Lhs[0])
			if !strings.HasPrefix(lname, "oldIndex.") && !strings.HasPrefix(lname, "newIndex.") {
				return true
			}
			k := exprString(call.Args[1])
			// enclosing clause or function body
			var scope ast.Node = fd.Body
			for q := pm[as]; q != nil; q = pm[q] {
				if cc, ok := q.(*ast.CaseClause); ok {
					scope = cc
					break
				}
			}
			found := ""
			ast.Inspect(scope, func(m ast.Node) bool {
				if a2, ok := m.(*ast.AssignStmt); ok {
					for _, l := range a2.Lhs {
						if ix, ok := unparen(l).(*ast.IndexExpr); ok && exprString(ix.Index) == k {
							if _, isMap := info.TypeOf(ix.X).Underlying().(*types.Map); isMap {
								found = mapFieldName(info, ix.X)
							}
						}
					}
				}
				return true
			})
			if found == "" || (out[lname] != "" && out[lname] != found) {
				bad[lname] = true
			} else {
				out[lname] = found
			}
			return true
		})
	})
	for l := range bad {
		delete(out, l)
	}
	c.memo["keyLists"] = out
	return out
}

// keysOfMapFunc: fd collects the keys of one map field of the generator's indices into a local
// slice (`for k := range M { xs = append(xs, k) }`) and returns that slice (sorted or not):
// what it returns are keys of M. Returns the map's name and the slice variable.
func (c *Ctx) keysOfMapFunc(fd *ast.FuncDecl) (string, types.Object) {
	if fd == nil || fd.Body == nil {
		return "", nil
	}
	p := c.declPkg[fd]
	if p == nil {
		return "", nil
	}
	info := p.TypesInfo
	mname, xs := "", types.Object(nil)
	ast.Inspect(fd.Body, func(n ast.Node) bool {
		rs, ok := n.(*ast.RangeStmt)
		if !ok || rs.Key == nil || len(rs.Body.List) != 1 {
			return true
		}
		if _, isMap := info.TypeOf(rs.X).Underlying().(*types.Map); !isMap {
			return true
		}
		as, ok := rs.Body.List[0].(*ast.AssignStmt)
		if !ok || len(as.Lhs) != 1 || len(as.Rhs) != 1 {
			return true
		}
		call, ok := unparen(as.Rhs[0]).(*ast.CallExpr)
		if !ok || exprString(call.Fun) != "append" || len(call.Args) != 2 || exprString(call.Args[0]) != exprString(as.Lhs[0]) || exprString(call.Args[1]) != exprString(rs.Key) {
			return true
		}
		if id, ok := as.Lhs[0].(*ast.Ident); ok {
			mname, xs = mapFieldName(info, rs.X), info.ObjectOf(id)
		}
		return true
	})
	if xs == nil {
		return "", nil
	}
	// every return yields the slice
	okRet := true
	ast.Inspect(fd.Body, func(n ast.Node) bool {
		switch x := n.(type) {
		case *ast.FuncLit:
			return false
		case *ast.ReturnStmt:
			if len(x.Results) != 1 {
				okRet = false
			} else if id, ok := unparen(x.Results[0]).(*ast.Ident); !ok || info.ObjectOf(id) != xs {
				okRet = false
			}
		}
		return true
	})
	if !okRet {
		return "", nil
	}
	return mname, xs
}

// rangedKeyList: e is the value variable of a `range` over a key list of the map named mname.
func (c *Ctx) rangedKeyList(info *types.Info, pm parentMap, e ast.Expr, at ast.Node, mname string) (string, bool) {
	id, ok := unparen(e).(*ast.Ident)
	if !ok {
		return "", false
	}
	for q := pm[at]; q != nil; q = pm[q] {
		rs, ok := q.(*ast.RangeStmt)
		if !ok || rs.Value == nil {
			continue
		}
		if v, ok := rs.Value.(*ast.Ident); ok && info.ObjectOf(v) == info.ObjectOf(id) {
			l := mapFieldName(info, rs.X)
			if c.keyLists()[l] == mname {
				return l, true
			}
			// the keys handed out by a helper that collects them from the map itself
			if call, ok := unparen(rs.X).(*ast.CallExpr); ok {
				if m, _ := c.keysOfMapFunc(c.funcDecl(calleeOf(info, call))); m == mname && m != "" {
					return exprString(call.Fun) + "()", true
				}
			}
		}
	}
	return "", false
}

func ruleLK1(c *Ctx) []Obligation {
	var obs []Obligation
	c.eachFunc(pkgASM, func(p *packages.Package, fd *ast.FuncDecl, fn *types.Func) {
		info := p.TypesInfo
		pm := buildParents(fd.Body)
		ord := map[string]int{}
		ast.Inspect(fd.Body, func(n ast.Node) bool {
			ix, ok := n.(*ast.IndexExpr)
			if !ok {
				return true
			}
			mt, ok := info.TypeOf(ix.X).Underlying().(*types.Map)
			if !ok {
				return true
			}
			switch mt.Elem().Underlying().(type) {
			case *types.Pointer, *types.Interface:
			default:
				return true
			}
			par := pm[ix]
			// LHS of an assignment (a store) or comma-ok form
			if as, ok := par.(*ast.AssignStmt); ok {
				for _, l := range as.Lhs {
					if l == ix {
						return true
					}
				}
				if len(as.Lhs) == 2 && len(as.Rhs) == 1 && as.Rhs[0] == ix {
					return true
				}
			}
			if vs, ok := par.(*ast.ValueSpec); ok && len(vs.Names) == 2 && len(vs.Values) == 1 {
				return true
			}
			// the looked-up value is only the operand of a comma-ok type assertion: a missing key gives
			// nil, which fails the assertion like any other kind does
			if ta, ok := par.(*ast.TypeAssertExpr); ok && ta.X == ast.Expr(ix) && ta.Type != nil {
				if as, ok := pm[ta].(*ast.AssignStmt); ok && len(as.Lhs) == 2 && len(as.Rhs) == 1 {
					return true
				}
			}
			mname := mapFieldName(info, ix.X)
			key := fmt.Sprintf("%s %s", funcKey(fn), mname)
			ord[key]++
			if ord[key] > 1 {
				key += fmt.Sprintf("#%d", ord[key])
			}
			o := Obligation{Key: key, Pos: c.pos(ix.Pos()), Verdict: VIOL, Tags: asmTags(fn.Name(), mname)}
			if why, ok := lk1Exempt[funcKey(fn)+" "+mname]; ok {
				o.Verdict, o.Detail = EXEMPT, why
			} else if m, xs := c.keysOfMapFunc(fd); m == mname && xs != nil && func() bool {
				// inside the collecting helper: M[xs[i]] with xs the slice of collected keys
				if in, ok := unparen(ix.Index).(*ast.IndexExpr); ok {
					if id, ok := unparen(in.X).(*ast.Ident); ok && info.ObjectOf(id) == xs {
						return true
					}
				}
				return false
			}() {
				o.Verdict, o.Detail = OK, "the key is an element of the slice into which this function collected the keys of "+mname
			} else if l, ok := c.rangedKeyList(info, pm, ix.Index, ix, mname); ok {
				o.Verdict, o.Detail = OK, fmt.Sprintf("the key is drawn from %s, which lists keys of %s only (every append to it sits next to a store into the map under the same key)", l, mname)
			} else {
				o.Detail = fmt.Sprintf("%s is read without `, ok`: for a name that is not in the index the result is nil, which is then used (nil dereference or a silently missing definition) instead of an `undefined` error", exprString(ix))
			}
			obs = append(obs, o)
			return true
		})
	})
	// companion obligation for the phase-order exemption: createTypeDefs covers every ranged key
	obs = append(obs, c.lk1PhaseOrder()...)
	return obs
}

// lk1PhaseOrder checks the reason of the typeDefs exemption: some function of
// asm ranges over oldIndex.typeDefs and on every non-error path of the loop
// body stores newIndex.typeDefs[key].
func (c *Ctx) lk1PhaseOrder() []Obligation {
	o := Obligation{Rule: "LK-1", Key: "phase order: new.typeDefs ⊇ old.typeDefs", Verdict: VIOL,
		Detail: "no loop over old.typeDefs that stores new.typeDefs[key] on every non-error path was found: the unchecked lookup in the translate phase can miss"}
	// loops (anywhere in package asm) that store new.typeDefs[key] as their last statement, with
	// the condition under which an entry is skipped ("" = none)
	type loop struct {
		rs     *ast.RangeStmt
		filter string
		neg    bool
		fn     *types.Func
	}
	var loops []loop
	c.eachFunc(pkgASM, func(p *packages.Package, fd *ast.FuncDecl, fn *types.Func) {
		info := p.TypesInfo
		ast.Inspect(fd.Body, func(n ast.Node) bool {
			rs, ok := n.(*ast.RangeStmt)
			if !ok {
				return true
			}
			k := ""
			switch {
			case mapFieldName(info, rs.X) == "oldIndex.typeDefs" && rs.Key != nil:
				k = exprString(rs.Key)
			case c.keyLists()[mapFieldName(info, rs.X)] == "oldIndex.typeDefs" && rs.Value != nil:
				k = exprString(rs.Value) // a loop over the list of the map's keys
			case rs.Value != nil && func() bool {
				call, ok := unparen(rs.X).(*ast.CallExpr)
				if !ok {
					return false
				}
				m, _ := c.keysOfMapFunc(c.funcDecl(calleeOf(info, call)))
				return m == "oldIndex.typeDefs"
			}():
				k = exprString(rs.Value) // a loop over the keys a helper collected from the map
			default:
				return true
			}
			// last statement of the body must be the store; earlier exits must be error returns
			body := rs.Body.List
			if len(body) == 0 {
				return true
			}
			as, ok := body[len(body)-1].(*ast.AssignStmt)
			if !ok || len(as.Lhs) != 1 {
				return true
			}
			ix, ok := as.Lhs[0].(*ast.IndexExpr)
			if !ok || mapFieldName(info, ix.X) != "newIndex.typeDefs" || exprString(ix.Index) != k {
				return true
			}
			l := loop{rs: rs, fn: fn}
			rest := body[:len(body)-1]
			// `old := gen.old.typeDefs[key]` at the head of a loop over the key list binds what
			// the range over the map itself binds
			for len(rest) > 0 {
				as0, ok := rest[0].(*ast.AssignStmt)
				if !ok || len(as0.Rhs) != 1 {
					break
				}
				ix0, ok := unparen(as0.Rhs[0]).(*ast.IndexExpr)
				if !ok || mapFieldName(info, ix0.X) != "oldIndex.typeDefs" || exprString(ix0.Index) != k {
					break
				}
				rest = rest[1:]
			}
			// one leading filter `if [init;] COND { continue }`
			if len(rest) > 0 {
				if is, ok := rest[0].(*ast.IfStmt); ok && is.Else == nil && len(is.Body.List) == 1 {
					if br, ok := is.Body.List[0].(*ast.BranchStmt); ok && br.Tok == token.CONTINUE {
						init := ""
						if is.Init != nil {
							if ia, ok := is.Init.(*ast.AssignStmt); ok && len(ia.Rhs) == 1 {
								init = exprString(ia.Rhs[0])
							}
						}
						cond := strings.ReplaceAll(exprString(is.Cond), " ", "")
						if strings.HasPrefix(cond, "!") {
							l.neg, cond = true, cond[1:]
						}
						l.filter = init + ";" + cond
						rest = rest[1:]
					}
				}
			}
			okExits := true
			// a `continue` that ends a block in which the error was handed to the collector is an error exit
			sunk := map[ast.Node]bool{}
			for _, st := range rest {
				ast.Inspect(st, func(m ast.Node) bool {
					if blk, ok := m.(*ast.BlockStmt); ok && c.sinksError(info, blk.List) {
						sunk[blk.List[len(blk.List)-1]] = true
					}
					return true
				})
			}
			for _, st := range rest {
				ast.Inspect(st, func(m ast.Node) bool {
					switch m := m.(type) {
					case *ast.BranchStmt:
						if sunk[m] {
							return true
						}
						okExits = false
					case *ast.ReturnStmt:
						if !returnsError(info, []ast.Stmt{m}) {
							okExits = false
						}
					}
					return true
				})
			}
			if okExits {
				loops = append(loops, l)
			}
			return true
		})
	})
	{
		for i, l := range loops {
			fn := l.fn
			covered := l.filter == ""
			how := "for every key of old.typeDefs"
			for j, m := range loops {
				if i != j && l.filter != "" && l.filter == m.filter && l.neg != m.neg {
					covered = true
					how = fmt.Sprintf("for every key of old.typeDefs: two loops skip complementary halves (%s / its negation)", l.filter)
				}
			}
			if covered {
				o.Verdict = OK
				o.Pos = c.pos(l.rs.Pos())
				o.Detail = fmt.Sprintf("%s stores new.typeDefs[key] %s unless it returns an error", funcKey(fn), how)
			}
		}
	}
	return []Obligation{o}
}

// lk2Exempt: frozen exemptions of LK-2 keyed "func map".
var lk2Exempt = map[string]string{}

const lk2AttrGroupWhy = "documented behaviour: a reference to an undefined attribute group materialises an empty group and records it in the index (stated as the one exception in the property)"

func ruleLK2(c *Ctx) []Obligation {
	var obs []Obligation
	c.eachFunc(pkgASM, func(p *packages.Package, fd *ast.FuncDecl, fn *types.Func) {
		info := p.TypesInfo
		defs := collectDefs(info, fd.Body)
		ord := map[string]int{}
		// statement lists, to find the statement following a lookup
		var lists [][]ast.Stmt
		ast.Inspect(fd.Body, func(n ast.Node) bool {
			switch n := n.(type) {
			case *ast.BlockStmt:
				lists = append(lists, n.List)
			case *ast.CaseClause:
				lists = append(lists, n.Body)
			}
			return true
		})
		for _, list := range lists {
			for i, st := range list {
				var as *ast.AssignStmt
				var guard *ast.IfStmt
				switch s := st.(type) {
				case *ast.AssignStmt:
					as = s
					if i+1 < len(list) {
						guard, _ = list[i+1].(*ast.IfStmt)
					}
				case *ast.IfStmt:
					if a, ok := s.Init.(*ast.AssignStmt); ok {
						as, guard = a, s
					}
				}
				if as == nil || len(as.Lhs) != 2 || len(as.Rhs) != 1 {
					continue
				}
				ix, ok := unparen(as.Rhs[0]).(*ast.IndexExpr)
				if !ok {
					continue
				}
				if _, ok := info.TypeOf(ix.X).Underlying().(*types.Map); !ok {
					continue
				}
				mname := mapFieldName(info, ix.X)
				// only indices of definitions: newIndex.*, funcGen.locals
				if !strings.HasPrefix(mname, "newIndex.") && mname != "funcGen.locals" {
					continue
				}
				if !c.keyIsDecoded(info, defs, ix.Index) {
					continue // internal consistency lookups with keys taken from the index itself
				}
				key := fmt.Sprintf("%s %s", funcKey(fn), mname)
				ord[key]++
				if ord[key] > 1 {
					key += fmt.Sprintf("#%d", ord[key])
				}
				o := Obligation{Key: key, Pos: c.pos(ix.Pos()), Verdict: OK, Tags: asmTags(fn.Name(), mname)}
				okName := exprString(as.Lhs[1])
				vObj := info.ObjectOf(as.Lhs[0].(*ast.Ident))
				if why, ex := lk2Exempt[funcKey(fn)+" "+mname]; ex {
					o.Verdict, o.Detail = EXEMPT, why
					obs = append(obs, o)
					continue
				}
				// the one exception the property states, recognised by what the code does rather
				// than by the function it sits in: a reference to an undefined attribute group
				// materialises an empty group *and records it in the index under the same key*
				if mname == "newIndex.attrGroupDefs" {
					materialises := false
					ast.Inspect(fd.Body, func(m ast.Node) bool {
						if a2, ok := m.(*ast.AssignStmt); ok && a2.Pos() > as.Pos() {
							for _, l := range a2.Lhs {
								if lx, ok := unparen(l).(*ast.IndexExpr); ok && mapFieldName(info, lx.X) == mname && exprString(lx.Index) == exprString(ix.Index) {
									materialises = true
								}
							}
						}
						return true
					})
					if materialises {
						o.Verdict, o.Detail = EXEMPT, lk2AttrGroupWhy
						obs = append(obs, o)
						continue
					}
				}
				// a lookup helper that hands (value, ok) back: the test is the caller's; every call
				// site must test the returned ok immediately and report the miss as an error
				if guard == nil {
					if how, ok := c.lookupResultReturned(info, fd, fn, as); ok {
						o.Detail = how
						obs = append(obs, o)
						continue
					}
				}
				switch {
				case guard == nil:
					o.Verdict, o.Detail = UNDECIDED, "lookup is not followed by a test of its ok result"
				case exprString(guard.Cond) == "!"+okName:
					switch {
					case returnsError(info, guard.Body.List):
						o.Detail = "miss → error"
						// no fresh object: the miss branch must not assign the value variable
						ast.Inspect(guard.Body, func(m ast.Node) bool {
							if a2, ok := m.(*ast.AssignStmt); ok {
								for _, l := range a2.Lhs {
									if id, ok := l.(*ast.Ident); ok && info.ObjectOf(id) == vObj {
										o.Verdict, o.Detail = VIOL, "the miss branch assigns a substitute to the looked-up variable"
									}
								}
							}
							return true
						})
					case endsInPanic(guard.Body.List):
						o.Verdict, o.Detail = VIOL, "a reference to an undefined name panics instead of returning an error"
					default:
						o.Verdict = VIOL
						o.Detail = "the miss branch neither returns an error nor stops: the reference is silently dropped or bound to a substitute"
					}
				case exprString(guard.Cond) == okName:
					// hit branch first; the miss path is the code after / else
					if guard.Else != nil {
						if eb, ok := guard.Else.(*ast.BlockStmt); ok && returnsError(info, eb.List) {
							o.Detail = "miss (else) → error"
							break
						}
					}
					rest := list[i+1:]
					if st == ast.Stmt(guard) {
						rest = list[i+1:]
					} else {
						rest = list[i+2:]
					}
					if returnsError(info, rest) {
						o.Detail = "miss (fallthrough) → error"
					} else {
						o.Verdict, o.Detail = VIOL, "after a missed lookup the function continues without returning an error"
					}
				default:
					o.Verdict, o.Detail = UNDECIDED, "unrecognised test of the lookup result: "+exprString(guard.Cond)
				}
				// hit path hands out the looked-up object
				if o.Verdict == OK && vObj != nil {
					used := false
					ast.Inspect(fd.Body, func(m ast.Node) bool {
						switch m := m.(type) {
						case *ast.ReturnStmt:
							for _, r := range m.Results {
								ast.Inspect(r, func(q ast.Node) bool {
									if id, ok := q.(*ast.Ident); ok && info.ObjectOf(id) == vObj {
										used = true
									}
									return true
								})
							}
						case *ast.AssignStmt:
							if m == as {
								return true
							}
							for _, r := range m.Rhs {
								ast.Inspect(r, func(q ast.Node) bool {
									if id, ok := q.(*ast.Ident); ok && info.ObjectOf(id) == vObj {
										used = true
									}
									return true
								})
							}
						case *ast.TypeSwitchStmt:
							ast.Inspect(m.Assign, func(q ast.Node) bool {
								if id, ok := q.(*ast.Ident); ok && info.ObjectOf(id) == vObj {
									used = true
								}
								return true
							})
						}
						return true
					})
					if !used {
						o.Verdict, o.Detail = VIOL, "the looked-up object is not what the function returns or stores"
					}
				}
				obs = append(obs, o)
			}
		}
		// an index kept as a slice or array (definitions indexed by ID): there is no comma-ok, a
		// hole yields the zero value — the read must be `v := idx[k]` directly followed by
		// `if v == nil { return …, err }`
		pm := buildParents(fd.Body)
		nSl := 0
		ast.Inspect(fd.Body, func(nd ast.Node) bool {
			ix, ok := nd.(*ast.IndexExpr)
			if !ok {
				return true
			}
			switch info.TypeOf(ix.X).Underlying().(type) {
			case *types.Slice, *types.Array:
			default:
				return true
			}
			mname := mapFieldName(info, ix.X)
			if !strings.HasPrefix(mname, "newIndex.") && mname != "funcGen.locals" {
				return true
			}
			if as, ok := pm[ix].(*ast.AssignStmt); ok {
				for _, l := range as.Lhs {
					if l == ast.Expr(ix) {
						return true // a store
					}
				}
			}
			if !c.keyIsDecoded(info, defs, ix.Index) {
				return true
			}
			nSl++
			o := Obligation{Key: fmt.Sprintf("%s %s (slice) #%d", funcKey(fn), mname, nSl), Pos: c.pos(ix.Pos()), Verdict: VIOL, Tags: asmTags(fn.Name(), mname),
				Detail: "the index is a slice read with an identifier taken from the input: a number inside the range for which no definition exists yields nil, and nothing after the read turns that into an error — the reference is silently bound to nothing (or crashes a later step)"}
			if as, ok := pm[ix].(*ast.AssignStmt); ok && len(as.Lhs) == 1 {
				if v, ok := as.Lhs[0].(*ast.Ident); ok {
					for _, list := range lists {
						for i, st := range list {
							if st != ast.Stmt(as) || i+1 >= len(list) {
								continue
							}
							if g, ok := list[i+1].(*ast.IfStmt); ok && strings.ReplaceAll(exprString(g.Cond), " ", "") == v.Name+"==nil" && returnsError(info, g.Body.List) {
								o.Verdict, o.Detail = OK, "hole → error"
							}
						}
					}
				}
			}
			obs = append(obs, o)
			return true
		})
	})
	return obs
}

// dupExempt: indices whose insertions legitimately skip the duplicate test.
var dupExempt = map[string]string{
	"oldIndex.attrGroupDefs":     "LLVM merges several `attributes #N` definitions of the same ID; appended and merged later",
	"oldIndex.namedMetadataDefs": "LLVM merges repeated named metadata definitions; appended in textual order",
}

func ruleDUP(c *Ctx) []Obligation {
	var obs []Obligation
	c.eachFunc(pkgASM, func(p *packages.Package, fd *ast.FuncDecl, fn *types.Func) {
		info := p.TypesInfo
		defs := collectDefs(info, fd.Body)
		ord := map[string]int{}
		var lists [][]ast.Stmt
		ast.Inspect(fd.Body, func(n ast.Node) bool {
			switch n := n.(type) {
			case *ast.BlockStmt:
				lists = append(lists, n.List)
			case *ast.CaseClause:
				lists = append(lists, n.Body)
			}
			return true
		})
		for _, list := range lists {
			for i, st := range list {
				as, ok := st.(*ast.AssignStmt)
				if !ok || len(as.Lhs) != 1 {
					continue
				}
				ix, ok := unparen(as.Lhs[0]).(*ast.IndexExpr)
				if !ok {
					continue
				}
				if _, ok := info.TypeOf(ix.X).Underlying().(*types.Map); !ok {
					continue
				}
				mname := mapFieldName(info, ix.X)
				if !strings.HasPrefix(mname, "oldIndex.") && mname != "funcGen.locals" {
					continue
				}
				// the key is a decoded identifier, or a parameter (addLocal receives the decoded identifier)
				decoded := c.keyIsDecoded(info, defs, ix.Index)
				if id, ok := unparen(ix.Index).(*ast.Ident); ok && !decoded {
					if v, ok := info.ObjectOf(id).(*types.Var); ok {
						sig := fn.Type().(*types.Signature)
						for j := 0; j < sig.Params().Len(); j++ {
							if sig.Params().At(j).Name() == v.Name() {
								decoded = true
							}
						}
					}
				}
				if !decoded {
					continue
				}
				key := fmt.Sprintf("%s %s", funcKey(fn), mname)
				ord[key]++
				if ord[key] > 1 {
					key += fmt.Sprintf("#%d", ord[key])
				}
				o := Obligation{Key: key, Pos: c.pos(ix.Pos()), Verdict: OK, Tags: asmTags(fn.Name(), mname)}
				if why, ex := dupExempt[mname]; ex {
					o.Verdict, o.Detail = EXEMPT, why
					obs = append(obs, o)
					continue
				}
				// find the guarding presence test among the preceding statements of the same list
				var guard, weakGuard *ast.IfStmt
				var weakExtra ast.Expr
				weakPrev := ""
				for j := i - 1; j >= 0; j-- {
					is, ok := list[j].(*ast.IfStmt)
					if !ok {
						continue
					}
					a, ok := is.Init.(*ast.AssignStmt)
					if !ok || len(a.Lhs) != 2 || len(a.Rhs) != 1 {
						continue
					}
					ix2, ok := unparen(a.Rhs[0]).(*ast.IndexExpr)
					if !ok || exprString(ix2.X) != exprString(ix.X) || exprString(ix2.Index) != exprString(ix.Index) {
						continue
					}
					if exprString(is.Cond) == exprString(a.Lhs[1]) {
						guard = is
						break
					}
					// `ok && EXTRA`: the error is raised only under EXTRA
					if be, ok := unparen(is.Cond).(*ast.BinaryExpr); ok && be.Op == token.LAND && exprString(be.X) == exprString(a.Lhs[1]) && returnsError(info, is.Body.List) {
						weakGuard, weakExtra, weakPrev = is, be.Y, exprString(a.Lhs[0])
					}
				}
				// canonical description of the redefinitions that are let through; it is part of the
				// construct key, so that a recorded finding names one specific exception and any
				// other exception is a different construct
				norm := func(e string, prev string) string {
					if prev != "" && prev != "_" {
						e = regexp.MustCompile(`\b`+regexp.QuoteMeta(prev)+`\b`).ReplaceAllString(e, "$$prev")
					}
					if len(as.Rhs) == 1 {
						if id, ok := unparen(as.Rhs[0]).(*ast.Ident); ok {
							e = regexp.MustCompile(`\b`+regexp.QuoteMeta(id.Name)+`\b`).ReplaceAllString(e, "$$new")
						}
					}
					return e
				}
				switch {
				case guard == nil && weakGuard != nil:
					o.Key += " [redefinition accepted unless " + norm(exprString(weakExtra), weakPrev) + "]"
					o.Verdict = VIOL
					o.Pos = c.pos(weakGuard.Pos())
					o.Detail = fmt.Sprintf("a name that is already present is rejected only when %s holds: every other redefinition is accepted and overwrites the earlier definition", exprString(weakExtra))
				case guard == nil:
					o.Verdict = VIOL
					o.Detail = fmt.Sprintf("%s is stored without a preceding presence test: a second definition of the same name silently replaces the first", exprString(ix))
				case !returnsError(info, guard.Body.List) && c.sinksError(info, guard.Body.List):
					o.Detail = "present → error handed to the collector and the entity skipped (the earlier definition is kept), else store"
				case !returnsError(info, guard.Body.List):
					exc := "an unrecognised condition"
					if len(guard.Body.List) == 1 {
						if inner, ok := guard.Body.List[0].(*ast.IfStmt); ok && inner.Else == nil && (returnsError(info, inner.Body.List) || c.sinksError(info, inner.Body.List)) {
							prev := exprString(guard.Init.(*ast.AssignStmt).Lhs[0])
							if ia, ok := inner.Init.(*ast.AssignStmt); ok && len(ia.Rhs) == 1 && len(ia.Lhs) == 2 && strings.ReplaceAll(exprString(inner.Cond), " ", "") == "!"+exprString(ia.Lhs[1]) {
								if ta, ok := unparen(ia.Rhs[0]).(*ast.TypeAssertExpr); ok && ta.Type != nil {
									exc = norm(exprString(ta.X), prev) + " is " + exprString(ta.Type)
								}
							} else if inner.Init == nil {
								exc = "!(" + norm(exprString(inner.Cond), prev) + ")"
							}
						}
					}
					o.Key += " [redefinition accepted when " + exc + "]"
					o.Verdict = VIOL
					o.Pos = c.pos(guard.Pos())
					o.Detail = "the presence test does not return an error on every path of its hit branch: a redefinition is accepted, and overwrites the earlier definition, when " + exc
				default:
					o.Detail = "present → error, else store"
				}
				obs = append(obs, o)
			}
		}
	})
	return obs
}

// errPanicExempt: a call whose error cannot occur for any token the lexer produces — the
// integer-literal translator applied to an *ast.IntConst with the literal dummy type
// types.I64 (the only errors of that translator are a type that is not an integer type and
// a literal constant.NewIntFromString rejects; the lexical forms of an IntConst token —
// decimal, u0x, s0x, true / false — are all accepted). Decided from the call, not from the
// names of caller and callee.
func errPanicExempt(info *types.Info, callee *types.Func, call *ast.CallExpr) (string, bool) {
	sig := callee.Type().(*types.Signature)
	if sig.Params().Len() != 2 || len(call.Args) != 2 || sig.Results().Len() != 2 {
		return "", false
	}
	if !isNamed(sig.Params().At(1).Type(), pkgAST, "IntConst") || !isNamed(sig.Results().At(0).Type(), pkgCONS, "Int") {
		return "", false
	}
	se, ok := unparen(call.Args[0]).(*ast.SelectorExpr)
	if !ok {
		return "", false
	}
	v, ok := info.Uses[se.Sel].(*types.Var)
	if !ok || v.Pkg() == nil || v.Pkg().Path() != pkgTYP || v.Name() != "I64" {
		return "", false
	}
	return "the argument is an ast.IntConst token whose lexical forms (decimal, u0x, s0x, true/false) constant.NewIntFromString accepts, and the dummy type is the literal types.I64, so the *types.IntType assertion cannot fail", true
}

// is2: the guard is not the statement whose init the call itself is (that form is handled first).
func is2(parent ast.Node, guard *ast.IfStmt) bool { return parent != ast.Node(guard) }

// errSinks: the error collectors of package asm — functions with an error parameter and a single
// error result that hand the parameter back on one path and otherwise record it in a field of their
// receiver (gen.errs = append(gen.errs, …)) and return nil: `if err := gen.report(node, err); err != nil
// { return err }` then either stops the translation or has noted the error for the final report.
func (c *Ctx) errSinks() map[*types.Func]int {
	if c.errSinkCache != nil {
		return c.errSinkCache
	}
	out := map[*types.Func]int{}
	c.eachFunc(pkgASM, func(p *packages.Package, fd *ast.FuncDecl, fn *types.Func) {
		info := p.TypesInfo
		sig := fn.Type().(*types.Signature)
		if sig.Results().Len() != 1 || !isErrorType(sig.Results().At(0).Type()) || sig.Recv() == nil {
			return
		}
		pi := -1
		for i := 0; i < sig.Params().Len(); i++ {
			if isErrorType(sig.Params().At(i).Type()) {
				pi = i
			}
		}
		if pi < 0 {
			return
		}
		param := sig.Params().At(pi)
		returnsParam, returnsNil, records := false, false, false
		var fields []types.Object
		ast.Inspect(fd.Body, func(n ast.Node) bool {
			switch x := n.(type) {
			case *ast.ReturnStmt:
				if len(x.Results) == 1 {
					if id, ok := unparen(x.Results[0]).(*ast.Ident); ok {
						if info.ObjectOf(id) == types.Object(param) {
							returnsParam = true
						}
						if id.Name == "nil" {
							returnsNil = true
						}
					}
				}
			case *ast.AssignStmt:
				// a store into a field of the receiver whose right-hand side mentions the parameter
				// (directly or through a local built from it)
				for _, l := range x.Lhs {
					if se, ok := unparen(l).(*ast.SelectorExpr); ok {
						if sel, ok := info.Selections[se]; ok && sel.Kind() == types.FieldVal {
							records = true
							fields = append(fields, sel.Obj())
						}
					}
				}
			}
			return true
		})
		if returnsParam && returnsNil && records {
			out[fn] = pi
			if c.errSinkFields == nil {
				c.errSinkFields = map[types.Object]bool{}
			}
			for _, f := range fields {
				c.errSinkFields[f] = true
			}
		}
	})
	c.errSinkCache = out
	return out
}

// mentionsSinkField: the expression reads the field in which a collector records errors
// (`len(gen.errs) > 0`): what it guards is an error path.
func (c *Ctx) mentionsSinkField(info *types.Info, e ast.Node) bool {
	c.errSinks()
	found := false
	ast.Inspect(e, func(n ast.Node) bool {
		if se, ok := n.(*ast.SelectorExpr); ok {
			if sel, ok := info.Selections[se]; ok && c.errSinkFields[sel.Obj()] {
				found = true
			}
		}
		return !found
	})
	return found
}

// sinksError: the statement list hands an error to a collector, returns the collector's own non-nil
// result, and then leaves the current step (return / continue / break) — the error is recorded, not dropped.
func (c *Ctx) sinksError(info *types.Info, list []ast.Stmt) bool {
	if len(list) == 0 {
		return false
	}
	switch last := list[len(list)-1].(type) {
	case *ast.ReturnStmt:
	case *ast.BranchStmt:
		if last.Tok != token.CONTINUE && last.Tok != token.BREAK {
			return false
		}
	default:
		return false
	}
	sinks := c.errSinks()
	for _, st := range list {
		is, ok := st.(*ast.IfStmt)
		if !ok || is.Init == nil {
			continue
		}
		as, ok := is.Init.(*ast.AssignStmt)
		if !ok || len(as.Rhs) != 1 {
			continue
		}
		call, ok := unparen(as.Rhs[0]).(*ast.CallExpr)
		if !ok {
			continue
		}
		if _, isSink := sinks[calleeOf(info, call)]; isSink && returnsError(info, is.Body.List) {
			return true
		}
	}
	return false
}

func ruleERR(c *Ctx) []Obligation {
	var obs []Obligation
	c.eachFunc(pkgASM, func(p *packages.Package, fd *ast.FuncDecl, fn *types.Func) {
		info := p.TypesInfo
		pm := buildParents(fd.Body)
		ord := map[string]int{}
		ast.Inspect(fd.Body, func(n ast.Node) bool {
			call, ok := n.(*ast.CallExpr)
			if !ok {
				return true
			}
			callee := calleeOf(info, call)
			if callee == nil || callee.Pkg() == nil || callee.Pkg().Path() != pkgASM {
				return true
			}
			rs := callee.Type().(*types.Signature).Results()
			if rs.Len() == 0 || !isErrorType(rs.At(rs.Len()-1).Type()) {
				return true
			}
			key := fmt.Sprintf("%s→%s", funcKey(fn), funcKey(callee))
			ord[key]++
			if ord[key] > 1 {
				key += fmt.Sprintf("#%d", ord[key])
			}
			o := Obligation{Key: key, Pos: c.pos(call.Pos()), Verdict: OK, Tags: asmTags(fn.Name(), callee.Name())}
			par := pm[call]
			for {
				if pe, ok := par.(*ast.ParenExpr); ok {
					par = pm[pe]
					continue
				}
				break
			}
			// an error constructor — a function whose only result is the error it builds — used as the
			// value of a panic: panic(errNotImplemented(kind, n)) is fmt.Errorf by another name, not a
			// failed operation whose error is dropped
			if outer, ok := par.(*ast.CallExpr); ok && rs.Len() == 1 {
				if id, ok := unparen(outer.Fun).(*ast.Ident); ok && id.Name == "panic" {
					if _, isBuiltin := info.ObjectOf(id).(*types.Builtin); isBuiltin {
						o.Detail = "an error constructor (single result) used as the value of a panic"
						obs = append(obs, o)
						return true
					}
				}
			}
			if outer, ok := par.(*ast.CallExpr); ok {
				if pi, isSink := c.errSinks()[calleeOf(info, outer)]; isSink && pi < len(outer.Args) && unparen(outer.Args[pi]) == ast.Expr(call) {
					o.Detail = "handed to the error collector, whose own result is judged at that call"
					obs = append(obs, o)
					return true
				}
			}
			switch par := par.(type) {
			case *ast.ReturnStmt:
				o.Detail = "returned directly"
			case *ast.ExprStmt:
				o.Verdict, o.Detail = VIOL, "the call's error result is ignored"
			case *ast.AssignStmt:
				if len(par.Lhs) != rs.Len() {
					o.Verdict, o.Detail = UNDECIDED, "unrecognised assignment shape"
					break
				}
				errLhs, ok := par.Lhs[len(par.Lhs)-1].(*ast.Ident)
				if !ok {
					o.Verdict, o.Detail = UNDECIDED, "error stored into a non-identifier"
					break
				}
				if errLhs.Name == "_" {
					o.Verdict, o.Detail = VIOL, "the call's error result is discarded with `_`"
					break
				}
				errObj := info.ObjectOf(errLhs)
				// the test: enclosing if (init form) or the next statement
				var guard *ast.IfStmt
				if is, ok := pm[par].(*ast.IfStmt); ok && is.Init == par {
					guard = is
				} else {
					// the statement control reaches next: the following sibling, or — when the
					// assignment ends a case / if body — the statement after the enclosing
					// switch / if (one test shared by all arms)
					guard, _ = nextStmtAfter(pm, par).(*ast.IfStmt)
				}
				if guard == nil {
					o.Verdict, o.Detail = VIOL, "the error is not tested immediately after the call"
					break
				}
				// `_, err := f(); if err := gen.report(node, err); err != nil { return … }`
				if ia, ok := guard.Init.(*ast.AssignStmt); ok && len(ia.Rhs) == 1 && is2(pm[par], guard) {
					if sc, ok := unparen(ia.Rhs[0]).(*ast.CallExpr); ok {
						if pi, isSink := c.errSinks()[calleeOf(info, sc)]; isSink && pi < len(sc.Args) {
							if id, ok := unparen(sc.Args[pi]).(*ast.Ident); ok && info.ObjectOf(id) == errObj && returnsError(info, guard.Body.List) {
								o.Detail = "handed to the error collector in the next statement, whose own result is returned when non-nil"
								break
							}
						}
					}
				}
				be, ok := guard.Cond.(*ast.BinaryExpr)
				if !ok || be.Op != token.NEQ || exprString(be.Y) != "nil" {
					o.Verdict, o.Detail = UNDECIDED, "unrecognised error test: "+exprString(guard.Cond)
					break
				}
				if id, ok := unparen(be.X).(*ast.Ident); !ok || info.ObjectOf(id) != errObj {
					o.Verdict, o.Detail = VIOL, "the statement after the call tests something other than its error"
					break
				}
				switch {
				case returnsError(info, guard.Body.List):
					o.Detail = "tested; non-nil → returned"
				case c.sinksError(info, guard.Body.List):
					o.Detail = "tested; non-nil → handed to the error collector (returned if the collector says so, else recorded) and the step is abandoned"
				case endsInPanic(guard.Body.List):
					if why, ex := errPanicExempt(info, callee, call); ex {
						o.Verdict, o.Detail = EXEMPT, why
					} else {
						o.Verdict = VIOL
						o.Pos = c.pos(guard.Pos())
						o.Detail = fmt.Sprintf("the error of %s is turned into a panic: an input error (e.g. an undefined name inside this construct) crashes the caller instead of being reported", callee.Name())
					}
				default:
					o.Verdict, o.Detail = VIOL, "a non-nil error is neither returned nor stops the translation"
				}
			default:
				o.Verdict, o.Detail = UNDECIDED, fmt.Sprintf("call with an error result used in an unrecognised context (%T)", par)
			}
			obs = append(obs, o)
			return true
		})
	})
	return obs
}

// nextStmtAfter returns the statement that control reaches after st completes
// normally, in structured code: the next sibling, or the statement following
// the enclosing if / switch when st is the last statement of one of its arms.
// nil when st ends a loop body or the function.
func nextStmtAfter(pm parentMap, st ast.Stmt) ast.Stmt {
	var cur ast.Node = st
	for {
		parent := pm[cur]
		var list []ast.Stmt
		switch p := parent.(type) {
		case *ast.BlockStmt:
			list = p.List
		case *ast.CaseClause:
			list = p.Body
		case *ast.CommClause:
			list = p.Body
		}
		if list != nil {
			for i, s := range list {
				if ast.Node(s) == cur {
					if i+1 < len(list) {
						return list[i+1]
					}
				}
			}
			// last statement of the list: continue after the construct that owns the list
			switch p := parent.(type) {
			case *ast.BlockStmt:
				switch gp := pm[p].(type) {
				case *ast.IfStmt:
					cur = gp
					// an else-if chain: climb to the outermost if
					for {
						if outer, ok := pm[cur].(*ast.IfStmt); ok && outer.Else == cur {
							cur = outer
							continue
						}
						break
					}
					continue
				case *ast.SwitchStmt, *ast.TypeSwitchStmt, *ast.SelectStmt:
					cur = gp
					continue
				case *ast.BlockStmt, *ast.CaseClause, *ast.CommClause:
					cur = p
					continue
				default:
					return nil // loop body, function body, function literal
				}
			case *ast.CaseClause, *ast.CommClause:
				// the clause's owner is the body block of the switch
				if blk, ok := pm[p].(*ast.BlockStmt); ok {
					cur = blk
					// falls to the BlockStmt handling on the next iteration via its parent
					switch gp := pm[blk].(type) {
					case *ast.SwitchStmt, *ast.TypeSwitchStmt, *ast.SelectStmt:
						cur = gp
						continue
					}
				}
				return nil
			}
		}
		return nil
	}
}

func ruleNILMOD(c *Ctx) []Obligation {
	var obs []Obligation
	c.eachFunc(pkgASM, func(p *packages.Package, fd *ast.FuncDecl, fn *types.Func) {
		sig := fn.Type().(*types.Signature)
		if sig.Results().Len() != 2 || !isErrorType(sig.Results().At(1).Type()) || !isNamed(sig.Results().At(0).Type(), pkgIR, "Module") {
			return
		}
		info := p.TypesInfo
		i := 0
		ast.Inspect(fd.Body, func(n ast.Node) bool {
			if _, ok := n.(*ast.FuncLit); ok {
				return false
			}
			r, ok := n.(*ast.ReturnStmt)
			if !ok {
				return true
			}
			i++
			o := Obligation{Key: fmt.Sprintf("%s return #%d", funcKey(fn), i), Pos: c.pos(r.Pos()), Verdict: OK}
			switch len(r.Results) {
			case 1:
				if call, ok := r.Results[0].(*ast.CallExpr); ok {
					if cal := calleeOf(info, call); cal != nil && cal.Pkg() != nil && cal.Pkg().Path() == pkgASM {
						o.Detail = "delegates to " + cal.Name()
						break
					}
				}
				o.Verdict, o.Detail = UNDECIDED, "single-expression return that is not a delegation within asm"
			case 2:
				m, e := exprString(r.Results[0]), exprString(r.Results[1])
				switch {
				case e == "nil":
					o.Detail = "success return"
				case m == "nil":
					o.Detail = "error return with nil module"
				default:
					o.Verdict = VIOL
					o.Detail = fmt.Sprintf("returns module %s together with error %s: a caller that ignores the error keeps a partially translated module", m, e)
				}
			default:
				o.Verdict, o.Detail = UNDECIDED, "naked return"
			}
			obs = append(obs, o)
			return true
		})
	})
	return obs
}

// lookupResultReturned: the statement after the lookup `v, ok := m[k]` returns v and ok
// among the function's results, and every call site of the function (in package asm)
// assigns them and tests that ok at once with `if !ok { return …error… }`.
func (c *Ctx) lookupResultReturned(info *types.Info, fd *ast.FuncDecl, fn *types.Func, as *ast.AssignStmt) (string, bool) {
	if len(as.Lhs) != 2 {
		return "", false
	}
	okObj := info.ObjectOf(as.Lhs[1].(*ast.Ident))
	// index of ok among the results of some return statement
	okIdx := -1
	ast.Inspect(fd.Body, func(n ast.Node) bool {
		if r, isRet := n.(*ast.ReturnStmt); isRet && r.Pos() > as.Pos() {
			for i, e := range r.Results {
				if id, isID := unparen(e).(*ast.Ident); isID && info.ObjectOf(id) == okObj {
					okIdx = i
				}
			}
		}
		return true
	})
	if okIdx < 0 {
		return "", false
	}
	sites, good := 0, 0
	c.eachFunc(pkgASM, func(p *packages.Package, fd2 *ast.FuncDecl, _ *types.Func) {
		var lists [][]ast.Stmt
		ast.Inspect(fd2.Body, func(n ast.Node) bool {
			switch n := n.(type) {
			case *ast.BlockStmt:
				lists = append(lists, n.List)
			case *ast.CaseClause:
				lists = append(lists, n.Body)
			}
			return true
		})
		for _, l := range lists {
			for i, st := range l {
				a2, isAs := st.(*ast.AssignStmt)
				if !isAs || len(a2.Rhs) != 1 || okIdx >= len(a2.Lhs) {
					continue
				}
				call, isCall := unparen(a2.Rhs[0]).(*ast.CallExpr)
				if !isCall || calleeOf(p.TypesInfo, call) != fn {
					continue
				}
				sites++
				if i+1 < len(l) {
					if is, isIf := l[i+1].(*ast.IfStmt); isIf && strings.ReplaceAll(exprString(is.Cond), " ", "") == "!"+exprString(a2.Lhs[okIdx]) && returnsError(p.TypesInfo, is.Body.List) {
						good++
					}
				}
			}
		}
	})
	if sites > 0 && sites == good {
		return fmt.Sprintf("(value, ok) handed back to %d call site(s), each: miss → error", sites), true
	}
	return "", false
}

package main

import (
	"fmt"
	"go/ast"
	"go/token"
	"go/types"
	"sort"
	"strings"

	"golang.org/x/tools/go/packages"
)

// TYP / GEP — result types (C06, C07): TYP-1, CACHE-ORDER, GEP-WALK, GEP-VLEN, GEP-SIB.

func init() {
	register(&Rule{
		Name:  "TYP-1",
		Doc:   "wherever a vector type is built with a length taken from an existing vector type (directly, through a local, or through the gep index carrier), the same function also copies that type's Scalable flag into the new type: length and scalability travel together",
		Floor: 8,
		Run:   ruleTYP1,
	})
	register(&Rule{
		Name:  "CACHE-ORDER",
		Doc:   "when package asm forces a lazily cached result type (x.Type() on an object it has just allocated), every field that the lazy computation reads and that asm assigns at all is already set at that point; a field filled later would leave a stale cached type",
		Floor: 1,
		Run:   ruleCACHEORDER,
	})
	register(&Rule{
		Name:  "GEP-WALK",
		Doc:   "the type walk gep.ResultType is the only producer of getelementptr result types: it is called only from the wrappers that build the index list, and every value stored into the Typ of a gep instruction or expression comes from such a wrapper",
		Floor: 4,
		Run:   ruleGEPWALK,
	})
	register(&Rule{
		Name:  "GEP-VLEN",
		Doc:   "each wrapper that builds the gep index list sets every index's vector length (and scalability) from the index operand's type, on every path of the loop body — not only for some index forms",
		Floor: 3,
		Run:   ruleGEPVLEN,
	})
	register(&Rule{
		Name:  "GEP-SIB",
		Doc:   "the three gep index classifiers (parser, instruction, constant expression) classify corresponding constant kinds alike — known value, no value, or per-element vector walk — under the AST↔IR constant correspondence read off the constant translator",
		Floor: 12,
		Run:   ruleGEPSIB,
	})
}

// lenSource finds, for an expression, the vector-typed expression whose .Len it derives from.
type lenFinder struct {
	c    *Ctx
	info *types.Info
	defs map[types.Object][]ast.Expr
}

// sources returns the textual forms of expressions X of type *types.VectorType with X.Len reaching e,
// and whether a gep.Index.VectorLen reaches e.
func (lf *lenFinder) sources(e ast.Expr) (vecs []string, viaIndex bool) {
	seen := map[types.Object]bool{}
	var walk func(e ast.Expr)
	walk = func(e ast.Expr) {
		ast.Inspect(e, func(n ast.Node) bool {
			switch n := n.(type) {
			case *ast.SelectorExpr:
				if n.Sel.Name == "Len" && isNamed(lf.info.TypeOf(n.X), pkgTYP, "VectorType") {
					vecs = append(vecs, exprString(n.X))
				}
				if n.Sel.Name == "VectorLen" && isNamed(lf.info.TypeOf(n.X), pkgGEP, "Index") {
					viaIndex = true
				}
			case *ast.Ident:
				obj := lf.info.Uses[n]
				if obj != nil && !seen[obj] {
					seen[obj] = true
					for _, d := range lf.defs[obj] {
						walk(d)
					}
				}
			}
			return true
		})
	}
	walk(e)
	return
}

func ruleTYP1(c *Ctx) []Obligation {
	var obs []Obligation
	for _, p := range c.llvmPkgs() {
		c.eachFunc(p.PkgPath, func(p *packages.Package, fd *ast.FuncDecl, fn *types.Func) {
			info := p.TypesInfo
			defs := collectDefs(info, fd.Body)
			lf := &lenFinder{c, info, defs}
			ord := 0
			ast.Inspect(fd.Body, func(nd ast.Node) bool {
				var lenExpr ast.Expr
				var pos token.Pos
				switch nd := nd.(type) {
				case *ast.CallExpr:
					if f := calleeOf(info, nd); isPkgFunc(f, pkgTYP, "NewVector") && len(nd.Args) == 2 {
						lenExpr, pos = nd.Args[0], nd.Pos()
					}
				case *ast.CompositeLit:
					if isNamed(info.TypeOf(nd), pkgTYP, "VectorType") {
						for _, el := range nd.Elts {
							if kv, ok := el.(*ast.KeyValueExpr); ok && exprString(kv.Key) == "Len" {
								lenExpr, pos = kv.Value, nd.Pos()
							}
						}
					}
				}
				if lenExpr == nil {
					return true
				}
				vecs, viaIndex := lf.sources(lenExpr)
				if len(vecs) == 0 && !viaIndex {
					return true // length from a literal / syntax, not from another vector type
				}
				ord++
				key := fmt.Sprintf("%s builds a vector type #%d", funcKey(fn), ord)
				o := Obligation{Key: key, Pos: c.pos(pos), Verdict: OK, Tags: asmTags(fn.Name(), fn.Pkg().Path())}
				// the function must assign X.Scalable (or set the Scalable key) from a `.Scalable` / `.VectorScalable` read
				carries := false
				check := func(rhs ast.Expr) {
					ast.Inspect(rhs, func(m ast.Node) bool {
						if se, ok := m.(*ast.SelectorExpr); ok && (se.Sel.Name == "Scalable" || se.Sel.Name == "VectorScalable") {
							carries = true
						}
						if id, ok := m.(*ast.Ident); ok {
							if obj := info.Uses[id]; obj != nil {
								for _, d := range defs[obj] {
									ast.Inspect(d, func(q ast.Node) bool {
										if se, ok := q.(*ast.SelectorExpr); ok && (se.Sel.Name == "Scalable" || se.Sel.Name == "VectorScalable") {
											carries = true
										}
										return true
									})
								}
							}
						}
						return true
					})
				}
				ast.Inspect(fd.Body, func(m ast.Node) bool {
					switch m := m.(type) {
					case *ast.AssignStmt:
						for i, l := range m.Lhs {
							if se, ok := unparen(l).(*ast.SelectorExpr); ok && se.Sel.Name == "Scalable" && isNamed(info.TypeOf(se.X), pkgTYP, "VectorType") && i < len(m.Rhs) {
								check(m.Rhs[i])
							}
						}
					case *ast.KeyValueExpr:
						if exprString(m.Key) == "Scalable" {
							check(m.Value)
						}
					}
					return true
				})
				src := strings.Join(vecs, ", ")
				if viaIndex {
					src = strings.TrimPrefix(src+", gep.Index.VectorLen", ", ")
				}
				if carries {
					o.Detail = "length from " + src + "; Scalable copied"
				} else {
					o.Verdict = VIOL
					o.Detail = fmt.Sprintf("a vector type is built with the length of %s but its Scalable flag is not carried over: for a <vscale x N x T> operand the result is typed as a fixed vector", src)
				}
				obs = append(obs, o)
				return true
			})
		})
	}
	// the gep index carrier must have a field for scalability next to VectorLen
	if tn := c.lookupType(pkgGEP, "Index"); tn != nil {
		st := tn.Type().Underlying().(*types.Struct)
		has := false
		for i := 0; i < st.NumFields(); i++ {
			if b, ok := st.Field(i).Type().(*types.Basic); ok && b.Kind() == types.Bool && strings.Contains(st.Field(i).Name(), "Scalable") {
				has = true
			}
		}
		o := Obligation{Key: "internal/gep.Index carries scalability", Pos: c.pos(tn.Pos()), Verdict: OK, Detail: "VectorLen and a Scalable flag", Tags: []string{"gep"}}
		if !has {
			o.Verdict, o.Detail = VIOL, "the index carrier has a vector length but no scalability flag: a scalable index vector cannot make the result scalable"
		}
		obs = append(obs, o)
	}
	return obs
}

// asmAssigned returns the set "ir.T.F" of IR fields assigned anywhere in package asm (computed by FLD-W).
func (c *Ctx) asmAssigned() map[string]bool {
	out := map[string]bool{}
	for _, o := range c.runRule("FLD-W") {
		if o.Verdict == OK {
			out[o.Key] = true
		}
	}
	return out
}

func ruleCACHEORDER(c *Ctx) []Obligation {
	var obs []Obligation
	assigned := c.asmAssigned()
	c.eachFunc(pkgASM, func(p *packages.Package, fd *ast.FuncDecl, fn *types.Func) {
		info := p.TypesInfo
		// locals defined from a composite literal of an IR type
		lits := map[types.Object]*ast.CompositeLit{}
		ast.Inspect(fd.Body, func(nd ast.Node) bool {
			as, ok := nd.(*ast.AssignStmt)
			if !ok || len(as.Lhs) != 1 || len(as.Rhs) != 1 {
				return true
			}
			rhs := unparen(as.Rhs[0])
			if ue, ok := rhs.(*ast.UnaryExpr); ok && ue.Op == token.AND {
				rhs = ue.X
			}
			if cl, ok := rhs.(*ast.CompositeLit); ok {
				if id, ok := as.Lhs[0].(*ast.Ident); ok {
					lits[info.ObjectOf(id)] = cl
				}
			}
			return true
		})
		ast.Inspect(fd.Body, func(nd ast.Node) bool {
			call, ok := nd.(*ast.CallExpr)
			if !ok || len(call.Args) != 0 {
				return true
			}
			se, ok := unparen(call.Fun).(*ast.SelectorExpr)
			if !ok || se.Sel.Name != "Type" {
				return true
			}
			id, ok := unparen(se.X).(*ast.Ident)
			if !ok {
				return true
			}
			cl := lits[info.ObjectOf(id)]
			if cl == nil {
				return true
			}
			n := namedOf(info.TypeOf(id))
			if n == nil || !isIRPkg(n.Obj().Pkg().Path()) || !c.lazilyComputed(n, "Typ") {
				return true
			}
			tm := declaredMethodOf(n, "Type")
			reads := map[string]bool{}
			for _, e := range c.subjectFields(tm, -1) {
				if !e.Write && e.Field != "Typ" {
					reads[e.Field] = true
				}
			}
			set := map[string]bool{}
			for _, el := range cl.Elts {
				if kv, ok := el.(*ast.KeyValueExpr); ok {
					set[exprString(kv.Key)] = true
				}
			}
			ast.Inspect(fd.Body, func(m ast.Node) bool {
				if as, ok := m.(*ast.AssignStmt); ok && as.Pos() < call.Pos() {
					for _, l := range as.Lhs {
						if s2, ok := unparen(l).(*ast.SelectorExpr); ok {
							if i2, ok := unparen(s2.X).(*ast.Ident); ok && info.ObjectOf(i2) == info.ObjectOf(id) {
								set[s2.Sel.Name] = true
							}
						}
					}
				}
				return true
			})
			tkey := typeKey(n)
			for _, f := range sortedKeys(reads) {
				o := Obligation{Key: fmt.Sprintf("%s forces %s.Type(): %s", funcKey(fn), tkey, f), Pos: c.pos(call.Pos()), Verdict: OK, Tags: irTags(n)}
				switch {
				case set[f]:
					o.Detail = f + " is set before the type is cached"
				case assigned[tkey+"."+f]:
					o.Verdict = VIOL
					o.Detail = fmt.Sprintf("%s.Type() reads %s, which package asm fills only later: the result type is cached from the zero value and stays stale", tkey, f)
				default:
					o.Detail = f + " is never assigned by the parser"
				}
				obs = append(obs, o)
			}
			return true
		})
	})
	if len(obs) == 0 {
		obs = append(obs, Obligation{Key: "no forced type caches in asm", Verdict: OK, Detail: "package asm never calls Type() on an object it has just allocated"})
	}
	return obs
}

// ---------------------------------------------------------------------------

// gepWrappers: functions that call gep.ResultType.
func (c *Ctx) gepWrappers() map[*types.Func]*ast.FuncDecl {
	if v, ok := c.memo["gepWrappers"]; ok {
		return v.(map[*types.Func]*ast.FuncDecl)
	}
	out := map[*types.Func]*ast.FuncDecl{}
	c.memo["gepWrappers"] = out
	rt := c.lookupFunc(pkgGEP, "ResultType")
	for _, p := range c.llvmPkgs() {
		c.eachFunc(p.PkgPath, func(p *packages.Package, fd *ast.FuncDecl, fn *types.Func) {
			ast.Inspect(fd.Body, func(nd ast.Node) bool {
				if call, ok := nd.(*ast.CallExpr); ok && calleeOf(p.TypesInfo, call) == rt && rt != nil {
					out[fn] = fd
				}
				return true
			})
		})
	}
	return out
}

func ruleGEPWALK(c *Ctx) []Obligation {
	var obs []Obligation
	wr := c.gepWrappers()
	var names []string
	for fn := range wr {
		names = append(names, funcKey(fn))
	}
	sort.Strings(names)
	for fn, fd := range wr {
		info := c.declPkg[fd].TypesInfo
		// a wrapper builds a []gep.Index
		builds := false
		ast.Inspect(fd.Body, func(nd ast.Node) bool {
			if id, ok := nd.(*ast.Ident); ok {
				if t := info.TypeOf(id); t != nil && typeKey(t) == "[]internal/gep.Index" {
					builds = true
				}
			}
			return true
		})
		o := Obligation{Key: funcKey(fn) + " calls the gep type walk", Pos: c.pos(fd.Pos()), Verdict: OK, Detail: "builds the index list and returns gep.ResultType(...)", Tags: []string{"gep"}}
		if !builds {
			o.Verdict, o.Detail = VIOL, "gep.ResultType is called from a function that does not build the index list from the operands"
		}
		obs = append(obs, o)
	}
	// every store into Typ of the two gep node types comes from a wrapper
	for _, p := range c.llvmPkgs() {
		c.eachFunc(p.PkgPath, func(p *packages.Package, fd *ast.FuncDecl, fn *types.Func) {
			info := p.TypesInfo
			defs := collectDefs(info, fd.Body)
			fromWrapper := func(e ast.Expr) bool {
				found := false
				seen := map[types.Object]bool{}
				var walk func(e ast.Expr)
				walk = func(e ast.Expr) {
					ast.Inspect(e, func(n ast.Node) bool {
						switch n := n.(type) {
						case *ast.CallExpr:
							if f := calleeOf(info, n); f != nil {
								if _, ok := wr[f]; ok {
									found = true
								}
								// the walk called directly: this function is then a wrapper itself
								// and is held to the wrapper obligations above
								if f == c.lookupFunc(pkgGEP, "ResultType") {
									found = true
								}
							}
						case *ast.Ident:
							if obj := info.Uses[n]; obj != nil && !seen[obj] {
								seen[obj] = true
								for _, d := range defs[obj] {
									walk(d)
								}
							}
						}
						return true
					})
				}
				walk(e)
				return found
			}
			k := 0
			report := func(n *types.Named, rhs ast.Expr, pos token.Pos) {
				k++
				o := Obligation{Key: fmt.Sprintf("%s sets %s.Typ #%d", funcKey(fn), typeKey(n), k), Pos: c.pos(pos), Verdict: OK, Detail: "from a gep wrapper", Tags: []string{"gep"}}
				if !fromWrapper(rhs) {
					o.Verdict = VIOL
					o.Detail = fmt.Sprintf("the result type of %s is set from %s, not from the shared type walk: parser, instruction and constant expression can disagree", typeKey(n), exprString(rhs))
				}
				obs = append(obs, o)
			}
			isGepNode := func(n *types.Named) bool {
				return n != nil && (typeKey(n) == "ir.InstGetElementPtr" || typeKey(n) == "ir/constant.ExprGetElementPtr")
			}
			ast.Inspect(fd.Body, func(nd ast.Node) bool {
				switch nd := nd.(type) {
				case *ast.AssignStmt:
					for i, l := range nd.Lhs {
						if n, f := c.irFieldOf(info, l); isGepNode(n) && f.Name() == "Typ" && i < len(nd.Rhs) {
							report(n, nd.Rhs[i], nd.Pos())
						}
					}
				case *ast.CompositeLit:
					if n := namedOf(info.TypeOf(nd)); isGepNode(n) {
						for _, el := range nd.Elts {
							if kv, ok := el.(*ast.KeyValueExpr); ok && exprString(kv.Key) == "Typ" {
								report(n, kv.Value, kv.Pos())
							}
						}
					}
				}
				return true
			})
		})
	}
	return obs
}

// gepvlenExempt: wrappers that deliberately do not track vector lengths.
var gepvlenExempt = map[string]string{
	"asm.(*generator).gepExprType": "type-only variant used to infer the address space of an alias/ifunc from its aliasee expression; only the address space of the result is consumed",
}

func ruleGEPVLEN(c *Ctx) []Obligation {
	var obs []Obligation
	for fn, fd := range c.gepWrappers() {
		info := c.declPkg[fd].TypesInfo
		o := Obligation{Key: funcKey(fn) + " sets VectorLen from the index type", Pos: c.pos(fd.Pos()), Verdict: VIOL, Tags: []string{"gep"},
			Detail: "no unconditional `if vt, ok := <index type>.(*types.VectorType); ok { idx.VectorLen = vt.Len }` in the loop that builds the index list: a vector index of some form yields a scalar pointer result type"}
		if why, ok := gepvlenExempt[funcKey(fn)]; ok {
			o.Verdict, o.Detail = EXEMPT, why
			obs = append(obs, o)
			continue
		}
		var scanBody func(info *types.Info, list []ast.Stmt, depth int) bool
		scanBody = func(info *types.Info, list []ast.Stmt, depth int) bool {
			found := false
			skipPos := token.NoPos
			isVecTest := func(st ast.Stmt) bool {
				is, ok := st.(*ast.IfStmt)
				if !ok || is.Init == nil {
					return false
				}
				as, ok := is.Init.(*ast.AssignStmt)
				if !ok || len(as.Rhs) != 1 {
					return false
				}
				ta, ok := as.Rhs[0].(*ast.TypeAssertExpr)
				return ok && ta.Type != nil && isNamed(info.TypeOf(ta.Type), pkgTYP, "VectorType")
			}
			var lenObj types.Object // the index variable whose VectorLen the test has set
			// guard-clause form of the test:  vt, ok := T.(*types.VectorType); if !ok { return idx / continue };
			// idx.VectorLen = vt.Len …  — rewritten here as the if-with-init form over the rest of the list
			for i := 0; i+1 < len(list); i++ {
				as, ok := list[i].(*ast.AssignStmt)
				if !ok || len(as.Lhs) != 2 || len(as.Rhs) != 1 || as.Tok != token.DEFINE {
					continue
				}
				ta, ok := as.Rhs[0].(*ast.TypeAssertExpr)
				if !ok || ta.Type == nil || !isNamed(info.TypeOf(ta.Type), pkgTYP, "VectorType") {
					continue
				}
				g, ok := list[i+1].(*ast.IfStmt)
				if !ok || g.Init != nil || g.Else != nil || len(g.Body.List) != 1 {
					continue
				}
				ue, ok := unparen(g.Cond).(*ast.UnaryExpr)
				if !ok || ue.Op != token.NOT || exprString(ue.X) != exprString(as.Lhs[1]) {
					continue
				}
				switch x := g.Body.List[0].(type) {
				case *ast.BranchStmt:
					if x.Tok != token.CONTINUE {
						continue
					}
				case *ast.ReturnStmt:
				default:
					continue
				}
				tail := append([]ast.Stmt{}, list[i+2:]...)
				var after []ast.Stmt
				// the statements that use the asserted type form the body; what follows the last of them stays behind
				last := -1
				for k, st := range tail {
					if mentionsObj(info, stmtExprHolder(st), info.ObjectOf(as.Lhs[0].(*ast.Ident))) {
						last = k
					}
				}
				body := tail[:last+1]
				after = tail[last+1:]
				synth := &ast.IfStmt{If: as.Pos(), Init: as, Cond: as.Lhs[1], Body: &ast.BlockStmt{Lbrace: g.End(), List: body, Rbrace: g.End()}}
				nl := append([]ast.Stmt{}, list[:i]...)
				nl = append(nl, synth)
				// in a helper the guard returns the index as it stands: the statement after the body does so too
				if _, isRet := g.Body.List[0].(*ast.ReturnStmt); isRet && len(after) > 0 {
					nl = append(nl, after...)
				} else {
					nl = append(nl, after...)
				}
				list = nl
				break
			}
			for _, st := range list { // top level of the loop body only: every index form passes here
				is, ok := st.(*ast.IfStmt)
				if !isVecTest(st) {
					// a whole assignment to the index variable after the test discards the shape recorded by it
					if lenObj != nil {
						ast.Inspect(st, func(m ast.Node) bool {
							if _, ok := m.(*ast.FuncLit); ok {
								return false
							}
							if a2, ok := m.(*ast.AssignStmt); ok {
								for i, l := range a2.Lhs {
									if len(a2.Rhs) == len(a2.Lhs) && mentionsObj(info, a2.Rhs[i], lenObj) {
										continue // idx = f(idx): a transformation of the recorded value, not a replacement
									}
									if id, ok := unparen(l).(*ast.Ident); ok && info.ObjectOf(id) == lenObj && o.Verdict == OK {
										o.Verdict, o.Pos = VIOL, c.pos(a2.Pos())
										o.Detail = "the index variable is assigned as a whole at " + c.pos(a2.Pos()) + ", after the test that took VectorLen from the index operand's type: for that index form the recorded vector shape is discarded and a vector-typed index yields a scalar pointer result type"
									}
								}
							}
							return true
						})
					}
					// a statement that can leave the iteration (continue / break / return) before the
					// type test is reached: some index form never has its type examined
					ast.Inspect(st, func(m ast.Node) bool {
						switch m := m.(type) {
						case *ast.FuncLit, *ast.ForStmt, *ast.RangeStmt:
							return false
						case *ast.BranchStmt:
							if (m.Tok == token.CONTINUE || m.Tok == token.BREAK) && skipPos == token.NoPos {
								skipPos = m.Pos()
							}
						case *ast.ReturnStmt:
							// an error return abandons the whole computation, it does not skip the test
							if skipPos == token.NoPos && !returnsError(info, []ast.Stmt{m}) {
								skipPos = m.Pos()
							}
						}
						return true
					})
					continue
				}
				as, ok := is.Init.(*ast.AssignStmt)
				if !ok || len(as.Rhs) != 1 {
					continue
				}
				ta, ok := as.Rhs[0].(*ast.TypeAssertExpr)
				if !ok || ta.Type == nil || !isNamed(info.TypeOf(ta.Type), pkgTYP, "VectorType") {
					continue
				}
				setsLen, setsScal := false, false
				ast.Inspect(is.Body, func(m ast.Node) bool {
					if a2, ok := m.(*ast.AssignStmt); ok {
						for i, l := range a2.Lhs {
							if se, ok := unparen(l).(*ast.SelectorExpr); ok && isNamed(info.TypeOf(se.X), pkgGEP, "Index") && i < len(a2.Rhs) {
								if se.Sel.Name == "VectorLen" && strings.HasSuffix(exprString(a2.Rhs[i]), ".Len") {
									setsLen = true
									if id, ok := unparen(se.X).(*ast.Ident); ok {
										lenObj = info.ObjectOf(id)
									}
								}
								if strings.Contains(se.Sel.Name, "Scalable") && strings.HasSuffix(exprString(a2.Rhs[i]), ".Scalable") {
									setsScal = true
								}
							}
						}
					}
					return true
				})
				if setsLen && skipPos != token.NoPos {
					o.Verdict, o.Pos = VIOL, c.pos(skipPos)
					o.Detail = "an index can leave the iteration (continue / break / return at " + c.pos(skipPos) + ") before the test that takes VectorLen from the index operand's type: for that index form a vector-typed index (zeroinitializer, undef, a constant expression …) yields a scalar pointer result type"
				} else if setsLen && setsScal {
					o.Verdict, o.Pos = OK, c.pos(is.Pos())
					o.Detail = "every index: VectorLen and scalability taken from the index operand's type"
				} else if setsLen {
					o.Verdict, o.Pos = VIOL, c.pos(is.Pos())
					o.Detail = "VectorLen is taken from the index type but its scalability is not"
				}
				if setsLen {
					found = true
				}
			}
			if found || depth > 0 {
				return found
			}
			// the per-index step extracted into a helper of the module that returns the gep.Index
			// (idxs = append(idxs, gepOperandIndex(index))): its body is the loop body
			for _, st := range list {
				ast.Inspect(st, func(m ast.Node) bool {
					call, ok := m.(*ast.CallExpr)
					if !ok || found {
						return !found
					}
					f := calleeOf(info, call)
					if f == nil || f.Pkg() == nil || !c.isLLVM(f.Pkg().Path()) || f.Pkg().Path() == pkgGEP {
						return true
					}
					if sig := f.Type().(*types.Signature); sig.Results().Len() < 1 || !isNamed(sig.Results().At(0).Type(), pkgGEP, "Index") {
						return true
					}
					if hfd := c.funcDecl(f); hfd != nil && hfd.Body != nil {
						if scanBody(c.declPkg[hfd].TypesInfo, hfd.Body.List, depth+1) {
							found = true
						}
					}
					return true
				})
			}
			return found
		}
		ast.Inspect(fd.Body, func(nd ast.Node) bool {
			if rs, ok := nd.(*ast.RangeStmt); ok {
				scanBody(info, rs.Body.List, 0)
			}
			return true
		})
		obs = append(obs, o)
	}
	return obs
}

// ---------------------------------------------------------------------------

type indexClassifier struct {
	fn    *types.Func
	fd    *ast.FuncDecl
	cases map[string]string // case type key -> class
	deflt string
}

func (c *Ctx) classifyIndexCase(info *types.Info, body []ast.Stmt, depth int, defs map[types.Object][]ast.Expr) string {
	hasLoop := false
	for _, st := range body {
		ast.Inspect(st, func(n ast.Node) bool {
			switch x := n.(type) {
			case *ast.RangeStmt, *ast.ForStmt:
				hasLoop = true
			case *ast.CallExpr:
				// the walk over the elements extracted into a helper of the module
				// (val, ok := uniformIntValue(index.Elems))
				if f := calleeOf(info, x); f != nil && f.Pkg() != nil && c.isLLVM(f.Pkg().Path()) && f.Pkg().Path() != pkgGEP && depth < 2 {
					if hfd := c.funcDecl(f); hfd != nil && hfd.Body != nil && len(x.Args) > 0 {
						if _, isSlice := info.TypeOf(x.Args[0]).Underlying().(*types.Slice); isSlice {
							ast.Inspect(hfd.Body, func(m ast.Node) bool {
								switch m.(type) {
								case *ast.RangeStmt, *ast.ForStmt:
									hasLoop = true
								}
								return true
							})
						}
					}
				}
			}
			return true
		})
	}
	if hasLoop {
		return "vector walk"
	}
	if endsInPanic(body) {
		return "panic"
	}
	// all returns
	class := ""
	for _, st := range body {
		ast.Inspect(st, func(n ast.Node) bool {
			r, ok := n.(*ast.ReturnStmt)
			if !ok || len(r.Results) != 1 {
				return true
			}
			// a result held in a local that is defined once (unknown := gep.Index{HasVal: false})
			if id, ok := unparen(r.Results[0]).(*ast.Ident); ok && defs != nil {
				if ds := defs[info.ObjectOf(id)]; len(ds) == 1 {
					if _, isLit := unparen(ds[0]).(*ast.CompositeLit); isLit {
						r = &ast.ReturnStmt{Return: r.Return, Results: []ast.Expr{ds[0]}}
					}
				}
			}
			s := strings.ReplaceAll(exprString(r.Results[0]), " ", "")
			// the case delegates to a helper of the module (getVectorIndex(index.Elems)): the
			// helper's own class
			if call, ok := unparen(r.Results[0]).(*ast.CallExpr); ok && depth < 2 {
				if callee := calleeOf(info, call); callee != nil && callee.Pkg() != nil && c.isLLVM(callee.Pkg().Path()) && callee.Pkg().Path() != pkgGEP {
					if hfd := c.funcDecl(callee); hfd != nil && hfd.Body != nil {
						hc := c.classifyIndexCase(c.declPkg[hfd].TypesInfo, hfd.Body.List, depth+1, collectDefs(c.declPkg[hfd].TypesInfo, hfd.Body))
						if class == "" || class == hc {
							class = hc
						} else {
							class = "mixed"
						}
						return true
					}
				}
			}
			if cl, ok := unparen(r.Results[0]).(*ast.CompositeLit); ok {
				s = "Index{"
				for _, el := range cl.Elts {
					if kv, ok := el.(*ast.KeyValueExpr); ok {
						s += exprString(kv.Key) + ":" + exprString(kv.Value) + ","
					}
				}
			}
			switch {
			case strings.Contains(s, "NewIndex("):
				if class == "" || class == "known value" {
					class = "known value"
				} else {
					class = "mixed"
				}
			case strings.Contains(s, "HasVal:false"):
				if class == "" || class == "no value" {
					class = "no value"
				} else {
					class = "mixed"
				}
			default:
				class = "mixed"
			}
			return true
		})
	}
	if class == "" {
		class = "other"
	}
	return class
}

func ruleGEPSIB(c *Ctx) []Obligation {
	var obs []Obligation
	// the classifiers: functions returning gep.Index with one parameter of a constant sum type
	var cls []*indexClassifier
	for _, p := range c.llvmPkgs() {
		c.eachFunc(p.PkgPath, func(p *packages.Package, fd *ast.FuncDecl, fn *types.Func) {
			sig := fn.Type().(*types.Signature)
			if sig.Results().Len() != 1 || !isNamed(sig.Results().At(0).Type(), pkgGEP, "Index") || sig.Params().Len() != 1 {
				return
			}
			if _, ok := sig.Params().At(0).Type().Underlying().(*types.Interface); !ok {
				return
			}
			ic := &indexClassifier{fn: fn, fd: fd, cases: map[string]string{}}
			defs := collectDefs(p.TypesInfo, fd.Body)
			// outermost type switch at the top level of the body
			for _, st := range fd.Body.List {
				sw, ok := st.(*ast.TypeSwitchStmt)
				if !ok {
					continue
				}
				for _, cc := range sw.Body.List {
					cl := cc.(*ast.CaseClause)
					class := c.classifyIndexCase(p.TypesInfo, cl.Body, 0, defs)
					if cl.List == nil {
						ic.deflt = class
						continue
					}
					for _, e := range cl.List {
						ic.cases[typeKey(p.TypesInfo.TypeOf(e))] = class
					}
				}
			}
			// a classifier dispatches on the form of the index; a function that merely wraps one
			// (the per-operand step of a wrapper) is not a sibling
			if len(ic.cases) < 2 {
				return
			}
			cls = append(cls, ic)
		})
	}
	if len(cls) != 3 {
		return []Obligation{{Key: "gep index classifiers", Verdict: UNDECIDED, Detail: fmt.Sprintf("%d classifier functions (X → gep.Index) found, expected the parser, instruction and constant-expression sides", len(cls)), Tags: []string{"gep"}}}
	}
	// AST ↔ IR constant correspondence, read off the translators of package asm
	corr := map[string]string{"ast.ConstantExpr": "ir/constant.Expression"} // both are the sum of all constant expressions
	c.eachFunc(pkgASM, func(p *packages.Package, fd *ast.FuncDecl, fn *types.Func) {
		sig := fn.Type().(*types.Signature)
		var k *types.Named
		for i := 0; i < sig.Params().Len(); i++ {
			if n := astNode(sig.Params().At(i).Type()); n != nil && strings.HasSuffix(n.Obj().Name(), "Const") {
				k = n
			}
		}
		if k == nil || sig.Results().Len() < 1 {
			return
		}
		if t := isIRStructPtr(c, sig.Results().At(0).Type()); t != nil && t.Obj().Pkg().Path() == pkgCONS {
			corr["*"+typeKey(k)] = "*" + typeKey(t)
		}
	})
	// constants translated inline in irConstant: `case *ast.K: return constant.NewT(t), nil`
	for _, ts := range c.typeSwitches(pkgASM) {
		// the constant dispatcher, whatever its name and however many levels it has: a type
		// switch over ast.Constant
		if in := namedOf(ts.operand); in == nil || typeKey(in) != "ast.Constant" {
			continue
		}
		for _, cc := range ts.sw.Body.List {
			cl := cc.(*ast.CaseClause)
			if len(cl.List) != 1 || len(cl.Body) != 1 {
				continue
			}
			r, ok := cl.Body[0].(*ast.ReturnStmt)
			if !ok || len(r.Results) < 1 {
				continue
			}
			if t := isIRStructPtr(c, ts.p.TypesInfo.TypeOf(r.Results[0])); t != nil && t.Obj().Pkg().Path() == pkgCONS {
				corr[typeKey(ts.p.TypesInfo.TypeOf(cl.List[0]))] = "*" + typeKey(t)
			}
		}
	}
	var astSide *indexClassifier
	var irSides []*indexClassifier
	for _, ic := range cls {
		if ic.fn.Pkg().Path() == pkgASM {
			astSide = ic
		} else {
			irSides = append(irSides, ic)
		}
	}
	if astSide == nil || len(irSides) != 2 {
		return []Obligation{{Key: "gep index classifiers", Verdict: UNDECIDED, Detail: "expected one classifier in asm and two in ir / ir/constant", Tags: []string{"gep"}}}
	}
	classOf := func(ic *indexClassifier, k string) string {
		if cl, ok := ic.cases[k]; ok {
			return cl
		}
		// covered by an interface case?
		if ic.cases["ir/constant.Expression"] != "" && k == "ir/constant.Expression" {
			return ic.cases[k]
		}
		return "default: " + ic.deflt
	}
	for _, ak := range sortedKeys(astSide.cases) {
		ik, ok := corr[ak]
		o := Obligation{Key: "gep index kind " + ak, Pos: c.pos(astSide.fd.Pos()), Verdict: OK, Tags: []string{"gep"}}
		if !ok {
			o.Verdict, o.Detail = UNDECIDED, "no IR constant type corresponds to this AST constant in the constant translator"
			obs = append(obs, o)
			continue
		}
		ac := astSide.cases[ak]
		var parts []string
		for _, is := range irSides {
			icl := classOf(is, ik)
			parts = append(parts, fmt.Sprintf("%s: %s", funcKey(is.fn), icl))
			if icl != ac {
				o.Verdict = VIOL
			}
		}
		o.Detail = fmt.Sprintf("parser: %s; %s (IR kind %s)", ac, strings.Join(parts, "; "), ik)
		if o.Verdict == VIOL {
			o.Detail = "the classifiers disagree on this index form — " + o.Detail + ": the same getelementptr gets different result types depending on which side computes it"
		}
		obs = append(obs, o)
	}
	// the two IR sides must agree with each other on every kind either handles
	all := map[string]bool{}
	for _, is := range irSides {
		for k := range is.cases {
			all[k] = true
		}
	}
	for _, k := range sortedKeys(all) {
		a, b := classOf(irSides[0], k), classOf(irSides[1], k)
		o := Obligation{Key: "gep index kind " + k + " (IR sides)", Pos: c.pos(irSides[0].fd.Pos()), Verdict: OK, Detail: a, Tags: []string{"gep"}}
		if a != b {
			o.Verdict = VIOL
			o.Detail = fmt.Sprintf("%s classifies it as %q, %s as %q", funcKey(irSides[0].fn), a, funcKey(irSides[1].fn), b)
		}
		obs = append(obs, o)
	}
	return obs
}

// stmtExprHolder wraps a statement so that mentionsObj can search it.
func stmtExprHolder(st ast.Stmt) ast.Expr {
	return &ast.FuncLit{Type: &ast.FuncType{Params: &ast.FieldList{}}, Body: &ast.BlockStmt{List: []ast.Stmt{st}}}
}

// mentionsObj: the expression refers to the object.
func mentionsObj(info *types.Info, e ast.Expr, obj types.Object) bool {
	found := false
	if e == nil || obj == nil {
		return false
	}
	ast.Inspect(e, func(n ast.Node) bool {
		if id, ok := n.(*ast.Ident); ok && info.ObjectOf(id) == obj {
			found = true
		}
		return !found
	})
	return found
}

package main

import (
	"fmt"
	"go/ast"
	"go/token"
	"go/types"
	"sort"
	"strings"

	"golang.org/x/tools/go/packages"
	"golang.org/x/tools/go/ssa"
)

// DET-1 (map-iteration discipline), DET-3 (one translation path), ORD-SORT (C12, C20).

func init() {
	register(&Rule{
		Name:  "DET-1",
		Doc:   "every range over a map in non-test code of llir/llvm is either collect-then-sort (the body only appends to a slice that is sorted by a named comparator before its next use) or has a commutative body (everything it writes is fresh, a map update, or a per-entity object — never a slice, counter or output stream of the per-parse singletons or of the enclosing function)",
		Floor: 15,
		NeedS: true,
		Run:   ruleDET1,
	})
	register(&Rule{
		Name:  "DET-3",
		Doc:   "ParseFile, Parse and ParseBytes reach the translator only through ParseString: the entry point cannot change the result",
		Floor: 3,
		NeedS: true,
		Run:   ruleDET3,
	})
	register(&Rule{
		Name:  "ORD-SORT",
		Doc:   "each list of definitions the module printer emits is produced in a canonical order: keys collected from an index map and sorted by the stated comparator (natural order for type, comdat and named-metadata names; ascending numeric order for attribute-group and metadata IDs), or the recorded textual order for globals (globalOrder appended once per entity in the single indexing loop, distributed by one in-order loop); WriteTo emits each list by an in-order range",
		Floor: 8,
		Run:   ruleORDSORT,
	})
}

type mapRange struct {
	p    *packages.Package
	fd   *ast.FuncDecl
	fn   *types.Func
	rs   *ast.RangeStmt
	encl []ast.Stmt // statement list containing the loop
	idx  int
	ord  int
}

func (c *Ctx) mapRanges() []*mapRange {
	var out []*mapRange
	for _, p := range c.llvmPkgs() {
		c.eachFunc(p.PkgPath, func(p *packages.Package, fd *ast.FuncDecl, fn *types.Func) {
			info := p.TypesInfo
			n := 0
			var visitList func(list []ast.Stmt)
			visit := func(node ast.Node) {
				ast.Inspect(node, func(nd ast.Node) bool {
					switch nd := nd.(type) {
					case *ast.BlockStmt:
						visitList(nd.List)
						return false
					case *ast.CaseClause:
						visitList(nd.Body)
						return false
					case *ast.CommClause:
						visitList(nd.Body)
						return false
					}
					return true
				})
			}
			visitList = func(list []ast.Stmt) {
				for i, st := range list {
					if rs, ok := st.(*ast.RangeStmt); ok {
						if _, isMap := info.TypeOf(rs.X).Underlying().(*types.Map); isMap {
							out = append(out, &mapRange{p: p, fd: fd, fn: fn, rs: rs, encl: list, idx: i, ord: n})
							n++
						}
					}
					visit(st)
				}
			}
			visitList(fd.Body.List)
		})
	}
	return out
}

// curCtx is the context of the running analysis (set by load); used by helpers that need
// to look at the declaration of a callee.
var curCtx *Ctx

var sortFuncs = map[string]string{
	pkgNAT + ".Strings": "natural order",
	"sort.Strings":      "lexicographic order",
	"sort.Ints":         "ascending numeric order",
	"sort.Slice":        "",
	"sort.SliceStable":  "",
	"slices.Sort":       "ascending order",
}

// sortedAfter checks that the first use of slice variable xs after position i
// in list is a sort call on xs; returns the comparator description.
func sortedAfter(info *types.Info, list []ast.Stmt, i int, xs types.Object) (string, token.Pos, bool) {
	return sortedAfterDepth(info, list, i, xs, 0)
}

// lessIsAscending: fl is `func(i, j int) bool { return xs[i] < xs[j] }` over the slice object xs.
func lessIsAscending(info *types.Info, ft *ast.FuncType, body *ast.BlockStmt, xs types.Object) bool {
	if body == nil || len(body.List) != 1 {
		return false
	}
	r, ok := body.List[0].(*ast.ReturnStmt)
	if !ok || len(r.Results) != 1 {
		return false
	}
	be, ok := r.Results[0].(*ast.BinaryExpr)
	if !ok || be.Op != token.LSS {
		return false
	}
	lx, ok1 := be.X.(*ast.IndexExpr)
	ly, ok2 := be.Y.(*ast.IndexExpr)
	if !ok1 || !ok2 {
		return false
	}
	xi, ok1 := lx.X.(*ast.Ident)
	yi, ok2 := ly.X.(*ast.Ident)
	if !ok1 || !ok2 || info.ObjectOf(xi) != xs || info.ObjectOf(yi) != xs {
		return false
	}
	var pn []string
	for _, f := range ft.Params.List {
		for _, n := range f.Names {
			pn = append(pn, n.Name)
		}
	}
	return len(pn) == 2 && exprString(lx.Index) == pn[0] && exprString(ly.Index) == pn[1]
}

func sortedAfterDepth(info *types.Info, list []ast.Stmt, i int, xs types.Object, depth int) (string, token.Pos, bool) {
	uses := func(n ast.Node) bool {
		found := false
		ast.Inspect(n, func(m ast.Node) bool {
			// len(xs) / cap(xs) / xs == nil do not depend on the order of the elements
			if call, ok := m.(*ast.CallExpr); ok {
				if id, ok := call.Fun.(*ast.Ident); ok && (id.Name == "len" || id.Name == "cap") && len(call.Args) == 1 {
					if a, ok := unparen(call.Args[0]).(*ast.Ident); ok && info.ObjectOf(a) == xs {
						return false
					}
				}
			}
			if id, ok := m.(*ast.Ident); ok && info.ObjectOf(id) == xs {
				found = true
			}
			return true
		})
		return found
	}
	closures := map[types.Object]*ast.FuncLit{}
	for _, st := range list[i+1:] {
		// `less := func(i, j int) bool { return xs[i] < xs[j] }` may precede the sort call
		if as, ok := st.(*ast.AssignStmt); ok && len(as.Lhs) == 1 && len(as.Rhs) == 1 {
			if fl, ok := as.Rhs[0].(*ast.FuncLit); ok {
				if id, ok := as.Lhs[0].(*ast.Ident); ok {
					closures[info.ObjectOf(id)] = fl
					continue
				}
			}
		}
		if !uses(st) {
			continue
		}
		es, ok := st.(*ast.ExprStmt)
		if !ok {
			return "", st.Pos(), false
		}
		call, ok := es.X.(*ast.CallExpr)
		if !ok || len(call.Args) == 0 {
			return "", st.Pos(), false
		}
		fn := calleeOf(info, call)
		if fn == nil || fn.Pkg() == nil {
			return "", st.Pos(), false
		}
		// sort.Sort(T(xs)) / sort.Stable(T(xs)) with a named slice type whose Less is ascending
		if fn.Pkg().Path() == "sort" && (fn.Name() == "Sort" || fn.Name() == "Stable") && len(call.Args) == 1 && curCtx != nil {
			// … or sort.Sort(xs) where xs itself is declared with that named type
			arg := unparen(call.Args[0])
			var inner ast.Expr
			if conv, ok := arg.(*ast.CallExpr); ok && len(conv.Args) == 1 {
				inner = unparen(conv.Args[0])
			} else if _, ok := arg.(*ast.Ident); ok {
				inner = arg
			}
			if inner != nil {
				conv := arg
				if id, ok := inner.(*ast.Ident); ok && info.ObjectOf(id) == xs {
					if tn := namedOf(info.TypeOf(conv)); tn != nil {
						if less := methodOf(tn, "Less"); less != nil {
							if lfd := curCtx.funcDecl(less); lfd != nil && lfd.Recv != nil && len(lfd.Recv.List) == 1 && len(lfd.Recv.List[0].Names) == 1 {
								li := curCtx.declPkg[lfd].TypesInfo
								if lessIsAscending(li, lfd.Type, lfd.Body, li.Defs[lfd.Recv.List[0].Names[0]]) {
									return "ascending order of the keys (sort.Sort with an ascending Less)", st.Pos(), true
								}
							}
						}
					}
				}
			}
			return "", st.Pos(), false
		}
		desc, known := sortFuncs[fn.Pkg().Path()+"."+fn.Name()]
		if !known {
			// a helper of the module that sorts its parameter: f(xs)
			if curCtx != nil && depth < 2 && curCtx.isLLVM(fn.Pkg().Path()) {
				if hfd := curCtx.funcDecl(fn); hfd != nil && hfd.Body != nil {
					for ai, a := range call.Args {
						if id, ok := unparen(a).(*ast.Ident); ok && info.ObjectOf(id) == xs {
							hi := curCtx.declPkg[hfd].TypesInfo
							k := 0
							for _, f := range hfd.Type.Params.List {
								for _, nm := range f.Names {
									if k == ai {
										if d, _, ok := sortedAfterDepth(hi, hfd.Body.List, -1, hi.Defs[nm], depth+1); ok {
											return d, st.Pos(), true
										}
									}
									k++
								}
							}
						}
					}
				}
			}
			return "", st.Pos(), false
		}
		if id, ok := unparen(call.Args[0]).(*ast.Ident); !ok || info.ObjectOf(id) != xs {
			return "", st.Pos(), false
		}
		if desc == "" {
			// sort.Slice(xs, less): less must be `return xs[i] < xs[j]`
			if len(call.Args) != 2 {
				return "", st.Pos(), false
			}
			var fl *ast.FuncLit
			switch a := unparen(call.Args[1]).(type) {
			case *ast.FuncLit:
				fl = a
			case *ast.Ident:
				fl = closures[info.ObjectOf(a)]
			}
			if fl == nil || len(fl.Body.List) != 1 {
				return "", st.Pos(), false
			}
			r, ok := fl.Body.List[0].(*ast.ReturnStmt)
			if !ok || len(r.Results) != 1 {
				return "", st.Pos(), false
			}
			be, ok := r.Results[0].(*ast.BinaryExpr)
			if !ok || be.Op != token.LSS {
				return "", st.Pos(), false
			}
			// sorted by the source offset of the AST node each key stands for
			// (index[xs[i]].Offset() < index[xs[j]].Offset()): distinct nodes have distinct offsets,
			// so this is a total order that does not depend on the collection order
			if cx, ok := unparen(be.X).(*ast.CallExpr); ok {
				if cy, ok := unparen(be.Y).(*ast.CallExpr); ok && len(cx.Args) == 0 && len(cy.Args) == 0 {
					fx, fy := calleeOf(info, cx), calleeOf(info, cy)
					var pn []string
					for _, f := range fl.Type.Params.List {
						for _, n := range f.Names {
							pn = append(pn, n.Name)
						}
					}
					if fx != nil && fx == fy && fx.Name() == "Offset" && fx.Pkg() != nil && strings.HasPrefix(fx.Pkg().Path(), pkgLL) && len(pn) == 2 {
						sx := strings.ReplaceAll(exprString(cx), "["+pn[0]+"]", "[#]")
						sy := strings.ReplaceAll(exprString(cy), "["+pn[1]+"]", "[#]")
						mentions := false
						ast.Inspect(cx, func(m ast.Node) bool {
							if id, ok := m.(*ast.Ident); ok && info.ObjectOf(id) == xs {
								mentions = true
							}
							return true
						})
						if sx == sy && mentions && strings.Contains(sx, "[#]") {
							return "source order of the nodes the keys stand for (sort.Slice by Offset())", st.Pos(), true
						}
					}
				}
			}
			lx, ok1 := be.X.(*ast.IndexExpr)
			ly, ok2 := be.Y.(*ast.IndexExpr)
			if !ok1 || !ok2 {
				return "", st.Pos(), false
			}
			xi, ok1 := lx.X.(*ast.Ident)
			yi, ok2 := ly.X.(*ast.Ident)
			if !ok1 || !ok2 || info.ObjectOf(xi) != xs || info.ObjectOf(yi) != xs {
				return "", st.Pos(), false
			}
			params := fl.Type.Params.List
			var pn []string
			for _, f := range params {
				for _, n := range f.Names {
					pn = append(pn, n.Name)
				}
			}
			if len(pn) != 2 || exprString(lx.Index) != pn[0] || exprString(ly.Index) != pn[1] {
				return "", st.Pos(), false
			}
			desc = "ascending order of the keys (sort.Slice with xs[i] < xs[j])"
		}
		return desc, st.Pos(), true
	}
	return "", token.NoPos, false
}

// stripFilters removes leading `if COND { continue }` statements (with an
// optional `x, ok := …` init) from a loop body: a collect loop that skips some
// entries is still a collect loop; what matters is that the result is sorted
// afterwards.
func stripFilters(body []ast.Stmt) []ast.Stmt {
	for len(body) > 1 {
		is, ok := body[0].(*ast.IfStmt)
		if !ok || is.Else != nil || len(is.Body.List) == 0 {
			break
		}
		br, ok := is.Body.List[len(is.Body.List)-1].(*ast.BranchStmt)
		if !ok || br.Tok != token.CONTINUE {
			break
		}
		// the skipped branch may only contain comments / the continue itself
		if len(is.Body.List) != 1 {
			break
		}
		body = body[1:]
	}
	return body
}

// singletonTypes: the per-parse / per-module singletons; a slice, counter or
// plain field of one of these written from inside a map range makes the result
// depend on iteration order.
var singletonTypes = map[string]bool{"asm.generator": true, "asm.oldIndex": true, "asm.newIndex": true, "ir.Module": true, "asm.funcGen": true}

// det1Frozen: order-insensitive writes to singletons, one reason each.
var det1Frozen = map[string]string{
	"field asm.generator.todo": "work list of blockaddress constants; translate drains it with one independent fix-up per entry, so its order does not reach the module",
}

// det1ConsultExempt: map ranges that store into and consult the same index, where the
// entries consulted cannot be entries stored by the same loop; keyed "<obligation key> <map>".
var det1ConsultExempt = map[string]string{}

// det1ResolvedKeyExempt: a loop that stores into an index and consults it is order-insensitive
// when every consulted key is the result of one of these functions; keyed by the function that
// produces the key, with the reason why the entries it names are not written by the loop.
var det1ResolvedKeyExempt = map[string]string{
	"asm.resolveTypeAlias": "resolveTypeAlias follows a chain of type aliases (`%a = type %b`) to the name of the definition it ends in, which is not an alias; the loop that resolves aliases stores only the entries of aliases (selected by its *ast.NamedType filter) and the non-alias entries were all stored by the preceding, completed loop — no iteration reads what another iteration writes",
}

func ruleDET1(c *Ctx) []Obligation {
	var obs []Obligation
	e := c.effects()
	for _, mr := range c.mapRanges() {
		info := mr.p.TypesInfo
		key := fmt.Sprintf("%s range %s", funcKey(mr.fn), mapFieldName(info, mr.rs.X))
		if mr.ord > 0 {
			key += fmt.Sprintf("#%d", mr.ord+1)
		}
		o := Obligation{Key: key, Pos: c.pos(mr.rs.Pos()), Verdict: OK}
		body := stripFilters(mr.rs.Body.List)
		// (a) collect-then-sort (a collect loop may skip entries: `if COND { continue }` before the append)
		if len(body) == 1 {
			if as, ok := body[0].(*ast.AssignStmt); ok && len(as.Lhs) == 1 && len(as.Rhs) == 1 {
				if call, ok := as.Rhs[0].(*ast.CallExpr); ok && exprString(call.Fun) == "append" && len(call.Args) == 2 {
					if id, ok := as.Lhs[0].(*ast.Ident); ok && exprString(call.Args[0]) == id.Name {
						xs := info.ObjectOf(id)
						desc, pos, ok := sortedAfter(info, mr.encl, mr.idx, xs)
						if ok {
							o.Detail = fmt.Sprintf("collect-then-sort: %s is sorted (%s) at %s before its next use", id.Name, desc, c.pos(pos))
						} else {
							o.Verdict = VIOL
							where := "it is never used again"
							if pos.IsValid() {
								where = "its next use is at " + c.pos(pos)
							}
							o.Detail = fmt.Sprintf("keys of the map are collected into %s in iteration order and not sorted before use (%s): the result depends on Go's randomised map order", id.Name, where)
						}
						obs = append(obs, o)
						continue
					}
				}
			}
		}
		// (c) search loops of the generated FromString functions
		if mr.p.PkgPath == pkgAENM && strings.HasSuffix(mr.fn.Name(), "FromString") {
			o.Verdict = EXEMPT
			o.Detail = "search loop returning the key of the matching value; unique because ENUM-TAB shows the table has no duplicate keywords (a duplicate is reported there as order-dependent)"
			obs = append(obs, o)
			continue
		}
		// (b) commutative body
		var problems []string
		// b1: direct writes to variables declared outside the loop
		outer := func(id *ast.Ident) bool {
			obj := info.ObjectOf(id)
			if obj == nil {
				return false
			}
			if _, isVar := obj.(*types.Var); !isVar {
				return false
			}
			return obj.Pos() < mr.rs.Pos() || obj.Pos() > mr.rs.End()
		}
		rootIdent := func(e ast.Expr) (*ast.Ident, bool) {
			viaMap := false
			for {
				switch x := unparen(e).(type) {
				case *ast.Ident:
					return x, viaMap
				case *ast.SelectorExpr:
					e = x.X
				case *ast.IndexExpr:
					if _, isMap := info.TypeOf(x.X).Underlying().(*types.Map); isMap {
						viaMap = true
					}
					e = x.X
				case *ast.StarExpr:
					e = x.X
				default:
					return nil, viaMap
				}
			}
		}
		ast.Inspect(mr.rs.Body, func(n ast.Node) bool {
			switch n := n.(type) {
			case *ast.FuncLit:
				return false
			case *ast.AssignStmt:
				if n.Tok == token.DEFINE {
					return true
				}
				for _, l := range n.Lhs {
					id, viaMap := rootIdent(l)
					if id == nil || id.Name == "_" || viaMap || !outer(id) {
						continue
					}
					if _, plain := unparen(l).(*ast.Ident); plain {
						problems = append(problems, fmt.Sprintf("assigns the outer variable %s at %s", id.Name, c.pos(n.Pos())))
					}
					// field writes through outer pointers are classified by the effect engine below
				}
			case *ast.IncDecStmt:
				if id, viaMap := rootIdent(n.X); id != nil && !viaMap && outer(id) {
					if _, plain := unparen(n.X).(*ast.Ident); plain {
						problems = append(problems, fmt.Sprintf("advances the outer counter %s at %s", id.Name, c.pos(n.Pos())))
					}
				}
			case *ast.ReturnStmt:
				if len(n.Results) > 0 && !returnsError(info, []ast.Stmt{n}) {
					all := true
					for _, r := range n.Results {
						if exprString(r) != "nil" {
							all = false
						}
					}
					if !all {
						problems = append(problems, fmt.Sprintf("returns a value chosen by iteration order at %s", c.pos(n.Pos())))
					}
				}
			case *ast.CallExpr:
				// output to a stream declared outside the loop
				if dst := isWriteCall(info, n); dst != nil {
					if id, _ := rootIdent(dst); id != nil && outer(id) {
						problems = append(problems, fmt.Sprintf("writes to the outer stream %s at %s", id.Name, c.pos(n.Pos())))
					}
				}
			}
			return true
		})
		// b2: effects of the body and of everything it calls
		sfn := c.ssaFunc(mr.fn)
		var roots []*ssa.Function
		var bodyEffects []Effect
		if sfn != nil {
			var scan func(f *ssa.Function)
			scan = func(f *ssa.Function) {
				for _, ef := range e.of(f) {
					if ef.Pos >= mr.rs.Body.Lbrace && ef.Pos <= mr.rs.Body.Rbrace {
						bodyEffects = append(bodyEffects, ef)
					}
				}
				for _, b := range f.Blocks {
					for _, in := range b.Instrs {
						call, ok := in.(ssa.CallInstruction)
						if !ok || in.Pos() < mr.rs.Body.Lbrace || in.Pos() > mr.rs.Body.Rbrace {
							continue
						}
						if node := c.CallGraph().Nodes[f]; node != nil {
							for _, ed := range node.Out {
								if ed.Site == call && e.ours(ed.Callee.Func) {
									roots = append(roots, ed.Callee.Func)
								}
							}
						}
					}
				}
				for _, a := range f.AnonFuncs {
					scan(a)
				}
			}
			scan(sfn)
		} else {
			problems = append(problems, "no SSA for the enclosing function")
		}
		check := func(ef Effect, path string) {
			if ef.Fresh || ef.Kind == "map" {
				return
			}
			owner := ef.Owner
			if !singletonTypes[owner] {
				return
			}
			k := ef.Kind + " " + ef.Target
			if _, ok := det1Frozen[k]; ok {
				return
			}
			problems = append(problems, fmt.Sprintf("writes %s of the singleton %s at %s%s", ef.Target, owner, c.pos(ef.Pos), path))
		}
		for _, ef := range bodyEffects {
			check(ef, "")
		}
		reachedEffs, nfn := e.closure(roots)
		for _, r := range reachedEffs {
			check(r.Effect, " via "+r.Path)
		}
		// the body (with everything it calls) must not both store into an index and consult the same index:
		// what a lookup sees would then depend on which keys were already visited
		if mr.p.PkgPath == pkgASM {
			ias := c.indexAccesses()
			storesM, looksM := map[string]token.Pos{}, map[string]token.Pos{}
			collect := func(ia *indexAccess, lo, hi token.Pos) {
				if ia == nil {
					return
				}
				for m, ps := range ia.stores {
					for _, p := range ps {
						if lo <= p && p <= hi {
							storesM[m] = p
						}
					}
				}
				for m, ps := range ia.lookups {
					for _, p := range ps {
						if lo <= p && p <= hi {
							looksM[m] = p
						}
					}
				}
			}
			collect(ias[mr.fn], mr.rs.Body.Lbrace, mr.rs.Body.Rbrace)
			order, _ := e.reach(roots)
			for _, g := range order {
				if obj, ok := g.Object().(*types.Func); ok {
					collect(ias[obj], 0, 1<<40)
				}
			}
			for m, sp := range storesM {
				if lp, ok := looksM[m]; ok && strings.HasPrefix(m, "newIndex.") {
					if _, ex := det1ConsultExempt[key+" "+m]; ex {
						continue
					}
					problems = append(problems, fmt.Sprintf("stores into %s (%s) and also consults it (%s) while ranging in map order", m, c.pos(sp), c.pos(lp)))
				}
			}
		}
		if len(problems) > 0 {
			sort.Strings(problems)
			uniq := problems[:0]
			for i, p := range problems {
				if i == 0 || p != problems[i-1] {
					uniq = append(uniq, p)
				}
			}
			o.Verdict = VIOL
			if len(uniq) > 4 {
				uniq = append(uniq[:4], fmt.Sprintf("… %d more", len(uniq)-4))
			}
			o.Detail = "order-sensitive body of a map range: " + strings.Join(uniq, "; ")
		} else {
			o.Detail = fmt.Sprintf("commutative body: %d direct effect(s), %d called function(s) reached; writes only fresh memory, map entries and per-entity objects", len(bodyEffects), nfn)
		}
		obs = append(obs, o)
	}
	return obs
}

// ---------------------------------------------------------------------------

func ruleDET3(c *Ctx) []Obligation {
	var obs []Obligation
	cg := c.CallGraph()
	prog := c.SSA()
	get := func(name string) *ssa.Function {
		if fn := c.lookupFunc(pkgASM, name); fn != nil {
			return prog.FuncValue(fn)
		}
		return nil
	}
	translate, parseString := get("translate"), get("ParseString")
	if translate == nil || parseString == nil {
		return []Obligation{{Key: "anchors", Verdict: UNDECIDED, Detail: "asm.translate / asm.ParseString not found"}}
	}
	// who calls translate: one core entry point (ParseString today; ParseStringWith when the entry points
	// take options), whatever it is called
	var callers []string
	var core *ssa.Function
	if node := cg.Nodes[translate]; node != nil {
		seen := map[string]bool{}
		for _, in := range node.In {
			n := shortFn(in.Caller.Func)
			if !seen[n] {
				seen[n] = true
				callers = append(callers, n)
				core = in.Caller.Func
			}
		}
	}
	sort.Strings(callers)
	o := Obligation{Key: "callers of asm.translate", Pos: c.pos(translate.Pos()), Verdict: OK, Detail: strings.Join(callers, ", ")}
	if len(callers) != 1 {
		o.Verdict = VIOL
		o.Detail = fmt.Sprintf("the translator is entered from %v, not from one core entry point: entry points can differ in what they translate", callers)
		core = nil
	}
	obs = append(obs, o)
	// every exported Parse… function of the package other than the core delegates to exactly one other
	// function of the package, and the chain ends in the core
	asmCallees := func(f *ssa.Function) []*ssa.Function {
		var out []*ssa.Function
		if node := cg.Nodes[f]; node != nil {
			seen := map[*ssa.Function]bool{}
			for _, e := range node.Out {
				cf := e.Callee.Func
				if cf.Pkg != nil && cf.Pkg.Pkg.Path() == pkgASM && !seen[cf] {
					seen[cf] = true
					out = append(out, cf)
				}
			}
		}
		sort.Slice(out, func(i, j int) bool { return out[i].Name() < out[j].Name() })
		return out
	}
	var entries []string
	sc := c.pkg(pkgASM).Types.Scope()
	for _, nm := range sc.Names() {
		if f, ok := sc.Lookup(nm).(*types.Func); ok && f.Exported() && strings.HasPrefix(nm, "Parse") {
			entries = append(entries, nm)
		}
	}
	for _, name := range entries {
		f := get(name)
		if f == nil || f == core {
			continue
		}
		o := Obligation{Key: "asm." + name + " delegates", Verdict: OK, Pos: c.pos(f.Pos())}
		cur, chain := f, []string{}
		for hop := 0; hop < 6 && cur != core; hop++ {
			cs := asmCallees(cur)
			if len(cs) != 1 {
				var ns []string
				for _, x := range cs {
					ns = append(ns, x.Name())
				}
				o.Verdict = VIOL
				o.Detail = fmt.Sprintf("%s calls %v within asm; expected a single delegation towards the core entry point %v", cur.Name(), ns, callers)
				break
			}
			cur = cs[0]
			chain = append(chain, cur.Name())
		}
		if o.Verdict == OK && cur != core {
			o.Verdict, o.Detail = VIOL, fmt.Sprintf("the delegation chain %v does not end in the core entry point %v", chain, callers)
		}
		if o.Verdict == OK {
			o.Detail = "delegates: " + strings.Join(chain, " → ")
		}
		obs = append(obs, o)
	}
	return obs
}

// ---------------------------------------------------------------------------

func ruleORDSORT(c *Ctx) []Obligation {
	var obs []Obligation
	pa := c.pkg(pkgASM)
	info := pa.TypesInfo
	// (a) each definition slice of ir.Module that asm fills from an index map is filled in sorted key order
	want := map[string]string{ // Module field -> required comparator
		"TypeDefs":      "natural order",
		"ComdatDefs":    "natural order",
		"AttrGroupDefs": "ascending order of the keys",
		"MetadataDefs":  "ascending order of the keys",
	}
	filled := map[string]bool{}
	for _, mr := range c.mapRanges() {
		if mr.p.PkgPath != pkgASM {
			continue
		}
		body := stripFilters(mr.rs.Body.List)
		if len(body) != 1 {
			continue
		}
		as, ok := body[0].(*ast.AssignStmt)
		if !ok || len(as.Lhs) != 1 {
			continue
		}
		id, ok := as.Lhs[0].(*ast.Ident)
		if !ok {
			continue
		}
		xs := info.ObjectOf(id)
		desc, _, sorted := sortedAfter(info, mr.encl, mr.idx, xs)
		// which Module field is filled by ranging over xs afterwards — in this function, or, when
		// this function returns the sorted slice, in the functions that call it
		type fillScope struct {
			stmts []ast.Stmt
			xs    types.Object
		}
		scopes := []fillScope{{mr.encl[mr.idx+1:], xs}}
		returnsXs := false
		for _, st := range mr.encl[mr.idx+1:] {
			if r, ok := st.(*ast.ReturnStmt); ok && len(r.Results) == 1 {
				if rid, ok := unparen(r.Results[0]).(*ast.Ident); ok && info.ObjectOf(rid) == xs {
					returnsXs = true
				}
			}
		}
		if returnsXs {
			c.eachFunc(pkgASM, func(p2 *packages.Package, fd2 *ast.FuncDecl, _ *types.Func) {
				var lists [][]ast.Stmt
				ast.Inspect(fd2.Body, func(n ast.Node) bool {
					switch n := n.(type) {
					case *ast.BlockStmt:
						lists = append(lists, n.List)
					case *ast.CaseClause:
						lists = append(lists, n.Body)
					}
					return true
				})
				for _, l := range lists {
					for k, st := range l {
						as2, ok := st.(*ast.AssignStmt)
						if !ok || len(as2.Lhs) != 1 || len(as2.Rhs) != 1 {
							continue
						}
						call, ok := unparen(as2.Rhs[0]).(*ast.CallExpr)
						if !ok || calleeOf(p2.TypesInfo, call) != mr.fn {
							continue
						}
						if lid, ok := as2.Lhs[0].(*ast.Ident); ok {
							scopes = append(scopes, fillScope{l[k+1:], p2.TypesInfo.ObjectOf(lid)})
						}
					}
				}
			})
		}
		for _, sc := range scopes {
			xs := sc.xs
			for _, st := range sc.stmts {
				ast.Inspect(st, func(n ast.Node) bool {
					rs, ok := n.(*ast.RangeStmt)
					if !ok {
						return true
					}
					if rid, ok := unparen(rs.X).(*ast.Ident); !ok || info.ObjectOf(rid) != xs {
						return true
					}
					ast.Inspect(rs.Body, func(m ast.Node) bool {
						as2, ok := m.(*ast.AssignStmt)
						if !ok {
							return true
						}
						for _, l := range as2.Lhs {
							if n2, f := c.irFieldOf(info, l); n2 != nil && typeKey(n2) == "ir.Module" {
								// index must be the range key (in-order fill) or an append
								field := f.Name()
								o := Obligation{Key: "ir.Module." + field + " filled in sorted key order", Pos: c.pos(as2.Pos()), Verdict: OK}
								req := want[field]
								switch {
								case !sorted:
									o.Verdict, o.Detail = VIOL, "the key slice is not sorted before the list is filled"
								case req != "" && !strings.HasPrefix(desc, req):
									o.Verdict, o.Detail = VIOL, fmt.Sprintf("keys are sorted in %s, the canonical order of this list is %s", desc, req)
								default:
									o.Detail = desc
								}
								if ix, ok := unparen(l).(*ast.IndexExpr); ok && rs.Key != nil && exprString(ix.Index) != exprString(rs.Key) {
									o.Verdict, o.Detail = VIOL, "list slot is not indexed by the position in the sorted key slice"
								}
								// one element per sorted key: the store is a top-level statement of the loop
								// body and no iteration is skipped — otherwise an element can sit at the
								// position of a key that is not the name it prints under (an alias of it)
								top := false
								for _, bst := range rs.Body.List {
									if bst == ast.Stmt(as2) {
										top = true
									}
								}
								skip := token.NoPos
								ast.Inspect(rs.Body, func(q ast.Node) bool {
									switch x := q.(type) {
									case *ast.FuncLit, *ast.ForStmt:
										return false
									case *ast.RangeStmt:
										return x == rs
									case *ast.BranchStmt:
										if (x.Tok == token.CONTINUE || x.Tok == token.BREAK) && skip == token.NoPos {
											skip = x.Pos()
										}
									}
									return true
								})
								if o.Verdict == OK && (!top || skip != token.NoPos) {
									o.Verdict = VIOL
									o.Detail = "the fill loop over the sorted keys does not store exactly one element per key (conditional store, or continue / break): an element can take the position of a key other than the name it is printed under, so the list is not in the canonical order of its printed names"
									if skip != token.NoPos {
										o.Pos = c.pos(skip)
									}
								}
								filled[field] = true
								obs = append(obs, o)
							}
						}
						return true
					})
					return true
				})
			}
		}
	}
	for _, f := range sortedKeys(want) {
		if !filled[f] {
			obs = append(obs, Obligation{Key: "ir.Module." + f + " filled in sorted key order", Verdict: VIOL, Detail: "no collect-sort-fill sequence found in package asm for this list: its order is not canonical"})
		}
	}
	// (b) textual order for globals: globalOrder appended only in the single indexing loop; distributed in order
	appendSites, otherWrites := 0, 0
	var loopPos token.Pos
	c.eachFunc(pkgASM, func(p *packages.Package, fd *ast.FuncDecl, fn *types.Func) {
		ast.Inspect(fd.Body, func(n ast.Node) bool {
			as, ok := n.(*ast.AssignStmt)
			if !ok {
				return true
			}
			for i, l := range as.Lhs {
				if mapFieldName(info, l) != "oldIndex.globalOrder" {
					continue
				}
				if call, ok := as.Rhs[i].(*ast.CallExpr); ok && exprString(call.Fun) == "append" && exprString(call.Args[0]) == exprString(l) && len(call.Args) == 2 {
					appendSites++
					loopPos = as.Pos()
				} else if isEmptySliceInit(info, as.Rhs[i]) {
					// globalOrder = make([]T, 0, n) / nil: an empty start, no order recorded
				} else {
					otherWrites++
				}
			}
			return true
		})
	})
	o := Obligation{Key: "oldIndex.globalOrder records textual order", Pos: c.pos(loopPos), Verdict: OK, Detail: fmt.Sprintf("%d append site(s), no other write", appendSites)}
	if appendSites == 0 || otherWrites > 0 {
		o.Verdict, o.Detail = VIOL, fmt.Sprintf("globalOrder has %d append site(s) and %d other write(s): textual order of globals is not what is recorded", appendSites, otherWrites)
	}
	obs = append(obs, o)
	// every append site lies in a range over TopLevelEntities() (the single indexing loop)
	inLoop := 0
	c.eachFunc(pkgASM, func(p *packages.Package, fd *ast.FuncDecl, fn *types.Func) {
		ast.Inspect(fd.Body, func(n ast.Node) bool {
			rs, ok := n.(*ast.RangeStmt)
			if !ok || !rangesTopLevelEntities(p.TypesInfo, fd, rs) {
				return true
			}
			ast.Inspect(rs.Body, func(m ast.Node) bool {
				if as, ok := m.(*ast.AssignStmt); ok {
					for _, l := range as.Lhs {
						if mapFieldName(info, l) == "oldIndex.globalOrder" {
							inLoop++
						}
					}
				}
				return true
			})
			return true
		})
	})
	// an append site in a helper counts when every call of the helper (in package asm) lies in that loop
	if inLoop != appendSites {
		inLoopBody := func(pos token.Pos) bool {
			found := false
			c.eachFunc(pkgASM, func(p *packages.Package, fd *ast.FuncDecl, fn *types.Func) {
				ast.Inspect(fd.Body, func(n ast.Node) bool {
					if rs, ok := n.(*ast.RangeStmt); ok && rangesTopLevelEntities(p.TypesInfo, fd, rs) && rs.Body.Pos() <= pos && pos < rs.Body.End() {
						found = true
					}
					return true
				})
			})
			return found
		}
		c.eachFunc(pkgASM, func(p *packages.Package, fd *ast.FuncDecl, helper *types.Func) {
			sites := 0
			ast.Inspect(fd.Body, func(m ast.Node) bool {
				if as, ok := m.(*ast.AssignStmt); ok && !inLoopBody(as.Pos()) {
					for _, l := range as.Lhs {
						if mapFieldName(info, l) == "oldIndex.globalOrder" {
							sites++
						}
					}
				}
				return true
			})
			if sites == 0 {
				return
			}
			calls, inside := 0, 0
			c.eachFunc(pkgASM, func(p2 *packages.Package, fd2 *ast.FuncDecl, _ *types.Func) {
				ast.Inspect(fd2.Body, func(n ast.Node) bool {
					if call, ok := n.(*ast.CallExpr); ok && calleeOf(p2.TypesInfo, call) == helper {
						calls++
						if inLoopBody(call.Pos()) {
							inside++
						}
					}
					return true
				})
			})
			if calls > 0 && calls == inside {
				inLoop += sites
			}
		})
	}
	o2 := Obligation{Key: "globalOrder appended in the top-level entity loop", Verdict: OK, Detail: fmt.Sprintf("%d of %d append site(s) inside `range old.TopLevelEntities()` (directly or in a helper called only from there)", inLoop, appendSites)}
	if inLoop != appendSites {
		o2.Verdict = VIOL
	}
	obs = append(obs, o2)
	// distribution: a range over globalOrder appends to Module.{Globals,Aliases,IFuncs,Funcs}
	dist := map[string]bool{}
	c.eachFunc(pkgASM, func(p *packages.Package, fd *ast.FuncDecl, fn *types.Func) {
		ast.Inspect(fd.Body, func(n ast.Node) bool {
			rs, ok := n.(*ast.RangeStmt)
			if !ok || mapFieldName(info, rs.X) != "oldIndex.globalOrder" {
				return true
			}
			ast.Inspect(rs.Body, func(m ast.Node) bool {
				if as, ok := m.(*ast.AssignStmt); ok && len(as.Lhs) == 1 && len(as.Rhs) == 1 {
					if n2, f := c.irFieldOf(info, as.Lhs[0]); n2 != nil && typeKey(n2) == "ir.Module" {
						if call, ok := as.Rhs[0].(*ast.CallExpr); ok && exprString(call.Fun) == "append" && exprString(call.Args[0]) == exprString(as.Lhs[0]) {
							dist[f.Name()] = true
						}
					}
				}
				return true
			})
			return true
		})
	})
	for _, f := range []string{"Globals", "Aliases", "IFuncs", "Funcs"} {
		o := Obligation{Key: "ir.Module." + f + " filled in textual order", Verdict: OK, Detail: "appended inside the in-order loop over globalOrder"}
		if !dist[f] {
			o.Verdict, o.Detail = VIOL, "not appended from the in-order loop over globalOrder"
		}
		obs = append(obs, o)
	}
	// (c) WriteTo: every definition list is emitted by an in-order range; named metadata via sorted names
	wi := c.writerAnchors()
	if len(wi.problems) == 0 {
		pi := wi.p.TypesInfo
		emitted := map[string]string{}
		// statement lists at any depth: a section may be emitted under an option test
		var allLists [][]ast.Stmt
		for _, list := range c.expandedStmtLists(wi.writeTo, 0) {
			allLists = append(allLists, list)
			for _, st := range list {
				ast.Inspect(st, func(q ast.Node) bool {
					switch x := q.(type) {
					case *ast.FuncLit:
						return false
					case *ast.BlockStmt:
						allLists = append(allLists, x.List)
					case *ast.CaseClause:
						allLists = append(allLists, x.Body)
					}
					return true
				})
			}
		}
		for _, list := range allLists {
			for i, st := range list {
				rs, ok := st.(*ast.RangeStmt)
				if !ok {
					continue
				}
				// a list handed out by a helper of the module as it is, or as a copy sorted by ID
				// (for _, md := range m.sortedMetadataDefs())
				if call, ok := unparen(rs.X).(*ast.CallExpr); ok && len(call.Args) == 0 {
					if hfd := c.funcDecl(calleeOf(pi, call)); hfd != nil && hfd.Body != nil && c.declPkg[hfd] == wi.p {
						field, sortedByID, okAll := "", false, true
						ast.Inspect(hfd.Body, func(q ast.Node) bool {
							switch x := q.(type) {
							case *ast.FuncLit:
								return false // comparison closures have returns of their own
							case *ast.ReturnStmt:
								if len(x.Results) != 1 {
									okAll = false
									return true
								}
								if n2, f := c.irFieldOf(pi, x.Results[0]); n2 != nil && typeKey(n2) == "ir.Module" {
									field = f.Name()
								} else if _, isID := unparen(x.Results[0]).(*ast.Ident); !isID {
									okAll = false
								}
							case *ast.CallExpr:
								if f := calleeOf(pi, x); f != nil && f.Pkg() != nil && f.Pkg().Path() == "sort" {
									sortedByID = strings.Contains(exprString(x), ".ID()") || func() bool {
										found := false
										ast.Inspect(hfd.Body, func(z ast.Node) bool {
											if fl, ok := z.(*ast.FuncLit); ok && strings.Contains(exprStringNode(fl.Body), ".ID() <") {
												found = true
											}
											return true
										})
										return found
									}()
								}
								if exprString(x.Fun) == "copy" && len(x.Args) == 2 {
									if n2, f := c.irFieldOf(pi, x.Args[1]); n2 != nil && typeKey(n2) == "ir.Module" {
										field = f.Name()
									}
								}
							}
							return true
						})
						if field != "" && okAll {
							if sortedByID {
								emitted[field] = "in-order range over the list or a copy of it sorted by ascending ID (" + hfd.Name.Name + ")"
							} else {
								emitted[field] = "in-order range (" + hfd.Name.Name + ")"
							}
						}
					}
				}
				if n2, f := c.irFieldOf(pi, rs.X); n2 != nil && typeKey(n2) == "ir.Module" {
					if _, isMap := pi.TypeOf(rs.X).Underlying().(*types.Map); isMap {
						// must be collect-then-sort
						if len(rs.Body.List) == 1 {
							if as, ok := rs.Body.List[0].(*ast.AssignStmt); ok && len(as.Lhs) == 1 {
								if id, ok := as.Lhs[0].(*ast.Ident); ok {
									desc, _, sorted := sortedAfter(pi, list, i, pi.ObjectOf(id))
									if sorted {
										emitted[f.Name()] = "keys sorted in " + desc
									} else {
										emitted[f.Name()] = "UNSORTED"
									}
								}
							}
						} else {
							emitted[f.Name()] = "UNSORTED"
						}
					} else {
						emitted[f.Name()] = "in-order range"
					}
				}
			}
		}
		for _, f := range []string{"TypeDefs", "ComdatDefs", "Globals", "Aliases", "IFuncs", "Funcs", "AttrGroupDefs", "NamedMetadataDefs", "MetadataDefs"} {
			o := Obligation{Key: "WriteTo emits ir.Module." + f, Pos: c.pos(wi.writeTo.Pos()), Verdict: OK, Detail: emitted[f]}
			switch {
			case emitted[f] == "":
				o.Verdict, o.Detail = VIOL, "no range over this list found at the top level of WriteTo (or of a section method it calls)"
			case emitted[f] == "UNSORTED":
				o.Verdict, o.Detail = VIOL, "a map is emitted in iteration order"
			case f == "NamedMetadataDefs" && !strings.Contains(emitted[f], "natural order"):
				o.Verdict, o.Detail = VIOL, "named metadata is not emitted in natural name order: "+emitted[f]
			}
			obs = append(obs, o)
		}
	}
	return obs
}

// expandedStmtLists returns the top-level statement list of fd and, for every
// top-level call of a method on the same receiver (m.writeGlobals(fw)), the
// statement lists of that method, recursively: a function split into phases is
// read like the unsplit one.
func (c *Ctx) expandedStmtLists(fd *ast.FuncDecl, depth int) [][]ast.Stmt {
	if fd == nil || fd.Body == nil {
		return nil
	}
	out := [][]ast.Stmt{fd.Body.List}
	if depth >= 2 || fd.Recv == nil || len(fd.Recv.List) != 1 || len(fd.Recv.List[0].Names) != 1 {
		return out
	}
	p := c.declPkg[fd]
	if p == nil {
		return out
	}
	info := p.TypesInfo
	recv := info.Defs[fd.Recv.List[0].Names[0]]
	for _, st := range fd.Body.List {
		var call *ast.CallExpr
		switch x := st.(type) {
		case *ast.ExprStmt:
			call, _ = x.X.(*ast.CallExpr)
		case *ast.AssignStmt: // names := m.sortedNames()
			if len(x.Rhs) == 1 {
				call, _ = unparen(x.Rhs[0]).(*ast.CallExpr)
			}
		}
		if call == nil {
			continue
		}
		se, ok := unparen(call.Fun).(*ast.SelectorExpr)
		if !ok {
			continue
		}
		if id, ok := unparen(se.X).(*ast.Ident); !ok || info.ObjectOf(id) != recv {
			continue
		}
		if hfd := c.funcDecl(calleeOf(info, call)); hfd != nil && hfd != fd {
			out = append(out, c.expandedStmtLists(hfd, depth+1)...)
		}
	}
	return out
}

// rangesTopLevelEntities: the loop ranges over the module's top-level entities —
// `range old.TopLevelEntities()` or a local holding that call's result.
func rangesTopLevelEntities(info *types.Info, fd *ast.FuncDecl, rs *ast.RangeStmt) bool {
	if strings.Contains(exprString(rs.X), "TopLevelEntities()") {
		return true
	}
	id, ok := unparen(rs.X).(*ast.Ident)
	if !ok {
		return false
	}
	for _, d := range collectDefs(info, fd.Body)[info.ObjectOf(id)] {
		if strings.Contains(exprString(d), "TopLevelEntities()") {
			return true
		}
	}
	return false
}

// isEmptySliceInit: nil, or make(T, 0[, cap]).
func isEmptySliceInit(info *types.Info, e ast.Expr) bool {
	e = unparen(e)
	if id, ok := e.(*ast.Ident); ok && id.Name == "nil" {
		return true
	}
	call, ok := e.(*ast.CallExpr)
	if !ok || exprString(call.Fun) != "make" || len(call.Args) < 2 {
		return false
	}
	tv := info.Types[call.Args[1]]
	return tv.Value != nil && tv.Value.String() == "0"
}

// exprStringNode renders any node (used for small bodies of comparison closures).
func exprStringNode(n ast.Node) string {
	var sb strings.Builder
	ast.Inspect(n, func(m ast.Node) bool {
		if e, ok := m.(ast.Expr); ok {
			if _, isLit := e.(*ast.FuncLit); !isLit {
				sb.WriteString(exprString(e))
				sb.WriteString(";")
				return false
			}
		}
		return true
	})
	return sb.String()
}

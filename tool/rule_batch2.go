package main

import (
	"fmt"
	"go/ast"
	"go/constant"
	"go/token"
	"go/types"
	"sort"
	"strings"

	"golang.org/x/tools/go/packages"
	"golang.org/x/tools/go/ssa"
)

// Rules added after the second round of independently seeded changes:
// ELIDE, DEDUP-SCOPE, LIT-READER, ENC-SET, ENC-UNESC, EARLY-RET, NAT-WIDTH.

func init() {
	register(&Rule{
		Name:  "ELIDE",
		Doc:   "where the printer omits a name because it equals a default (`comdat` without `($name)`), the default the printer compares against is the expression the translator substitutes when the name is absent, per entity kind",
		Floor: 2,
		Run:   ruleELIDE,
	})
	register(&Rule{
		Name:  "DEDUP-SCOPE",
		Doc:   "a de-duplication set (a map consulted before and updated after an append) lives at least as long as the collection it guards: it is not re-created inside a loop that the collection outlives",
		Floor: 1,
		Run:   ruleDEDUP,
	})
	register(&Rule{
		Name:  "LIT-READER",
		Doc:   "the translator hands the text of an integer / floating-point literal token to constant.NewIntFromString / NewFloatFromString unmodified; any other decoding of that text is a plain base-10 strconv parse",
		Floor: 2,
		Run:   ruleLITREADER,
	})
	register(&Rule{
		Name:  "ENC-SET",
		Doc:   "byte classes, evaluated for all 256 byte values: every predicate that decides which bytes are written verbatim inside quotes rejects the quote and the backslash; every hand-made quoting (`\"` + s + `\"`) is applied to escaper output or under a guard whose accepted byte set is contained in the escaper's verbatim set",
		Floor: 5,
		Run:   ruleENCSET,
	})
	register(&Rule{
		Name:  "ENC-UNESC",
		Doc:   "in enc.Unescape every test for the escape introducer and every hex-digit test reads a byte of the source string: a byte produced by decoding is data and is never examined as syntax again",
		Floor: 3,
		NeedS: true,
		Run:   ruleENCUNESC,
	})
	register(&Rule{
		Name:  "EARLY-RET",
		Doc:   "in a translator of package asm no success return (error result nil) precedes an unconditional (top-level) store to a field of the IR object being filled, unless the stored value is computed from the very variable whose emptiness the early return tests: every successful path passes every field store that can matter on it",
		Floor: 150,
		Run:   ruleEARLYRET,
	})
	register(&Rule{
		Name:  "NAT-WIDTH",
		Doc:   "natsort.Less compares digit runs as text (length, then bytes): no digit run is converted to a fixed-width machine integer, which would wrap for long runs and make the order non-transitive",
		Floor: 1,
		Run:   ruleNATWIDTH,
	})
}

// ---------------------------------------------------------------------------
// ELIDE

func rootIdent(e ast.Expr) *ast.Ident {
	for {
		switch x := unparen(e).(type) {
		case *ast.Ident:
			return x
		case *ast.SelectorExpr:
			e = x.X
		case *ast.CallExpr:
			e = x.Fun
		case *ast.IndexExpr:
			e = x.X
		case *ast.StarExpr:
			e = x.X
		default:
			return nil
		}
	}
}

// normRoot prints e with its root identifier replaced by `$`.
func normRoot(e ast.Expr) string {
	s := exprString(e)
	if id := rootIdent(e); id != nil && strings.HasPrefix(s, id.Name) {
		return "$" + s[len(id.Name):]
	}
	return s
}

func ruleELIDE(c *Ctx) []Obligation {
	var obs []Obligation
	// reader: case *ast.Comdat: name := <default>; if n, ok := X.Name(); ok { name = … }
	readerDefault := map[string]string{} // IR type key → normalised default
	readerPos := map[string]string{}
	c.eachFunc(pkgASM, func(p *packages.Package, fd *ast.FuncDecl, fn *types.Func) {
		info := p.TypesInfo
		ast.Inspect(fd.Body, func(nd ast.Node) bool {
			cl, ok := nd.(*ast.CaseClause)
			if !ok {
				return true
			}
			isComdat := false
			for _, e := range cl.List {
				if isNamed(info.TypeOf(e), pkgAST, "Comdat") {
					isComdat = true
				}
			}
			if !isComdat || len(cl.Body) == 0 {
				return true
			}
			as, ok := cl.Body[0].(*ast.AssignStmt)
			if !ok || as.Tok != token.DEFINE || len(as.Lhs) != 1 || len(as.Rhs) != 1 {
				obs = append(obs, Obligation{Key: funcKey(fn) + " implicit comdat name", Pos: c.pos(cl.Pos()), Verdict: UNDECIDED, Detail: "the comdat case does not begin with `name := <default>`"})
				return true
			}
			root := rootIdent(as.Rhs[0])
			if root == nil {
				return true
			}
			n := namedOf(info.TypeOf(root))
			if n == nil {
				return true
			}
			readerDefault[typeKey(n)] = normRoot(as.Rhs[0])
			readerPos[typeKey(n)] = c.pos(as.Pos())
			return true
		})
	})
	// printer: if X.Comdat.Name == <default> { write bare `comdat` }
	c.eachFunc(pkgIR, func(p *packages.Package, fd *ast.FuncDecl, fn *types.Func) {
		info := p.TypesInfo
		ast.Inspect(fd.Body, func(nd ast.Node) bool {
			is, ok := nd.(*ast.IfStmt)
			if !ok {
				return true
			}
			be, ok := is.Cond.(*ast.BinaryExpr)
			if !ok || be.Op != token.EQL {
				return true
			}
			isComdatName := func(e ast.Expr) bool {
				se, ok := unparen(e).(*ast.SelectorExpr)
				if !ok || se.Sel.Name != "Name" {
					return false
				}
				return isNamed(info.TypeOf(se.X), pkgIR, "ComdatDef")
			}
			var other ast.Expr
			switch {
			case isComdatName(be.X):
				other = be.Y
			case isComdatName(be.Y):
				other = be.X
			default:
				return true
			}
			root := rootIdent(other)
			if root == nil {
				return true
			}
			n := namedOf(info.TypeOf(root))
			if n == nil {
				return true
			}
			k := typeKey(n)
			o := Obligation{Key: fmt.Sprintf("%s omits the comdat name of %s when it equals the default", funcKey(fn), k), Pos: c.pos(is.Pos()), Verdict: OK}
			want, has := readerDefault[k]
			got := normRoot(other)
			switch {
			case !has:
				o.Verdict, o.Detail = UNDECIDED, "no translator case for *ast.Comdat fills a "+k
			case got != want:
				o.Verdict = VIOL
				o.Detail = fmt.Sprintf("the printer writes the bare `comdat` when Comdat.Name == %s, the translator (%s) resolves a bare `comdat` to %s: for an entity on which the two differ the printed text names another comdat (or none)", got, readerPos[k], want)
			default:
				o.Detail = fmt.Sprintf("printer and translator both use %s", want)
			}
			obs = append(obs, o)
			return true
		})
	})
	return obs
}

// ---------------------------------------------------------------------------
// DEDUP-SCOPE

func enclosingLoopsOf(pm parentMap, n ast.Node) []ast.Node {
	var out []ast.Node
	for p := pm[n]; p != nil; p = pm[p] {
		switch p.(type) {
		case *ast.ForStmt, *ast.RangeStmt:
			out = append(out, p)
		case *ast.FuncLit:
			return out
		}
	}
	return out
}

func ruleDEDUP(c *Ctx) []Obligation {
	var obs []Obligation
	for _, path := range []string{pkgASM, pkgIR, pkgMD, pkgCONS, pkgTYP} {
		c.eachFunc(path, func(p *packages.Package, fd *ast.FuncDecl, fn *types.Func) {
			info := p.TypesInfo
			pm := buildParents(fd)
			// local seen-sets: map[K]bool / map[K]struct{} variables defined in this function
			decl := map[types.Object]ast.Node{}
			ast.Inspect(fd.Body, func(nd ast.Node) bool {
				as, ok := nd.(*ast.AssignStmt)
				if !ok || as.Tok != token.DEFINE {
					return true
				}
				for i, l := range as.Lhs {
					id, ok := l.(*ast.Ident)
					if !ok || i >= len(as.Rhs) {
						continue
					}
					obj := info.Defs[id]
					if obj == nil {
						continue
					}
					mt, ok := obj.Type().Underlying().(*types.Map)
					if !ok {
						continue
					}
					switch et := mt.Elem().Underlying().(type) {
					case *types.Basic:
						if et.Kind() != types.Bool {
							continue
						}
					case *types.Struct:
						if et.NumFields() != 0 {
							continue
						}
					default:
						continue
					}
					decl[obj] = as
				}
				return true
			})
			for obj, d := range decl {
				// stores set[k] = … inside a loop, with an append in the same loop body
				ast.Inspect(fd.Body, func(nd ast.Node) bool {
					as, ok := nd.(*ast.AssignStmt)
					if !ok || len(as.Lhs) != 1 {
						return true
					}
					ix, ok := as.Lhs[0].(*ast.IndexExpr)
					if !ok {
						return true
					}
					id, ok := unparen(ix.X).(*ast.Ident)
					if !ok || info.ObjectOf(id) != obj {
						return true
					}
					loops := enclosingLoopsOf(pm, as)
					if len(loops) == 0 {
						return true
					}
					inner := loops[0]
					// the guarded collection: append(T, …) assigned to T in the innermost loop
					var target ast.Expr
					ast.Inspect(inner, func(m ast.Node) bool {
						a2, ok := m.(*ast.AssignStmt)
						if !ok || len(a2.Lhs) != 1 || len(a2.Rhs) != 1 {
							return true
						}
						call, ok := a2.Rhs[0].(*ast.CallExpr)
						if !ok || exprString(call.Fun) != "append" || len(call.Args) < 2 {
							return true
						}
						if exprString(call.Args[0]) == exprString(a2.Lhs[0]) && target == nil {
							target = a2.Lhs[0]
						}
						return true
					})
					if target == nil {
						return true
					}
					root := rootIdent(target)
					if root == nil {
						return true
					}
					rootObj := info.ObjectOf(root)
					o := Obligation{Key: fmt.Sprintf("%s: set %s guards %s", funcKey(fn), obj.Name(), normRoot(target)), Pos: c.pos(d.Pos()), Verdict: OK,
						Detail: "the set is created outside every loop the collection outlives"}
					for _, l := range loops {
						if d.Pos() > l.Pos() && d.End() < l.End() && rootObj != nil && !(rootObj.Pos() > l.Pos() && rootObj.Pos() < l.End()) {
							o.Verdict = VIOL
							o.Detail = fmt.Sprintf("the set %s is re-created on every iteration of the loop at %s, but %s, to which the guarded elements are appended, is declared outside that loop: an element already appended in an earlier iteration is appended again", obj.Name(), c.pos(l.Pos()), exprString(target))
						}
					}
					obs = append(obs, o)
					return true
				})
			}
		})
	}
	sort.Slice(obs, func(i, j int) bool { return obs[i].Key < obs[j].Key })
	// one obligation per key
	var out []Obligation
	for i, o := range obs {
		if i > 0 && obs[i-1].Key == o.Key {
			if o.Verdict != OK {
				out[len(out)-1] = o
			}
			continue
		}
		out = append(out, o)
	}
	return out
}

// ---------------------------------------------------------------------------
// LIT-READER

func ruleLITREADER(c *Ctx) []Obligation {
	var obs []Obligation
	c.eachFunc(pkgASM, func(p *packages.Package, fd *ast.FuncDecl, fn *types.Func) {
		info := p.TypesInfo
		sig := fn.Type().(*types.Signature)
		var tok *types.Var
		lit, ctor := "", ""
		for i := 0; i < sig.Params().Len(); i++ {
			pt := sig.Params().At(i).Type()
			switch {
			case isNamed(pt, pkgAST, "IntConst"):
				tok, lit, ctor = sig.Params().At(i), "IntLit", "NewIntFromString"
			case isNamed(pt, pkgAST, "FloatConst"):
				tok, lit, ctor = sig.Params().At(i), "FloatLit", "NewFloatFromString"
			}
		}
		if tok == nil {
			return
		}
		defs := collectDefs(info, fd.Body)
		// isText: e is <tok>.<lit>().Text(), directly or through single-definition locals
		var isText func(e ast.Expr, depth int) bool
		isText = func(e ast.Expr, depth int) bool {
			e = unparen(e)
			if call, ok := e.(*ast.CallExpr); ok && len(call.Args) == 0 {
				if se, ok := unparen(call.Fun).(*ast.SelectorExpr); ok && se.Sel.Name == "Text" {
					// <tok>.Text(): the constant node consists of the literal token alone
					if id, ok := unparen(se.X).(*ast.Ident); ok && info.ObjectOf(id) == tok {
						return true
					}
					if c2, ok := unparen(se.X).(*ast.CallExpr); ok {
						if s2, ok := unparen(c2.Fun).(*ast.SelectorExpr); ok && (s2.Sel.Name == lit || s2.Sel.Name == "LlvmNode") {
							if id, ok := unparen(s2.X).(*ast.Ident); ok && info.ObjectOf(id) == tok {
								return true
							}
						}
					}
				}
			}
			if id, ok := e.(*ast.Ident); ok && depth < 4 {
				if ds := defs[info.ObjectOf(id)]; len(ds) == 1 {
					return isText(ds[0], depth+1)
				}
			}
			return false
		}
		main := Obligation{Key: fmt.Sprintf("%s passes the %s text to constant.%s", funcKey(fn), lit, ctor), Pos: c.pos(fd.Pos()), Verdict: VIOL,
			Detail: "no call constant." + ctor + "(typ, <token text>) with the unmodified text of the literal token"}
		ord := 0
		ast.Inspect(fd.Body, func(nd ast.Node) bool {
			call, ok := nd.(*ast.CallExpr)
			if !ok {
				return true
			}
			f := calleeOf(info, call)
			if f == nil || f.Pkg() == nil {
				return true
			}
			textArg := -1
			for i, a := range call.Args {
				if isText(a, 0) {
					textArg = i
				}
			}
			if textArg < 0 {
				return true
			}
			if isPkgFunc(f, pkgCONS, ctor) {
				main.Verdict, main.Pos, main.Detail = OK, c.pos(call.Pos()), "unmodified token text"
				return true
			}
			ord++
			o := Obligation{Key: fmt.Sprintf("%s decodes the %s text with %s.%s #%d", funcKey(fn), lit, shortPkg(f.Pkg().Path()), f.Name(), ord), Pos: c.pos(call.Pos()), Verdict: UNDECIDED,
				Detail: "the literal text is decoded by a function other than constant." + ctor + "; its agreement with LLVM's literal syntax is not established"}
			if f.Pkg().Path() == "strconv" {
				switch f.Name() {
				case "ParseInt", "ParseUint":
					base := int64(-1)
					if len(call.Args) == 3 {
						if tv := info.Types[call.Args[1]]; tv.Value != nil {
							base, _ = constant.Int64Val(constant.ToInt(tv.Value))
						}
					}
					if base == 10 {
						o.Verdict, o.Detail = OK, "plain base-10 parse: accepts a subset of the decimal literals with their LLVM value"
					} else {
						o.Verdict = VIOL
						o.Detail = fmt.Sprintf("strconv.%s with base %d applies Go's literal syntax to LLVM token text: with base 0 a leading 0 selects octal (`010` becomes 8), 0b/0o/0x prefixes and `_` separators are accepted — LLVM reads these decimal literals as decimal", f.Name(), base)
					}
				case "Atoi":
					o.Verdict, o.Detail = OK, "plain base-10 parse"
				case "ParseFloat":
					o.Verdict, o.Detail = VIOL, "strconv.ParseFloat rounds to a Go float64 (and accepts Go spellings): the value of a half/float/x86_fp80/fp128 literal is not the nearest double"
				}
			}
			obs = append(obs, o)
			return true
		})
		obs = append(obs, main)
	})
	return obs
}

// ---------------------------------------------------------------------------
// ENC-SET — byte classes evaluated over the whole byte domain

// byteEval evaluates a side-effect-free expression over one byte variable.
type byteEval struct {
	info  *types.Info
	isVar func(ast.Expr) bool
	val   int64
}

func (e *byteEval) eval(x ast.Expr) (constant.Value, bool) {
	x = unparen(x)
	if e.isVar(x) {
		return constant.MakeInt64(e.val), true
	}
	if tv, ok := e.info.Types[x]; ok && tv.Value != nil {
		return tv.Value, true
	}
	switch x := x.(type) {
	case *ast.UnaryExpr:
		v, ok := e.eval(x.X)
		if !ok {
			return nil, false
		}
		switch x.Op {
		case token.NOT:
			if v.Kind() != constant.Bool {
				return nil, false
			}
			return constant.MakeBool(!constant.BoolVal(v)), true
		case token.SUB, token.ADD, token.XOR:
			return constant.UnaryOp(x.Op, v, 0), true
		}
	case *ast.BinaryExpr:
		a, ok := e.eval(x.X)
		if !ok {
			return nil, false
		}
		if x.Op == token.LAND || x.Op == token.LOR {
			if a.Kind() != constant.Bool {
				return nil, false
			}
			if x.Op == token.LAND && !constant.BoolVal(a) {
				return constant.MakeBool(false), true
			}
			if x.Op == token.LOR && constant.BoolVal(a) {
				return constant.MakeBool(true), true
			}
			b, ok := e.eval(x.Y)
			if !ok || b.Kind() != constant.Bool {
				return nil, false
			}
			return b, true
		}
		b, ok := e.eval(x.Y)
		if !ok {
			return nil, false
		}
		switch x.Op {
		case token.EQL, token.NEQ, token.LSS, token.LEQ, token.GTR, token.GEQ:
			if a.Kind() != b.Kind() && !(isNumKind(a) && isNumKind(b)) {
				return nil, false
			}
			return constant.MakeBool(constant.Compare(a, x.Op, b)), true
		case token.SHL, token.SHR:
			s, ok := constant.Uint64Val(constant.ToInt(b))
			if !ok || s > 64 {
				return nil, false
			}
			return constant.Shift(constant.ToInt(a), x.Op, uint(s)), true
		case token.ADD, token.SUB, token.MUL, token.AND, token.OR, token.XOR, token.AND_NOT:
			if !isNumKind(a) || !isNumKind(b) {
				return nil, false
			}
			return constant.BinaryOp(constant.ToInt(a), x.Op, constant.ToInt(b)), true
		}
	case *ast.CallExpr:
		if tv, ok := e.info.Types[x.Fun]; ok && tv.IsType() && len(x.Args) == 1 {
			return e.eval(x.Args[0]) // conversion
		}
		f := calleeOf(e.info, x)
		if f == nil || f.Pkg() == nil {
			return nil, false
		}
		name := f.Pkg().Path() + "." + f.Name()
		switch name {
		case "strings.IndexByte", "strings.IndexRune", "strings.ContainsRune", "bytes.IndexByte":
			if len(x.Args) != 2 {
				return nil, false
			}
			s, ok := e.eval(x.Args[0])
			if !ok || s.Kind() != constant.String {
				return nil, false
			}
			b, ok := e.eval(x.Args[1])
			if !ok || !isNumKind(b) {
				return nil, false
			}
			bv, _ := constant.Int64Val(constant.ToInt(b))
			idx := -1
			if bv >= 0 && bv < 0x80 {
				idx = strings.IndexByte(constant.StringVal(s), byte(bv))
			} else if name == "strings.IndexByte" || name == "bytes.IndexByte" {
				idx = strings.IndexByte(constant.StringVal(s), byte(bv))
			}
			if name == "strings.ContainsRune" {
				return constant.MakeBool(idx >= 0), true
			}
			return constant.MakeInt64(int64(idx)), true
		}
	}
	return nil, false
}

func isNumKind(v constant.Value) bool {
	return v.Kind() == constant.Int || v.Kind() == constant.Float
}

// byteSet evaluates cond for every byte value; ok=false if some value cannot be evaluated.
func byteSet(info *types.Info, cond ast.Expr, isVar func(ast.Expr) bool) (set [256]bool, ok bool) {
	for v := 0; v < 256; v++ {
		ev := &byteEval{info: info, isVar: isVar, val: int64(v)}
		r, good := ev.eval(cond)
		if !good || r.Kind() != constant.Bool {
			return set, false
		}
		set[v] = constant.BoolVal(r)
	}
	return set, true
}

func describeSet(set [256]bool) string {
	var parts []string
	for i := 0; i < 256; {
		if !set[i] {
			i++
			continue
		}
		j := i
		for j+1 < 256 && set[j+1] {
			j++
		}
		if i == j {
			parts = append(parts, fmt.Sprintf("%#02x", i))
		} else {
			parts = append(parts, fmt.Sprintf("%#02x-%#02x", i, j))
		}
		i = j + 1
	}
	return strings.Join(parts, ",")
}

// predicateAccepts: the set of bytes b for which the predicate function
// returns true on a string consisting of b. Recognised shapes:
//
//	func(b byte) bool { return COND }                       (literal or declared)
//	func(s string) bool { for …{ if [b := s[i];] COND { return false } } return true }
func (c *Ctx) predicateAccepts(info *types.Info, typ *ast.FuncType, body *ast.BlockStmt) (set [256]bool, ok bool) {
	if typ.Params == nil || len(typ.Params.List) != 1 || len(typ.Params.List[0].Names) != 1 {
		return set, false
	}
	pid := typ.Params.List[0].Names[0]
	pobj := info.Defs[pid]
	if pobj == nil {
		return set, false
	}
	if b, isB := pobj.Type().Underlying().(*types.Basic); isB && (b.Kind() == types.Uint8 || b.Kind() == types.Int32) {
		if len(body.List) == 1 {
			if r, isR := body.List[0].(*ast.ReturnStmt); isR && len(r.Results) == 1 {
				return byteSet(info, r.Results[0], func(e ast.Expr) bool {
					id, isID := e.(*ast.Ident)
					return isID && info.ObjectOf(id) == pobj
				})
			}
		}
		return set, false
	}
	if b, isB := pobj.Type().Underlying().(*types.Basic); !isB || b.Kind() != types.String {
		if _, isSl := pobj.Type().Underlying().(*types.Slice); !isSl {
			return set, false
		}
	}
	// loop form
	if len(body.List) != 2 {
		return set, false
	}
	last, isR := body.List[1].(*ast.ReturnStmt)
	if !isR || len(last.Results) != 1 || exprString(last.Results[0]) != "true" {
		return set, false
	}
	var loopBody *ast.BlockStmt
	var elemVar types.Object
	switch l := body.List[0].(type) {
	case *ast.ForStmt:
		loopBody = l.Body
	case *ast.RangeStmt:
		loopBody = l.Body
		if id, isID := l.Value.(*ast.Ident); isID {
			elemVar = info.ObjectOf(id)
		}
	default:
		return set, false
	}
	for i := range set {
		set[i] = true
	}
	for _, st := range loopBody.List {
		// a plain `b := s[i]` definition
		if as, isA := st.(*ast.AssignStmt); isA && as.Tok == token.DEFINE && len(as.Lhs) == 1 && len(as.Rhs) == 1 {
			if ix, isIx := unparen(as.Rhs[0]).(*ast.IndexExpr); isIx {
				if id, isID := unparen(ix.X).(*ast.Ident); isID && info.ObjectOf(id) == pobj {
					elemVar = info.ObjectOf(as.Lhs[0].(*ast.Ident))
					continue
				}
			}
		}
		is, isIf := st.(*ast.IfStmt)
		if !isIf || is.Else != nil || len(is.Body.List) != 1 {
			return set, false
		}
		r, isR := is.Body.List[0].(*ast.ReturnStmt)
		if !isR || len(r.Results) != 1 || exprString(r.Results[0]) != "false" {
			return set, false
		}
		ev := elemVar
		if as, isA := is.Init.(*ast.AssignStmt); isA && len(as.Lhs) == 1 && len(as.Rhs) == 1 {
			if ix, isIx := unparen(as.Rhs[0]).(*ast.IndexExpr); isIx {
				if id, isID := unparen(ix.X).(*ast.Ident); isID && info.ObjectOf(id) == pobj {
					ev = info.ObjectOf(as.Lhs[0].(*ast.Ident))
				}
			}
		} else if is.Init != nil {
			return set, false
		}
		rej, good := byteSet(info, is.Cond, func(e ast.Expr) bool {
			if id, isID := e.(*ast.Ident); isID && ev != nil && info.ObjectOf(id) == ev {
				return true
			}
			if ix, isIx := e.(*ast.IndexExpr); isIx {
				if id, isID := unparen(ix.X).(*ast.Ident); isID && info.ObjectOf(id) == pobj {
					return true
				}
			}
			return false
		})
		if !good {
			return set, false
		}
		for i := range set {
			if rej[i] {
				set[i] = false
			}
		}
	}
	return set, true
}

func ruleENCSET(c *Ctx) []Obligation {
	var obs []Obligation
	enc := c.pkg(pkgENC)
	einfo := enc.TypesInfo
	syntaxBytes := []byte{'"', '\\'}
	checkClass := func(o *Obligation, set [256]bool) {
		var bad []string
		for _, b := range syntaxBytes {
			if set[b] {
				bad = append(bad, fmt.Sprintf("%q (%#02x)", string(rune(b)), b))
			}
		}
		if len(bad) > 0 {
			o.Verdict = VIOL
			o.Detail = fmt.Sprintf("the class lets %s through verbatim: inside a quoted name or string that byte ends the literal or starts an escape sequence, so the printed text denotes other bytes than the value holds", strings.Join(bad, " and "))
		} else {
			o.Detail = "verbatim set {" + describeSet(set) + "} contains neither the quote nor the backslash"
		}
	}
	// (1) verbatim set of EscapeString: the `valid` predicate literals passed to enc.Escape
	var validSet [256]bool
	haveValid := false
	nEsc := map[*types.Func]int{}
	for _, path := range []string{pkgENC, pkgIR, pkgCONS, pkgMD, pkgTYP} {
		c.eachFunc(path, func(p *packages.Package, fd *ast.FuncDecl, fn *types.Func) {
			info := p.TypesInfo
			lits := map[types.Object]*ast.FuncLit{}
			ast.Inspect(fd.Body, func(nd ast.Node) bool {
				if as, ok := nd.(*ast.AssignStmt); ok && len(as.Lhs) == 1 && len(as.Rhs) == 1 {
					if fl, ok := as.Rhs[0].(*ast.FuncLit); ok {
						if id, ok := as.Lhs[0].(*ast.Ident); ok {
							lits[info.ObjectOf(id)] = fl
						}
					}
				}
				return true
			})
			ast.Inspect(fd.Body, func(nd ast.Node) bool {
				call, ok := nd.(*ast.CallExpr)
				if !ok || !isPkgFunc(calleeOf(info, call), pkgENC, "Escape") || len(call.Args) != 2 {
					return true
				}
				nEsc[fn]++
				o := Obligation{Key: fmt.Sprintf("%s: byte class passed to enc.Escape #%d", funcKey(fn), nEsc[fn]), Pos: c.pos(call.Pos()), Verdict: OK}
				var fl *ast.FuncLit
				switch a := unparen(call.Args[1]).(type) {
				case *ast.FuncLit:
					fl = a
				case *ast.Ident:
					fl = lits[info.ObjectOf(a)]
				}
				if fl == nil {
					o.Verdict, o.Detail = UNDECIDED, "the predicate is not a function literal of this function"
				} else if set, ok := c.predicateAccepts(info, fl.Type, fl.Body); !ok {
					o.Verdict, o.Detail = UNDECIDED, "the predicate is not a single boolean expression over its byte parameter"
				} else {
					checkClass(&o, set)
					if fn.Pkg().Path() == pkgENC && fn.Name() == "EscapeString" {
						validSet, haveValid = set, o.Verdict == OK
					}
				}
				obs = append(obs, o)
				return true
			})
		})
	}
	// (2) verbatim-copy conditions inside internal/enc: if COND(b) { buf[j] = b … }
	c.eachFunc(pkgENC, func(p *packages.Package, fd *ast.FuncDecl, fn *types.Func) {
		if fn.Name() == "Escape" || fn.Name() == "Unescape" {
			return // Escape's class is its argument (1); Unescape copies decoded bytes
		}
		n := 0
		ast.Inspect(fd.Body, func(nd ast.Node) bool {
			is, ok := nd.(*ast.IfStmt)
			if !ok || is.Init != nil {
				return true
			}
			// body stores the tested byte into an output buffer
			var copied types.Object
			for _, st := range is.Body.List {
				if as, ok := st.(*ast.AssignStmt); ok && len(as.Lhs) == 1 && len(as.Rhs) == 1 {
					if _, ok := as.Lhs[0].(*ast.IndexExpr); ok {
						if id, ok := unparen(as.Rhs[0]).(*ast.Ident); ok {
							copied = einfo.ObjectOf(id)
						}
					}
				}
			}
			if copied == nil {
				return true
			}
			n++
			o := Obligation{Key: fmt.Sprintf("%s: verbatim-copy class #%d", funcKey(fn), n), Pos: c.pos(is.Pos()), Verdict: OK}
			set, ok := byteSet(einfo, is.Cond, func(e ast.Expr) bool {
				id, isID := e.(*ast.Ident)
				return isID && einfo.ObjectOf(id) == copied
			})
			if !ok {
				o.Verdict, o.Detail = UNDECIDED, "the condition is not a boolean expression over the copied byte"
			} else {
				checkClass(&o, set)
			}
			obs = append(obs, o)
			return true
		})
	})
	// (3) hand-made quoting:  `"` + x + `"`  with non-constant x
	for _, path := range []string{pkgENC, pkgIR, pkgCONS, pkgMD, pkgTYP} {
		c.eachFunc(path, func(p *packages.Package, fd *ast.FuncDecl, fn *types.Func) {
			info := p.TypesInfo
			pm := buildParents(fd)
			n := 0
			ast.Inspect(fd.Body, func(nd ast.Node) bool {
				be, ok := nd.(*ast.BinaryExpr)
				if !ok || be.Op != token.ADD {
					return true
				}
				if par, ok := pm[be].(*ast.BinaryExpr); ok && par.Op == token.ADD {
					return true // handled at the outermost +
				}
				if tv := info.Types[be]; tv.Value != nil || !isPlainString(tv.Type) && !isStringNamed(tv.Type) {
					return true
				}
				var operands []ast.Expr
				var flat func(e ast.Expr)
				flat = func(e ast.Expr) {
					if b, ok := unparen(e).(*ast.BinaryExpr); ok && b.Op == token.ADD {
						flat(b.X)
						flat(b.Y)
						return
					}
					operands = append(operands, unparen(e))
				}
				flat(be)
				quoteLits := 0
				for _, op := range operands {
					if tv := info.Types[op]; tv.Value != nil && tv.Value.Kind() == constant.String && strings.Contains(constant.StringVal(tv.Value), `"`) {
						quoteLits++
					}
				}
				if quoteLits < 2 {
					return true
				}
				// inside a panic / error message: not output
				for q := pm[be]; q != nil; q = pm[q] {
					if call, ok := q.(*ast.CallExpr); ok {
						fs := exprString(call.Fun)
						if fs == "panic" || strings.HasSuffix(fs, "Errorf") || strings.HasSuffix(fs, "errors.New") {
							return true
						}
					}
				}
				for _, op := range operands {
					if tv := info.Types[op]; tv.Value != nil {
						continue
					}
					n++
					o := Obligation{Key: fmt.Sprintf("%s: quotes %s by hand #%d", funcKey(fn), exprString(op), n), Pos: c.pos(op.Pos()), Verdict: OK}
					// escaper output?
					inner := op
					for {
						if call, ok := inner.(*ast.CallExpr); ok && len(call.Args) == 1 {
							if tv, ok := info.Types[call.Fun]; ok && tv.IsType() {
								inner = unparen(call.Args[0])
								continue
							}
						}
						break
					}
					if call, ok := inner.(*ast.CallExpr); ok {
						if f := calleeOf(info, call); f != nil && f.Pkg() != nil && escapers[f.Pkg().Path()+"."+f.Name()] {
							o.Detail = "operand is the output of " + f.Name()
							obs = append(obs, o)
							continue
						}
						if f := calleeOf(info, call); f != nil && f.Pkg() != nil && f.Pkg().Path() == "strconv" && (f.Name() == "FormatInt" || f.Name() == "FormatUint" || f.Name() == "Itoa") {
							o.Detail = "operand is a formatted integer (digits, letters, sign): a subset of the verbatim set"
							obs = append(obs, o)
							continue
						}
					}
					if path == pkgENC && fn.Name() == "EscapeIdent" {
						o.Detail = "EscapeIdent's own output buffer; its verbatim-copy class is checked above"
						obs = append(obs, o)
						continue
					}
					// guarded by a predicate on the same variable?
					id, isID := inner.(*ast.Ident)
					if !isID {
						o.Verdict, o.Detail = UNDECIDED, "operand is neither escaper output nor a guarded variable"
						obs = append(obs, o)
						continue
					}
					acc, how, ok := c.guardAccepts(info, pm, be, info.ObjectOf(id))
					switch {
					case !ok:
						o.Verdict = VIOL
						o.Detail = fmt.Sprintf("%s is put between literal quotes without escaping and without a recognised guard on its bytes: a quote, backslash or non-printable byte in it changes what the literal denotes", id.Name)
					case !haveValid:
						o.Verdict, o.Detail = UNDECIDED, "verbatim set of enc.EscapeString not established"
					default:
						var extra [256]bool
						any := false
						for i := range acc {
							if acc[i] && !validSet[i] {
								extra[i], any = true, true
							}
						}
						if any {
							o.Verdict = VIOL
							o.Detail = fmt.Sprintf("the guard (%s) lets bytes {%s} through to the unescaped spelling, which enc.EscapeString would escape: e.g. a backslash followed by two hex digits is read back as one byte", how, describeSet(extra))
						} else {
							o.Detail = fmt.Sprintf("guard %s accepts {%s} ⊆ verbatim set of enc.EscapeString", how, describeSet(acc))
						}
					}
					obs = append(obs, o)
				}
				return true
			})
		})
	}
	return obs
}

func isStringNamed(t types.Type) bool {
	if t == nil {
		return false
	}
	b, ok := t.Underlying().(*types.Basic)
	return ok && b.Kind() == types.String
}

// guardAccepts finds an enclosing if-statement whose condition establishes a
// byte class for variable v on the path to n, and returns the accepted set.
// Recognised guards:  if pred(v) {…}   and   if _, err := strconv.ParseUint(v, 10, N); err == nil {…}
func (c *Ctx) guardAccepts(info *types.Info, pm parentMap, n ast.Node, v types.Object) (set [256]bool, how string, ok bool) {
	child := n
	for p := pm[n]; p != nil; child, p = p, pm[p] {
		is, isIf := p.(*ast.IfStmt)
		if !isIf || child != ast.Node(is.Body) {
			continue
		}
		// strconv.ParseUint / ParseInt base 10 succeeded
		if as, isA := is.Init.(*ast.AssignStmt); isA && len(as.Rhs) == 1 {
			if call, isC := as.Rhs[0].(*ast.CallExpr); isC {
				f := calleeOf(info, call)
				if f != nil && f.Pkg() != nil && f.Pkg().Path() == "strconv" && (f.Name() == "ParseUint" || f.Name() == "ParseInt") && len(call.Args) == 3 {
					if id, isID := unparen(call.Args[0]).(*ast.Ident); isID && info.ObjectOf(id) == v {
						base := int64(0)
						if tv := info.Types[call.Args[1]]; tv.Value != nil {
							base, _ = constant.Int64Val(constant.ToInt(tv.Value))
						}
						cond := strings.ReplaceAll(exprString(is.Cond), " ", "")
						if base == 10 && strings.HasSuffix(cond, "==nil") {
							for b := '0'; b <= '9'; b++ {
								set[b] = true
							}
							if f.Name() == "ParseInt" {
								set['+'], set['-'] = true, true
							}
							return set, "strconv." + f.Name() + " base 10 succeeded", true
						}
					}
				}
			}
		}
		// pred(v)
		if call, isC := unparen(is.Cond).(*ast.CallExpr); isC && len(call.Args) == 1 {
			if id, isID := unparen(call.Args[0]).(*ast.Ident); isID && info.ObjectOf(id) == v {
				if f := calleeOf(info, call); f != nil {
					if fd := c.funcDecl(f); fd != nil && fd.Body != nil {
						if pk := c.pkg(f.Pkg().Path()); pk != nil {
							if s, good := c.predicateAccepts(pk.TypesInfo, fd.Type, fd.Body); good {
								return s, f.Name(), true
							}
						}
					}
				}
			}
		}
	}
	return set, "", false
}

// ---------------------------------------------------------------------------
// ENC-UNESC

func ruleENCUNESC(c *Ctx) []Obligation {
	fn := c.lookupFunc(pkgENC, "Unescape")
	sf := c.ssaFunc(fn)
	if fn == nil || sf == nil || len(sf.Params) != 1 {
		return []Obligation{{Key: "enc.Unescape", Verdict: UNDECIDED, Detail: "function not found"}}
	}
	src := sf.Params[0]
	var isSrcByte func(v ssa.Value, depth int) bool
	isSrcByte = func(v ssa.Value, depth int) bool {
		if depth > 6 {
			return false
		}
		switch x := v.(type) {
		case *ssa.Lookup:
			return x.X == ssa.Value(src)
		case *ssa.Index: // string indexing (go/ssa ≥ 0.2x represents s[i] as Index)
			return x.X == ssa.Value(src)
		case *ssa.Convert:
			return isSrcByte(x.X, depth+1)
		case *ssa.ChangeType:
			return isSrcByte(x.X, depth+1)
		case *ssa.Phi:
			for _, e := range x.Edges {
				if !isSrcByte(e, depth+1) {
					return false
				}
			}
			return len(x.Edges) > 0
		}
		return false
	}
	var obs []Obligation
	n := 0
	for _, b := range sf.Blocks {
		for _, in := range b.Instrs {
			switch x := in.(type) {
			case *ssa.BinOp:
				if x.Op != token.EQL && x.Op != token.NEQ {
					continue
				}
				var other ssa.Value
				if k, ok := x.Y.(*ssa.Const); ok && k.Value != nil && k.Value.Kind() == constant.Int && k.Int64() == '\\' {
					other = x.X
				} else if k, ok := x.X.(*ssa.Const); ok && k.Value != nil && k.Value.Kind() == constant.Int && k.Int64() == '\\' {
					other = x.Y
				}
				if other == nil {
					continue
				}
				n++
				o := Obligation{Key: fmt.Sprintf("enc.Unescape escape-introducer test #%d", n), Pos: c.pos(x.Pos()), Verdict: OK, Detail: "tests a byte of the source string"}
				if !isSrcByte(other, 0) {
					o.Verdict = VIOL
					o.Detail = "the byte compared with the backslash may be a byte that was just decoded from an escape sequence: `\\5C` decodes to a backslash, which is then taken for the start of another escape and swallows part of the following text (`\\5C\\5C` no longer decodes to two backslashes)"
				}
				obs = append(obs, o)
			case *ssa.Call:
				callee := x.Call.StaticCallee()
				if callee == nil || callee.Name() != "unhex" || len(x.Call.Args) != 1 {
					continue
				}
				n++
				o := Obligation{Key: fmt.Sprintf("enc.Unescape hex-digit test #%d", n), Pos: c.pos(x.Pos()), Verdict: OK, Detail: "tests a byte of the source string"}
				if !isSrcByte(x.Call.Args[0], 0) {
					o.Verdict, o.Detail = VIOL, "the hex-digit test is applied to a value that is not a byte of the source string"
				}
				obs = append(obs, o)
			}
		}
	}
	return obs
}

// ---------------------------------------------------------------------------
// EARLY-RET

// earlyRetExempt: frozen exemptions keyed "func: store" with the reason the
// early success return legitimately skips the store.
var earlyRetExempt = map[string]string{}

func ruleEARLYRET(c *Ctx) []Obligation {
	var obs []Obligation
	c.eachFunc(pkgASM, func(p *packages.Package, fd *ast.FuncDecl, fn *types.Func) {
		info := p.TypesInfo
		sig := fn.Type().(*types.Signature)
		nres := sig.Results().Len()
		if nres == 0 || !isNamed(sig.Results().At(nres-1).Type(), "", "error") && sig.Results().At(nres-1).Type().String() != "error" {
			return
		}
		isSuccess := func(r *ast.ReturnStmt) bool {
			if len(r.Results) != nres {
				return false
			}
			id, ok := unparen(r.Results[nres-1]).(*ast.Ident)
			return ok && id.Name == "nil"
		}
		// success returns nested in (or being) each top-level statement
		type ret struct {
			idx   int
			pos   token.Pos
			guard map[types.Object]bool // local variables tested by the conditions the return sits under
		}
		var rets []ret
		pm := buildParents(fd.Body)
		defs := collectDefs(info, fd.Body)
		localsIn := func(e ast.Node, into map[types.Object]bool) {
			ast.Inspect(e, func(m ast.Node) bool {
				if id, ok := m.(*ast.Ident); ok {
					if v, ok := info.Uses[id].(*types.Var); ok && !v.IsField() && v.Parent() != nil && v.Parent() != v.Pkg().Scope() {
						into[v] = true
					}
				}
				return true
			})
		}
		for i, st := range fd.Body.List {
			ast.Inspect(st, func(nd ast.Node) bool {
				switch nd := nd.(type) {
				case *ast.FuncLit:
					return false
				case *ast.ReturnStmt:
					if isSuccess(nd) {
						g := map[types.Object]bool{}
						for x := pm[nd]; x != nil; x = pm[x] {
							if is, ok := x.(*ast.IfStmt); ok {
								localsIn(is.Cond, g)
							}
						}
						rets = append(rets, ret{i, nd.Pos(), g})
					}
				}
				return true
			})
		}
		// dependsOn: the stored value is computed from one of the guard variables (through local definitions)
		dependsOn := func(rhs []ast.Expr, guard map[types.Object]bool) bool {
			if len(guard) == 0 {
				return false
			}
			seen := map[types.Object]bool{}
			var walk func(e ast.Node, depth int) bool
			walk = func(e ast.Node, depth int) bool {
				used := map[types.Object]bool{}
				localsIn(e, used)
				for v := range used {
					if guard[v] {
						return true
					}
				}
				if depth >= 4 {
					return false
				}
				for v := range used {
					if seen[v] {
						continue
					}
					seen[v] = true
					for _, d := range defs[v] {
						if walk(d, depth+1) {
							return true
						}
					}
				}
				return false
			}
			for _, r := range rhs {
				if walk(r, 0) {
					return true
				}
			}
			return false
		}
		for i, st := range fd.Body.List {
			as, ok := st.(*ast.AssignStmt)
			if !ok {
				continue
			}
			for _, l := range as.Lhs {
				se, ok := unparen(l).(*ast.SelectorExpr)
				if !ok {
					continue
				}
				sel, ok := info.Selections[se]
				if !ok || sel.Kind() != types.FieldVal {
					continue
				}
				owner := namedOf(sel.Recv())
				if owner == nil || owner.Obj().Pkg() == nil || !isIRPkg(owner.Obj().Pkg().Path()) {
					continue
				}
				if _, ok := unparen(se.X).(*ast.Ident); !ok {
					continue
				}
				k := fmt.Sprintf("%s: every success return passes the store to %s.%s", funcKey(fn), typeKey(owner), se.Sel.Name)
				o := Obligation{Key: k, Pos: c.pos(as.Pos()), Verdict: OK, Tags: irTags(owner)}
				for _, r := range rets {
					if r.idx < i {
						if dependsOn(as.Rhs, r.guard) {
							// the guard found empty exactly what this store is computed from
							// (`if len(xs) == 0 { return … }` before `obj.F = make(…, len(xs))`)
							continue
						}
						if why, ok := earlyRetExempt[funcKey(fn)+": "+typeKey(owner)+"."+se.Sel.Name]; ok {
							o.Verdict, o.Detail = EXEMPT, why
							break
						}
						o.Verdict = VIOL
						o.Pos = c.pos(r.pos)
						o.Detail = fmt.Sprintf("a success return at %s leaves the translator before the unconditional store to %s.%s at %s: on that path the field keeps its zero value although the source may specify it", c.pos(r.pos), typeKey(owner), se.Sel.Name, c.pos(as.Pos()))
						break
					}
				}
				obs = append(obs, o)
			}
		}
	})
	// keys may repeat when a field is stored twice at top level
	seen := map[string]int{}
	for i := range obs {
		seen[obs[i].Key]++
		if n := seen[obs[i].Key]; n > 1 {
			obs[i].Key += fmt.Sprintf(" #%d", n)
		}
	}
	return obs
}

// ---------------------------------------------------------------------------
// NAT-WIDTH

func ruleNATWIDTH(c *Ctx) []Obligation {
	var obs []Obligation
	fn := c.lookupFunc(pkgNAT, "Less")
	fd := c.funcDecl(fn)
	if fd == nil {
		return []Obligation{{Key: "natsort.Less", Verdict: UNDECIDED, Detail: "function not found"}}
	}
	p := c.pkg(pkgNAT)
	info := p.TypesInfo
	o := Obligation{Key: "natsort.Less compares digit runs as text", Pos: c.pos(fd.Pos()), Verdict: OK, Detail: "no byte of the input is accumulated into a fixed-width integer and no strconv/big parse is applied"}
	// every function of the package reachable by name from Less: the package is tiny, scan all of it
	c.eachFunc(pkgNAT, func(_ *packages.Package, d *ast.FuncDecl, f *types.Func) {
		// string parameters / their elements
		isInputByte := func(e ast.Expr) bool {
			found := false
			ast.Inspect(e, func(m ast.Node) bool {
				if ix, ok := m.(*ast.IndexExpr); ok {
					if t := info.TypeOf(ix.X); t != nil {
						if b, ok := t.Underlying().(*types.Basic); ok && b.Kind() == types.String {
							found = true
						}
					}
				}
				return true
			})
			return found
		}
		ast.Inspect(d.Body, func(nd ast.Node) bool {
			switch nd := nd.(type) {
			case *ast.CallExpr:
				if cf := calleeOf(info, nd); cf != nil && cf.Pkg() != nil {
					switch cf.Pkg().Path() {
					case "strconv":
						if strings.HasPrefix(cf.Name(), "Parse") || cf.Name() == "Atoi" {
							o.Verdict, o.Pos = VIOL, c.pos(nd.Pos())
							o.Detail = fmt.Sprintf("%s converts a digit run with strconv.%s: runs that do not fit the machine integer fail or wrap, so the comparison is no longer a total order on names with long numbers", funcKey(f), cf.Name())
						}
					}
				}
			case *ast.AssignStmt:
				// acc = acc*10 + digit   /   acc *= 10
				for i, r := range nd.Rhs {
					if i >= len(nd.Lhs) {
						break
					}
					lt := info.TypeOf(nd.Lhs[i])
					if lt == nil {
						continue
					}
					b, ok := lt.Underlying().(*types.Basic)
					if !ok || b.Info()&types.IsInteger == 0 {
						continue
					}
					mul := nd.Tok == token.MUL_ASSIGN
					ast.Inspect(r, func(m ast.Node) bool {
						if be, ok := m.(*ast.BinaryExpr); ok && be.Op == token.MUL {
							mul = true
						}
						return true
					})
					if mul && (isInputByte(r) || nd.Tok == token.MUL_ASSIGN) {
						o.Verdict, o.Pos = VIOL, c.pos(nd.Pos())
						o.Detail = fmt.Sprintf("%s accumulates a digit run into the %s variable %s: for runs of 20 or more digits the value wraps, so two different numbers compare equal or in the wrong order and the order is not transitive (sorted output depends on input order)", funcKey(f), b.Name(), exprString(nd.Lhs[i]))
					}
				}
			}
			return true
		})
	})
	obs = append(obs, o)
	return obs
}

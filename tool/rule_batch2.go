package main

import (
	"fmt"
	"go/ast"
	"go/constant"
	"go/parser"
	"go/token"
	"go/types"
	"sort"
	"strings"

	"golang.org/x/tools/go/packages"
	"golang.org/x/tools/go/ssa"
)

// Rules added after the second round of independently seeded changes:
// ELIDE, DEDUP-SCOPE, LIT-READER, ENC-SET, ENC-UNESC, EARLY-RET, NAT-WIDTH.

func init() {
	register(&Rule{
		Name:  "ELIDE",
		Doc:   "where the printer omits a name because it equals a default (`comdat` without `($name)`), the default the printer compares against is the expression the translator substitutes when the name is absent, per entity kind",
		Floor: 2,
		Run:   ruleELIDE,
	})
	register(&Rule{
		Name:  "DEDUP-SCOPE",
		Doc:   "a de-duplication set (a map consulted before and updated after an append) lives at least as long as the collection it guards: it is not re-created inside a loop that the collection outlives",
		Floor: 1,
		Run:   ruleDEDUP,
	})
	register(&Rule{
		Name:  "LIT-READER",
		Doc:   "the translator hands the text of an integer / floating-point literal token to constant.NewIntFromString / NewFloatFromString unmodified; any other decoding of that text is a plain base-10 strconv parse",
		Floor: 2,
		Run:   ruleLITREADER,
	})
	register(&Rule{
		Name:  "ENC-SET",
		Doc:   "byte classes, evaluated for all 256 byte values: every predicate that decides which bytes are written verbatim inside quotes rejects the quote and the backslash; every hand-made quoting (`\"` + s + `\"`) is applied to escaper output or under a guard whose accepted byte set is contained in the escaper's verbatim set",
		Floor: 5,
		Run:   ruleENCSET,
	})
	register(&Rule{
		Name:  "ENC-UNESC",
		Doc:   "in enc.Unescape every test for the escape introducer and every hex-digit test reads a byte of the source string: a byte produced by decoding is data and is never examined as syntax again",
		Floor: 3,
		NeedS: true,
		Run:   ruleENCUNESC,
	})
	register(&Rule{
		Name:  "EARLY-RET",
		Doc:   "in a translator of package asm no success return (error result nil) precedes an unconditional (top-level) store to a field of the IR object being filled, unless the stored value is computed from the very variable whose emptiness the early return tests: every successful path passes every field store that can matter on it",
		Floor: 150,
		Run:   ruleEARLYRET,
	})
	register(&Rule{
		Name:  "NAT-WIDTH",
		Doc:   "natsort.Less compares digit runs as text (length, then bytes): no digit run is converted to a fixed-width machine integer, which would wrap for long runs and make the order non-transitive",
		Floor: 1,
		Run:   ruleNATWIDTH,
	})
}

// ---------------------------------------------------------------------------
// ELIDE

func rootIdent(e ast.Expr) *ast.Ident {
	for {
		switch x := unparen(e).(type) {
		case *ast.Ident:
			return x
		case *ast.SelectorExpr:
			e = x.X
		case *ast.CallExpr:
			e = x.Fun
		case *ast.IndexExpr:
			e = x.X
		case *ast.StarExpr:
			e = x.X
		default:
			return nil
		}
	}
}

// normRoot prints e with its root identifier replaced by `$`.
func normRoot(e ast.Expr) string {
	s := exprString(e)
	if id := rootIdent(e); id != nil && strings.HasPrefix(s, id.Name) {
		return "$" + s[len(id.Name):]
	}
	return s
}

// selChain: e as root identifier plus the chain of selected names, hops through embedded
// fields dropped (g.GlobalIdent.GlobalName and g.GlobalName are the same field) and niladic
// method calls kept as `Name()`.
func selChain(info *types.Info, e ast.Expr) (*ast.Ident, []string, bool) {
	var names []string
	for {
		switch x := unparen(e).(type) {
		case *ast.Ident:
			for i, j := 0, len(names)-1; i < j; i, j = i+1, j-1 {
				names[i], names[j] = names[j], names[i]
			}
			return x, names, true
		case *ast.SelectorExpr:
			if sel, ok := info.Selections[x]; ok && sel.Kind() == types.FieldVal {
				if v, ok := sel.Obj().(*types.Var); ok && v.Embedded() {
					e = x.X
					continue
				}
			}
			names = append(names, x.Sel.Name)
			e = x.X
		case *ast.CallExpr:
			se, ok := unparen(x.Fun).(*ast.SelectorExpr)
			if !ok || len(x.Args) != 0 {
				return nil, nil, false
			}
			names = append(names, se.Sel.Name+"()")
			e = se.X
		case *ast.StarExpr:
			e = x.X
		default:
			return nil, nil, false
		}
	}
}

func ruleELIDE(c *Ctx) []Obligation {
	var obs []Obligation
	// reader: case *ast.Comdat: name := <default>; if n, ok := X.Name(); ok { name = … }
	readerDefault := map[string]string{} // IR type key → normalised default
	readerPos := map[string]string{}
	c.eachFunc(pkgASM, func(p *packages.Package, fd *ast.FuncDecl, fn *types.Func) {
		info := p.TypesInfo
		ast.Inspect(fd.Body, func(nd ast.Node) bool {
			cl, ok := nd.(*ast.CaseClause)
			if !ok {
				return true
			}
			isComdat := false
			for _, e := range cl.List {
				if isNamed(info.TypeOf(e), pkgAST, "Comdat") {
					isComdat = true
				}
			}
			if !isComdat || len(cl.Body) == 0 {
				return true
			}
			as, ok := cl.Body[0].(*ast.AssignStmt)
			var dflt ast.Expr
			if ok && as.Tok == token.DEFINE && len(as.Lhs) == 1 && len(as.Rhs) == 1 {
				dflt = as.Rhs[0]
			}
			// … := gen.lookupComdat(field, <default>): a helper of the package that starts
			// from its parameter and overrides it with the written name
			if ok && len(as.Rhs) == 1 {
				if call, isCall := unparen(as.Rhs[0]).(*ast.CallExpr); isCall {
					if callee := calleeOf(info, call); callee != nil && callee.Pkg() != nil && callee.Pkg().Path() == pkgASM {
						if hfd := c.funcDecl(callee); hfd != nil && hfd.Body != nil && len(hfd.Body.List) > 0 {
							hi := c.declPkg[hfd].TypesInfo
							if has, ok := hfd.Body.List[0].(*ast.AssignStmt); ok && has.Tok == token.DEFINE && len(has.Rhs) == 1 {
								if pid, ok := unparen(has.Rhs[0]).(*ast.Ident); ok {
									k := 0
									for _, f := range hfd.Type.Params.List {
										for _, nm := range f.Names {
											if hi.Defs[nm] == hi.ObjectOf(pid) && k < len(call.Args) {
												dflt = call.Args[k]
											}
											k++
										}
									}
								}
							}
						}
					}
				}
			}
			if dflt == nil {
				obs = append(obs, Obligation{Key: funcKey(fn) + " implicit comdat name", Pos: c.pos(cl.Pos()), Verdict: UNDECIDED, Detail: "the comdat case does not begin with `name := <default>` (directly or in a helper that receives the default)"})
				return true
			}
			as = &ast.AssignStmt{Lhs: as.Lhs, TokPos: as.TokPos, Tok: as.Tok, Rhs: []ast.Expr{dflt}}
			root := rootIdent(as.Rhs[0])
			if root == nil {
				return true
			}
			n := namedOf(info.TypeOf(root))
			if n == nil {
				return true
			}
			readerDefault[typeKey(n)] = normRoot(as.Rhs[0])
			readerPos[typeKey(n)] = c.pos(as.Pos())
			return true
		})
	})
	// printer: if X.Comdat.Name == <default> { write bare `comdat` }
	c.eachFunc(pkgIR, func(p *packages.Package, fd *ast.FuncDecl, fn *types.Func) {
		info := p.TypesInfo
		ast.Inspect(fd.Body, func(nd ast.Node) bool {
			is, ok := nd.(*ast.IfStmt)
			if !ok {
				return true
			}
			isComdatName := func(e ast.Expr) bool {
				se, ok := unparen(e).(*ast.SelectorExpr)
				if !ok || se.Sel.Name != "Name" {
					return false
				}
				return isNamed(info.TypeOf(se.X), pkgIR, "ComdatDef")
			}
			// the comparison itself, possibly one conjunct of the condition
			// (!g.IsUnnamed() && g.Comdat.Name == g.GlobalName)
			var be *ast.BinaryExpr
			conds := []ast.Expr{is.Cond}
			for i := 0; i < len(conds); i++ {
				b, ok := unparen(conds[i]).(*ast.BinaryExpr)
				if !ok {
					continue
				}
				if b.Op == token.LAND {
					conds = append(conds, b.X, b.Y)
				} else if b.Op == token.EQL && be == nil && (isComdatName(b.X) || isComdatName(b.Y)) {
					be = b
				}
			}
			if be == nil {
				return true
			}
			var other ast.Expr
			switch {
			case isComdatName(be.X):
				other = be.Y
			case isComdatName(be.Y):
				other = be.X
			default:
				return true
			}
			judge := func(who *types.Func, pos token.Pos, oinfo *types.Info, other ast.Expr) {
				root := rootIdent(other)
				if root == nil {
					return
				}
				n := namedOf(oinfo.TypeOf(root))
				if n == nil {
					return
				}
				k := typeKey(n)
				o := Obligation{Key: fmt.Sprintf("%s omits the comdat name of %s when it equals the default", funcKey(who), k), Pos: c.pos(pos), Verdict: OK}
				want, has := readerDefault[k]
				got := normRoot(other)
				switch {
				case !has:
					o.Verdict, o.Detail = UNDECIDED, "no translator case for *ast.Comdat fills a "+k
				case got != want:
					o.Verdict = VIOL
					o.Detail = fmt.Sprintf("the printer writes the bare `comdat` when Comdat.Name == %s, the translator (%s) resolves a bare `comdat` to %s: for an entity on which the two differ the printed text names another comdat (or none)", got, readerPos[k], want)
				default:
					o.Detail = fmt.Sprintf("printer and translator both use %s", want)
				}
				obs = append(obs, o)
			}
			// … or a field of a parameter (writeComdat(buf, sep, comdat, ident GlobalIdent) comparing with
			// ident.GlobalName): judged at each call with the argument's root and the joined field path
			if id := rootIdent(other); id != nil && unparen(other) != ast.Expr(id) {
				sig := fn.Type().(*types.Signature)
				for pi := 0; pi < sig.Params().Len(); pi++ {
					if info.ObjectOf(id) != sig.Params().At(pi) {
						continue
					}
					// a parameter that is the entity itself (headerString(f *Func)) is judged in place
					if pn := namedOf(sig.Params().At(pi).Type()); pn != nil {
						if _, has := readerDefault[typeKey(pn)]; has {
							break
						}
					}
					_, tail, ok1 := selChain(info, other)
					if !ok1 {
						break
					}
					c.eachFunc(pkgIR, func(p2 *packages.Package, fd2 *ast.FuncDecl, caller *types.Func) {
						ast.Inspect(fd2.Body, func(m ast.Node) bool {
							call, ok := m.(*ast.CallExpr)
							if !ok || calleeOf(p2.TypesInfo, call) != fn || pi >= len(call.Args) {
								return true
							}
							root, head, ok2 := selChain(p2.TypesInfo, call.Args[pi])
							n := (*types.Named)(nil)
							if ok2 {
								n = namedOf(p2.TypesInfo.TypeOf(root))
							}
							if n == nil {
								return true
							}
							k := typeKey(n)
							o := Obligation{Key: fmt.Sprintf("%s omits the comdat name of %s when it equals the default", funcKey(caller), k), Pos: c.pos(call.Pos()), Verdict: OK}
							want, has := readerDefault[k]
							got := "$" + strings.Join(append(append([]string{""}, head...), tail...), ".")
							switch {
							case !has:
								o.Verdict, o.Detail = UNDECIDED, "no translator case for *ast.Comdat fills a "+k
							case got != want:
								o.Verdict = VIOL
								o.Detail = fmt.Sprintf("the printer writes the bare `comdat` when Comdat.Name == %s, the translator (%s) resolves a bare `comdat` to %s: for an entity on which the two differ the printed text names another comdat (or none)", got, readerPos[k], want)
							default:
								o.Detail = fmt.Sprintf("printer and translator both use %s", want)
							}
							// several calls from one printer share a key: keep the worst verdict
							for i := range obs {
								if obs[i].Rule == o.Rule && obs[i].Key == o.Key {
									if obs[i].Verdict == OK && o.Verdict != OK {
										obs[i] = o
									}
									return true
								}
							}
							obs = append(obs, o)
							return true
						})
					})
					return true
				}
			}
			// the default compared with may be a parameter of a shared helper
			// (writeComdat(buf, sep, comdat, name)): judged at each call with the argument passed
			if id, ok := unparen(other).(*ast.Ident); ok {
				sig := fn.Type().(*types.Signature)
				for pi := 0; pi < sig.Params().Len(); pi++ {
					if info.ObjectOf(id) != sig.Params().At(pi) {
						continue
					}
					c.eachFunc(pkgIR, func(p2 *packages.Package, fd2 *ast.FuncDecl, caller *types.Func) {
						ast.Inspect(fd2.Body, func(m ast.Node) bool {
							if call, ok := m.(*ast.CallExpr); ok && calleeOf(p2.TypesInfo, call) == fn && pi < len(call.Args) {
								judge(caller, call.Pos(), p2.TypesInfo, call.Args[pi])
							}
							return true
						})
					})
					return true
				}
			}
			judge(fn, is.Pos(), info, other)
			return true
		})
	})
	return obs
}

// ---------------------------------------------------------------------------
// DEDUP-SCOPE

func enclosingLoopsOf(pm parentMap, n ast.Node) []ast.Node {
	var out []ast.Node
	for p := pm[n]; p != nil; p = pm[p] {
		switch p.(type) {
		case *ast.ForStmt, *ast.RangeStmt:
			out = append(out, p)
		case *ast.FuncLit:
			return out
		}
	}
	return out
}

// returnsLocal: some return statement of fd hands back the local v as its first result.
func (c *Ctx) returnsLocal(info *types.Info, fd *ast.FuncDecl, v types.Object) bool {
	found := false
	ast.Inspect(fd.Body, func(n ast.Node) bool {
		if r, ok := n.(*ast.ReturnStmt); ok && len(r.Results) >= 1 {
			if id, ok := unparen(r.Results[0]).(*ast.Ident); ok && info.ObjectOf(id) == v {
				found = true
			}
		}
		return true
	})
	return found
}

func ruleDEDUP(c *Ctx) []Obligation {
	var obs []Obligation
	for _, path := range []string{pkgASM, pkgIR, pkgMD, pkgCONS, pkgTYP} {
		c.eachFunc(path, func(p *packages.Package, fd *ast.FuncDecl, fn *types.Func) {
			info := p.TypesInfo
			pm := buildParents(fd)
			// local seen-sets: map[K]bool / map[K]struct{} variables defined in this function
			decl := map[types.Object]ast.Node{}
			ast.Inspect(fd.Body, func(nd ast.Node) bool {
				as, ok := nd.(*ast.AssignStmt)
				if !ok || as.Tok != token.DEFINE {
					return true
				}
				for i, l := range as.Lhs {
					id, ok := l.(*ast.Ident)
					if !ok || i >= len(as.Rhs) {
						continue
					}
					obj := info.Defs[id]
					if obj == nil {
						continue
					}
					mt, ok := obj.Type().Underlying().(*types.Map)
					if !ok {
						continue
					}
					switch et := mt.Elem().Underlying().(type) {
					case *types.Basic:
						if et.Kind() != types.Bool {
							continue
						}
					case *types.Struct:
						if et.NumFields() != 0 {
							continue
						}
					default:
						continue
					}
					decl[obj] = as
				}
				return true
			})
			for obj, d := range decl {
				// stores set[k] = … inside a loop, with an append in the same loop body
				ast.Inspect(fd.Body, func(nd ast.Node) bool {
					as, ok := nd.(*ast.AssignStmt)
					if !ok || len(as.Lhs) != 1 {
						return true
					}
					ix, ok := as.Lhs[0].(*ast.IndexExpr)
					if !ok {
						return true
					}
					id, ok := unparen(ix.X).(*ast.Ident)
					if !ok || info.ObjectOf(id) != obj {
						return true
					}
					loops := enclosingLoopsOf(pm, as)
					if len(loops) == 0 {
						return true
					}
					inner := loops[0]
					// the guarded collection: append(T, …) assigned to T in the innermost loop
					var target ast.Expr
					ast.Inspect(inner, func(m ast.Node) bool {
						a2, ok := m.(*ast.AssignStmt)
						if !ok || len(a2.Lhs) != 1 || len(a2.Rhs) != 1 {
							return true
						}
						call, ok := a2.Rhs[0].(*ast.CallExpr)
						if !ok || exprString(call.Fun) != "append" || len(call.Args) < 2 {
							return true
						}
						if exprString(call.Args[0]) == exprString(a2.Lhs[0]) && target == nil {
							target = a2.Lhs[0]
						}
						return true
					})
					if target == nil {
						return true
					}
					root := rootIdent(target)
					if root == nil {
						return true
					}
					rootObj := info.ObjectOf(root)
					o := Obligation{Key: fmt.Sprintf("%s: set %s guards %s", funcKey(fn), obj.Name(), normRoot(target)), Pos: c.pos(d.Pos()), Verdict: OK,
						Detail: "the set is created outside every loop the collection outlives"}
					for _, l := range loops {
						if d.Pos() > l.Pos() && d.End() < l.End() && rootObj != nil && !(rootObj.Pos() > l.Pos() && rootObj.Pos() < l.End()) {
							o.Verdict = VIOL
							o.Detail = fmt.Sprintf("the set %s is re-created on every iteration of the loop at %s, but %s, to which the guarded elements are appended, is declared outside that loop: an element already appended in an earlier iteration is appended again", obj.Name(), c.pos(l.Pos()), exprString(target))
						}
					}
					// the same across a call: set and collection are locals of a helper that returns the
					// collection; a caller invokes the helper inside a loop and appends each result to
					// a collection that outlives the loop — the set is re-created per call
					if o.Verdict == OK && rootObj != nil && c.returnsLocal(info, fd, rootObj) {
						c.eachFunc(path, func(p2 *packages.Package, fd2 *ast.FuncDecl, caller *types.Func) {
							ci := p2.TypesInfo
							pm2 := buildParents(fd2)
							ast.Inspect(fd2.Body, func(m ast.Node) bool {
								call, ok := m.(*ast.CallExpr)
								if !ok || calleeOf(ci, call) != fn {
									return true
								}
								as2, ok := pm2[call].(*ast.AssignStmt)
								if !ok || len(as2.Lhs) == 0 {
									return true
								}
								rid, ok := as2.Lhs[0].(*ast.Ident)
								if !ok {
									return true
								}
								res := ci.ObjectOf(rid)
								for _, l := range enclosingLoopsOf(pm2, call) {
									ast.Inspect(l, func(q ast.Node) bool {
										a3, ok := q.(*ast.AssignStmt)
										if !ok || len(a3.Lhs) != 1 || len(a3.Rhs) != 1 {
											return true
										}
										ap, ok := a3.Rhs[0].(*ast.CallExpr)
										if !ok || exprString(ap.Fun) != "append" || len(ap.Args) < 2 || exprString(ap.Args[0]) != exprString(a3.Lhs[0]) {
											return true
										}
										uses := false
										for _, a := range ap.Args[1:] {
											if id, ok := unparen(a).(*ast.Ident); ok && ci.ObjectOf(id) == res {
												uses = true
											}
										}
										if r := rootIdent(a3.Lhs[0]); uses && r != nil {
											if ro := ci.ObjectOf(r); ro != nil && !(ro.Pos() > l.Pos() && ro.Pos() < l.End()) {
												o.Verdict, o.Pos = VIOL, c.pos(call.Pos())
												o.Detail = fmt.Sprintf("the set %s lives inside %s, which %s calls once per iteration of the loop at %s while appending each result to %s, declared outside that loop: an element appended by an earlier call is appended again (duplicates are filtered within one call only)", obj.Name(), fn.Name(), funcKey(caller), c.pos(l.Pos()), exprString(a3.Lhs[0]))
											}
										}
										return true
									})
								}
								return true
							})
						})
					}
					obs = append(obs, o)
					return true
				})
			}
		})
	}
	sort.Slice(obs, func(i, j int) bool { return obs[i].Key < obs[j].Key })
	// one obligation per key
	var out []Obligation
	for i, o := range obs {
		if i > 0 && obs[i-1].Key == o.Key {
			if o.Verdict != OK {
				out[len(out)-1] = o
			}
			continue
		}
		out = append(out, o)
	}
	return out
}

// ---------------------------------------------------------------------------
// LIT-READER

func ruleLITREADER(c *Ctx) []Obligation {
	var obs []Obligation
	c.eachFunc(pkgASM, func(p *packages.Package, fd *ast.FuncDecl, fn *types.Func) {
		info := p.TypesInfo
		sig := fn.Type().(*types.Signature)
		var tok *types.Var
		lit, ctor := "", ""
		for i := 0; i < sig.Params().Len(); i++ {
			pt := sig.Params().At(i).Type()
			switch {
			case isNamed(pt, pkgAST, "IntConst"):
				tok, lit, ctor = sig.Params().At(i), "IntLit", "NewIntFromString"
			case isNamed(pt, pkgAST, "FloatConst"):
				tok, lit, ctor = sig.Params().At(i), "FloatLit", "NewFloatFromString"
			}
		}
		if tok == nil {
			return
		}
		defs := collectDefs(info, fd.Body)
		// isText: e is <tok>.<lit>().Text(), directly or through single-definition locals
		var isText func(e ast.Expr, depth int) bool
		isText = func(e ast.Expr, depth int) bool {
			e = unparen(e)
			if call, ok := e.(*ast.CallExpr); ok && len(call.Args) == 0 {
				if se, ok := unparen(call.Fun).(*ast.SelectorExpr); ok && se.Sel.Name == "Text" {
					// <tok>.Text(): the constant node consists of the literal token alone
					if id, ok := unparen(se.X).(*ast.Ident); ok && info.ObjectOf(id) == tok {
						return true
					}
					if c2, ok := unparen(se.X).(*ast.CallExpr); ok {
						if s2, ok := unparen(c2.Fun).(*ast.SelectorExpr); ok && (s2.Sel.Name == lit || s2.Sel.Name == "LlvmNode") {
							if id, ok := unparen(s2.X).(*ast.Ident); ok && info.ObjectOf(id) == tok {
								return true
							}
						}
					}
				}
			}
			if id, ok := e.(*ast.Ident); ok && depth < 4 {
				if ds := defs[info.ObjectOf(id)]; len(ds) == 1 {
					return isText(ds[0], depth+1)
				}
			}
			return false
		}
		main := Obligation{Key: fmt.Sprintf("%s passes the %s text to constant.%s", funcKey(fn), lit, ctor), Pos: c.pos(fd.Pos()), Verdict: VIOL,
			Detail: "no call constant." + ctor + "(typ, <token text>) with the unmodified text of the literal token"}
		ord := 0
		ast.Inspect(fd.Body, func(nd ast.Node) bool {
			call, ok := nd.(*ast.CallExpr)
			if !ok {
				return true
			}
			f := calleeOf(info, call)
			if f == nil || f.Pkg() == nil {
				return true
			}
			// the token handed on whole to another translator of the package that takes the same
			// token type (gepIntVal(n) → gen.irIntConst(types.I64, n)): that function is judged itself
			if f.Pkg().Path() == pkgASM && f != fn {
				fs := f.Type().(*types.Signature)
				for i, a := range call.Args {
					if id, ok := unparen(a).(*ast.Ident); ok && info.ObjectOf(id) == tok && i < fs.Params().Len() && types.Identical(fs.Params().At(i).Type(), tok.Type()) {
						if main.Verdict == VIOL {
							main.Verdict, main.Pos, main.Detail = OK, c.pos(call.Pos()), "the token is handed whole to "+f.Name()+", which is judged itself"
						}
					}
				}
			}
			textArg := -1
			for i, a := range call.Args {
				if isText(a, 0) {
					textArg = i
				}
			}
			if textArg < 0 {
				return true
			}
			// the text quoted in a diagnostic is not decoded
			switch f.Pkg().Path() {
			case "fmt", "errors", "github.com/pkg/errors", "log":
				return true
			}
			if isPkgFunc(f, pkgCONS, ctor) {
				main.Verdict, main.Pos, main.Detail = OK, c.pos(call.Pos()), "unmodified token text"
				return true
			}
			ord++
			o := Obligation{Key: fmt.Sprintf("%s decodes the %s text with %s.%s #%d", funcKey(fn), lit, shortPkg(f.Pkg().Path()), f.Name(), ord), Pos: c.pos(call.Pos()), Verdict: UNDECIDED,
				Detail: "the literal text is decoded by a function other than constant." + ctor + "; its agreement with LLVM's literal syntax is not established"}
			if f.Pkg().Path() == "strconv" {
				switch f.Name() {
				case "ParseInt", "ParseUint":
					base := int64(-1)
					if len(call.Args) == 3 {
						if tv := info.Types[call.Args[1]]; tv.Value != nil {
							base, _ = constant.Int64Val(constant.ToInt(tv.Value))
						}
					}
					if base == 10 {
						o.Verdict, o.Detail = OK, "plain base-10 parse: accepts a subset of the decimal literals with their LLVM value"
					} else {
						o.Verdict = VIOL
						o.Detail = fmt.Sprintf("strconv.%s with base %d applies Go's literal syntax to LLVM token text: with base 0 a leading 0 selects octal (`010` becomes 8), 0b/0o/0x prefixes and `_` separators are accepted — LLVM reads these decimal literals as decimal", f.Name(), base)
					}
				case "Atoi":
					o.Verdict, o.Detail = OK, "plain base-10 parse"
				case "ParseFloat":
					o.Verdict, o.Detail = VIOL, "strconv.ParseFloat rounds to a Go float64 (and accepts Go spellings): the value of a half/float/x86_fp80/fp128 literal is not the nearest double"
				}
			}
			obs = append(obs, o)
			return true
		})
		obs = append(obs, main)
	})
	return obs
}

// ---------------------------------------------------------------------------
// ENC-SET — byte classes evaluated over the whole byte domain

// byteEval evaluates a side-effect-free expression over one byte variable.
type byteEval struct {
	info  *types.Info
	isVar func(ast.Expr) bool
	val   int64
	// lookup tables ([256]bool sets): resolved through the context; inside an inlined method the
	// receiver denotes the caller's table
	c       *Ctx
	recv    types.Object
	recvTab *[256]bool
	depth   int
}

// tableOf resolves an expression to a byte set held as a [256]bool-like table.
func (e *byteEval) tableOf(x ast.Expr) (*[256]bool, bool) {
	x = unparen(x)
	switch y := x.(type) {
	case *ast.UnaryExpr:
		if y.Op == token.AND {
			return e.tableOf(y.X)
		}
	case *ast.StarExpr:
		return e.tableOf(y.X)
	case *ast.Ident:
		if e.recv != nil && e.info.ObjectOf(y) == e.recv && e.recvTab != nil {
			return e.recvTab, true
		}
	}
	if e.c == nil {
		return nil, false
	}
	if t, ok := e.c.byteTableOf(e.info, x, 0); ok {
		return &t, true
	}
	return nil, false
}

// byteTableOf: the byte set denoted by a table expression — a package-level variable of an
// array-of-bool type initialised by a composite literal with constant keys or by a constructor
// of the shape  func(chars string) T { var set T; for … { set[chars[i]] = true }; return set }
// applied to a constant string.
func (c *Ctx) byteTableOf(info *types.Info, x ast.Expr, depth int) (set [256]bool, ok bool) {
	if depth > 3 {
		return set, false
	}
	x = unparen(x)
	isBoolArray := func(t types.Type) bool {
		if t == nil {
			return false
		}
		if p, ok := t.Underlying().(*types.Pointer); ok {
			t = p.Elem()
		}
		a, ok := t.Underlying().(*types.Array)
		if !ok {
			return false
		}
		b, ok := a.Elem().Underlying().(*types.Basic)
		return ok && b.Kind() == types.Bool
	}
	switch y := x.(type) {
	case *ast.UnaryExpr:
		if y.Op == token.AND {
			return c.byteTableOf(info, y.X, depth+1)
		}
	case *ast.Ident:
		obj, _ := info.ObjectOf(y).(*types.Var)
		if obj == nil || obj.Pkg() == nil || obj.Parent() != obj.Pkg().Scope() || !isBoolArray(obj.Type()) {
			return set, false
		}
		p := c.pkg(obj.Pkg().Path())
		if p == nil {
			return set, false
		}
		// the variable must never be written after its initialisation
		written := false
		var init ast.Expr
		for _, f := range p.Syntax {
			ast.Inspect(f, func(n ast.Node) bool {
				switch n := n.(type) {
				case *ast.ValueSpec:
					for i, nm := range n.Names {
						if p.TypesInfo.Defs[nm] == obj && i < len(n.Values) {
							init = n.Values[i]
						}
					}
				case *ast.AssignStmt:
					for _, l := range n.Lhs {
						r := unparen(l)
						if ix, ok := r.(*ast.IndexExpr); ok {
							r = unparen(ix.X)
						}
						if id, ok := r.(*ast.Ident); ok && p.TypesInfo.ObjectOf(id) == obj {
							written = true
						}
					}
				}
				return true
			})
		}
		if init == nil || written {
			return set, false
		}
		return c.byteTableOf(p.TypesInfo, init, depth+1)
	case *ast.CompositeLit:
		if !isBoolArray(info.TypeOf(y)) {
			return set, false
		}
		for _, el := range y.Elts {
			kv, ok := el.(*ast.KeyValueExpr)
			if !ok {
				return set, false
			}
			k, v := info.Types[kv.Key].Value, info.Types[kv.Value].Value
			if k == nil || v == nil || v.Kind() != constant.Bool {
				return set, false
			}
			i, exact := constant.Int64Val(constant.ToInt(k))
			if !exact || i < 0 || i > 255 {
				return set, false
			}
			set[i] = constant.BoolVal(v)
		}
		return set, true
	case *ast.CallExpr:
		// an immediately invoked initialiser:  func() (set T) { for i := … { set[CONST[i]] = true }; return set }()
		if fl, ok := unparen(y.Fun).(*ast.FuncLit); ok && len(y.Args) == 0 && isBoolArray(info.TypeOf(y)) {
			good, stores := true, 0
			var chars string
			ast.Inspect(fl.Body, func(n ast.Node) bool {
				as, ok := n.(*ast.AssignStmt)
				if !ok {
					return true
				}
				for i, l := range as.Lhs {
					ix, ok := unparen(l).(*ast.IndexExpr)
					if !ok || !isBoolArray(info.TypeOf(ix.X)) {
						continue
					}
					stores++
					k, ok := unparen(ix.Index).(*ast.IndexExpr)
					if !ok || i >= len(as.Rhs) || exprString(as.Rhs[i]) != "true" {
						good = false
						continue
					}
					if tv := info.Types[k.X]; tv.Value != nil && tv.Value.Kind() == constant.String {
						chars = constant.StringVal(tv.Value)
					} else {
						good = false
					}
				}
				return true
			})
			if !good || stores != 1 {
				return set, false
			}
			for _, b := range []byte(chars) {
				set[b] = true
			}
			return set, true
		}
		if len(y.Args) != 1 {
			return set, false
		}
		av := info.Types[y.Args[0]].Value
		if av == nil || av.Kind() != constant.String {
			return set, false
		}
		f := calleeOf(info, y)
		fd := c.funcDecl(f)
		if fd == nil || fd.Body == nil || !isBoolArray(info.TypeOf(y)) {
			return set, false
		}
		fi := c.declPkg[fd].TypesInfo
		sig := f.Type().(*types.Signature)
		if sig.Params().Len() != 1 || !isStringNamed(sig.Params().At(0).Type()) {
			return set, false
		}
		chars := sig.Params().At(0)
		// every store into an array element in the body is  tbl[chars[i]] = true  (or the ranged
		// byte of []byte(chars)) inside a loop over chars; nothing else writes the table
		good, stores := true, 0
		var rangedByte types.Object
		ast.Inspect(fd.Body, func(n ast.Node) bool {
			switch n := n.(type) {
			case *ast.RangeStmt:
				if call, ok := unparen(n.X).(*ast.CallExpr); ok && len(call.Args) == 1 {
					if tv, ok := fi.Types[call.Fun]; ok && tv.IsType() {
						if id, ok := unparen(call.Args[0]).(*ast.Ident); ok && fi.ObjectOf(id) == chars {
							if v, ok := n.Value.(*ast.Ident); ok {
								rangedByte = fi.ObjectOf(v)
							}
						}
					}
				}
			case *ast.AssignStmt:
				for i, l := range n.Lhs {
					ix, ok := unparen(l).(*ast.IndexExpr)
					if !ok || !isBoolArray(fi.TypeOf(ix.X)) {
						continue
					}
					stores++
					okIdx := false
					switch k := unparen(ix.Index).(type) {
					case *ast.IndexExpr:
						if id, ok := unparen(k.X).(*ast.Ident); ok && fi.ObjectOf(id) == chars {
							okIdx = true
						}
					case *ast.Ident:
						okIdx = rangedByte != nil && fi.ObjectOf(k) == rangedByte
					}
					if !okIdx || i >= len(n.Rhs) || exprString(n.Rhs[i]) != "true" {
						good = false
					}
				}
			}
			return true
		})
		if !good || stores != 1 {
			return set, false
		}
		for _, b := range []byte(constant.StringVal(av)) {
			set[b] = true
		}
		return set, true
	}
	return set, false
}

// evalBody interprets the body of a byte predicate for the current value: return statements, if / else,
// and switch statements (tagged by the byte or tagless) without fallthrough. ok is false for anything else.
func (e *byteEval) evalBody(list []ast.Stmt) (val constant.Value, returned bool, ok bool) {
	for _, st := range list {
		switch x := st.(type) {
		case *ast.ReturnStmt:
			if len(x.Results) != 1 {
				return nil, false, false
			}
			v, good := e.eval(x.Results[0])
			return v, true, good
		case *ast.IfStmt:
			if x.Init != nil {
				return nil, false, false
			}
			cv, good := e.eval(x.Cond)
			if !good || cv.Kind() != constant.Bool {
				return nil, false, false
			}
			var branch []ast.Stmt
			if constant.BoolVal(cv) {
				branch = x.Body.List
			} else if eb, isBlk := x.Else.(*ast.BlockStmt); isBlk {
				branch = eb.List
			} else if ei, isIf := x.Else.(*ast.IfStmt); isIf {
				branch = []ast.Stmt{ei}
			}
			if v, ret, good := e.evalBody(branch); !good {
				return nil, false, false
			} else if ret {
				return v, true, true
			}
		case *ast.SwitchStmt:
			if x.Init != nil {
				return nil, false, false
			}
			var tag constant.Value
			if x.Tag != nil {
				tv, good := e.eval(x.Tag)
				if !good {
					return nil, false, false
				}
				tag = tv
			}
			var chosen, deflt *ast.CaseClause
			for _, cc := range x.Body.List {
				cl := cc.(*ast.CaseClause)
				if cl.List == nil {
					deflt = cl
					continue
				}
				for _, ce := range cl.List {
					cv, good := e.eval(ce)
					if !good {
						return nil, false, false
					}
					hit := false
					if tag != nil {
						if isNumKind(cv) && isNumKind(tag) {
							hit = constant.Compare(constant.ToInt(cv), token.EQL, constant.ToInt(tag))
						}
					} else if cv.Kind() == constant.Bool {
						hit = constant.BoolVal(cv)
					}
					if hit && chosen == nil {
						chosen = cl
					}
				}
				if chosen != nil {
					break
				}
			}
			if chosen == nil {
				chosen = deflt
			}
			if chosen != nil {
				for _, b := range chosen.Body {
					if br, isBr := b.(*ast.BranchStmt); isBr && br.Tok == token.FALLTHROUGH {
						return nil, false, false
					}
				}
				if v, ret, good := e.evalBody(chosen.Body); !good {
					return nil, false, false
				} else if ret {
					return v, true, true
				}
			}
		default:
			return nil, false, false
		}
	}
	return nil, false, true
}

func (e *byteEval) eval(x ast.Expr) (constant.Value, bool) {
	x = unparen(x)
	if e.isVar(x) {
		return constant.MakeInt64(e.val), true
	}
	if tv, ok := e.info.Types[x]; ok && tv.Value != nil {
		return tv.Value, true
	}
	switch x := x.(type) {
	case *ast.UnaryExpr:
		v, ok := e.eval(x.X)
		if !ok {
			return nil, false
		}
		switch x.Op {
		case token.NOT:
			if v.Kind() != constant.Bool {
				return nil, false
			}
			return constant.MakeBool(!constant.BoolVal(v)), true
		case token.SUB, token.ADD, token.XOR:
			return constant.UnaryOp(x.Op, v, 0), true
		}
	case *ast.BinaryExpr:
		a, ok := e.eval(x.X)
		if !ok {
			return nil, false
		}
		if x.Op == token.LAND || x.Op == token.LOR {
			if a.Kind() != constant.Bool {
				return nil, false
			}
			if x.Op == token.LAND && !constant.BoolVal(a) {
				return constant.MakeBool(false), true
			}
			if x.Op == token.LOR && constant.BoolVal(a) {
				return constant.MakeBool(true), true
			}
			b, ok := e.eval(x.Y)
			if !ok || b.Kind() != constant.Bool {
				return nil, false
			}
			return b, true
		}
		b, ok := e.eval(x.Y)
		if !ok {
			return nil, false
		}
		switch x.Op {
		case token.EQL, token.NEQ, token.LSS, token.LEQ, token.GTR, token.GEQ:
			if a.Kind() != b.Kind() && !(isNumKind(a) && isNumKind(b)) {
				return nil, false
			}
			return constant.MakeBool(constant.Compare(a, x.Op, b)), true
		case token.SHL, token.SHR:
			s, ok := constant.Uint64Val(constant.ToInt(b))
			if !ok || s > 64 {
				return nil, false
			}
			return constant.Shift(constant.ToInt(a), x.Op, uint(s)), true
		case token.ADD, token.SUB, token.MUL, token.AND, token.OR, token.XOR, token.AND_NOT:
			if !isNumKind(a) || !isNumKind(b) {
				return nil, false
			}
			return constant.BinaryOp(constant.ToInt(a), x.Op, constant.ToInt(b)), true
		}
	case *ast.IndexExpr:
		// membership in a lookup table
		if tab, ok := e.tableOf(x.X); ok {
			i, ok := e.eval(x.Index)
			if !ok || !isNumKind(i) {
				return nil, false
			}
			iv, exact := constant.Int64Val(constant.ToInt(i))
			if !exact || iv < 0 || iv > 255 {
				return nil, false
			}
			return constant.MakeBool(tab[iv]), true
		}
	case *ast.CallExpr:
		if tv, ok := e.info.Types[x.Fun]; ok && tv.IsType() && len(x.Args) == 1 {
			return e.eval(x.Args[0]) // conversion
		}
		f := calleeOf(e.info, x)
		if f == nil || f.Pkg() == nil {
			return nil, false
		}
		// a one-line predicate of the module — func (set *T) contains(b byte) bool { return set[b] },
		// func isX(b byte) bool { return … } — is inlined with its argument's value
		if e.c != nil && e.c.isOurs(f.Pkg().Path()) && len(x.Args) == 1 && e.depth < 3 {
			if fd := e.c.funcDecl(f); fd != nil && fd.Body != nil && len(fd.Body.List) >= 1 {
				if r, ok := fd.Body.List[len(fd.Body.List)-1].(*ast.ReturnStmt); ok && len(r.Results) == 1 {
					av, ok := e.eval(x.Args[0])
					sig := f.Type().(*types.Signature)
					if ok && isNumKind(av) && sig.Params().Len() == 1 {
						a64, _ := constant.Int64Val(constant.ToInt(av))
						fi := e.c.declPkg[fd].TypesInfo
						param := sig.Params().At(0)
						child := &byteEval{info: fi, c: e.c, val: a64, depth: e.depth + 1, isVar: func(z ast.Expr) bool {
							id, isID := z.(*ast.Ident)
							return isID && fi.ObjectOf(id) == param
						}}
						if sig.Recv() != nil {
							if se, ok := unparen(x.Fun).(*ast.SelectorExpr); ok {
								if tab, ok := e.tableOf(se.X); ok {
									child.recv, child.recvTab = sig.Recv(), tab
								}
							}
						}
						if len(fd.Body.List) == 1 {
							if v, ok := child.eval(r.Results[0]); ok {
								return v, true
							}
						} else if v, ret, ok := child.evalBody(fd.Body.List); ok && ret {
							return v, true
						}
					}
				}
			}
		}
		name := f.Pkg().Path() + "." + f.Name()
		switch name {
		case "strings.IndexByte", "strings.IndexRune", "strings.ContainsRune", "bytes.IndexByte":
			if len(x.Args) != 2 {
				return nil, false
			}
			s, ok := e.eval(x.Args[0])
			if !ok || s.Kind() != constant.String {
				return nil, false
			}
			b, ok := e.eval(x.Args[1])
			if !ok || !isNumKind(b) {
				return nil, false
			}
			bv, _ := constant.Int64Val(constant.ToInt(b))
			idx := -1
			if bv >= 0 && bv < 0x80 {
				idx = strings.IndexByte(constant.StringVal(s), byte(bv))
			} else if name == "strings.IndexByte" || name == "bytes.IndexByte" {
				idx = strings.IndexByte(constant.StringVal(s), byte(bv))
			}
			if name == "strings.ContainsRune" {
				return constant.MakeBool(idx >= 0), true
			}
			return constant.MakeInt64(int64(idx)), true
		}
	}
	return nil, false
}

func isNumKind(v constant.Value) bool {
	return v.Kind() == constant.Int || v.Kind() == constant.Float
}

// byteSet evaluates cond for every byte value; ok=false if some value cannot be evaluated.
func byteSet(info *types.Info, cond ast.Expr, isVar func(ast.Expr) bool) (set [256]bool, ok bool) {
	for v := 0; v < 256; v++ {
		ev := &byteEval{info: info, isVar: isVar, val: int64(v), c: curCtx}
		r, good := ev.eval(cond)
		if !good || r.Kind() != constant.Bool {
			return set, false
		}
		set[v] = constant.BoolVal(r)
	}
	return set, true
}

func describeSet(set [256]bool) string {
	var parts []string
	for i := 0; i < 256; {
		if !set[i] {
			i++
			continue
		}
		j := i
		for j+1 < 256 && set[j+1] {
			j++
		}
		if i == j {
			parts = append(parts, fmt.Sprintf("%#02x", i))
		} else {
			parts = append(parts, fmt.Sprintf("%#02x-%#02x", i, j))
		}
		i = j + 1
	}
	return strings.Join(parts, ",")
}

// predicateAccepts: the set of bytes b for which the predicate function
// returns true on a string consisting of b. Recognised shapes:
//
//	func(b byte) bool { return COND }                       (literal or declared)
//	func(s string) bool { for …{ if [b := s[i];] COND { return false } } return true }
func (c *Ctx) predicateAccepts(info *types.Info, typ *ast.FuncType, body *ast.BlockStmt) (set [256]bool, ok bool) {
	if typ.Params == nil || len(typ.Params.List) != 1 || len(typ.Params.List[0].Names) != 1 {
		return set, false
	}
	pid := typ.Params.List[0].Names[0]
	pobj := info.Defs[pid]
	if pobj == nil {
		return set, false
	}
	if b, isB := pobj.Type().Underlying().(*types.Basic); isB && (b.Kind() == types.Uint8 || b.Kind() == types.Int32) {
		if len(body.List) == 1 {
			if r, isR := body.List[0].(*ast.ReturnStmt); isR && len(r.Results) == 1 {
				return byteSet(info, r.Results[0], func(e ast.Expr) bool {
					id, isID := e.(*ast.Ident)
					return isID && info.ObjectOf(id) == pobj
				})
			}
		}
		// a predicate written with a switch / if chain: interpreted for each of the 256 values
		for v := 0; v < 256; v++ {
			ev := &byteEval{info: info, c: c, val: int64(v), isVar: func(e ast.Expr) bool {
				id, isID := e.(*ast.Ident)
				return isID && info.ObjectOf(id) == pobj
			}}
			r, ret, good := ev.evalBody(body.List)
			if !good || !ret || r == nil || r.Kind() != constant.Bool {
				return set, false
			}
			set[v] = constant.BoolVal(r)
		}
		return set, true
	}
	if b, isB := pobj.Type().Underlying().(*types.Basic); !isB || b.Kind() != types.String {
		if _, isSl := pobj.Type().Underlying().(*types.Slice); !isSl {
			return set, false
		}
	}
	// loop form
	if len(body.List) != 2 {
		return set, false
	}
	last, isR := body.List[1].(*ast.ReturnStmt)
	if !isR || len(last.Results) != 1 || exprString(last.Results[0]) != "true" {
		return set, false
	}
	var loopBody *ast.BlockStmt
	var elemVar types.Object
	switch l := body.List[0].(type) {
	case *ast.ForStmt:
		loopBody = l.Body
	case *ast.RangeStmt:
		loopBody = l.Body
		if id, isID := l.Value.(*ast.Ident); isID {
			elemVar = info.ObjectOf(id)
		}
	default:
		return set, false
	}
	for i := range set {
		set[i] = true
	}
	for _, st := range loopBody.List {
		// a plain `b := s[i]` definition
		if as, isA := st.(*ast.AssignStmt); isA && as.Tok == token.DEFINE && len(as.Lhs) == 1 && len(as.Rhs) == 1 {
			if ix, isIx := unparen(as.Rhs[0]).(*ast.IndexExpr); isIx {
				if id, isID := unparen(ix.X).(*ast.Ident); isID && info.ObjectOf(id) == pobj {
					elemVar = info.ObjectOf(as.Lhs[0].(*ast.Ident))
					continue
				}
			}
		}
		is, isIf := st.(*ast.IfStmt)
		if !isIf || is.Else != nil || len(is.Body.List) != 1 {
			return set, false
		}
		r, isR := is.Body.List[0].(*ast.ReturnStmt)
		if !isR || len(r.Results) != 1 || exprString(r.Results[0]) != "false" {
			return set, false
		}
		ev := elemVar
		if as, isA := is.Init.(*ast.AssignStmt); isA && len(as.Lhs) == 1 && len(as.Rhs) == 1 {
			if ix, isIx := unparen(as.Rhs[0]).(*ast.IndexExpr); isIx {
				if id, isID := unparen(ix.X).(*ast.Ident); isID && info.ObjectOf(id) == pobj {
					ev = info.ObjectOf(as.Lhs[0].(*ast.Ident))
				}
			}
		} else if is.Init != nil {
			return set, false
		}
		rej, good := byteSet(info, is.Cond, func(e ast.Expr) bool {
			if id, isID := e.(*ast.Ident); isID && ev != nil && info.ObjectOf(id) == ev {
				return true
			}
			if ix, isIx := e.(*ast.IndexExpr); isIx {
				if id, isID := unparen(ix.X).(*ast.Ident); isID && info.ObjectOf(id) == pobj {
					return true
				}
			}
			return false
		})
		if !good {
			return set, false
		}
		for i := range set {
			if rej[i] {
				set[i] = false
			}
		}
	}
	return set, true
}

func ruleENCSET(c *Ctx) []Obligation {
	var obs []Obligation
	enc := c.pkg(pkgENC)
	einfo := enc.TypesInfo
	syntaxBytes := []byte{'"', '\\'}
	checkClass := func(o *Obligation, set [256]bool) {
		var bad []string
		for _, b := range syntaxBytes {
			if set[b] {
				bad = append(bad, fmt.Sprintf("%q (%#02x)", string(rune(b)), b))
			}
		}
		if len(bad) > 0 {
			o.Verdict = VIOL
			o.Detail = fmt.Sprintf("the class lets %s through verbatim: inside a quoted name or string that byte ends the literal or starts an escape sequence, so the printed text denotes other bytes than the value holds", strings.Join(bad, " and "))
		} else {
			o.Detail = "verbatim set {" + describeSet(set) + "} contains neither the quote nor the backslash"
		}
	}
	// (1) verbatim set of EscapeString: the `valid` predicate literals passed to enc.Escape — or to
	// any other function of internal/enc that takes the byte class as a func(byte) bool parameter
	escapeEngines := map[*types.Func]int{}
	c.eachFunc(pkgENC, func(p *packages.Package, fd *ast.FuncDecl, fn *types.Func) {
		ps := fn.Type().(*types.Signature).Params()
		for i := 0; i < ps.Len(); i++ {
			if isByteTest(ps.At(i).Type()) {
				escapeEngines[fn] = i
			}
		}
	})
	var validSet [256]bool
	haveValid := false
	nEsc := map[*types.Func]int{}
	for _, path := range []string{pkgENC, pkgIR, pkgCONS, pkgMD, pkgTYP} {
		c.eachFunc(path, func(p *packages.Package, fd *ast.FuncDecl, fn *types.Func) {
			info := p.TypesInfo
			lits := map[types.Object]*ast.FuncLit{}
			ast.Inspect(fd.Body, func(nd ast.Node) bool {
				if as, ok := nd.(*ast.AssignStmt); ok && len(as.Lhs) == 1 && len(as.Rhs) == 1 {
					if fl, ok := as.Rhs[0].(*ast.FuncLit); ok {
						if id, ok := as.Lhs[0].(*ast.Ident); ok {
							lits[info.ObjectOf(id)] = fl
						}
					}
				}
				return true
			})
			ast.Inspect(fd.Body, func(nd ast.Node) bool {
				call, ok := nd.(*ast.CallExpr)
				if !ok || len(call.Args) != 2 {
					return true
				}
				if pi, isEngine := escapeEngines[calleeOf(info, call)]; !isEngine || pi != 1 {
					return true
				}
				// an engine handing its own predicate parameter on to another engine
				if id, ok := unparen(call.Args[1]).(*ast.Ident); ok {
					if _, isEngine := escapeEngines[fn]; isEngine {
						if v, ok := info.ObjectOf(id).(*types.Var); ok && isByteTest(v.Type()) {
							return true
						}
					}
				}
				nEsc[fn]++
				o := Obligation{Key: fmt.Sprintf("%s: byte class passed to enc.Escape #%d", funcKey(fn), nEsc[fn]), Pos: c.pos(call.Pos()), Verdict: OK}
				var fl *ast.FuncLit
				var mset *[256]bool
				switch a := unparen(call.Args[1]).(type) {
				case *ast.FuncLit:
					fl = a
				case *ast.Ident:
					fl = lits[info.ObjectOf(a)]
					if fl == nil {
						// a declared one-line predicate
						if f, ok := info.ObjectOf(a).(*types.Func); ok {
							if pfd := c.funcDecl(f); pfd != nil && pfd.Body != nil {
								if set, ok := c.predicateAccepts(c.declPkg[pfd].TypesInfo, pfd.Type, pfd.Body); ok {
									mset = &set
								}
							}
						}
					}
				case *ast.SelectorExpr:
					// a method value of a lookup table: tailSet.contains
					var set [256]bool
					good := true
					for v := 0; v < 256 && good; v++ {
						ev := &byteEval{info: info, c: c, val: int64(v), isVar: func(z ast.Expr) bool { return z == ast.Expr(a) }}
						// evaluate the call a(<v>) by inlining: build it from the method's declaration
						probe := &ast.CallExpr{Fun: a, Args: []ast.Expr{a}}
						r, ok := ev.eval(probe)
						if !ok || r.Kind() != constant.Bool {
							good = false
							break
						}
						set[v] = constant.BoolVal(r)
					}
					if good {
						mset = &set
					}
				}
				if mset != nil {
					checkClass(&o, *mset)
					if fn.Pkg().Path() == pkgENC && fn.Name() == "EscapeString" {
						validSet, haveValid = *mset, o.Verdict == OK
					}
				} else if fl == nil {
					o.Verdict, o.Detail = UNDECIDED, "the predicate is neither a function literal, a one-line predicate function, nor a method value of a lookup table"
				} else if set, ok := c.predicateAccepts(info, fl.Type, fl.Body); !ok {
					o.Verdict, o.Detail = UNDECIDED, "the predicate is not a single boolean expression over its byte parameter"
				} else {
					checkClass(&o, set)
					if fn.Pkg().Path() == pkgENC && fn.Name() == "EscapeString" {
						validSet, haveValid = set, o.Verdict == OK
					}
				}
				obs = append(obs, o)
				return true
			})
		})
	}
	// (2) verbatim-copy conditions inside internal/enc: if COND(b) { buf[j] = b … }
	c.eachFunc(pkgENC, func(p *packages.Package, fd *ast.FuncDecl, fn *types.Func) {
		if _, isEngine := escapeEngines[fn]; isEngine || fn.Name() == "Unescape" {
			return // an engine's class is its argument (1); Unescape copies decoded bytes
		}
		n := 0
		ast.Inspect(fd.Body, func(nd ast.Node) bool {
			is, ok := nd.(*ast.IfStmt)
			if !ok || is.Init != nil {
				return true
			}
			// body stores the tested byte into an output buffer
			var copied types.Object
			for _, st := range is.Body.List {
				if as, ok := st.(*ast.AssignStmt); ok && len(as.Lhs) == 1 && len(as.Rhs) == 1 {
					if _, ok := as.Lhs[0].(*ast.IndexExpr); ok {
						if id, ok := unparen(as.Rhs[0]).(*ast.Ident); ok {
							copied = einfo.ObjectOf(id)
						}
					}
				}
			}
			if copied == nil {
				return true
			}
			n++
			o := Obligation{Key: fmt.Sprintf("%s: verbatim-copy class #%d", funcKey(fn), n), Pos: c.pos(is.Pos()), Verdict: OK}
			set, ok := byteSet(einfo, is.Cond, func(e ast.Expr) bool {
				id, isID := e.(*ast.Ident)
				return isID && einfo.ObjectOf(id) == copied
			})
			if !ok {
				o.Verdict, o.Detail = UNDECIDED, "the condition is not a boolean expression over the copied byte"
			} else {
				checkClass(&o, set)
			}
			obs = append(obs, o)
			return true
		})
	})
	// (3) hand-made quoting:  `"` + x + `"`  with non-constant x
	for _, path := range []string{pkgENC, pkgIR, pkgCONS, pkgMD, pkgTYP} {
		c.eachFunc(path, func(p *packages.Package, fd *ast.FuncDecl, fn *types.Func) {
			info := p.TypesInfo
			pm := buildParents(fd)
			n := 0
			ast.Inspect(fd.Body, func(nd ast.Node) bool {
				be, ok := nd.(*ast.BinaryExpr)
				if !ok || be.Op != token.ADD {
					return true
				}
				if par, ok := pm[be].(*ast.BinaryExpr); ok && par.Op == token.ADD {
					return true // handled at the outermost +
				}
				if tv := info.Types[be]; tv.Value != nil || !isPlainString(tv.Type) && !isStringNamed(tv.Type) {
					return true
				}
				var operands []ast.Expr
				var flat func(e ast.Expr)
				flat = func(e ast.Expr) {
					if b, ok := unparen(e).(*ast.BinaryExpr); ok && b.Op == token.ADD {
						flat(b.X)
						flat(b.Y)
						return
					}
					operands = append(operands, unparen(e))
				}
				flat(be)
				quoteLits := 0
				for _, op := range operands {
					if tv := info.Types[op]; tv.Value != nil && tv.Value.Kind() == constant.String && strings.Contains(constant.StringVal(tv.Value), `"`) {
						quoteLits++
					}
				}
				if quoteLits < 2 {
					return true
				}
				// inside a panic / error message: not output
				for q := pm[be]; q != nil; q = pm[q] {
					if call, ok := q.(*ast.CallExpr); ok {
						fs := exprString(call.Fun)
						if fs == "panic" || strings.HasSuffix(fs, "Errorf") || strings.HasSuffix(fs, "errors.New") {
							return true
						}
					}
				}
				for _, op := range operands {
					if tv := info.Types[op]; tv.Value != nil {
						continue
					}
					n++
					o := Obligation{Key: fmt.Sprintf("%s: quotes %s by hand #%d", funcKey(fn), exprString(op), n), Pos: c.pos(op.Pos()), Verdict: OK}
					// escaper output?
					inner := op
					for {
						if call, ok := inner.(*ast.CallExpr); ok && len(call.Args) == 1 {
							if tv, ok := info.Types[call.Fun]; ok && tv.IsType() {
								inner = unparen(call.Args[0])
								continue
							}
						}
						break
					}
					if call, ok := inner.(*ast.CallExpr); ok {
						if f := calleeOf(info, call); f != nil && f.Pkg() != nil && escapers[f.Pkg().Path()+"."+f.Name()] {
							o.Detail = "operand is the output of " + f.Name()
							obs = append(obs, o)
							continue
						}
						if f := calleeOf(info, call); f != nil && f.Pkg() != nil && f.Pkg().Path() == "strconv" && (f.Name() == "FormatInt" || f.Name() == "FormatUint" || f.Name() == "Itoa") {
							o.Detail = "operand is a formatted integer (digits, letters, sign): a subset of the verbatim set"
							obs = append(obs, o)
							continue
						}
					}
					// the output of a local escaper for another syntax (Graphviz DOT, JSON …): a function
					// string → string of the module whose byte loop puts a backslash in front of every
					// quote and backslash. IR strings do not come this way (ENC-STR holds them to the
					// LLVM escapers); what is quoted here cannot end the literal early
					if call, ok := inner.(*ast.CallExpr); ok && len(call.Args) == 1 {
						if f := calleeOf(info, call); f != nil && f.Pkg() != nil && c.isLLVM(f.Pkg().Path()) {
							if hfd := c.funcDecl(f); hfd != nil && hfd.Body != nil && escapesQuoteAndBackslash(c.declPkg[hfd].TypesInfo, hfd) {
								o.Detail = "operand is the output of " + f.Name() + ", which escapes every quote and backslash (a local escaper for a syntax other than LLVM's)"
								obs = append(obs, o)
								continue
							}
						}
					}
					if path == pkgENC && fn.Name() == "EscapeIdent" {
						o.Detail = "EscapeIdent's own output buffer; its verbatim-copy class is checked above"
						obs = append(obs, o)
						continue
					}
					// a string field of the receiver of a descriptor method (c.prefix, c.suffix): every literal of
					// that struct type in the package gives the field a constant without quote or backslash
					if fse, ok := inner.(*ast.SelectorExpr); ok && fd.Recv != nil && len(fd.Recv.List) == 1 && len(fd.Recv.List[0].Names) == 1 {
						if rid, ok := unparen(fse.X).(*ast.Ident); ok && info.ObjectOf(rid) == info.Defs[fd.Recv.List[0].Names[0]] {
							fobj := info.ObjectOf(fse.Sel)
							clean, lits := true, 0
							for _, f := range p.Syntax {
								ast.Inspect(f, func(m ast.Node) bool {
									cl, ok := m.(*ast.CompositeLit)
									if !ok || namedOf(info.TypeOf(cl)) == nil || namedOf(info.TypeOf(cl)) != namedOf(info.TypeOf(rid)) {
										return true
									}
									lits++
									for _, el := range cl.Elts {
										kv, ok := el.(*ast.KeyValueExpr)
										if !ok {
											clean = false
											continue
										}
										if kid, ok := kv.Key.(*ast.Ident); ok && info.ObjectOf(kid) == fobj {
											tv := info.Types[kv.Value]
											if tv.Value == nil || tv.Value.Kind() != constant.String || strings.ContainsAny(constant.StringVal(tv.Value), "\"\\") {
												clean = false
											}
										}
									}
									return true
								})
							}
							if clean && lits > 0 {
								o.Detail = fmt.Sprintf("operand is a sigil field of the encoder's descriptor: a constant without quote or backslash in all %d literals of the type", lits)
								obs = append(obs, o)
								continue
							}
						}
					}
					// guarded by a predicate on the same variable?
					id, isID := inner.(*ast.Ident)
					if !isID {
						o.Verdict, o.Detail = UNDECIDED, "operand is neither escaper output nor a guarded variable"
						obs = append(obs, o)
						continue
					}
					acc, how, ok := c.guardAccepts(info, pm, be, info.ObjectOf(id))
					switch {
					case !ok:
						o.Verdict = VIOL
						o.Detail = fmt.Sprintf("%s is put between literal quotes without escaping and without a recognised guard on its bytes: a quote, backslash or non-printable byte in it changes what the literal denotes", id.Name)
					case !haveValid:
						o.Verdict, o.Detail = UNDECIDED, "verbatim set of enc.EscapeString not established"
					default:
						var extra [256]bool
						any := false
						for i := range acc {
							if acc[i] && !validSet[i] {
								extra[i], any = true, true
							}
						}
						if any {
							o.Verdict = VIOL
							o.Detail = fmt.Sprintf("the guard (%s) lets bytes {%s} through to the unescaped spelling, which enc.EscapeString would escape: e.g. a backslash followed by two hex digits is read back as one byte", how, describeSet(extra))
						} else {
							o.Detail = fmt.Sprintf("guard %s accepts {%s} ⊆ verbatim set of enc.EscapeString", how, describeSet(acc))
						}
					}
					obs = append(obs, o)
				}
				return true
			})
		})
	}
	return obs
}

// escapesQuoteAndBackslash: fd is func(s string) string with an if statement, inside a loop, whose
// condition over one byte of s is true for the quote and for the backslash and whose body writes a
// backslash.
func escapesQuoteAndBackslash(info *types.Info, fd *ast.FuncDecl) bool {
	if fd.Type.Params == nil || len(fd.Type.Params.List) != 1 || len(fd.Type.Params.List[0].Names) != 1 || fd.Type.Results == nil || len(fd.Type.Results.List) != 1 {
		return false
	}
	if !isStringNamed(info.TypeOf(fd.Type.Params.List[0].Type)) || !isStringNamed(info.TypeOf(fd.Type.Results.List[0].Type)) {
		return false
	}
	found := false
	ast.Inspect(fd.Body, func(n ast.Node) bool {
		var body *ast.BlockStmt
		switch x := n.(type) {
		case *ast.ForStmt:
			body = x.Body
		case *ast.RangeStmt:
			body = x.Body
		}
		if body == nil {
			return true
		}
		ast.Inspect(body, func(m ast.Node) bool {
			is, ok := m.(*ast.IfStmt)
			if !ok {
				return true
			}
			// the byte variable: any identifier of byte type in the condition
			var bv types.Object
			ast.Inspect(is.Cond, func(k ast.Node) bool {
				if id, ok := k.(*ast.Ident); ok {
					if b, ok := info.TypeOf(id).(*types.Basic); ok && b.Kind() == types.Uint8 && info.Types[id].Value == nil {
						bv = info.ObjectOf(id)
					}
				}
				return true
			})
			if bv == nil {
				return true
			}
			set, ok := byteSet(info, is.Cond, func(e ast.Expr) bool {
				id, isID := e.(*ast.Ident)
				return isID && info.ObjectOf(id) == bv
			})
			if !ok || !set['"'] || !set['\\'] {
				return true
			}
			ast.Inspect(is.Body, func(k ast.Node) bool {
				if call, ok := k.(*ast.CallExpr); ok && len(call.Args) == 1 {
					if tv := info.Types[call.Args[0]]; tv.Value != nil {
						switch tv.Value.Kind() {
						case constant.Int:
							if v, _ := constant.Int64Val(tv.Value); v == '\\' {
								found = true
							}
						case constant.String:
							if constant.StringVal(tv.Value) == "\\" {
								found = true
							}
						}
					}
				}
				return true
			})
			return true
		})
		return true
	})
	return found
}

// isByteTest: func(byte) bool.
func isByteTest(t types.Type) bool {
	sig, ok := t.Underlying().(*types.Signature)
	if !ok || sig.Params().Len() != 1 || sig.Results().Len() != 1 {
		return false
	}
	pb, ok1 := sig.Params().At(0).Type().Underlying().(*types.Basic)
	rb, ok2 := sig.Results().At(0).Type().Underlying().(*types.Basic)
	return ok1 && ok2 && pb.Kind() == types.Uint8 && rb.Kind() == types.Bool
}

func isStringNamed(t types.Type) bool {
	if t == nil {
		return false
	}
	b, ok := t.Underlying().(*types.Basic)
	return ok && b.Kind() == types.String
}

// guardAccepts finds an enclosing if-statement whose condition establishes a
// byte class for variable v on the path to n, and returns the accepted set.
// Recognised guards:  if pred(v) {…}   and   if _, err := strconv.ParseUint(v, 10, N); err == nil {…}
func (c *Ctx) guardAccepts(info *types.Info, pm parentMap, n ast.Node, v types.Object) (set [256]bool, how string, ok bool) {
	child := n
	for p := pm[n]; p != nil; child, p = p, pm[p] {
		is, isIf := p.(*ast.IfStmt)
		if !isIf || child != ast.Node(is.Body) {
			continue
		}
		// strconv.ParseUint / ParseInt base 10 succeeded
		if as, isA := is.Init.(*ast.AssignStmt); isA && len(as.Rhs) == 1 {
			if call, isC := as.Rhs[0].(*ast.CallExpr); isC {
				f := calleeOf(info, call)
				if f != nil && f.Pkg() != nil && f.Pkg().Path() == "strconv" && (f.Name() == "ParseUint" || f.Name() == "ParseInt") && len(call.Args) == 3 {
					if id, isID := unparen(call.Args[0]).(*ast.Ident); isID && info.ObjectOf(id) == v {
						base := int64(0)
						if tv := info.Types[call.Args[1]]; tv.Value != nil {
							base, _ = constant.Int64Val(constant.ToInt(tv.Value))
						}
						cond := strings.ReplaceAll(exprString(is.Cond), " ", "")
						if base == 10 && strings.HasSuffix(cond, "==nil") {
							for b := '0'; b <= '9'; b++ {
								set[b] = true
							}
							if f.Name() == "ParseInt" {
								set['+'], set['-'] = true, true
							}
							return set, "strconv." + f.Name() + " base 10 succeeded", true
						}
					}
				}
			}
		}
		// pred(v)
		if call, isC := unparen(is.Cond).(*ast.CallExpr); isC && len(call.Args) == 1 {
			if id, isID := unparen(call.Args[0]).(*ast.Ident); isID && info.ObjectOf(id) == v {
				if f := calleeOf(info, call); f != nil {
					if fd := c.funcDecl(f); fd != nil && fd.Body != nil {
						if pk := c.pkg(f.Pkg().Path()); pk != nil {
							if s, good := c.predicateAccepts(pk.TypesInfo, fd.Type, fd.Body); good {
								return s, f.Name(), true
							}
							if s, what, good := strconvPredicate(pk.TypesInfo, fd); good {
								return s, f.Name() + " (" + what + ")", true
							}
						}
					}
				}
			}
		}
	}
	return set, "", false
}

// strconvPredicate: fd is `func(s string) bool { _, err := strconv.ParseUint(s, 10, N); return err == nil }`
// (ParseInt likewise): true only for decimal digit strings (with a sign for ParseInt).
func strconvPredicate(info *types.Info, fd *ast.FuncDecl) (set [256]bool, what string, ok bool) {
	if fd.Type.Params == nil || len(fd.Type.Params.List) != 1 || len(fd.Type.Params.List[0].Names) != 1 || len(fd.Body.List) != 2 {
		return set, "", false
	}
	param := info.ObjectOf(fd.Type.Params.List[0].Names[0])
	as, isA := fd.Body.List[0].(*ast.AssignStmt)
	ret, isR := fd.Body.List[1].(*ast.ReturnStmt)
	if !isA || !isR || len(as.Rhs) != 1 || len(as.Lhs) != 2 || len(ret.Results) != 1 {
		return set, "", false
	}
	call, isC := as.Rhs[0].(*ast.CallExpr)
	if !isC || len(call.Args) != 3 {
		return set, "", false
	}
	f := calleeOf(info, call)
	if f == nil || f.Pkg() == nil || f.Pkg().Path() != "strconv" || f.Name() != "ParseUint" && f.Name() != "ParseInt" {
		return set, "", false
	}
	if id, isID := unparen(call.Args[0]).(*ast.Ident); !isID || info.ObjectOf(id) != param {
		return set, "", false
	}
	if tv := info.Types[call.Args[1]]; tv.Value == nil || tv.Value.ExactString() != "10" {
		return set, "", false
	}
	errID, isID := as.Lhs[1].(*ast.Ident)
	if !isID || strings.ReplaceAll(exprString(ret.Results[0]), " ", "") != errID.Name+"==nil" {
		return set, "", false
	}
	for b := '0'; b <= '9'; b++ {
		set[b] = true
	}
	if f.Name() == "ParseInt" {
		set['+'], set['-'] = true, true
	}
	return set, "strconv." + f.Name() + " base 10 succeeded", true
}

// ---------------------------------------------------------------------------
// ENC-UNESC

func ruleENCUNESC(c *Ctx) []Obligation {
	fn := c.lookupFunc(pkgENC, "Unescape")
	sf := c.ssaFunc(fn)
	if fn == nil || sf == nil || len(sf.Params) != 1 {
		return []Obligation{{Key: "enc.Unescape", Verdict: UNDECIDED, Detail: "function not found"}}
	}
	var obs []Obligation
	n := 0
	// (function, parameter that holds source text): Unescape itself, and every function of the
	// package that is handed the source string or a slice of it (unescapeByte(s[i:]))
	type item struct {
		f   *ssa.Function
		src *ssa.Parameter
	}
	work := []item{{sf, sf.Params[0]}}
	done := map[*ssa.Parameter]bool{}
	for len(work) > 0 {
		it := work[0]
		work = work[1:]
		if done[it.src] {
			continue
		}
		done[it.src] = true
		src := it.src
		isSrcText := func(v ssa.Value) bool {
			for i := 0; i < 4; i++ {
				if v == ssa.Value(src) {
					return true
				}
				if sl, ok := v.(*ssa.Slice); ok {
					v = sl.X
					continue
				}
				break
			}
			return false
		}
		var isSrcByte func(v ssa.Value, depth int) bool
		isSrcByte = func(v ssa.Value, depth int) bool {
			if depth > 6 {
				return false
			}
			switch x := v.(type) {
			case *ssa.Lookup:
				return isSrcText(x.X)
			case *ssa.Index: // string indexing (go/ssa ≥ 0.2x represents s[i] as Index)
				return isSrcText(x.X)
			case *ssa.Convert:
				return isSrcByte(x.X, depth+1)
			case *ssa.ChangeType:
				return isSrcByte(x.X, depth+1)
			case *ssa.Phi:
				for _, e := range x.Edges {
					if !isSrcByte(e, depth+1) {
						return false
					}
				}
				return len(x.Edges) > 0
			}
			return false
		}
		where := "enc." + it.f.Name()
		for _, b := range it.f.Blocks {
			for _, in := range b.Instrs {
				switch x := in.(type) {
				case *ssa.BinOp:
					if x.Op != token.EQL && x.Op != token.NEQ {
						continue
					}
					var other ssa.Value
					if k, ok := x.Y.(*ssa.Const); ok && k.Value != nil && k.Value.Kind() == constant.Int && k.Int64() == '\\' {
						other = x.X
					} else if k, ok := x.X.(*ssa.Const); ok && k.Value != nil && k.Value.Kind() == constant.Int && k.Int64() == '\\' {
						other = x.Y
					}
					if other == nil {
						continue
					}
					n++
					o := Obligation{Key: fmt.Sprintf("%s escape-introducer test #%d", where, n), Pos: c.pos(x.Pos()), Verdict: OK, Detail: "tests a byte of the source string"}
					if !isSrcByte(other, 0) {
						o.Verdict = VIOL
						o.Detail = "the byte compared with the backslash may be a byte that was just decoded from an escape sequence: `\\5C` decodes to a backslash, which is then taken for the start of another escape and swallows part of the following text (`\\5C\\5C` no longer decodes to two backslashes)"
					}
					obs = append(obs, o)
				case *ssa.Call:
					callee := x.Call.StaticCallee()
					if callee == nil {
						continue
					}
					if callee.Name() == "unhex" && len(x.Call.Args) == 1 {
						n++
						o := Obligation{Key: fmt.Sprintf("%s hex-digit test #%d", where, n), Pos: c.pos(x.Pos()), Verdict: OK, Detail: "tests a byte of the source string"}
						if !isSrcByte(x.Call.Args[0], 0) {
							o.Verdict, o.Detail = VIOL, "the hex-digit test is applied to a value that is not a byte of the source string"
						}
						obs = append(obs, o)
						continue
					}
					if callee.Pkg != nil && callee.Pkg.Pkg.Path() == pkgENC && len(callee.Params) == len(x.Call.Args) {
						for i, a := range x.Call.Args {
							if isSrcText(a) {
								work = append(work, item{callee, callee.Params[i]})
							}
						}
					}
				}
			}
		}
	}
	return obs
}

// ---------------------------------------------------------------------------
// EARLY-RET

// earlyRetExempt: frozen exemptions keyed "func: store" with the reason the
// early success return legitimately skips the store.
var earlyRetExempt = map[string]string{}

func ruleEARLYRET(c *Ctx) []Obligation {
	var obs []Obligation
	c.eachFunc(pkgASM, func(p *packages.Package, fd *ast.FuncDecl, fn *types.Func) {
		info := p.TypesInfo
		sig := fn.Type().(*types.Signature)
		nres := sig.Results().Len()
		if nres == 0 || !isNamed(sig.Results().At(nres-1).Type(), "", "error") && sig.Results().At(nres-1).Type().String() != "error" {
			return
		}
		isSuccess := func(r *ast.ReturnStmt) bool {
			if len(r.Results) != nres {
				return false
			}
			id, ok := unparen(r.Results[nres-1]).(*ast.Ident)
			return ok && id.Name == "nil"
		}
		// success returns nested in (or being) each top-level statement
		type ret struct {
			idx   int
			pos   token.Pos
			guard map[types.Object]bool // local variables tested by the conditions the return sits under
			obj   types.Object          // the object returned as the result (nil: none, e.g. `return nil`)
			other bool                  // a result is returned that is not a plain variable
		}
		var rets []ret
		pm := buildParents(fd.Body)
		defs := collectDefs(info, fd.Body)
		localsIn := func(e ast.Node, into map[types.Object]bool) {
			ast.Inspect(e, func(m ast.Node) bool {
				if id, ok := m.(*ast.Ident); ok {
					if v, ok := info.Uses[id].(*types.Var); ok && !v.IsField() && v.Parent() != nil && v.Parent() != v.Pkg().Scope() {
						into[v] = true
					}
				}
				return true
			})
		}
		for i, st := range fd.Body.List {
			ast.Inspect(st, func(nd ast.Node) bool {
				switch nd := nd.(type) {
				case *ast.FuncLit:
					return false
				case *ast.ReturnStmt:
					if isSuccess(nd) {
						g := map[types.Object]bool{}
						for x := pm[nd]; x != nil; x = pm[x] {
							if is, ok := x.(*ast.IfStmt); ok {
								localsIn(is.Cond, g)
							}
						}
						r := ret{idx: i, pos: nd.Pos(), guard: g}
						if nres >= 2 {
							switch x := unparen(nd.Results[0]).(type) {
							case *ast.Ident:
								if x.Name != "nil" {
									r.obj = info.ObjectOf(x)
								} else {
									r.other = true
								}
							default:
								r.other = true
							}
						}
						rets = append(rets, r)
					}
				}
				return true
			})
		}
		// dependsOn: the stored value is computed from one of the guard variables (through local definitions)
		dependsOn := func(rhs []ast.Node, guard map[types.Object]bool) bool {
			if len(guard) == 0 {
				return false
			}
			seen := map[types.Object]bool{}
			var walk func(e ast.Node, depth int) bool
			walk = func(e ast.Node, depth int) bool {
				used := map[types.Object]bool{}
				localsIn(e, used)
				for v := range used {
					if guard[v] {
						return true
					}
				}
				if depth >= 4 {
					return false
				}
				for v := range used {
					if seen[v] {
						continue
					}
					seen[v] = true
					for _, d := range defs[v] {
						if walk(d, depth+1) {
							return true
						}
					}
				}
				return false
			}
			for _, r := range rhs {
				if walk(r, 0) {
					return true
				}
			}
			return false
		}
		for i, st := range fd.Body.List {
			as, ok := st.(*ast.AssignStmt)
			if !ok {
				// a conditional transfer: `if _, ok := old.X(); ok { new.SetY(…) }` / `if … { obj.F = … }`
				// or a plain setter call at the top level
				switch st.(type) {
				case *ast.IfStmt, *ast.ExprStmt:
				default:
					continue
				}
				what := ""
				var owner *types.Named
				ast.Inspect(st, func(m ast.Node) bool {
					if what != "" {
						return false
					}
					switch m := m.(type) {
					case *ast.FuncLit, *ast.ReturnStmt:
						return false
					case *ast.CallExpr:
						if se, ok := unparen(m.Fun).(*ast.SelectorExpr); ok && strings.HasPrefix(se.Sel.Name, "Set") && len(se.Sel.Name) > 3 {
							if n := namedOf(info.TypeOf(se.X)); n != nil && n.Obj().Pkg() != nil && isIRPkg(n.Obj().Pkg().Path()) {
								what, owner = typeKey(n)+"."+se.Sel.Name, n
							}
						}
					case *ast.AssignStmt:
						for _, l := range m.Lhs {
							if se, ok := unparen(l).(*ast.SelectorExpr); ok {
								if sel, ok := info.Selections[se]; ok && sel.Kind() == types.FieldVal {
									if n := namedOf(sel.Recv()); n != nil && n.Obj().Pkg() != nil && isIRPkg(n.Obj().Pkg().Path()) {
										if _, isID := unparen(se.X).(*ast.Ident); isID {
											what, owner = typeKey(n)+"."+se.Sel.Name, n
										}
									}
								}
							}
						}
					}
					return true
				})
				if what == "" {
					continue
				}
				// returns inside the statement itself do not skip it
				hasOwnReturn := false
				ast.Inspect(st, func(m ast.Node) bool {
					if _, ok := m.(*ast.ReturnStmt); ok {
						hasOwnReturn = true
					}
					return true
				})
				if hasOwnReturn {
					continue
				}
				k := fmt.Sprintf("%s: every success return passes the conditional transfer to %s", funcKey(fn), what)
				o := Obligation{Key: k, Pos: c.pos(st.Pos()), Verdict: OK, Tags: irTags(owner)}
				for _, r := range rets {
					if r.idx < i {
						if dependsOn([]ast.Node{st}, r.guard) {
							continue
						}
						o.Verdict = VIOL
						o.Pos = c.pos(r.pos)
						o.Detail = fmt.Sprintf("a success return at %s leaves the translator before the transfer to %s at %s: on that path what the source says there (e.g. `distinct`) is dropped", c.pos(r.pos), what, c.pos(st.Pos()))
						break
					}
				}
				obs = append(obs, o)
				continue
			}
			for _, l := range as.Lhs {
				se, ok := unparen(l).(*ast.SelectorExpr)
				if !ok {
					continue
				}
				sel, ok := info.Selections[se]
				if !ok || sel.Kind() != types.FieldVal {
					continue
				}
				owner := namedOf(sel.Recv())
				if owner == nil || owner.Obj().Pkg() == nil || !isIRPkg(owner.Obj().Pkg().Path()) {
					continue
				}
				if _, ok := unparen(se.X).(*ast.Ident); !ok {
					continue
				}
				k := fmt.Sprintf("%s: every success return passes the store to %s.%s", funcKey(fn), typeKey(owner), se.Sel.Name)
				o := Obligation{Key: k, Pos: c.pos(as.Pos()), Verdict: OK, Tags: irTags(owner)}
				rootObj := info.ObjectOf(unparen(se.X).(*ast.Ident))
				for _, r := range rets {
					if r.idx < i {
						if r.other || (r.obj != nil && r.obj != rootObj) {
							// the early return hands back another object than the one this store fills
							continue
						}
						if dependsOn(exprNodes(as.Rhs), r.guard) {
							// the guard found empty exactly what this store is computed from
							// (`if len(xs) == 0 { return … }` before `obj.F = make(…, len(xs))`)
							continue
						}
						if why, ok := earlyRetExempt[funcKey(fn)+": "+typeKey(owner)+"."+se.Sel.Name]; ok {
							o.Verdict, o.Detail = EXEMPT, why
							break
						}
						o.Verdict = VIOL
						o.Pos = c.pos(r.pos)
						o.Detail = fmt.Sprintf("a success return at %s leaves the translator before the unconditional store to %s.%s at %s: on that path the field keeps its zero value although the source may specify it", c.pos(r.pos), typeKey(owner), se.Sel.Name, c.pos(as.Pos()))
						break
					}
				}
				obs = append(obs, o)
			}
		}
	})
	// keys may repeat when a field is stored twice at top level
	seen := map[string]int{}
	for i := range obs {
		seen[obs[i].Key]++
		if n := seen[obs[i].Key]; n > 1 {
			obs[i].Key += fmt.Sprintf(" #%d", n)
		}
	}
	return obs
}

// ---------------------------------------------------------------------------
// NAT-WIDTH

func ruleNATWIDTH(c *Ctx) []Obligation {
	var obs []Obligation
	fn := c.lookupFunc(pkgNAT, "Less")
	fd := c.funcDecl(fn)
	if fd == nil {
		return []Obligation{{Key: "natsort.Less", Verdict: UNDECIDED, Detail: "function not found"}}
	}
	p := c.pkg(pkgNAT)
	info := p.TypesInfo
	o := Obligation{Key: "natsort.Less compares digit runs as text", Pos: c.pos(fd.Pos()), Verdict: OK, Detail: "no byte of the input is accumulated into a fixed-width integer and no strconv/big parse is applied"}
	// every function of the package reachable by name from Less: the package is tiny, scan all of it
	c.eachFunc(pkgNAT, func(_ *packages.Package, d *ast.FuncDecl, f *types.Func) {
		// string parameters / their elements
		isInputByte := func(e ast.Expr) bool {
			found := false
			ast.Inspect(e, func(m ast.Node) bool {
				if ix, ok := m.(*ast.IndexExpr); ok {
					if t := info.TypeOf(ix.X); t != nil {
						if b, ok := t.Underlying().(*types.Basic); ok && b.Kind() == types.String {
							found = true
						}
					}
				}
				return true
			})
			return found
		}
		ast.Inspect(d.Body, func(nd ast.Node) bool {
			switch nd := nd.(type) {
			case *ast.CallExpr:
				if cf := calleeOf(info, nd); cf != nil && cf.Pkg() != nil {
					switch cf.Pkg().Path() {
					case "strconv":
						if strings.HasPrefix(cf.Name(), "Parse") || cf.Name() == "Atoi" {
							o.Verdict, o.Pos = VIOL, c.pos(nd.Pos())
							o.Detail = fmt.Sprintf("%s converts a digit run with strconv.%s: runs that do not fit the machine integer fail or wrap, so the comparison is no longer a total order on names with long numbers", funcKey(f), cf.Name())
						}
					}
				}
			case *ast.AssignStmt:
				// acc = acc*10 + digit   /   acc *= 10
				for i, r := range nd.Rhs {
					if i >= len(nd.Lhs) {
						break
					}
					lt := info.TypeOf(nd.Lhs[i])
					if lt == nil {
						continue
					}
					b, ok := lt.Underlying().(*types.Basic)
					if !ok || b.Info()&types.IsInteger == 0 {
						continue
					}
					mul := nd.Tok == token.MUL_ASSIGN
					ast.Inspect(r, func(m ast.Node) bool {
						if be, ok := m.(*ast.BinaryExpr); ok && be.Op == token.MUL {
							mul = true
						}
						return true
					})
					if mul && (isInputByte(r) || nd.Tok == token.MUL_ASSIGN) {
						o.Verdict, o.Pos = VIOL, c.pos(nd.Pos())
						o.Detail = fmt.Sprintf("%s accumulates a digit run into the %s variable %s: for runs of 20 or more digits the value wraps, so two different numbers compare equal or in the wrong order and the order is not transitive (sorted output depends on input order)", funcKey(f), b.Name(), exprString(nd.Lhs[i]))
					}
				}
			}
			return true
		})
	})
	obs = append(obs, o)
	return obs
}

// ---------------------------------------------------------------------------
// ENC-CLASS

func init() {
	register(&Rule{
		Name:  "ENC-CLASS",
		Doc:   "the ID-or-name decision of the identifier decoders in package asm is taken on the raw token text, before unquoting (a quoted digit string such as %\"1\" is a name), and SetName stores its argument as a name without classifying it",
		Floor: 5,
		Run:   ruleENCCLASS,
	})
}

func ruleENCCLASS(c *Ctx) []Obligation {
	var obs []Obligation
	isIdentType := func(t types.Type) bool {
		return isNamed(t, pkgIR, "GlobalIdent") || isNamed(t, pkgIR, "LocalIdent")
	}
	isClassifier := func(f *types.Func) bool {
		if f == nil || f.Pkg() == nil {
			return false
		}
		if f.Pkg().Path() == "strconv" && (strings.HasPrefix(f.Name(), "Parse") || f.Name() == "Atoi") {
			return true
		}
		if f.Pkg().Path() == pkgIR && (f.Name() == "NewLocalIdent" || f.Name() == "NewGlobalIdent") {
			return true
		}
		return false
	}
	isUnquoter := func(f *types.Func) bool {
		if f == nil || f.Pkg() == nil {
			return false
		}
		switch f.Pkg().Path() + "." + f.Name() {
		case pkgASM + ".unquote", pkgENC + ".Unquote", pkgENC + ".Unescape", pkgASM + ".stringLit", pkgASM + ".stringLitBytes":
			return true
		}
		return false
	}
	c.eachFunc(pkgASM, func(p *packages.Package, fd *ast.FuncDecl, fn *types.Func) {
		sig := fn.Type().(*types.Signature)
		if sig.Recv() != nil || sig.Params().Len() != 1 || sig.Results().Len() != 1 || !isIdentType(sig.Results().At(0).Type()) {
			return
		}
		n := namedOf(sig.Params().At(0).Type())
		if n == nil || n.Obj().Pkg() == nil || n.Obj().Pkg().Path() != pkgAST {
			return
		}
		info := p.TypesInfo
		// definitions of locals with their positions (straight-line decoders: a definition
		// counts for a use only if it precedes it)
		type def struct {
			pos token.Pos
			rhs ast.Expr
		}
		defs := map[types.Object][]def{}
		ast.Inspect(fd.Body, func(nd ast.Node) bool {
			if as, ok := nd.(*ast.AssignStmt); ok && len(as.Lhs) == len(as.Rhs) {
				for i, l := range as.Lhs {
					if id, ok := l.(*ast.Ident); ok {
						if obj := info.ObjectOf(id); obj != nil {
							defs[obj] = append(defs[obj], def{as.Pos(), as.Rhs[i]})
						}
					}
				}
			}
			return true
		})
		var unquoted func(e ast.Expr, at token.Pos, depth int) bool
		unquoted = func(e ast.Expr, at token.Pos, depth int) bool {
			found := false
			ast.Inspect(e, func(m ast.Node) bool {
				switch m := m.(type) {
				case *ast.CallExpr:
					if isUnquoter(calleeOf(info, m)) {
						found = true
					}
				case *ast.Ident:
					if depth < 4 {
						// the latest definition before the use
						var last *def
						for i := range defs[info.ObjectOf(m)] {
							d := &defs[info.ObjectOf(m)][i]
							if d.pos < at && (last == nil || d.pos > last.pos) {
								last = d
							}
						}
						if last != nil && unquoted(last.rhs, last.pos, depth+1) {
							found = true
						}
					}
				}
				return !found
			})
			return found
		}
		o := Obligation{Key: funcKey(fn) + " classifies the raw token text", Pos: c.pos(fd.Pos()), Verdict: VIOL,
			Detail: "the decoder never decides between an unnamed ID and a name (no strconv parse, no identifier constructor on the token text)"}
		ast.Inspect(fd.Body, func(nd ast.Node) bool {
			call, ok := nd.(*ast.CallExpr)
			if !ok || len(call.Args) == 0 {
				return true
			}
			// a shared helper of the package that takes the (sigil-stripped) text and decides
			// there: nameOrID(ident)
			if callee := calleeOf(info, call); callee != nil && callee.Pkg() != nil && callee.Pkg().Path() == pkgASM && !isClassifier(callee) && !isUnquoter(callee) {
				if hfd := c.funcDecl(callee); hfd != nil && hfd.Body != nil && strings.HasPrefix(o.Detail, "the decoder never") && !unquoted(call.Args[0], call.Pos(), 0) {
					if verdict, detail, pos := encClassOfHelper(c, hfd, isClassifier, isUnquoter); verdict != "" {
						o.Verdict, o.Detail, o.Pos = verdict, detail+" (in "+callee.Name()+")", c.pos(pos)
					}
				}
				return true
			}
			if !isClassifier(calleeOf(info, call)) {
				return true
			}
			if unquoted(call.Args[0], call.Pos(), 0) {
				o.Verdict, o.Pos = VIOL, c.pos(call.Pos())
				o.Detail = fmt.Sprintf("the ID-or-name decision (%s) is taken on unquoted text: the quoted digit string %%\"1\" — a name — is decoded as the unnamed ID %%1, so a use of the name binds to another value (and the definition is renumbered)", exprString(call.Fun))
				return false
			}
			if o.Verdict == VIOL && strings.HasPrefix(o.Detail, "the decoder never") {
				o.Verdict, o.Pos, o.Detail = OK, c.pos(call.Pos()), "decided by "+exprString(call.Fun)+" on the raw text; unquoting happens afterwards"
			}
			return true
		})
		obs = append(obs, o)
	})
	// SetName stores a name
	for _, tname := range []string{"LocalIdent", "GlobalIdent"} {
		fn := c.lookupFunc(pkgIR, tname+".SetName")
		fd := c.funcDecl(fn)
		o := Obligation{Key: "ir." + tname + ".SetName stores its argument as a name", Verdict: OK, Detail: "no ID-or-name classification of the argument"}
		if fd == nil {
			o.Verdict, o.Detail = UNDECIDED, "method not found"
			obs = append(obs, o)
			continue
		}
		o.Pos = c.pos(fd.Pos())
		info := c.pkg(pkgIR).TypesInfo
		ast.Inspect(fd.Body, func(nd ast.Node) bool {
			if call, ok := nd.(*ast.CallExpr); ok && isClassifier(calleeOf(info, call)) {
				o.Verdict, o.Pos = VIOL, c.pos(call.Pos())
				o.Detail = fmt.Sprintf("SetName classifies its argument with %s: a name consisting of digits, set through the API, becomes an unnamed ID and is printed as %%7 instead of %%\"7\"", exprString(call.Fun))
			}
			return true
		})
		obs = append(obs, o)
	}
	return obs
}

// ---------------------------------------------------------------------------
// GEP-RES

func init() {
	register(&Rule{
		Name:  "GEP-RES",
		Doc:   "in the shared walk gep.ResultType (and whatever functions of package gep it is split into) every index — the first included — is examined for a vector length on every path through its iteration (LangRef: a vector of pointers is returned when one or more arguments is a vector); the result pointer type receives the source's address space unconditionally; the length and the scalable flag of a vector-of-pointers result each derive from both the source vector type and the index",
		Floor: 2,
		NeedS: true,
		Run:   ruleGEPRES,
	})
}

// ---------------------------------------------------------------------------
// NO-UNSAFE

func init() {
	register(&Rule{
		Name:  "NO-UNSAFE",
		Doc:   "no non-test file of llir/llvm uses package unsafe or the reflect slice/string headers: strings and slices held by a module are ordinary Go values, never views of memory the caller still owns (ParseBytes copies its input)",
		Floor: 8,
		Run:   ruleNOUNSAFE,
	})
}

// usesUnsafe reports the first use of package unsafe (or reflect.SliceHeader /
// reflect.StringHeader) in a file.
func usesUnsafe(f *ast.File) (token.Pos, string) {
	for _, im := range f.Imports {
		if im.Path.Value == `"unsafe"` {
			return im.Pos(), `import "unsafe"`
		}
	}
	var pos token.Pos
	what := ""
	ast.Inspect(f, func(n ast.Node) bool {
		if se, ok := n.(*ast.SelectorExpr); ok && pos == token.NoPos {
			if id, ok := se.X.(*ast.Ident); ok && id.Name == "reflect" && (se.Sel.Name == "SliceHeader" || se.Sel.Name == "StringHeader") {
				pos, what = se.Pos(), "reflect."+se.Sel.Name
			}
		}
		return true
	})
	return pos, what
}

func ruleNOUNSAFE(c *Ctx) []Obligation {
	var obs []Obligation
	// the matcher is exercised on a positive example on every run (the expected count on the tree is zero)
	const positive = "package p\nimport \"unsafe\"\nfunc f(b []byte) string { return *(*string)(unsafe.Pointer(&b)) }\n"
	if pf, err := parser.ParseFile(token.NewFileSet(), "positive.go", positive, 0); err != nil {
		return []Obligation{{Key: "matcher self-test", Verdict: UNDECIDED, Detail: "positive example does not parse: " + err.Error()}}
	} else if p, _ := usesUnsafe(pf); p == token.NoPos {
		return []Obligation{{Key: "matcher self-test", Verdict: UNDECIDED, Detail: "the matcher does not recognise the positive example"}}
	}
	for _, p := range c.llvmPkgs() {
		o := Obligation{Key: "package " + shortPkg(p.PkgPath) + " does not use unsafe", Verdict: OK, Detail: fmt.Sprintf("%d files", len(p.Syntax))}
		for _, f := range p.Syntax {
			if pos, what := usesUnsafe(f); pos != token.NoPos {
				o.Verdict, o.Pos = VIOL, c.pos(pos)
				o.Detail = what + ": memory is reinterpreted behind the type system — a string made from the caller's byte slice without copying changes when the caller reuses its buffer, so a parsed module (whose names are substrings of the input) depends on what the caller does afterwards"
				break
			}
		}
		obs = append(obs, o)
	}
	return obs
}

// ---------------------------------------------------------------------------
// ENUM-HAND, MD-OMIT, CTOR-CHK, ELLIPSIS, LIT-CTOR

func init() {
	register(&Rule{
		Name:  "ENUM-HAND",
		Doc:   "every hand-written keyword table outside the generated ones (a `case \"kw\": return enum.X` switch, or a map literal from keyword to enum constant, in asm, ir, ir/metadata) agrees with the generated String table: kw is the keyword of X; likewise a table from bit sizes to the predeclared integer types agrees with their declared BitSize",
		Floor: 1,
		Run:   ruleENUMHAND,
	})
	register(&Rule{
		Name:  "MD-OMIT",
		Doc:   "a debug-info printer omits a `key: value` field only when the field has the zero value the translator leaves for an absent field: the guard of every printed field is (a disjunction containing) the zero test of that field — never a comparison with a non-zero default or a narrowing conjunction",
		Floor: 150,
		Run:   ruleMDOMIT,
	})
	register(&Rule{
		Name:  "CTOR-CHK",
		Doc:   "a constructor's panicking type check compares the types the operands have (Type.Equal on the operand's type and the slot's type), not a type synthesised for the comparison, which drops qualifiers such as the address space",
		Floor: 2,
		Run:   ruleCTORCHK,
	})
	register(&Rule{
		Name:  "ELLIPSIS",
		Doc:   "every printer of a parameter list writes `...` whenever the function type is variadic: the ellipsis is written unconditionally inside an `if <sig>.Variadic` whose condition is the Variadic flag alone",
		Floor: 2,
		Run:   ruleELLIPSIS,
	})
	register(&Rule{
		Name:  "LIT-CTOR",
		Doc:   "in package asm integer and floating-point constants are constructed only by the literal readers (constant.NewIntFromString / NewFloatFromString on the token text, constant.NewBool on a boolean token): no translator re-derives a constant's value after it has been read",
		Floor: 3,
		Run:   ruleLITCTOR,
	})
}

func ruleENUMHAND(c *Ctx) []Obligation {
	var obs []Obligation
	byType := map[*types.TypeName]*enumTables{}
	for _, et := range c.enumTypes() {
		byType[et.T.Obj()] = et
	}
	checked := 0
	// predeclared integer types of ir/types: variable → bit size, read off the initialisers
	predeclBits := map[types.Object]int64{}
	if tp := c.pkg(pkgTYP); tp != nil {
		for _, f := range tp.Syntax {
			ast.Inspect(f, func(n ast.Node) bool {
				vs, ok := n.(*ast.ValueSpec)
				if !ok {
					return true
				}
				for i, nm := range vs.Names {
					if i >= len(vs.Values) {
						continue
					}
					ue, ok := unparen(vs.Values[i]).(*ast.UnaryExpr)
					if !ok {
						continue
					}
					cl, ok := ue.X.(*ast.CompositeLit)
					if !ok || !isNamed(tp.TypesInfo.TypeOf(cl), pkgTYP, "IntType") {
						continue
					}
					for _, el := range cl.Elts {
						if kv, ok := el.(*ast.KeyValueExpr); ok && exprString(kv.Key) == "BitSize" {
							if tv := tp.TypesInfo.Types[kv.Value]; tv.Value != nil {
								if b, ok := constant.Int64Val(constant.ToInt(tv.Value)); ok {
									predeclBits[tp.TypesInfo.Defs[nm]] = b
								}
							}
						}
					}
				}
				return true
			})
		}
	}
	check := func(p *packages.Package, fn *types.Func, kwExpr, valExpr ast.Expr) {
		info := p.TypesInfo
		tv := info.Types[kwExpr]
		if tv.Value != nil && tv.Value.Kind() == constant.Int {
			// size → predeclared integer type
			var obj types.Object
			switch x := unparen(valExpr).(type) {
			case *ast.Ident:
				obj = info.Uses[x]
			case *ast.SelectorExpr:
				obj = info.Uses[x.Sel]
			}
			if bits, ok := predeclBits[obj]; ok {
				size, _ := constant.Int64Val(tv.Value)
				checked++
				o := Obligation{Key: fmt.Sprintf("%s: bit size %d → types.%s", funcKey(fn), size, obj.Name()), Pos: c.pos(kwExpr.Pos()), Verdict: OK, Detail: "agrees with the declaration", Tags: []string{"types"}}
				if bits != size {
					o.Verdict = VIOL
					o.Detail = fmt.Sprintf("the table maps the bit size %d to types.%s, which is declared with BitSize %d: every i%d of the source becomes an i%d", size, obj.Name(), bits, size, bits)
				}
				obs = append(obs, o)
			}
			return
		}
		if tv.Value == nil || tv.Value.Kind() != constant.String {
			return
		}
		var k *types.Const
		switch x := unparen(valExpr).(type) {
		case *ast.Ident:
			k, _ = info.Uses[x].(*types.Const)
		case *ast.SelectorExpr:
			k, _ = info.Uses[x.Sel].(*types.Const)
		}
		if k == nil {
			return
		}
		n := namedOf(k.Type())
		if n == nil {
			return
		}
		et := byType[n.Obj()]
		if et == nil {
			return
		}
		kw := constant.StringVal(tv.Value)
		val, _ := constant.Int64Val(constant.ToInt(k.Val()))
		checked++
		o := Obligation{Key: fmt.Sprintf("%s: %q → %s", funcKey(fn), kw, k.Name()), Pos: c.pos(kwExpr.Pos()), Verdict: OK, Tags: enumTags(et)}
		if want, ok := et.S[val]; !ok || want != kw {
			o.Verdict = VIOL
			o.Detail = fmt.Sprintf("the hand-written table maps the keyword %q to %s, whose keyword in the generated String table is %q: the keyword is read as another value than the one that prints it", kw, k.Name(), want)
		} else {
			o.Detail = "agrees with the generated table"
		}
		obs = append(obs, o)
	}
	for _, path := range []string{pkgASM, pkgIR, pkgMD, pkgCONS, pkgTYP} {
		c.eachFunc(path, func(p *packages.Package, fd *ast.FuncDecl, fn *types.Func) {
			ast.Inspect(fd.Body, func(nd ast.Node) bool {
				switch nd := nd.(type) {
				case *ast.CaseClause:
					if len(nd.Body) == 0 {
						return true
					}
					r, ok := nd.Body[len(nd.Body)-1].(*ast.ReturnStmt)
					if !ok || len(r.Results) == 0 {
						return true
					}
					for _, e := range nd.List {
						check(p, fn, e, r.Results[0])
					}
				case *ast.CompositeLit:
					if _, ok := p.TypesInfo.TypeOf(nd).Underlying().(*types.Map); ok {
						for _, el := range nd.Elts {
							if kv, ok := el.(*ast.KeyValueExpr); ok {
								check(p, fn, kv.Key, kv.Value)
							}
						}
					}
				}
				return true
			})
		})
	}
	obs = append(obs, Obligation{Key: "hand-written keyword tables scanned", Verdict: OK, Detail: fmt.Sprintf("%d table entries outside the generated tables", checked)})
	obs = append(obs, Obligation{Key: "hand-written bit-size tables scanned", Verdict: OK, Detail: fmt.Sprintf("%d predeclared integer types known", len(predeclBits)), Tags: []string{"types"}})
	return obs
}

// zeroTestOf: the field name F when cond is a pure zero test of recv.F
// (F != 0 / nil / "" with a zero constant, len(F) > 0, or the boolean F itself).
func zeroTestOf(info *types.Info, cond ast.Expr) (string, bool) {
	fieldOf := func(e ast.Expr) (string, bool) {
		se, ok := unparen(e).(*ast.SelectorExpr)
		if !ok {
			return "", false
		}
		if sel, ok := info.Selections[se]; ok && sel.Kind() == types.FieldVal {
			return se.Sel.Name, true
		}
		return "", false
	}
	switch x := unparen(cond).(type) {
	case *ast.SelectorExpr:
		if b, ok := info.TypeOf(x).Underlying().(*types.Basic); ok && b.Kind() == types.Bool {
			return fieldOf(x)
		}
	case *ast.BinaryExpr:
		isZero := func(e ast.Expr) bool {
			if id, ok := unparen(e).(*ast.Ident); ok && id.Name == "nil" {
				return true
			}
			tv := info.Types[e]
			if tv.Value == nil {
				return false
			}
			switch tv.Value.Kind() {
			case constant.Int, constant.Float:
				return constant.Sign(tv.Value) == 0
			case constant.String:
				return constant.StringVal(tv.Value) == ""
			case constant.Bool:
				return !constant.BoolVal(tv.Value)
			}
			return false
		}
		if x.Op == token.NEQ {
			if f, ok := fieldOf(x.X); ok && isZero(x.Y) {
				return f, true
			}
			if f, ok := fieldOf(x.Y); ok && isZero(x.X) {
				return f, true
			}
		}
		if x.Op == token.GTR && isZero(x.Y) {
			if call, ok := unparen(x.X).(*ast.CallExpr); ok && exprString(call.Fun) == "len" && len(call.Args) == 1 {
				return fieldOf(call.Args[0])
			}
		}
	}
	return "", false
}

func ruleMDOMIT(c *Ctx) []Obligation {
	var obs []Obligation
	p := c.pkg(pkgMD)
	info := p.TypesInfo
	c.eachFunc(pkgMD, func(_ *packages.Package, fd *ast.FuncDecl, fn *types.Func) {
		if fn.Name() != "LLString" || fd.Recv == nil {
			return
		}
		n := 0
		for _, st := range fd.Body.List {
			is, ok := st.(*ast.IfStmt)
			if !ok || is.Else != nil {
				continue
			}
			// the body emits one `key: …` field
			key := ""
			ast.Inspect(is.Body, func(m ast.Node) bool {
				if lit, ok := m.(*ast.BasicLit); ok && lit.Kind == token.STRING && key == "" {
					if tv := info.Types[lit]; tv.Value != nil {
						s := constant.StringVal(tv.Value)
						if i := strings.Index(s, ": "); i > 0 && !strings.ContainsAny(s[:i], " %") {
							key = s[:i]
						}
					}
				}
				return true
			})
			if key == "" {
				continue
			}
			// fields of the receiver read in the body
			printed := map[string]bool{}
			tags := []string{"md"}
			ast.Inspect(is.Body, func(m ast.Node) bool {
				if se, ok := m.(*ast.SelectorExpr); ok {
					if sel, ok := info.Selections[se]; ok && sel.Kind() == types.FieldVal {
						printed[se.Sel.Name] = true
						if n := namedOf(sel.Type()); n != nil && n.Obj().Pkg() != nil && n.Obj().Pkg().Path() == pkgENUM && len(tags) == 1 {
							tags = append(tags, "enum")
						}
					}
				}
				return true
			})
			n++
			o := Obligation{Key: fmt.Sprintf("%s omits %q only when the field is zero", funcKey(fn), key), Pos: c.pos(is.Pos()), Verdict: VIOL, Tags: tags}
			// disjuncts of the guard
			var disj []ast.Expr
			var split func(e ast.Expr)
			split = func(e ast.Expr) {
				if be, ok := unparen(e).(*ast.BinaryExpr); ok && be.Op == token.LOR {
					split(be.X)
					split(be.Y)
					return
				}
				disj = append(disj, e)
			}
			split(is.Cond)
			for _, d := range disj {
				if f, ok := zeroTestOf(info, d); ok && (printed[f] || len(printed) == 0) {
					o.Verdict, o.Detail = OK, "printed whenever "+f+" is not its zero value"
				}
			}
			if o.Verdict == VIOL {
				o.Detail = fmt.Sprintf("the field is printed only under `%s`, which is not (implied by) the zero test of the printed field: a value for which the guard is false is omitted from the text, and the translator, which leaves an absent field at its zero value, reads back another value than the one printed", exprString(is.Cond))
			}
			obs = append(obs, o)
		}
	})
	// omission through a helper that is told what "absent" means: appendBoolField(fields, "k", md.F, absent)
	// leaves the field out when val == absent — absent must be the zero value the translator leaves
	type omitHelper struct{ val, absent int }
	helpers := map[*types.Func]omitHelper{}
	c.eachFunc(pkgMD, func(_ *packages.Package, fd *ast.FuncDecl, fn *types.Func) {
		params := map[types.Object]int{}
		k := 0
		for _, fl := range fd.Type.Params.List {
			for _, nm := range fl.Names {
				params[info.Defs[nm]] = k
				k++
			}
		}
		for _, st := range fd.Body.List {
			is, ok := st.(*ast.IfStmt)
			if !ok || len(is.Body.List) != 1 {
				continue
			}
			if _, isRet := is.Body.List[0].(*ast.ReturnStmt); !isRet {
				continue
			}
			be, ok := unparen(is.Cond).(*ast.BinaryExpr)
			if !ok || be.Op != token.EQL {
				continue
			}
			x, ok1 := unparen(be.X).(*ast.Ident)
			y, ok2 := unparen(be.Y).(*ast.Ident)
			if !ok1 || !ok2 {
				continue
			}
			xi, okx := params[info.ObjectOf(x)]
			yi, oky := params[info.ObjectOf(y)]
			if okx && oky {
				helpers[fn] = omitHelper{xi, yi}
			}
		}
	})
	c.eachFunc(pkgMD, func(_ *packages.Package, fd *ast.FuncDecl, fn *types.Func) {
		if fn.Name() != "LLString" || fd.Recv == nil {
			return
		}
		ast.Inspect(fd.Body, func(n ast.Node) bool {
			call, ok := n.(*ast.CallExpr)
			if !ok {
				return true
			}
			h, ok := helpers[calleeOf(info, call)]
			if !ok || h.val >= len(call.Args) || h.absent >= len(call.Args) {
				return true
			}
			// which of the two carries the field? the one that is not a constant
			valArg, absArg := call.Args[h.val], call.Args[h.absent]
			if info.Types[valArg].Value != nil && info.Types[absArg].Value == nil {
				valArg, absArg = absArg, valArg
			}
			key := exprString(valArg)
			for _, a := range call.Args {
				if tv := info.Types[a]; tv.Value != nil && tv.Value.Kind() == constant.String {
					key = constant.StringVal(tv.Value)
				}
			}
			o := Obligation{Key: fmt.Sprintf("%s omits %q only when the field is zero", funcKey(fn), key), Pos: c.pos(call.Pos()), Verdict: OK, Tags: []string{"md"}, Detail: "omitted (by " + exprString(call.Fun) + ") at the zero value"}
			av := info.Types[absArg].Value
			zero := av != nil && (av.Kind() == constant.Bool && !constant.BoolVal(av) || av.Kind() == constant.Int && av.ExactString() == "0" || av.Kind() == constant.String && constant.StringVal(av) == "")
			if !zero {
				o.Verdict = VIOL
				o.Detail = fmt.Sprintf("%s leaves the field out when %s equals %s, which is not the zero value: the translator leaves an absent field at its zero value, so the value printed by omission is read back as another one (the first print omits it, the second prints the zero value)", exprString(call.Fun), exprString(valArg), exprString(absArg))
			}
			obs = append(obs, o)
			return true
		})
	})
	return obs
}

func ruleCTORCHK(c *Ctx) []Obligation {
	var obs []Obligation
	for _, path := range []string{pkgIR, pkgCONS} {
		c.eachFunc(path, func(p *packages.Package, fd *ast.FuncDecl, fn *types.Func) {
			if !strings.HasPrefix(fn.Name(), "New") || fd.Recv != nil {
				return
			}
			info := p.TypesInfo
			defs := collectDefs(info, fd.Body)
			n := 0
			ast.Inspect(fd.Body, func(nd ast.Node) bool {
				is, ok := nd.(*ast.IfStmt)
				if !ok || !endsInPanic(is.Body.List) {
					return true
				}
				var eq *ast.CallExpr
				ast.Inspect(is.Cond, func(m ast.Node) bool {
					if call, ok := m.(*ast.CallExpr); ok {
						if se, ok := unparen(call.Fun).(*ast.SelectorExpr); ok && se.Sel.Name == "Equal" && len(call.Args) == 1 {
							eq = call
						}
					}
					return true
				})
				if is.Init != nil {
					if as, ok := is.Init.(*ast.AssignStmt); ok {
						for i, l := range as.Lhs {
							if id, ok := l.(*ast.Ident); ok && i < len(as.Rhs) {
								defs[info.ObjectOf(id)] = append(defs[info.ObjectOf(id)], as.Rhs[i])
							}
						}
					}
				}
				if eq == nil {
					return true
				}
				n++
				o := Obligation{Key: fmt.Sprintf("%s type check #%d compares the operands' own types", funcKey(fn), n), Pos: c.pos(is.Pos()), Verdict: OK, Detail: exprString(eq)}
				synth := func(e ast.Expr) string {
					var look func(e ast.Expr, depth int) string
					look = func(e ast.Expr, depth int) string {
						e = unparen(e)
						switch x := e.(type) {
						case *ast.CallExpr:
							if f := calleeOf(info, x); f != nil && f.Pkg() != nil && f.Pkg().Path() == pkgTYP && strings.HasPrefix(f.Name(), "New") {
								return exprString(x)
							}
							// a helper of the package that builds the expected type (selectCondType(t)):
							// what it returns
							if f := calleeOf(info, x); f != nil && f.Pkg() != nil && f.Pkg().Path() == path && depth < 3 {
								if hfd := c.funcDecl(f); hfd != nil && hfd.Body != nil && hfd != fd {
									hdefs := collectDefs(info, hfd.Body)
									found := ""
									ast.Inspect(hfd.Body, func(q ast.Node) bool {
										r, ok := q.(*ast.ReturnStmt)
										if !ok || found != "" {
											return found == ""
										}
										for _, res := range r.Results {
											saved := defs
											defs = hdefs
											if s := look(res, depth+1); s != "" {
												found = s + " (in " + f.Name() + ")"
											}
											defs = saved
										}
										return true
									})
									if found != "" {
										return found
									}
								}
							}
						case *ast.UnaryExpr:
							if _, ok := x.X.(*ast.CompositeLit); ok && x.Op == token.AND {
								return exprString(x)
							}
						case *ast.Ident:
							if depth < 3 {
								for _, d := range defs[info.ObjectOf(x)] {
									if s := look(d, depth+1); s != "" {
										return s
									}
								}
							}
						}
						return ""
					}
					return look(e, 0)
				}
				recv := unparen(eq.Fun).(*ast.SelectorExpr).X
				for _, side := range []ast.Expr{recv, eq.Args[0]} {
					if s := synth(side); s != "" {
						o.Verdict = VIOL
						o.Detail = fmt.Sprintf("the check compares against %s, a type built for the comparison: the synthesised type has default qualifiers (address space 0, no name), so well-typed operands whose type carries a qualifier — a store through an addrspace(1) pointer — are rejected with a panic", s)
					}
				}
				obs = append(obs, o)
				return true
			})
		})
	}
	return obs
}

func ruleELLIPSIS(c *Ctx) []Obligation {
	var obs []Obligation
	for _, path := range []string{pkgIR, pkgTYP, pkgCONS} {
		c.eachFunc(path, func(p *packages.Package, fd *ast.FuncDecl, fn *types.Func) {
			info := p.TypesInfo
			n := 0
			ast.Inspect(fd.Body, func(nd ast.Node) bool {
				is, ok := nd.(*ast.IfStmt)
				if !ok {
					return true
				}
				mentions := false
				ast.Inspect(is.Cond, func(m ast.Node) bool {
					if se, ok := m.(*ast.SelectorExpr); ok && se.Sel.Name == "Variadic" {
						if sel, ok := info.Selections[se]; ok && sel.Kind() == types.FieldVal {
							mentions = true
						}
					}
					return true
				})
				if !mentions {
					return true
				}
				// does this if write an ellipsis at all?
				writesEllipsis := func(list []ast.Stmt, topOnly bool) bool {
					found := false
					for _, st := range list {
						ast.Inspect(st, func(m ast.Node) bool {
							if topOnly {
								if _, nested := m.(*ast.IfStmt); nested {
									return false
								}
							}
							if lit, ok := m.(*ast.BasicLit); ok && lit.Kind == token.STRING {
								if tv := info.Types[lit]; tv.Value != nil && strings.Contains(constant.StringVal(tv.Value), "...") {
									found = true
								}
							}
							return true
						})
					}
					return found
				}
				if !writesEllipsis(is.Body.List, false) {
					return true
				}
				n++
				o := Obligation{Key: fmt.Sprintf("%s writes `...` whenever the signature is variadic #%d", funcKey(fn), n), Pos: c.pos(is.Pos()), Verdict: OK, Detail: "if <sig>.Variadic { …; write(\"...\") }"}
				se, pure := unparen(is.Cond).(*ast.SelectorExpr)
				switch {
				case !pure || se.Sel.Name != "Variadic":
					o.Verdict = VIOL
					o.Detail = fmt.Sprintf("the ellipsis is written under `%s`, not under the Variadic flag alone: a variadic function without fixed parameters, `declare void @f(...)`, is printed as `@f()`, which declares another type than its call sites use", exprString(is.Cond))
				case !writesEllipsis(is.Body.List, true):
					o.Verdict, o.Detail = VIOL, "inside `if …Variadic` the ellipsis is written only under a further condition"
				}
				obs = append(obs, o)
				return true
			})
		})
	}
	return obs
}

func ruleLITCTOR(c *Ctx) []Obligation {
	var obs []Obligation
	c.eachFunc(pkgASM, func(p *packages.Package, fd *ast.FuncDecl, fn *types.Func) {
		info := p.TypesInfo
		sig := fn.Type().(*types.Signature)
		takes := func(name string) bool {
			for i := 0; i < sig.Params().Len(); i++ {
				if isNamed(sig.Params().At(i).Type(), pkgAST, name) {
					return true
				}
			}
			return false
		}
		n := 0
		ast.Inspect(fd.Body, func(nd ast.Node) bool {
			var what string
			var pos token.Pos
			switch x := nd.(type) {
			case *ast.CallExpr:
				f := calleeOf(info, x)
				if f == nil || f.Pkg() == nil || f.Pkg().Path() != pkgCONS {
					return true
				}
				rs := f.Type().(*types.Signature).Results()
				if rs.Len() == 0 || !(isNamed(rs.At(0).Type(), pkgCONS, "Int") || isNamed(rs.At(0).Type(), pkgCONS, "Float")) {
					return true
				}
				what, pos = "constant."+f.Name(), x.Pos()
				ok := false
				switch f.Name() {
				case "NewIntFromString":
					ok = takes("IntConst")
				case "NewFloatFromString":
					ok = takes("FloatConst")
				case "NewBool":
					ok = takes("BoolConst")
				}
				n++
				o := Obligation{Key: fmt.Sprintf("%s constructs a literal constant with %s #%d", funcKey(fn), what, n), Pos: c.pos(pos), Verdict: OK, Detail: "the literal reader of its token"}
				if !ok {
					o.Verdict = VIOL
					o.Detail = fmt.Sprintf("%s is called outside the reader of the corresponding literal token: the constant's value is derived a second time from an already-read constant (or from something other than the token text), so e.g. `i1 -1` can come back as `false`", what)
				}
				obs = append(obs, o)
			case *ast.CompositeLit:
				t := info.TypeOf(x)
				if isNamed(t, pkgCONS, "Int") || isNamed(t, pkgCONS, "Float") {
					n++
					obs = append(obs, Obligation{Key: fmt.Sprintf("%s constructs a literal constant with a composite literal #%d", funcKey(fn), n), Pos: c.pos(x.Pos()), Verdict: VIOL,
						Detail: "an integer / floating-point constant is built field by field in the translator instead of by the literal reader"})
				}
			}
			return true
		})
	})
	return obs
}

func exprNodes(es []ast.Expr) []ast.Node {
	out := make([]ast.Node, len(es))
	for i, e := range es {
		out[i] = e
	}
	return out
}

// ---------------------------------------------------------------------------
// SCAF-NAME

func init() {
	register(&Rule{
		Name:  "SCAF-NAME",
		Doc:   "the scaffold created for a type definition carries the name it is stored under: the function whose result is stored in newIndex.typeDefs[name] returns, on every path, an object whose TypeName is that same name parameter (a recursive call with another name creates a second object named like another definition)",
		Floor: 10,
		Run:   ruleSCAFNAME,
	})
}

func ruleSCAFNAME(c *Ctx) []Obligation {
	var obs []Obligation
	// constructors: functions of asm whose result is stored under newIndex.typeDefs[k] with k their first argument
	ctors := map[*types.Func]bool{}
	c.eachFunc(pkgASM, func(p *packages.Package, fd *ast.FuncDecl, fn *types.Func) {
		info := p.TypesInfo
		defs := collectDefs(info, fd.Body)
		ast.Inspect(fd.Body, func(nd ast.Node) bool {
			as, ok := nd.(*ast.AssignStmt)
			if !ok || len(as.Lhs) != 1 || len(as.Rhs) != 1 {
				return true
			}
			ix, ok := unparen(as.Lhs[0]).(*ast.IndexExpr)
			if !ok || mapFieldName(info, ix.X) != "newIndex.typeDefs" {
				return true
			}
			rhs := []ast.Expr{as.Rhs[0]}
			if id, ok := unparen(as.Rhs[0]).(*ast.Ident); ok {
				rhs = defs[info.ObjectOf(id)]
			}
			for _, r := range rhs {
				if call, ok := unparen(r).(*ast.CallExpr); ok && len(call.Args) > 0 && exprString(call.Args[0]) == exprString(ix.Index) {
					if f := calleeOf(info, call); f != nil && f.Pkg() != nil && f.Pkg().Path() == pkgASM {
						ctors[f] = true
					}
				}
			}
			return true
		})
	})
	if len(ctors) == 0 {
		return []Obligation{{Key: "scaffold constructor of newIndex.typeDefs", Verdict: UNDECIDED, Detail: "no `newIndex.typeDefs[name] = f(name, …)` store found"}}
	}
	for f := range ctors {
		fd := c.funcDecl(f)
		if fd == nil {
			continue
		}
		p := c.declPkg[fd]
		info := p.TypesInfo
		nameParam := f.Type().(*types.Signature).Params().At(0)
		n := 0
		ast.Inspect(fd.Body, func(nd ast.Node) bool {
			r, ok := nd.(*ast.ReturnStmt)
			if !ok || len(r.Results) == 0 {
				return true
			}
			res := unparen(r.Results[0])
			if id, ok := res.(*ast.Ident); ok && id.Name == "nil" {
				return true
			}
			n++
			o := Obligation{Key: fmt.Sprintf("%s return #%d carries its name parameter", funcKey(f), n), Pos: c.pos(r.Pos()), Verdict: UNDECIDED, Detail: "unrecognised result expression " + exprString(res)}
			if ue, ok := res.(*ast.UnaryExpr); ok && ue.Op == token.AND {
				res = ue.X
			}
			switch x := res.(type) {
			case *ast.CompositeLit:
				o.Verdict, o.Detail = VIOL, "the scaffold is created without a TypeName"
				for _, el := range x.Elts {
					if kv, ok := el.(*ast.KeyValueExpr); ok && exprString(kv.Key) == "TypeName" {
						if id, ok := unparen(kv.Value).(*ast.Ident); ok && info.ObjectOf(id) == nameParam {
							o.Verdict, o.Detail = OK, "TypeName: "+id.Name
						} else {
							o.Verdict, o.Detail = VIOL, "TypeName is set from "+exprString(kv.Value)+", not from the name the caller stores the object under"
						}
					}
				}
			case *ast.CallExpr:
				if callee := calleeOf(info, x); callee == f && len(x.Args) > 0 {
					if id, ok := unparen(x.Args[0]).(*ast.Ident); ok && info.ObjectOf(id) == nameParam {
						o.Verdict, o.Detail = OK, "delegates with the same name"
					} else {
						o.Verdict = VIOL
						o.Detail = fmt.Sprintf("for a definition whose body is another named type the function calls itself with %s: the object stored under this definition's name is a fresh scaffold carrying the *other* name, distinct from that definition's own scaffold — `%%a = type %%b` yields two objects named %%b, one of which is never filled (printed as `%%b = type {}`), and uses of %%a do not denote the type the module lists for %%b", exprString(x.Args[0]))
					}
				}
			}
			obs = append(obs, o)
			return true
		})
	}
	return obs
}

// encClassOfHelper applies the ENC-CLASS test inside a helper whose first
// parameter is the token text: the first classifier call must see that text
// before any unquoting of it.
var encClassDepth int

func encClassOfHelper(c *Ctx, fd *ast.FuncDecl, isClassifier, isUnquoter func(*types.Func) bool) (verdict, detail string, pos token.Pos) {
	info := c.declPkg[fd].TypesInfo
	type def struct {
		pos token.Pos
		rhs ast.Expr
	}
	defs := map[types.Object][]def{}
	ast.Inspect(fd.Body, func(nd ast.Node) bool {
		if as, ok := nd.(*ast.AssignStmt); ok && len(as.Lhs) == len(as.Rhs) {
			for i, l := range as.Lhs {
				if id, ok := l.(*ast.Ident); ok {
					if obj := info.ObjectOf(id); obj != nil {
						defs[obj] = append(defs[obj], def{as.Pos(), as.Rhs[i]})
					}
				}
			}
		}
		return true
	})
	var unq func(e ast.Expr, at token.Pos, depth int) bool
	unq = func(e ast.Expr, at token.Pos, depth int) bool {
		found := false
		ast.Inspect(e, func(m ast.Node) bool {
			switch m := m.(type) {
			case *ast.CallExpr:
				if isUnquoter(calleeOf(info, m)) {
					found = true
				}
			case *ast.Ident:
				if depth < 4 {
					var last *def
					for i := range defs[info.ObjectOf(m)] {
						d := &defs[info.ObjectOf(m)][i]
						if d.pos < at && (last == nil || d.pos > last.pos) {
							last = d
						}
					}
					if last != nil && unq(last.rhs, last.pos, depth+1) {
						found = true
					}
				}
			}
			return !found
		})
		return found
	}
	ast.Inspect(fd.Body, func(nd ast.Node) bool {
		call, ok := nd.(*ast.CallExpr)
		if !ok || len(call.Args) == 0 || verdict != "" {
			return true
		}
		// the decision one helper further down (unnamedID(ident) → strconv.ParseUint): judged
		// there, provided the text handed on has not been unquoted here
		if callee := calleeOf(info, call); callee != nil && callee.Pkg() != nil && callee.Pkg().Path() == pkgASM && !isClassifier(callee) && !isUnquoter(callee) {
			if hfd := c.funcDecl(callee); hfd != nil && hfd.Body != nil && hfd != fd && encClassDepth < 3 && !unq(call.Args[0], call.Pos(), 0) {
				encClassDepth++
				v, d, p2 := encClassOfHelper(c, hfd, isClassifier, isUnquoter)
				encClassDepth--
				if v != "" {
					verdict, detail, pos = v, d+" (in "+callee.Name()+")", p2
				}
			}
			return true
		}
		if !isClassifier(calleeOf(info, call)) {
			return true
		}
		pos = call.Pos()
		if unq(call.Args[0], call.Pos(), 0) {
			verdict = VIOL
			detail = fmt.Sprintf("the ID-or-name decision (%s) is taken on unquoted text: the quoted digit string %%\"1\" — a name — is decoded as the unnamed ID %%1", exprString(call.Fun))
		} else {
			verdict, detail = OK, "decided by "+exprString(call.Fun)+" on the raw text; unquoting happens afterwards"
		}
		return true
	})
	return verdict, detail, pos
}

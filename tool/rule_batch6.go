package main

import (
	"fmt"
	"go/ast"
	"go/token"
	"go/types"
	"sort"
	"strings"

	"golang.org/x/tools/go/packages"
)

// Rules added after seeded batch 6: LIST-1TO1, FILL-ORDER, CTOR-ID.

func init() {
	register(&Rule{
		Name:  "LIST-1TO1",
		Doc:   "a loop of package asm that translates a list of AST nodes into a list of IR objects (it ranges over a slice of llir/ll ast nodes and stores into a slice of another element type, by index or by append) stores exactly one element per iteration unless it leaves the function: the store is at the top level of the loop body (or in every arm of a top-level switch) and no continue / break of that loop precedes it — a skipped, merged or de-duplicated element is something the input said that the module no longer says",
		Floor: 30,
		Run:   ruleLIST1TO1,
	})
}

// isASTElem: a type of the llir/ll ast package (node struct, pointer to it, or node interface).
func isASTElem(t types.Type) bool {
	if p, ok := t.(*types.Pointer); ok {
		t = p.Elem()
	}
	n, ok := t.(*types.Named)
	return ok && n.Obj().Pkg() != nil && n.Obj().Pkg().Path() == pkgAST
}

func ruleLIST1TO1(c *Ctx) []Obligation {
	var obs []Obligation
	c.eachFunc(pkgASM, func(p *packages.Package, fd *ast.FuncDecl, fn *types.Func) {
		info := p.TypesInfo
		n := 0
		ast.Inspect(fd.Body, func(nd ast.Node) bool {
			rs, ok := nd.(*ast.RangeStmt)
			if !ok {
				return true
			}
			sl, ok := info.TypeOf(rs.X).Underlying().(*types.Slice)
			if !ok || !isASTElem(sl.Elem()) {
				return true
			}
			// stores into a slice of non-AST elements: xs[i] = v, xs = append(xs, v…)
			isStore := func(st ast.Stmt) (string, bool) {
				as, ok := st.(*ast.AssignStmt)
				if !ok || len(as.Lhs) != 1 || len(as.Rhs) != 1 {
					return "", false
				}
				if ix, ok := unparen(as.Lhs[0]).(*ast.IndexExpr); ok {
					if s2, ok := info.TypeOf(ix.X).Underlying().(*types.Slice); ok && !isASTElem(s2.Elem()) {
						return exprString(ix.X), true
					}
				}
				if call, ok := unparen(as.Rhs[0]).(*ast.CallExpr); ok && exprString(call.Fun) == "append" && len(call.Args) >= 2 && call.Ellipsis == token.NoPos {
					if exprString(call.Args[0]) == exprString(as.Lhs[0]) {
						if s2, ok := info.TypeOf(as.Lhs[0]).Underlying().(*types.Slice); ok && !isASTElem(s2.Elem()) {
							return exprString(as.Lhs[0]), true
						}
					}
				}
				return "", false
			}
			// does the list contain a store at its own level, or in every arm of a switch at its level?
			var storesAlways func(list []ast.Stmt) (string, bool)
			leaves := func(list []ast.Stmt) bool {
				return returnsError(info, list) || endsInPanic(list) || (len(list) > 0 && isReturn(list[len(list)-1]))
			}
			storesAlways = func(list []ast.Stmt) (string, bool) {
				for _, st := range list {
					if dst, ok := isStore(st); ok {
						return dst, true
					}
					var arms [][]ast.Stmt
					hasDefault := false
					switch x := st.(type) {
					case *ast.SwitchStmt:
						for _, cc := range x.Body.List {
							cl := cc.(*ast.CaseClause)
							arms = append(arms, cl.Body)
							hasDefault = hasDefault || cl.List == nil
						}
					case *ast.TypeSwitchStmt:
						for _, cc := range x.Body.List {
							cl := cc.(*ast.CaseClause)
							arms = append(arms, cl.Body)
							hasDefault = hasDefault || cl.List == nil
						}
					case *ast.IfStmt:
						if x.Else != nil {
							arms = append(arms, x.Body.List)
							switch e := x.Else.(type) {
							case *ast.BlockStmt:
								arms = append(arms, e.List)
								hasDefault = true
							case *ast.IfStmt:
								arms = append(arms, []ast.Stmt{e})
								hasDefault = true
							}
						}
					}
					if len(arms) > 0 && hasDefault {
						dst, all := "", true
						for _, a := range arms {
							if d, ok := storesAlways(a); ok {
								dst = d
							} else if !leaves(a) {
								all = false
							}
						}
						if all && dst != "" {
							return dst, true
						}
					}
				}
				return "", false
			}
			// any store at all (at any depth, outside nested loops and closures)?
			anyStore, anyDst := token.NoPos, ""
			var skipPos token.Pos
			var walk func(n ast.Node, inSwitch bool)
			walk = func(n ast.Node, inSwitch bool) {
				ast.Inspect(n, func(m ast.Node) bool {
					switch x := m.(type) {
					case *ast.FuncLit:
						return false
					case *ast.RangeStmt, *ast.ForStmt:
						if m != ast.Node(rs) {
							return false
						}
					case *ast.SwitchStmt, *ast.TypeSwitchStmt, *ast.SelectStmt:
						if !inSwitch {
							walk2 := m
							ast.Inspect(walk2, func(k ast.Node) bool {
								if k == walk2 {
									return true
								}
								return true
							})
						}
					case *ast.BranchStmt:
						if x.Label == nil && (x.Tok == token.CONTINUE) && skipPos == token.NoPos {
							skipPos = x.Pos()
						}
					case ast.Stmt:
						if dst, ok := isStore(x); ok && anyStore == token.NoPos {
							anyStore, anyDst = x.Pos(), dst
						}
					}
					return true
				})
			}
			walk(rs.Body, false)
			// an unlabelled break that belongs to this loop (not to a switch / select inside it)
			var findBreak func(list []ast.Stmt)
			findBreak = func(list []ast.Stmt) {
				for _, st := range list {
					switch x := st.(type) {
					case *ast.BranchStmt:
						if x.Tok == token.BREAK && x.Label == nil && skipPos == token.NoPos {
							skipPos = x.Pos()
						}
					case *ast.IfStmt:
						findBreak(x.Body.List)
						if e, ok := x.Else.(*ast.BlockStmt); ok {
							findBreak(e.List)
						} else if e, ok := x.Else.(*ast.IfStmt); ok {
							findBreak([]ast.Stmt{e})
						}
					case *ast.BlockStmt:
						findBreak(x.List)
					}
				}
			}
			findBreak(rs.Body.List)
			if anyStore == token.NoPos {
				return true // not a list translation
			}
			// a distribution loop — a type switch over the element at the top level of the body, with
			// alternatives that go elsewhere (top-level entities, `key: value` fields, function
			// header fields) — is not a list translation: the coverage rules hold it to account
			distribution := false
			for _, st := range rs.Body.List {
				ts, ok := st.(*ast.TypeSwitchStmt)
				if !ok {
					continue
				}
				arms, storing := 0, 0
				for _, cc := range ts.Body.List {
					cl := cc.(*ast.CaseClause)
					if cl.List == nil {
						continue
					}
					arms++
					has := false
					for _, b := range cl.Body {
						ast.Inspect(b, func(m ast.Node) bool {
							if bs, ok := m.(ast.Stmt); ok {
								if d, ok := isStore(bs); ok && d == anyDst {
									has = true
								}
							}
							return true
						})
					}
					if has {
						storing++
					}
				}
				if arms >= 2 && storing < arms {
					distribution = true
				}
			}
			if distribution {
				return true
			}
			n++
			o := Obligation{Key: fmt.Sprintf("%s translates list #%d (%s → %s) one element per element", funcKey(fn), n, strings.TrimSpace(exprString(rs.X)), anyDst), Pos: c.pos(rs.Pos()), Verdict: OK, Tags: asmTags(fn.Name(), typeKey(sl.Elem()))}
			dst, always := storesAlways(rs.Body.List)
			// set-valued lists (attributes, flags): a duplicate means what one occurrence means, and
			// dropping it through an exact membership set — a map keyed by the element or by its
			// text, consulted in the guard of the continue — loses nothing
			setLike := ""
			if skipPos != token.NoPos {
				if dt, ok := info.TypeOf(mustParseExprIn(rs.Body, anyDst, info)).(*types.Slice); ok {
					if en := namedOf(dt.Elem()); en != nil && (strings.Contains(en.Obj().Name(), "Attribute") || strings.Contains(en.Obj().Name(), "Flag")) {
						pm := buildParents(rs.Body)
						ast.Inspect(rs.Body, func(m ast.Node) bool {
							br, ok := m.(*ast.BranchStmt)
							if !ok || br.Pos() != skipPos {
								return true
							}
							for q := pm[br]; q != nil; q = pm[q] {
								if is, ok := q.(*ast.IfStmt); ok {
									if ix, ok := unparen(is.Cond).(*ast.IndexExpr); ok {
										if _, isMap := info.TypeOf(ix.X).Underlying().(*types.Map); isMap {
											setLike = fmt.Sprintf("duplicates of a set-valued list (%s) are dropped through the membership map %s", typeKey(en), exprString(ix.X))
										}
									}
									break
								}
							}
							return true
						})
					}
				}
			}
			switch {
			case setLike != "":
				o.Verdict, o.Detail = EXEMPT, setLike
			case skipPos != token.NoPos:
				o.Verdict, o.Pos = VIOL, c.pos(skipPos)
				o.Detail = fmt.Sprintf("an iteration can end (continue / break at %s) without storing its element into %s: an element of the input list is skipped, merged or de-duplicated — what the input said about it is no longer in the module (or appears only for some spellings of the same input)", c.pos(skipPos), anyDst)
			case !always:
				o.Verdict, o.Pos = VIOL, c.pos(anyStore)
				o.Detail = fmt.Sprintf("the store into %s is conditional: it is not at the top level of the loop body (nor in every arm of a top-level switch), so some elements of the input list produce no element of the result", anyDst)
			default:
				o.Detail = "unconditional store into " + dst
			}
			obs = append(obs, o)
			return true
		})
	})
	return obs
}

func isReturn(st ast.Stmt) bool { _, ok := st.(*ast.ReturnStmt); return ok }

// mustParseExprIn finds, inside root, an expression whose text is s (the destination of a
// store found earlier) so that its type can be looked up.
func mustParseExprIn(root ast.Node, s string, info *types.Info) ast.Expr {
	var out ast.Expr
	ast.Inspect(root, func(m ast.Node) bool {
		if e, ok := m.(ast.Expr); ok && out == nil && exprString(e) == s {
			if _, isSlice := info.TypeOf(e).Underlying().(*types.Slice); isSlice {
				out = e
			}
		}
		return out == nil
	})
	if out == nil {
		return &ast.Ident{Name: "_"}
	}
	return out
}

// ---------------------------------------------------------------------------
// DEDUP-KEY

func init() {
	register(&Rule{
		Name:  "DEDUP-KEY",
		Doc:   "a de-duplication set of package asm (a map consulted in the guard of a `continue` and updated after the append) is keyed by the translated value, never by the source text of the AST node: one value has several spellings (`\"a\"=\"b\"` / `\"a\" = \"b\"`, `align 8` / `align = 8`), the printer writes one of them, so duplicates that survive the first parse are removed by the second and the printed text is not a fixpoint",
		Floor: 1,
		Run:   ruleDEDUPKEY,
	})
}

func ruleDEDUPKEY(c *Ctx) []Obligation {
	var obs []Obligation
	c.eachFunc(pkgASM, func(p *packages.Package, fd *ast.FuncDecl, fn *types.Func) {
		info := p.TypesInfo
		defs := collectDefs(info, fd.Body)
		n := 0
		ast.Inspect(fd.Body, func(nd ast.Node) bool {
			is, ok := nd.(*ast.IfStmt)
			if !ok || len(is.Body.List) == 0 {
				return true
			}
			br, ok := is.Body.List[len(is.Body.List)-1].(*ast.BranchStmt)
			if !ok || br.Tok != token.CONTINUE {
				return true
			}
			var ix *ast.IndexExpr
			ast.Inspect(is.Cond, func(m ast.Node) bool {
				if x, ok := m.(*ast.IndexExpr); ok && ix == nil {
					if _, isMap := info.TypeOf(x.X).Underlying().(*types.Map); isMap {
						ix = x
					}
				}
				return true
			})
			if ix == nil && is.Init != nil {
				ast.Inspect(is.Init, func(m ast.Node) bool {
					if x, ok := m.(*ast.IndexExpr); ok && ix == nil {
						if _, isMap := info.TypeOf(x.X).Underlying().(*types.Map); isMap {
							ix = x
						}
					}
					return true
				})
			}
			if ix == nil {
				return true
			}
			// the same map is updated in this function: a membership set, not an index of definitions
			setName := exprString(ix.X)
			updated := false
			ast.Inspect(fd.Body, func(m ast.Node) bool {
				if as, ok := m.(*ast.AssignStmt); ok {
					for _, l := range as.Lhs {
						if lx, ok := unparen(l).(*ast.IndexExpr); ok && exprString(lx.X) == setName {
							updated = true
						}
					}
				}
				return true
			})
			if !updated {
				return true
			}
			n++
			o := Obligation{Key: fmt.Sprintf("%s de-duplication set %s #%d is keyed by the translated value", funcKey(fn), setName, n), Pos: c.pos(is.Pos()), Verdict: OK, Detail: "key " + exprString(ix.Index)}
			// does the key derive from the raw text of an AST node?
			seen := map[types.Object]bool{}
			var fromText func(e ast.Expr, depth int) string
			fromText = func(e ast.Expr, depth int) string {
				res := ""
				ast.Inspect(e, func(m ast.Node) bool {
					switch x := m.(type) {
					case *ast.CallExpr:
						if se, ok := unparen(x.Fun).(*ast.SelectorExpr); ok && se.Sel.Name == "Text" && len(x.Args) == 0 {
							if f := calleeOf(info, x); f != nil && f.Pkg() != nil && f.Pkg().Path() == pkgAST {
								res = exprString(x)
							}
						}
					case *ast.Ident:
						if obj := info.Uses[x]; obj != nil && !seen[obj] && depth < 4 && res == "" {
							seen[obj] = true
							for _, d := range defs[obj] {
								if r := fromText(d, depth+1); r != "" && res == "" {
									res = r
								}
							}
						}
					}
					return res == ""
				})
				return res
			}
			if src := fromText(ix.Index, 0); src != "" {
				o.Verdict = VIOL
				o.Detail = fmt.Sprintf("the set is keyed by source text (%s): two spellings of one value both survive the first parse, the printer writes them alike, and the second parse keeps only one — parse(print(m)) differs from m", src)
			}
			obs = append(obs, o)
			return true
		})
	})
	return obs
}

// ---------------------------------------------------------------------------
// ENC-HEAD

func init() {
	register(&Rule{
		Name:  "ENC-HEAD",
		Doc:   "the identifier encoder that chooses between the bare and the quoted spelling (a function of internal/enc that can return its argument unchanged) tests the first byte separately: the test, evaluated over all 256 byte values, tells the decimal digits from the letters, and it feeds the decision that guards the bare return — unquoted, %1a is read as the unnamed ID %1 followed by a stray token, so a name with a leading digit must be quoted as LLVM's own printer does",
		Floor: 1,
		Run:   ruleENCHEAD,
	})
}

func ruleENCHEAD(c *Ctx) []Obligation {
	var obs []Obligation
	c.eachFunc(pkgENC, func(p *packages.Package, fd *ast.FuncDecl, fn *types.Func) {
		info := p.TypesInfo
		sig := fn.Type().(*types.Signature)
		if sig.Recv() != nil || sig.Params().Len() != 1 || sig.Results().Len() != 1 || !isPlainString(sig.Params().At(0).Type()) || !isPlainString(sig.Results().At(0).Type()) {
			return
		}
		var param types.Object
		if len(fd.Type.Params.List) == 1 && len(fd.Type.Params.List[0].Names) == 1 {
			param = info.Defs[fd.Type.Params.List[0].Names[0]]
		}
		if param == nil {
			return
		}
		// a bare path: `return s`
		var bare *ast.ReturnStmt
		ast.Inspect(fd.Body, func(n ast.Node) bool {
			if r, ok := n.(*ast.ReturnStmt); ok && len(r.Results) == 1 {
				if id, ok := unparen(r.Results[0]).(*ast.Ident); ok && info.ObjectOf(id) == param {
					bare = r
				}
			}
			return true
		})
		if bare == nil {
			return
		}
		o := Obligation{Key: funcKey(fn) + ": a name with a leading digit is not spelled bare", Pos: c.pos(bare.Pos()), Verdict: VIOL,
			Detail: "the function can return its argument unchanged and never examines the first byte on its own: a name such as `1a` or `7up` is printed as %1a / @7up, which the parser (and LLVM) read as the unnamed ID %1 / @7 followed by a stray token — the name is mistaken for an ID or the output does not parse"}
		// first-byte tests in fn (and in helpers of the package it hands the string to)
		type test struct {
			e    ast.Expr
			info *types.Info
			obj  types.Object
			in   *ast.FuncDecl
		}
		var tests []test
		var collect func(hfd *ast.FuncDecl, hinfo *types.Info, obj types.Object, depth int)
		collect = func(hfd *ast.FuncDecl, hinfo *types.Info, obj types.Object, depth int) {
			pm := buildParents(hfd.Body)
			isHead := func(e ast.Expr) bool {
				ix, ok := unparen(e).(*ast.IndexExpr)
				if !ok {
					return false
				}
				id, ok := unparen(ix.X).(*ast.Ident)
				if !ok || hinfo.ObjectOf(id) != obj {
					return false
				}
				tv := hinfo.Types[ix.Index]
				return tv.Value != nil && tv.Value.ExactString() == "0"
			}
			ast.Inspect(hfd.Body, func(n ast.Node) bool {
				switch x := n.(type) {
				case *ast.IndexExpr:
					if !isHead(x) {
						return true
					}
					// the largest enclosing expression that evaluates to a boolean over the head byte alone
					var best ast.Expr
					for q := ast.Node(x); q != nil; q = pm[q] {
						e, ok := q.(ast.Expr)
						if !ok {
							break
						}
						if tv, ok := hinfo.Types[e]; ok && tv.Type != nil {
							if b, ok := tv.Type.Underlying().(*types.Basic); ok && b.Info()&types.IsBoolean != 0 {
								if _, good := byteSet(hinfo, e, isHead); good {
									best = e
								}
							}
						}
					}
					if best != nil {
						tests = append(tests, test{best, hinfo, obj, hfd})
					}
				case *ast.CallExpr:
					if depth >= 1 {
						return true
					}
					f := calleeOf(hinfo, x)
					if f == nil || f.Pkg() == nil || f.Pkg().Path() != pkgENC || f == fn {
						return true
					}
					gfd := c.funcDecl(f)
					if gfd == nil || gfd.Body == nil {
						return true
					}
					fs := f.Type().(*types.Signature)
					for i, a := range x.Args {
						if id, ok := unparen(a).(*ast.Ident); ok && hinfo.ObjectOf(id) == obj && i < fs.Params().Len() {
							k := 0
							for _, fl := range gfd.Type.Params.List {
								for _, nm := range fl.Names {
									if k == i {
										collect(gfd, c.declPkg[gfd].TypesInfo, c.declPkg[gfd].TypesInfo.Defs[nm], depth+1)
									}
									k++
								}
							}
						}
					}
				}
				return true
			})
		}
		collect(fd, info, param, 0)
		for _, t := range tests {
			isHead := func(e ast.Expr) bool {
				ix, ok := unparen(e).(*ast.IndexExpr)
				if !ok {
					return false
				}
				id, ok := unparen(ix.X).(*ast.Ident)
				return ok && t.info.ObjectOf(id) == t.obj
			}
			set, ok := byteSet(t.info, t.e, isHead)
			if !ok {
				continue
			}
			digits := set['0']
			uniform := true
			for b := '0'; b <= '9'; b++ {
				if set[b] != digits {
					uniform = false
				}
			}
			if !uniform || set['a'] == digits || set['Z'] == digits || set['_'] == digits {
				o.Detail = fmt.Sprintf("the first-byte test `%s` does not tell the decimal digits from the letters (true for {%s}): some name with a leading digit is still spelled bare and read back as an unnamed ID followed by a stray token", exprString(t.e), describeSet(set))
				o.Pos = c.pos(t.e.Pos())
				continue
			}
			// the test feeds the decision guarding the bare return (own function only)
			feeds := t.in != fd
			if !feeds {
				guardVars := map[types.Object]bool{}
				var guardConds []ast.Expr
				ast.Inspect(fd.Body, func(n ast.Node) bool {
					if is, ok := n.(*ast.IfStmt); ok {
						hasRet := false
						ast.Inspect(is.Body, func(m ast.Node) bool {
							if _, ok := m.(*ast.ReturnStmt); ok {
								hasRet = true
							}
							return true
						})
						if hasRet {
							guardConds = append(guardConds, is.Cond)
							ast.Inspect(is.Cond, func(m ast.Node) bool {
								if id, ok := m.(*ast.Ident); ok {
									if v, ok := info.Uses[id].(*types.Var); ok {
										guardVars[v] = true
									}
								}
								return true
							})
						}
					}
					return true
				})
				within := func(outer ast.Node) bool { return outer.Pos() <= t.e.Pos() && t.e.End() <= outer.End() }
				for _, g := range guardConds {
					if within(g) {
						feeds = true
					}
				}
				ast.Inspect(fd.Body, func(n ast.Node) bool {
					switch x := n.(type) {
					case *ast.AssignStmt:
						for i, l := range x.Lhs {
							if id, ok := l.(*ast.Ident); ok && guardVars[info.ObjectOf(id)] && i < len(x.Rhs) && within(x.Rhs[i]) {
								feeds = true
							}
						}
					case *ast.IfStmt:
						if within(x.Cond) {
							ast.Inspect(x.Body, func(m ast.Node) bool {
								if as, ok := m.(*ast.AssignStmt); ok {
									for _, l := range as.Lhs {
										if id, ok := l.(*ast.Ident); ok && guardVars[info.ObjectOf(id)] {
											feeds = true
										}
									}
								}
								return true
							})
						}
					}
					return true
				})
			}
			if feeds {
				o.Verdict, o.Pos = OK, c.pos(t.e.Pos())
				o.Detail = fmt.Sprintf("first-byte test `%s` (decimal digits ↔ quoted) feeds the decision that guards the bare return", exprString(t.e))
				break
			}
			o.Detail = fmt.Sprintf("the first-byte test `%s` does not feed the decision that guards the bare return", exprString(t.e))
		}
		obs = append(obs, o)
	})
	return obs
}

// ---------------------------------------------------------------------------
// RESOLVE-PATH

func init() {
	register(&Rule{
		Name:  "RESOLVE-PATH",
		Doc:   "in a translator of package asm, a resolving call at the top level of the body (a call of another function of the package that can fail: irType, irValue, irConstant …) lies on every path that does not fail: no earlier statement returns anything but an error, unless that return sits under a test of the very value the call resolves — a fast path around the call leaves the part of the input it would have resolved (a written type, an operand) unchecked, so an undefined name in it is accepted silently",
		Floor: 100,
		Run:   ruleRESOLVEPATH,
	})
}

func ruleRESOLVEPATH(c *Ctx) []Obligation {
	var obs []Obligation
	c.eachFunc(pkgASM, func(p *packages.Package, fd *ast.FuncDecl, fn *types.Func) {
		info := p.TypesInfo
		sig := fn.Type().(*types.Signature)
		nres := sig.Results().Len()
		if nres == 0 || !isErrorType(sig.Results().At(nres-1).Type()) {
			return
		}
		defs := collectDefs(info, fd.Body)
		pm := buildParents(fd.Body)
		localsIn := func(e ast.Node, into map[types.Object]bool) {
			ast.Inspect(e, func(m ast.Node) bool {
				if id, ok := m.(*ast.Ident); ok {
					if v, ok := info.Uses[id].(*types.Var); ok && !v.IsField() && v.Parent() != nil && v.Pkg() != nil && v.Parent() != v.Pkg().Scope() {
						into[v] = true
					}
				}
				return true
			})
		}
		resolver := func(e ast.Expr) *ast.CallExpr {
			call, ok := unparen(e).(*ast.CallExpr)
			if !ok {
				return nil
			}
			f := calleeOf(info, call)
			if f == nil || f.Pkg() == nil || f.Pkg().Path() != pkgASM {
				return nil
			}
			rs := f.Type().(*types.Signature).Results()
			if rs.Len() == 0 || !isErrorType(rs.At(rs.Len()-1).Type()) {
				return nil
			}
			return call
		}
		// early exits: non-error returns nested in each top-level statement
		type exit struct {
			idx   int
			pos   token.Pos
			guard map[types.Object]bool
		}
		var exits []exit
		for i, st := range fd.Body.List {
			if i == len(fd.Body.List)-1 {
				if _, isRet := st.(*ast.ReturnStmt); isRet {
					continue
				}
			}
			ast.Inspect(st, func(nd ast.Node) bool {
				switch x := nd.(type) {
				case *ast.FuncLit:
					return false
				case *ast.ReturnStmt:
					if returnsError(info, []ast.Stmt{x}) {
						return true
					}
					g := map[types.Object]bool{}
					for q := pm[x]; q != nil; q = pm[q] {
						switch y := q.(type) {
						case *ast.IfStmt:
							localsIn(y.Cond, g)
						case *ast.CaseClause:
							for _, e := range y.List {
								localsIn(e, g)
							}
						case *ast.SwitchStmt:
							if y.Tag != nil {
								localsIn(y.Tag, g)
							}
						case *ast.TypeSwitchStmt:
							localsIn(y.Assign, g)
						}
					}
					exits = append(exits, exit{i, x.Pos(), g})
				}
				return true
			})
		}
		dependsOn := func(e ast.Node, guard map[types.Object]bool) bool {
			seen := map[types.Object]bool{}
			var walk func(e ast.Node, depth int) bool
			walk = func(e ast.Node, depth int) bool {
				used := map[types.Object]bool{}
				localsIn(e, used)
				for v := range used {
					if guard[v] {
						return true
					}
				}
				if depth >= 4 {
					return false
				}
				for v := range used {
					if seen[v] {
						continue
					}
					seen[v] = true
					for _, d := range defs[v] {
						if walk(d, depth+1) {
							return true
						}
					}
				}
				return false
			}
			return walk(e, 0)
		}
		n := 0
		for i, st := range fd.Body.List {
			var call *ast.CallExpr
			switch x := st.(type) {
			case *ast.AssignStmt:
				if len(x.Rhs) == 1 {
					call = resolver(x.Rhs[0])
				}
			case *ast.IfStmt:
				if as, ok := x.Init.(*ast.AssignStmt); ok && len(as.Rhs) == 1 {
					call = resolver(as.Rhs[0])
				}
			case *ast.ReturnStmt:
				if len(x.Results) == 1 {
					call = resolver(x.Results[0])
				}
			}
			if call == nil {
				continue
			}
			n++
			o := Obligation{Key: fmt.Sprintf("%s: resolving call #%d %s is on every path that succeeds", funcKey(fn), n, exprString(call.Fun)), Pos: c.pos(call.Pos()), Verdict: OK, Tags: asmTags(fn.Name(), "")}
			for _, ex := range exits {
				if ex.idx >= i {
					continue
				}
				// the call's arguments depend on what the early return tests (an optional part that
				// is absent on that path)?
				dep := false
				for _, a := range call.Args {
					if dependsOn(a, ex.guard) {
						dep = true
					}
				}
				if dep {
					continue
				}
				o.Verdict, o.Pos = VIOL, c.pos(ex.pos)
				o.Detail = fmt.Sprintf("the return at %s leaves the function without an error before %s(%s) has run, and does not depend on a test of what that call resolves: on that path this part of the input is never resolved, so an undefined name (or an ill-formed construct) in it is accepted silently", c.pos(ex.pos), exprString(call.Fun), argsString(call))
				break
			}
			obs = append(obs, o)
		}
	})
	return obs
}

func argsString(call *ast.CallExpr) string {
	var parts []string
	for _, a := range call.Args {
		parts = append(parts, exprString(a))
	}
	return strings.Join(parts, ", ")
}

// ---------------------------------------------------------------------------
// FILL-ORDER

func init() {
	register(&Rule{
		Name:  "FILL-ORDER",
		Doc:   "a translator of package asm does not read a field of the IR object it is filling before the statement in which it first stores that field: a value computed from the still-empty field (a callee signature built from inst.Args before the arguments are translated) is computed from nothing",
		Floor: 100,
		Run:   ruleFILLORDER,
	})
}

func ruleFILLORDER(c *Ctx) []Obligation {
	var obs []Obligation
	defer func() { sort.SliceStable(obs, func(i, j int) bool { return obs[i].Key < obs[j].Key }) }()
	c.eachFunc(pkgASM, func(p *packages.Package, fd *ast.FuncDecl, fn *types.Func) {
		info := p.TypesInfo
		// translators: functions that are handed a node of the syntax tree (a fix-up step that
		// reads a placeholder and replaces it is not filling from the input)
		sig := fn.Type().(*types.Signature)
		hasAST := false
		for i := 0; i < sig.Params().Len(); i++ {
			if isASTElem(sig.Params().At(i).Type()) {
				hasAST = true
			}
			if sl, ok := sig.Params().At(i).Type().Underlying().(*types.Slice); ok && isASTElem(sl.Elem()) {
				hasAST = true
			}
		}
		if !hasAST {
			return
		}
		type key struct {
			obj   types.Object
			field string
		}
		// top-level statement index of a position
		topIdx := func(pos token.Pos) int {
			for i, st := range fd.Body.List {
				if st.Pos() <= pos && pos < st.End() {
					return i
				}
			}
			return -1
		}
		fieldOf := func(e ast.Expr) (key, *types.Named, bool) {
			se, ok := unparen(e).(*ast.SelectorExpr)
			if !ok {
				return key{}, nil, false
			}
			sel, ok := info.Selections[se]
			if !ok || sel.Kind() != types.FieldVal {
				return key{}, nil, false
			}
			id, ok := unparen(se.X).(*ast.Ident)
			if !ok {
				return key{}, nil, false
			}
			v, ok := info.ObjectOf(id).(*types.Var)
			if !ok || v.IsField() {
				return key{}, nil, false
			}
			n := namedOf(sel.Recv())
			if n == nil || n.Obj().Pkg() == nil || !isIRPkg(n.Obj().Pkg().Path()) {
				return key{}, nil, false
			}
			return key{v, se.Sel.Name}, n, true
		}
		firstWrite := map[key]token.Pos{}
		owner := map[key]*types.Named{}
		lhsNodes := map[ast.Node]bool{}
		ast.Inspect(fd.Body, func(nd ast.Node) bool {
			as, ok := nd.(*ast.AssignStmt)
			if !ok {
				return true
			}
			for _, l := range as.Lhs {
				target := unparen(l)
				if ix, ok := target.(*ast.IndexExpr); ok {
					target = unparen(ix.X)
				}
				if k, n, ok := fieldOf(target); ok {
					lhsNodes[target] = true
					if old, has := firstWrite[k]; !has || as.Pos() < old {
						firstWrite[k] = as.Pos()
						owner[k] = n
					}
				}
			}
			return true
		})
		if len(firstWrite) == 0 {
			return
		}
		reported := map[key]bool{}
		for k, w := range firstWrite {
			o := Obligation{Key: fmt.Sprintf("%s fills %s.%s before reading it", funcKey(fn), typeKey(owner[k]), k.field), Pos: c.pos(w), Verdict: OK, Tags: asmTags(fn.Name(), typeKey(owner[k]))}
			wi := topIdx(w)
			ast.Inspect(fd.Body, func(nd ast.Node) bool {
				se, ok := nd.(*ast.SelectorExpr)
				if !ok || lhsNodes[se] || reported[k] {
					return true
				}
				k2, _, ok := fieldOf(se)
				if !ok || k2 != k {
					return true
				}
				if se.Pos() < w && topIdx(se.Pos()) < wi {
					reported[k] = true
					o.Verdict, o.Pos = VIOL, c.pos(se.Pos())
					o.Detail = fmt.Sprintf("%s is read at %s, before the statement at %s that first stores it: what is computed from it there is computed from the empty field, whatever the input says", exprString(se), c.pos(se.Pos()), c.pos(w))
				}
				return true
			})
			obs = append(obs, o)
		}
	})
	return obs
}

// ---------------------------------------------------------------------------
// CTOR-ID

func init() {
	register(&Rule{
		Name:  "CTOR-ID",
		Doc:   "a constructor or builder method of the IR packages (New…) keeps the objects it is handed, not copies of them: it never dereferences a pointer-typed argument (or an element of a slice argument) into a value (`p := *param`) — the caller goes on using the original as an operand, so a copy stored in the new object is numbered, named and typed separately from the value the instructions refer to",
		Floor: 15,
		Run:   ruleCTORID,
	})
}

func ruleCTORID(c *Ctx) []Obligation {
	var obs []Obligation
	for _, path := range []string{pkgIR, pkgCONS, pkgMD, pkgTYP} {
		c.eachFunc(path, func(p *packages.Package, fd *ast.FuncDecl, fn *types.Func) {
			if !fn.Exported() || !strings.HasPrefix(fn.Name(), "New") {
				return
			}
			info := p.TypesInfo
			sig := fn.Type().(*types.Signature)
			// objects handed in: pointer-typed parameters and elements of slice parameters
			isIRPtr := func(t types.Type) bool {
				pt, ok := t.(*types.Pointer)
				if !ok {
					return false
				}
				n := namedOf(pt.Elem())
				return n != nil && n.Obj().Pkg() != nil && c.isLLVM(n.Obj().Pkg().Path())
			}
			handed := map[types.Object]bool{}
			for i := 0; i < sig.Params().Len(); i++ {
				v := sig.Params().At(i)
				if isIRPtr(v.Type()) {
					handed[v] = true
				}
				if sl, ok := v.Type().Underlying().(*types.Slice); ok && isIRPtr(sl.Elem()) {
					handed[v] = true
				}
			}
			if len(handed) == 0 {
				return
			}
			// the declared parameter objects
			declared := map[types.Object]bool{}
			for _, fl := range fd.Type.Params.List {
				for _, nm := range fl.Names {
					if o := info.Defs[nm]; o != nil {
						if v, ok := o.(*types.Var); ok && (isIRPtr(v.Type()) || func() bool {
							sl, ok := v.Type().Underlying().(*types.Slice)
							return ok && isIRPtr(sl.Elem())
						}()) {
							declared[o] = true
						}
					}
				}
			}
			// range values over a slice parameter are handed objects too
			ast.Inspect(fd.Body, func(n ast.Node) bool {
				if rs, ok := n.(*ast.RangeStmt); ok && rs.Value != nil {
					if id, ok := unparen(rs.X).(*ast.Ident); ok && declared[info.ObjectOf(id)] {
						if vid, ok := rs.Value.(*ast.Ident); ok {
							declared[info.ObjectOf(vid)] = true
						}
					}
				}
				return true
			})
			o := Obligation{Key: funcKey(fn) + " keeps the objects it is handed", Pos: c.pos(fd.Pos()), Verdict: OK, Detail: fmt.Sprintf("%d pointer-typed argument(s), none dereferenced into a copy", len(declared))}
			pm := buildParents(fd.Body)
			ast.Inspect(fd.Body, func(n ast.Node) bool {
				st, ok := n.(*ast.StarExpr)
				if !ok || o.Verdict != OK {
					return true
				}
				root := unparen(st.X)
				if ix, ok := root.(*ast.IndexExpr); ok {
					root = unparen(ix.X)
				}
				id, ok := root.(*ast.Ident)
				if !ok || !declared[info.ObjectOf(id)] {
					return true
				}
				if tv, ok := info.Types[st]; !ok || !tv.IsValue() {
					return true // a type expression
				}
				// `*p = …` (assignment through the pointer) and `(*p).f` are not copies
				switch par := pm[st].(type) {
				case *ast.AssignStmt:
					for _, l := range par.Lhs {
						if l == ast.Expr(st) {
							return true
						}
					}
				case *ast.SelectorExpr:
					return true
				case *ast.ParenExpr:
					if _, ok := pm[par].(*ast.SelectorExpr); ok {
						return true
					}
				}
				o.Verdict, o.Pos = VIOL, c.pos(st.Pos())
				o.Detail = fmt.Sprintf("%s copies the object behind the argument %s: the new object holds the copy while the caller (and every instruction that uses it as an operand) holds the original, so numbering, naming or typing one does not reach the other — the printed text refers to a different value than the one defined", exprString(st), id.Name)
				return true
			})
			obs = append(obs, o)
		})
	}
	return obs
}

// ---------------------------------------------------------------------------
// ENC-BARE

func init() {
	register(&Rule{
		Name:  "ENC-BARE",
		Doc:   "in the identifier encoder that chooses between the bare and the quoted spelling, every test of a byte of the name that tells an identifier character from a space (evaluated over all 256 byte values, lookup tables and masks included) puts every byte outside LLVM's identifier alphabet [-a-zA-Z$._0-9] — all bytes ≥ 0x80 included — on the side of the space: a byte classified as an identifier character is written unquoted and unescaped, and the lexer ends the name there",
		Floor: 1,
		Run:   ruleENCBARE,
	})
}

func ruleENCBARE(c *Ctx) []Obligation {
	var obs []Obligation
	const alphabet = "-$._abcdefghijklmnopqrstuvwxyzABCDEFGHIJKLMNOPQRSTUVWXYZ0123456789"
	c.eachFunc(pkgENC, func(p *packages.Package, fd *ast.FuncDecl, fn *types.Func) {
		info := p.TypesInfo
		sig := fn.Type().(*types.Signature)
		if sig.Recv() != nil || sig.Params().Len() != 1 || sig.Results().Len() != 1 || !isPlainString(sig.Params().At(0).Type()) || !isPlainString(sig.Results().At(0).Type()) {
			return
		}
		var param types.Object
		if len(fd.Type.Params.List) == 1 && len(fd.Type.Params.List[0].Names) == 1 {
			param = info.Defs[fd.Type.Params.List[0].Names[0]]
		}
		bare := false
		ast.Inspect(fd.Body, func(n ast.Node) bool {
			if r, ok := n.(*ast.ReturnStmt); ok && len(r.Results) == 1 {
				if id, ok := unparen(r.Results[0]).(*ast.Ident); ok && param != nil && info.ObjectOf(id) == param {
					bare = true
				}
			}
			return true
		})
		if !bare {
			return
		}
		// byte expressions: s[i] with a non-constant index, or a local defined as such (b := s[i])
		byteVars := map[types.Object]bool{}
		isByteOf := func(e ast.Expr) bool {
			e = unparen(e)
			if id, ok := e.(*ast.Ident); ok {
				return byteVars[info.ObjectOf(id)]
			}
			ix, ok := e.(*ast.IndexExpr)
			if !ok {
				return false
			}
			id, ok := unparen(ix.X).(*ast.Ident)
			if !ok || info.ObjectOf(id) != param {
				return false
			}
			return info.Types[ix.Index].Value == nil
		}
		ast.Inspect(fd.Body, func(n ast.Node) bool {
			if as, ok := n.(*ast.AssignStmt); ok && len(as.Lhs) == 1 && len(as.Rhs) == 1 && isByteOf(as.Rhs[0]) {
				if id, ok := as.Lhs[0].(*ast.Ident); ok {
					byteVars[info.ObjectOf(id)] = true
				}
			}
			if rs, ok := n.(*ast.RangeStmt); ok && rs.Value != nil {
				if call, ok := unparen(rs.X).(*ast.CallExpr); ok && len(call.Args) == 1 {
					if id, ok := unparen(call.Args[0]).(*ast.Ident); ok && info.ObjectOf(id) == param {
						if v, ok := rs.Value.(*ast.Ident); ok {
							byteVars[info.ObjectOf(v)] = true
						}
					}
				}
			}
			return true
		})
		pm := buildParents(fd.Body)
		seen := map[ast.Expr]bool{}
		n := 0
		ast.Inspect(fd.Body, func(nd ast.Node) bool {
			e, ok := nd.(ast.Expr)
			if !ok || !isByteOf(e) {
				return true
			}
			if as, ok := pm[nd].(*ast.AssignStmt); ok && len(as.Rhs) == 1 && as.Rhs[0] == e {
				return true // the definition of a byte local
			}
			// the largest enclosing boolean expression over this byte alone
			var best ast.Expr
			for q := nd; q != nil; q = pm[q] {
				x, ok := q.(ast.Expr)
				if !ok {
					break
				}
				if tv, ok := info.Types[x]; ok && tv.Type != nil {
					if b, ok := tv.Type.Underlying().(*types.Basic); ok && b.Info()&types.IsBoolean != 0 {
						if _, good := byteSet(info, x, isByteOf); good {
							best = x
						}
					}
				}
			}
			if best == nil {
				// a byte of the name used in a test that cannot be evaluated: only a problem when it
				// decides between the spellings, which the enclosing condition tells
				for q := nd; q != nil; q = pm[q] {
					if is, ok := q.(*ast.IfStmt); ok && is.Cond.Pos() <= e.Pos() && e.End() <= is.Cond.End() {
						n++
						obs = append(obs, Obligation{Key: fmt.Sprintf("%s: byte test #%d keeps bytes outside the identifier alphabet on the quoted side", funcKey(fn), n), Pos: c.pos(is.Cond.Pos()), Verdict: UNDECIDED,
							Detail: fmt.Sprintf("the test `%s` could not be evaluated over the byte values (unrecognised table or helper)", exprString(is.Cond))})
						break
					}
					if fs, ok := q.(*ast.ForStmt); ok && fs.Cond != nil && fs.Cond.Pos() <= e.Pos() && e.End() <= fs.Cond.End() {
						n++
						obs = append(obs, Obligation{Key: fmt.Sprintf("%s: byte test #%d keeps bytes outside the identifier alphabet on the quoted side", funcKey(fn), n), Pos: c.pos(fs.Cond.Pos()), Verdict: UNDECIDED,
							Detail: fmt.Sprintf("the loop condition `%s` could not be evaluated over the byte values (unrecognised table or helper)", exprString(fs.Cond))})
						break
					}
				}
				return true
			}
			if seen[best] {
				return true
			}
			seen[best] = true
			set, _ := byteSet(info, best, isByteOf)
			if set['a'] == set[' '] {
				return true // not a test of identifier characters (e.g. printable vs. escaped)
			}
			n++
			o := Obligation{Key: fmt.Sprintf("%s: byte test #%d keeps bytes outside the identifier alphabet on the quoted side", funcKey(fn), n), Pos: c.pos(best.Pos()), Verdict: OK}
			var wrong [256]bool
			any := false
			for b := 0; b < 256; b++ {
				if strings.IndexByte(alphabet, byte(b)) == -1 && set[b] == set['a'] {
					wrong[b], any = true, true
				}
			}
			if any {
				o.Verdict = VIOL
				o.Detail = fmt.Sprintf("`%s` classifies the bytes {%s} like the letter a: a name made of identifier characters and such bytes is written bare and unescaped — the lexer ends the name at that byte (or reads other bytes than the name holds), so distinct names print alike or the output does not parse", exprString(best), describeSet(wrong))
			} else {
				o.Detail = fmt.Sprintf("`%s`: identifier side ⊆ [-a-zA-Z$._0-9]", exprString(best))
			}
			obs = append(obs, o)
			return true
		})
	})
	return obs
}

// ---------------------------------------------------------------------------
// FLAG-SIB

func init() {
	register(&Rule{
		Name:  "FLAG-SIB",
		Doc:   "where the grammar has two type nodes that differ by a prefix (StructType / PackedStructType, VectorType / ScalableVectorType) and the IR has one type with a boolean field named like the prefix, the translator of the prefixed node sets that field to true on its result on every path — at the top level of its body, or by handing a constant true to a helper that stores its parameter into the field: the flag does not depend on how the IR object was created (scaffold of a definition or fresh object of a literal type)",
		Floor: 2,
		Run:   ruleFLAGSIB,
	})
}

func ruleFLAGSIB(c *Ctx) []Obligation {
	var obs []Obligation
	pa := c.pkg(pkgASM)
	info := pa.TypesInfo
	// translators by the AST node type they take: (…, old *ast.X) (types.Type, error)
	byNode := map[string]*ast.FuncDecl{}
	fnOf := map[*ast.FuncDecl]*types.Func{}
	c.eachFunc(pkgASM, func(p *packages.Package, fd *ast.FuncDecl, fn *types.Func) {
		sig := fn.Type().(*types.Signature)
		if sig.Results().Len() != 2 || !isErrorType(sig.Results().At(1).Type()) || !isNamed(sig.Results().At(0).Type(), pkgTYP, "Type") {
			return
		}
		for i := 0; i < sig.Params().Len(); i++ {
			if pt, ok := sig.Params().At(i).Type().(*types.Pointer); ok {
				if n := namedOf(pt.Elem()); n != nil && n.Obj().Pkg() != nil && n.Obj().Pkg().Path() == pkgAST && strings.HasSuffix(n.Obj().Name(), "Type") {
					byNode[n.Obj().Name()] = fd
					fnOf[fd] = fn
				}
			}
		}
	})
	// setsFlag: does fd establish field `flag` = true on its result on every path?
	var setsFlag func(fd *ast.FuncDecl, flag string, trueParams map[types.Object]bool, depth int) (bool, string)
	setsFlag = func(fd *ast.FuncDecl, flag string, trueParams map[types.Object]bool, depth int) (bool, string) {
		isTrue := func(e ast.Expr) bool {
			if tv := info.Types[e]; tv.Value != nil && tv.Value.String() == "true" {
				return true
			}
			if id, ok := unparen(e).(*ast.Ident); ok && trueParams[info.ObjectOf(id)] {
				return true
			}
			return false
		}
		for _, st := range fd.Body.List {
			switch x := st.(type) {
			case *ast.AssignStmt:
				for i, l := range x.Lhs {
					if se, ok := unparen(l).(*ast.SelectorExpr); ok && se.Sel.Name == flag && i < len(x.Rhs) && isTrue(x.Rhs[i]) {
						return true, "top-level store " + exprString(l) + " = " + exprString(x.Rhs[i])
					}
				}
			case *ast.IfStmt:
				// if flagParam { typ.Flag = true }
				if isTrue(x.Cond) && x.Else == nil {
					for _, b := range x.Body.List {
						if as, ok := b.(*ast.AssignStmt); ok {
							for i, l := range as.Lhs {
								if se, ok := unparen(l).(*ast.SelectorExpr); ok && se.Sel.Name == flag && i < len(as.Rhs) && isTrue(as.Rhs[i]) {
									return true, "store under the flag parameter"
								}
							}
						}
					}
				}
			case *ast.ReturnStmt:
				// delegation: return gen.helper(t, true, old)
				if len(x.Results) == 1 && depth < 2 {
					if call, ok := unparen(x.Results[0]).(*ast.CallExpr); ok {
						f := calleeOf(info, call)
						hfd := c.funcDecl(f)
						if f != nil && hfd != nil && hfd.Body != nil && f.Pkg() != nil && f.Pkg().Path() == pkgASM {
							tp := map[types.Object]bool{}
							k := 0
							for _, fl := range hfd.Type.Params.List {
								for _, nm := range fl.Names {
									if k < len(call.Args) && isTrue(call.Args[k]) {
										tp[info.Defs[nm]] = true
									}
									k++
								}
							}
							if len(tp) > 0 {
								if ok, how := setsFlag(hfd, flag, tp, depth+1); ok {
									return true, "through " + f.Name() + ": " + how
								}
							}
						}
					}
				}
			}
		}
		return false, ""
	}
	for _, prefix := range []string{"Packed", "Scalable"} {
		for name, fd := range byNode {
			if !strings.HasPrefix(name, prefix) {
				continue
			}
			base := strings.TrimPrefix(name, prefix)
			if byNode[base] == nil {
				continue
			}
			o := Obligation{Key: fmt.Sprintf("%s sets %s on the type it returns", funcKey(fnOf[fd]), prefix), Pos: c.pos(fd.Pos()), Verdict: OK, Tags: []string{"types"}}
			if ok, how := setsFlag(fd, prefix, nil, 0); ok {
				o.Detail = how
			} else {
				o.Verdict = VIOL
				o.Detail = fmt.Sprintf("the translator of *ast.%s does not set %s = true on its result on every path (no top-level store, no constant true handed to a helper that stores it): a type that is not created through the scaffold of a type definition — a literal `<{ … }>` / `<vscale x …>` inside another type — is built like its plain sibling *ast.%s, so two different types compare equal and print alike", name, prefix, base)
			}
			obs = append(obs, o)
		}
	}
	sort.SliceStable(obs, func(i, j int) bool { return obs[i].Key < obs[j].Key })
	return obs
}

// ---------------------------------------------------------------------------
// PHASE-READ

func init() {
	register(&Rule{
		Name:  "PHASE-READ",
		Doc:   "a step of the translation that visits the top-level entities in map-iteration order fills fields of globals, functions, aliases and ifuncs (Init, Blocks, Aliasee …); no code that runs in that step reads such a field of an entity it reached as a reference (a value obtained through a type switch or assertion from value.Value / constant.Constant): whether the referenced entity has been filled yet depends on the order the map happens to be iterated in, so the same input would be accepted, rejected or translated differently from run to run",
		Floor: 20,
		Run:   rulePHASEREAD,
	})
}

func rulePHASEREAD(c *Ctx) []Obligation {
	refs, _, _, _ := c.translatePhases()
	if len(refs) == 0 {
		return []Obligation{{Key: "translation steps", Verdict: UNDECIDED, Detail: "the steps of asm.translate could not be listed"}}
	}
	pa := c.pkg(pkgASM)
	info := pa.TypesInfo
	entity := func(t types.Type) *types.Named {
		if p, ok := t.(*types.Pointer); ok {
			t = p.Elem()
		}
		n := namedOf(t)
		if n == nil || n.Obj().Pkg() == nil || n.Obj().Pkg().Path() != pkgIR {
			return nil
		}
		switch n.Obj().Name() {
		case "Global", "Func", "Alias", "IFunc":
			return n
		}
		return nil
	}
	// call closure inside package asm
	callees := map[*types.Func][]*types.Func{}
	c.eachFunc(pkgASM, func(p *packages.Package, fd *ast.FuncDecl, fn *types.Func) {
		ast.Inspect(fd.Body, func(n ast.Node) bool {
			switch x := n.(type) {
			case *ast.CallExpr:
				if f := calleeOf(info, x); f != nil && f.Pkg() != nil && f.Pkg().Path() == pkgASM {
					callees[fn] = append(callees[fn], f)
				}
			case *ast.SelectorExpr:
				if sel, ok := info.Selections[x]; ok && sel.Kind() == types.MethodVal {
					if f, ok := sel.Obj().(*types.Func); ok && f.Pkg() != nil && f.Pkg().Path() == pkgASM {
						callees[fn] = append(callees[fn], f)
					}
				}
			}
			return true
		})
	})
	reach := func(root *types.Func) map[*types.Func]bool {
		out := map[*types.Func]bool{}
		var visit func(f *types.Func)
		visit = func(f *types.Func) {
			if out[f] {
				return
			}
			out[f] = true
			for _, g := range callees[f] {
				visit(g)
			}
		}
		visit(root)
		return out
	}
	var obs []Obligation
	seenStep := map[*types.Func]bool{}
	for _, ref := range refs {
		if seenStep[ref.fn] {
			continue
		}
		seenStep[ref.fn] = true
		sfd := c.funcDecl(ref.fn)
		if sfd == nil || sfd.Body == nil {
			continue
		}
		// map-ordered step: ranges over a map
		mapOrdered := false
		ast.Inspect(sfd.Body, func(n ast.Node) bool {
			if rs, ok := n.(*ast.RangeStmt); ok {
				if _, isMap := info.TypeOf(rs.X).Underlying().(*types.Map); isMap {
					mapOrdered = true
				}
			}
			return true
		})
		if !mapOrdered {
			continue
		}
		fns := reach(ref.fn)
		// fields of entities written in this step
		written := map[string]token.Pos{}
		for f := range fns {
			fd := c.funcDecl(f)
			if fd == nil || fd.Body == nil {
				continue
			}
			ast.Inspect(fd.Body, func(n ast.Node) bool {
				as, ok := n.(*ast.AssignStmt)
				if !ok {
					return true
				}
				for _, l := range as.Lhs {
					t := unparen(l)
					if ix, ok := t.(*ast.IndexExpr); ok {
						t = unparen(ix.X)
					}
					if se, ok := t.(*ast.SelectorExpr); ok {
						if sel, ok := info.Selections[se]; ok && sel.Kind() == types.FieldVal {
							if en := entity(sel.Recv()); en != nil {
								k := en.Obj().Name() + "." + se.Sel.Name
								if _, has := written[k]; !has {
									written[k] = as.Pos()
								}
							}
						}
					}
				}
				return true
			})
		}
		if len(written) == 0 {
			continue
		}
		// reads of those fields through a reference (type switch / assertion from an interface value)
		reads := map[string]token.Pos{}
		for f := range fns {
			fd := c.funcDecl(f)
			if fd == nil || fd.Body == nil {
				continue
			}
			// variables bound by a type switch or a type assertion on an interface value
			refVars := map[types.Object]bool{}
			ast.Inspect(fd.Body, func(n ast.Node) bool {
				switch x := n.(type) {
				case *ast.TypeSwitchStmt:
					if as, ok := x.Assign.(*ast.AssignStmt); ok {
						if ta, ok := as.Rhs[0].(*ast.TypeAssertExpr); ok && isValueIface(info.TypeOf(ta.X)) {
							for _, cc := range x.Body.List {
								if obj := info.Implicits[cc]; obj != nil && entity(obj.Type()) != nil {
									refVars[obj] = true
								}
							}
						}
					}
				case *ast.AssignStmt:
					if len(x.Rhs) == 1 {
						if ta, ok := unparen(x.Rhs[0]).(*ast.TypeAssertExpr); ok && ta.Type != nil && isValueIface(info.TypeOf(ta.X)) && entity(info.TypeOf(ta.Type)) != nil {
							if id, ok := x.Lhs[0].(*ast.Ident); ok {
								refVars[info.ObjectOf(id)] = true
							}
						}
					}
				}
				return true
			})
			if len(refVars) == 0 {
				continue
			}
			ast.Inspect(fd.Body, func(n ast.Node) bool {
				se, ok := n.(*ast.SelectorExpr)
				if !ok {
					return true
				}
				sel, ok := info.Selections[se]
				if !ok || sel.Kind() != types.FieldVal {
					return true
				}
				id, ok := unparen(se.X).(*ast.Ident)
				if !ok || !refVars[info.ObjectOf(id)] {
					return true
				}
				if en := entity(sel.Recv()); en != nil {
					k := en.Obj().Name() + "." + se.Sel.Name
					if _, w := written[k]; w {
						if _, has := reads[k]; !has {
							reads[k] = se.Pos()
						}
					}
				}
				return true
			})
		}
		for _, k := range sortedKeys(written) {
			o := Obligation{Key: fmt.Sprintf("step %s fills ir.%s: not read through a reference in the same step", ref.fn.Name(), k), Pos: c.pos(written[k]), Verdict: OK, Detail: "filled in map-iteration order; no read of it on an entity reached as a value"}
			if pos, bad := reads[k]; bad {
				o.Verdict, o.Pos = VIOL, c.pos(pos)
				o.Detail = fmt.Sprintf("ir.%s is filled during step %s, which visits the entities in map-iteration order, and is read at %s on an entity reached as a reference: whether that entity has been filled yet differs from run to run, so one input is accepted, rejected or translated differently depending on the iteration order", k, ref.fn.Name(), c.pos(pos))
			}
			obs = append(obs, o)
		}
	}
	return obs
}

// isValueIface: value.Value, constant.Constant or another interface of the IR packages.
func isValueIface(t types.Type) bool {
	if t == nil || !types.IsInterface(t) {
		return false
	}
	n := namedOf(t)
	return n != nil && n.Obj().Pkg() != nil && isIRPkg(n.Obj().Pkg().Path())
}

package main

import (
	"fmt"
	"go/ast"
	"go/constant"
	"go/token"
	"go/types"
	"sort"
	"strings"

	"golang.org/x/tools/go/packages"
)

// Rules added after seeded batch 6: LIST-1TO1, FILL-ORDER, CTOR-ID.

func init() {
	register(&Rule{
		Name:  "LIST-1TO1",
		Doc:   "a loop of package asm that translates a list of AST nodes into a list of IR objects (it ranges over a slice of llir/ll ast nodes and stores into a slice of another element type, by index or by append) stores exactly one element per iteration unless it leaves the function: the store is at the top level of the loop body (or in every arm of a top-level switch) and no continue / break of that loop precedes it — a skipped, merged or de-duplicated element is something the input said that the module no longer says",
		Floor: 30,
		Run:   ruleLIST1TO1,
	})
}

// isASTElem: a type of the llir/ll ast package (node struct, pointer to it, or node interface).
func isASTElem(t types.Type) bool {
	if p, ok := t.(*types.Pointer); ok {
		t = p.Elem()
	}
	n, ok := t.(*types.Named)
	return ok && n.Obj().Pkg() != nil && n.Obj().Pkg().Path() == pkgAST
}

func ruleLIST1TO1(c *Ctx) []Obligation {
	var obs []Obligation
	c.eachFunc(pkgASM, func(p *packages.Package, fd *ast.FuncDecl, fn *types.Func) {
		info := p.TypesInfo
		n := 0
		ast.Inspect(fd.Body, func(nd ast.Node) bool {
			rs, ok := nd.(*ast.RangeStmt)
			if !ok {
				return true
			}
			sl, ok := info.TypeOf(rs.X).Underlying().(*types.Slice)
			if !ok || !isASTElem(sl.Elem()) {
				return true
			}
			// stores into a slice of non-AST elements: xs[i] = v, xs = append(xs, v…)
			isStore := func(st ast.Stmt) (string, bool) {
				as, ok := st.(*ast.AssignStmt)
				if !ok || len(as.Lhs) != 1 || len(as.Rhs) != 1 {
					return "", false
				}
				if ix, ok := unparen(as.Lhs[0]).(*ast.IndexExpr); ok {
					if s2, ok := info.TypeOf(ix.X).Underlying().(*types.Slice); ok && !isASTElem(s2.Elem()) {
						return exprString(ix.X), true
					}
				}
				if call, ok := unparen(as.Rhs[0]).(*ast.CallExpr); ok && exprString(call.Fun) == "append" && len(call.Args) >= 2 && call.Ellipsis == token.NoPos {
					if exprString(call.Args[0]) == exprString(as.Lhs[0]) {
						if s2, ok := info.TypeOf(as.Lhs[0]).Underlying().(*types.Slice); ok && !isASTElem(s2.Elem()) {
							return exprString(as.Lhs[0]), true
						}
					}
				}
				return "", false
			}
			// does the list contain a store at its own level, or in every arm of a switch at its level?
			var storesAlways func(list []ast.Stmt) (string, bool)
			leaves := func(list []ast.Stmt) bool {
				return returnsError(info, list) || endsInPanic(list) || (len(list) > 0 && isReturn(list[len(list)-1])) || c.sinksError(info, list)
			}
			storesAlways = func(list []ast.Stmt) (string, bool) {
				for _, st := range list {
					if dst, ok := isStore(st); ok {
						return dst, true
					}
					var arms [][]ast.Stmt
					hasDefault := false
					switch x := st.(type) {
					case *ast.SwitchStmt:
						for _, cc := range x.Body.List {
							cl := cc.(*ast.CaseClause)
							arms = append(arms, cl.Body)
							hasDefault = hasDefault || cl.List == nil
						}
					case *ast.TypeSwitchStmt:
						for _, cc := range x.Body.List {
							cl := cc.(*ast.CaseClause)
							arms = append(arms, cl.Body)
							hasDefault = hasDefault || cl.List == nil
						}
					case *ast.IfStmt:
						if x.Else != nil {
							arms = append(arms, x.Body.List)
							switch e := x.Else.(type) {
							case *ast.BlockStmt:
								arms = append(arms, e.List)
								hasDefault = true
							case *ast.IfStmt:
								arms = append(arms, []ast.Stmt{e})
								hasDefault = true
							}
						}
					}
					if len(arms) > 0 && hasDefault {
						dst, all := "", true
						for _, a := range arms {
							if d, ok := storesAlways(a); ok {
								dst = d
							} else if !leaves(a) {
								all = false
							}
						}
						if all && dst != "" {
							return dst, true
						}
					}
				}
				return "", false
			}
			// any store at all (at any depth, outside nested loops and closures)?
			anyStore, anyDst := token.NoPos, ""
			var skipPos token.Pos
			// a `continue` that ends a block in which the error was handed to the collector abandons
			// the element because it could not be translated: an error path, like a return
			sunk := map[ast.Node]bool{}
			ast.Inspect(rs.Body, func(m ast.Node) bool {
				if blk, ok := m.(*ast.BlockStmt); ok && c.sinksError(info, blk.List) {
					sunk[blk.List[len(blk.List)-1]] = true
				}
				return true
			})
			var walk func(n ast.Node, inSwitch bool)
			walk = func(n ast.Node, inSwitch bool) {
				ast.Inspect(n, func(m ast.Node) bool {
					if sunk[m] {
						return false
					}
					switch x := m.(type) {
					case *ast.FuncLit:
						return false
					case *ast.RangeStmt, *ast.ForStmt:
						if m != ast.Node(rs) {
							return false
						}
					case *ast.SwitchStmt, *ast.TypeSwitchStmt, *ast.SelectStmt:
						if !inSwitch {
							walk2 := m
							ast.Inspect(walk2, func(k ast.Node) bool {
								if k == walk2 {
									return true
								}
								return true
							})
						}
					case *ast.BranchStmt:
						if x.Label == nil && (x.Tok == token.CONTINUE) && skipPos == token.NoPos {
							skipPos = x.Pos()
						}
					case ast.Stmt:
						if dst, ok := isStore(x); ok && anyStore == token.NoPos {
							anyStore, anyDst = x.Pos(), dst
						}
					}
					return true
				})
			}
			walk(rs.Body, false)
			// an unlabelled break that belongs to this loop (not to a switch / select inside it)
			var findBreak func(list []ast.Stmt)
			findBreak = func(list []ast.Stmt) {
				for _, st := range list {
					switch x := st.(type) {
					case *ast.BranchStmt:
						if x.Tok == token.BREAK && x.Label == nil && skipPos == token.NoPos {
							skipPos = x.Pos()
						}
					case *ast.IfStmt:
						findBreak(x.Body.List)
						if e, ok := x.Else.(*ast.BlockStmt); ok {
							findBreak(e.List)
						} else if e, ok := x.Else.(*ast.IfStmt); ok {
							findBreak([]ast.Stmt{e})
						}
					case *ast.BlockStmt:
						findBreak(x.List)
					}
				}
			}
			findBreak(rs.Body.List)
			if anyStore == token.NoPos {
				return true // not a list translation
			}
			// a distribution loop — a type switch over the element at the top level of the body, with
			// alternatives that go elsewhere (top-level entities, `key: value` fields, function
			// header fields) — is not a list translation: the coverage rules hold it to account
			distribution := false
			for _, st := range rs.Body.List {
				ts, ok := st.(*ast.TypeSwitchStmt)
				if !ok {
					continue
				}
				arms, storing := 0, 0
				for _, cc := range ts.Body.List {
					cl := cc.(*ast.CaseClause)
					if cl.List == nil {
						continue
					}
					arms++
					has := false
					for _, b := range cl.Body {
						ast.Inspect(b, func(m ast.Node) bool {
							if bs, ok := m.(ast.Stmt); ok {
								if d, ok := isStore(bs); ok && d == anyDst {
									has = true
								}
							}
							return true
						})
					}
					if has {
						storing++
					}
				}
				if arms >= 2 && storing < arms {
					distribution = true
				}
			}
			if distribution {
				return true
			}
			n++
			o := Obligation{Key: fmt.Sprintf("%s translates list #%d (%s → %s) one element per element", funcKey(fn), n, strings.TrimSpace(exprString(rs.X)), anyDst), Pos: c.pos(rs.Pos()), Verdict: OK, Tags: asmTags(fn.Name(), typeKey(sl.Elem()))}
			dst, always := storesAlways(rs.Body.List)
			// set-valued lists (attributes, flags): a duplicate means what one occurrence means, and
			// dropping it through an exact membership set — a map keyed by the element or by its
			// text, consulted in the guard of the continue — loses nothing
			setLike := ""
			if skipPos != token.NoPos {
				if dt, ok := info.TypeOf(mustParseExprIn(rs.Body, anyDst, info)).(*types.Slice); ok {
					if en := namedOf(dt.Elem()); en != nil && (strings.Contains(en.Obj().Name(), "Attribute") || strings.Contains(en.Obj().Name(), "Flag")) {
						pm := buildParents(rs.Body)
						ast.Inspect(rs.Body, func(m ast.Node) bool {
							br, ok := m.(*ast.BranchStmt)
							if !ok || br.Pos() != skipPos {
								return true
							}
							for q := pm[br]; q != nil; q = pm[q] {
								if is, ok := q.(*ast.IfStmt); ok {
									if ix, ok := unparen(is.Cond).(*ast.IndexExpr); ok {
										if _, isMap := info.TypeOf(ix.X).Underlying().(*types.Map); isMap {
											setLike = fmt.Sprintf("duplicates of a set-valued list (%s) are dropped through the membership map %s", typeKey(en), exprString(ix.X))
										}
									}
									break
								}
							}
							return true
						})
					}
				}
			}
			switch {
			case setLike != "":
				o.Verdict, o.Detail = EXEMPT, setLike
			case skipPos != token.NoPos:
				o.Verdict, o.Pos = VIOL, c.pos(skipPos)
				o.Detail = fmt.Sprintf("an iteration can end (continue / break at %s) without storing its element into %s: an element of the input list is skipped, merged or de-duplicated — what the input said about it is no longer in the module (or appears only for some spellings of the same input)", c.pos(skipPos), anyDst)
			case !always:
				o.Verdict, o.Pos = VIOL, c.pos(anyStore)
				o.Detail = fmt.Sprintf("the store into %s is conditional: it is not at the top level of the loop body (nor in every arm of a top-level switch), so some elements of the input list produce no element of the result", anyDst)
			default:
				o.Detail = "unconditional store into " + dst
			}
			obs = append(obs, o)
			return true
		})
	})
	return obs
}

func isReturn(st ast.Stmt) bool { _, ok := st.(*ast.ReturnStmt); return ok }

// mustParseExprIn finds, inside root, an expression whose text is s (the destination of a
// store found earlier) so that its type can be looked up.
func mustParseExprIn(root ast.Node, s string, info *types.Info) ast.Expr {
	var out ast.Expr
	ast.Inspect(root, func(m ast.Node) bool {
		if e, ok := m.(ast.Expr); ok && out == nil && exprString(e) == s {
			if _, isSlice := info.TypeOf(e).Underlying().(*types.Slice); isSlice {
				out = e
			}
		}
		return out == nil
	})
	if out == nil {
		return &ast.Ident{Name: "_"}
	}
	return out
}

// ---------------------------------------------------------------------------
// DEDUP-KEY

func init() {
	register(&Rule{
		Name:  "DEDUP-KEY",
		Doc:   "a de-duplication set of package asm (a map consulted in the guard of a `continue` and updated after the append) is keyed by the translated value, never by the source text of the AST node: one value has several spellings (`\"a\"=\"b\"` / `\"a\" = \"b\"`, `align 8` / `align = 8`), the printer writes one of them, so duplicates that survive the first parse are removed by the second and the printed text is not a fixpoint",
		Floor: 1,
		Run:   ruleDEDUPKEY,
	})
}

func ruleDEDUPKEY(c *Ctx) []Obligation {
	var obs []Obligation
	c.eachFunc(pkgASM, func(p *packages.Package, fd *ast.FuncDecl, fn *types.Func) {
		info := p.TypesInfo
		defs := collectDefs(info, fd.Body)
		n := 0
		ast.Inspect(fd.Body, func(nd ast.Node) bool {
			is, ok := nd.(*ast.IfStmt)
			if !ok || len(is.Body.List) == 0 {
				return true
			}
			// the duplicate is skipped: `continue` in the loop, or a bare `return` when the step is a
			// method of a merger object (m.add(attr))
			switch last := is.Body.List[len(is.Body.List)-1].(type) {
			case *ast.BranchStmt:
				if last.Tok != token.CONTINUE {
					return true
				}
			case *ast.ReturnStmt:
				if len(last.Results) != 0 {
					return true
				}
			default:
				return true
			}
			var ix *ast.IndexExpr
			ast.Inspect(is.Cond, func(m ast.Node) bool {
				if x, ok := m.(*ast.IndexExpr); ok && ix == nil {
					if _, isMap := info.TypeOf(x.X).Underlying().(*types.Map); isMap {
						ix = x
					}
				}
				return true
			})
			if ix == nil && is.Init != nil {
				ast.Inspect(is.Init, func(m ast.Node) bool {
					if x, ok := m.(*ast.IndexExpr); ok && ix == nil {
						if _, isMap := info.TypeOf(x.X).Underlying().(*types.Map); isMap {
							ix = x
						}
					}
					return true
				})
			}
			if ix == nil {
				return true
			}
			// the same map is updated in this function: a membership set, not an index of definitions
			setName := exprString(ix.X)
			updated := false
			ast.Inspect(fd.Body, func(m ast.Node) bool {
				if as, ok := m.(*ast.AssignStmt); ok {
					for _, l := range as.Lhs {
						if lx, ok := unparen(l).(*ast.IndexExpr); ok && exprString(lx.X) == setName {
							updated = true
						}
					}
				}
				return true
			})
			if !updated {
				return true
			}
			n++
			o := Obligation{Key: fmt.Sprintf("%s de-duplication set %s #%d is keyed by the translated value", funcKey(fn), setName, n), Pos: c.pos(is.Pos()), Verdict: OK, Detail: "key " + exprString(ix.Index)}
			// does the key derive from the raw text of an AST node?
			seen := map[types.Object]bool{}
			var fromText func(e ast.Expr, depth int) string
			fromText = func(e ast.Expr, depth int) string {
				res := ""
				ast.Inspect(e, func(m ast.Node) bool {
					switch x := m.(type) {
					case *ast.CallExpr:
						if se, ok := unparen(x.Fun).(*ast.SelectorExpr); ok && se.Sel.Name == "Text" && len(x.Args) == 0 {
							if f := calleeOf(info, x); f != nil && f.Pkg() != nil && f.Pkg().Path() == pkgAST {
								res = exprString(x)
							}
						}
					case *ast.Ident:
						if obj := info.Uses[x]; obj != nil && !seen[obj] && depth < 4 && res == "" {
							seen[obj] = true
							for _, d := range defs[obj] {
								if r := fromText(d, depth+1); r != "" && res == "" {
									res = r
								}
							}
						}
					}
					return res == ""
				})
				return res
			}
			if src := fromText(ix.Index, 0); src != "" {
				o.Verdict = VIOL
				o.Detail = fmt.Sprintf("the set is keyed by source text (%s): two spellings of one value both survive the first parse, the printer writes them alike, and the second parse keeps only one — parse(print(m)) differs from m", src)
			}
			obs = append(obs, o)
			return true
		})
	})
	return obs
}

// ---------------------------------------------------------------------------
// ENC-HEAD

func init() {
	register(&Rule{
		Name:  "ENC-HEAD",
		Doc:   "the identifier encoder that chooses between the bare and the quoted spelling (a function of internal/enc that can return its argument unchanged) tests the first byte separately: the test, evaluated over all 256 byte values, tells the decimal digits from the letters, and it feeds the decision that guards the bare return — unquoted, %1a is read as the unnamed ID %1 followed by a stray token, so a name with a leading digit must be quoted as LLVM's own printer does",
		Floor: 1,
		Run:   ruleENCHEAD,
	})
}

func ruleENCHEAD(c *Ctx) []Obligation {
	var obs []Obligation
	c.eachFunc(pkgENC, func(p *packages.Package, fd *ast.FuncDecl, fn *types.Func) {
		info := p.TypesInfo
		sig := fn.Type().(*types.Signature)
		if sig.Recv() != nil || sig.Params().Len() != 1 || sig.Results().Len() != 1 || !isPlainString(sig.Params().At(0).Type()) || !isPlainString(sig.Results().At(0).Type()) {
			return
		}
		var param types.Object
		if len(fd.Type.Params.List) == 1 && len(fd.Type.Params.List[0].Names) == 1 {
			param = info.Defs[fd.Type.Params.List[0].Names[0]]
		}
		if param == nil {
			return
		}
		// a bare path: `return s`
		var bare *ast.ReturnStmt
		ast.Inspect(fd.Body, func(n ast.Node) bool {
			if r, ok := n.(*ast.ReturnStmt); ok && len(r.Results) == 1 {
				if id, ok := unparen(r.Results[0]).(*ast.Ident); ok && info.ObjectOf(id) == param {
					bare = r
				}
			}
			return true
		})
		if bare == nil {
			return
		}
		o := Obligation{Key: funcKey(fn) + ": a name with a leading digit is not spelled bare", Pos: c.pos(bare.Pos()), Verdict: VIOL,
			Detail: "the function can return its argument unchanged and never examines the first byte on its own: a name such as `1a` or `7up` is printed as %1a / @7up, which the parser (and LLVM) read as the unnamed ID %1 / @7 followed by a stray token — the name is mistaken for an ID or the output does not parse"}
		// first-byte tests in fn (and in helpers of the package it hands the string to)
		type test struct {
			e    ast.Expr
			info *types.Info
			obj  types.Object
			in   *ast.FuncDecl
		}
		var tests []test
		var collect func(hfd *ast.FuncDecl, hinfo *types.Info, obj types.Object, depth int)
		collect = func(hfd *ast.FuncDecl, hinfo *types.Info, obj types.Object, depth int) {
			pm := buildParents(hfd.Body)
			isHead := func(e ast.Expr) bool {
				ix, ok := unparen(e).(*ast.IndexExpr)
				if !ok {
					return false
				}
				id, ok := unparen(ix.X).(*ast.Ident)
				if !ok || hinfo.ObjectOf(id) != obj {
					return false
				}
				tv := hinfo.Types[ix.Index]
				return tv.Value != nil && tv.Value.ExactString() == "0"
			}
			ast.Inspect(hfd.Body, func(n ast.Node) bool {
				switch x := n.(type) {
				case *ast.IndexExpr:
					if !isHead(x) {
						return true
					}
					// the largest enclosing expression that evaluates to a boolean over the head byte alone
					var best ast.Expr
					for q := ast.Node(x); q != nil; q = pm[q] {
						e, ok := q.(ast.Expr)
						if !ok {
							break
						}
						if tv, ok := hinfo.Types[e]; ok && tv.Type != nil {
							if b, ok := tv.Type.Underlying().(*types.Basic); ok && b.Info()&types.IsBoolean != 0 {
								if _, good := byteSet(hinfo, e, isHead); good {
									best = e
								}
							}
						}
					}
					if best != nil {
						tests = append(tests, test{best, hinfo, obj, hfd})
					}
				case *ast.CallExpr:
					if depth >= 1 {
						return true
					}
					f := calleeOf(hinfo, x)
					if f == nil || f.Pkg() == nil || f.Pkg().Path() != pkgENC || f == fn {
						return true
					}
					gfd := c.funcDecl(f)
					if gfd == nil || gfd.Body == nil {
						return true
					}
					fs := f.Type().(*types.Signature)
					for i, a := range x.Args {
						if id, ok := unparen(a).(*ast.Ident); ok && hinfo.ObjectOf(id) == obj && i < fs.Params().Len() {
							k := 0
							for _, fl := range gfd.Type.Params.List {
								for _, nm := range fl.Names {
									if k == i {
										collect(gfd, c.declPkg[gfd].TypesInfo, c.declPkg[gfd].TypesInfo.Defs[nm], depth+1)
									}
									k++
								}
							}
						}
					}
				}
				return true
			})
		}
		collect(fd, info, param, 0)
		for _, t := range tests {
			isHead := func(e ast.Expr) bool {
				ix, ok := unparen(e).(*ast.IndexExpr)
				if !ok {
					return false
				}
				id, ok := unparen(ix.X).(*ast.Ident)
				return ok && t.info.ObjectOf(id) == t.obj
			}
			set, ok := byteSet(t.info, t.e, isHead)
			if !ok {
				continue
			}
			digits := set['0']
			uniform := true
			for b := '0'; b <= '9'; b++ {
				if set[b] != digits {
					uniform = false
				}
			}
			if !uniform || set['a'] == digits || set['Z'] == digits || set['_'] == digits {
				o.Detail = fmt.Sprintf("the first-byte test `%s` does not tell the decimal digits from the letters (true for {%s}): some name with a leading digit is still spelled bare and read back as an unnamed ID followed by a stray token", exprString(t.e), describeSet(set))
				o.Pos = c.pos(t.e.Pos())
				continue
			}
			// the test feeds the decision guarding the bare return (own function only)
			feeds := t.in != fd
			if !feeds {
				guardVars := map[types.Object]bool{}
				var guardConds []ast.Expr
				ast.Inspect(fd.Body, func(n ast.Node) bool {
					if is, ok := n.(*ast.IfStmt); ok {
						hasRet := false
						ast.Inspect(is.Body, func(m ast.Node) bool {
							if _, ok := m.(*ast.ReturnStmt); ok {
								hasRet = true
							}
							return true
						})
						if hasRet {
							guardConds = append(guardConds, is.Cond)
							ast.Inspect(is.Cond, func(m ast.Node) bool {
								if id, ok := m.(*ast.Ident); ok {
									if v, ok := info.Uses[id].(*types.Var); ok {
										guardVars[v] = true
									}
								}
								return true
							})
						}
					}
					return true
				})
				within := func(outer ast.Node) bool { return outer.Pos() <= t.e.Pos() && t.e.End() <= outer.End() }
				for _, g := range guardConds {
					if within(g) {
						feeds = true
					}
				}
				ast.Inspect(fd.Body, func(n ast.Node) bool {
					switch x := n.(type) {
					case *ast.AssignStmt:
						for i, l := range x.Lhs {
							if id, ok := l.(*ast.Ident); ok && guardVars[info.ObjectOf(id)] && i < len(x.Rhs) && within(x.Rhs[i]) {
								feeds = true
							}
						}
					case *ast.IfStmt:
						if within(x.Cond) {
							ast.Inspect(x.Body, func(m ast.Node) bool {
								if as, ok := m.(*ast.AssignStmt); ok {
									for _, l := range as.Lhs {
										if id, ok := l.(*ast.Ident); ok && guardVars[info.ObjectOf(id)] {
											feeds = true
										}
									}
								}
								return true
							})
						}
					}
					return true
				})
			}
			if feeds {
				// the test is not evaluated for the empty name (s[0] of "" panics; the parser's
				// diagnostics encode names the input may have left empty): `len(s) > 0 && …` around
				// the test or around the call of the helper that holds it, or an earlier exit on
				// the empty string
				if !lenGuarded(t.info, t.in, t.e, t.obj) && !(t.in != fd && helperCallGuarded(info, fd, t.in, param)) {
					o.Verdict, o.Pos = VIOL, c.pos(t.e.Pos())
					o.Detail = fmt.Sprintf("the first-byte test `%s` indexes the name without a length test: for the empty name — `$\"\"` is a legal comdat name, and error messages for undefined names encode it — the encoder panics with an index out of range instead of quoting it", exprString(t.e))
					break
				}
				o.Verdict, o.Pos = OK, c.pos(t.e.Pos())
				o.Detail = fmt.Sprintf("first-byte test `%s` (decimal digits ↔ quoted) feeds the decision that guards the bare return", exprString(t.e))
				break
			}
			o.Detail = fmt.Sprintf("the first-byte test `%s` does not feed the decision that guards the bare return", exprString(t.e))
		}
		obs = append(obs, o)
	})
	return obs
}

// ---------------------------------------------------------------------------
// RESOLVE-PATH

func init() {
	register(&Rule{
		Name:  "RESOLVE-PATH",
		Doc:   "in a translator of package asm, a resolving call at the top level of the body (a call of another function of the package that can fail: irType, irValue, irConstant …) lies on every path that does not fail: no earlier statement returns anything but an error, unless that return sits under a test of the very value the call resolves — a fast path around the call leaves the part of the input it would have resolved (a written type, an operand) unchecked, so an undefined name in it is accepted silently",
		Floor: 100,
		Run:   ruleRESOLVEPATH,
	})
}

func ruleRESOLVEPATH(c *Ctx) []Obligation {
	var obs []Obligation
	c.eachFunc(pkgASM, func(p *packages.Package, fd *ast.FuncDecl, fn *types.Func) {
		info := p.TypesInfo
		sig := fn.Type().(*types.Signature)
		nres := sig.Results().Len()
		if nres == 0 || !isErrorType(sig.Results().At(nres-1).Type()) {
			return
		}
		defs := collectDefs(info, fd.Body)
		pm := buildParents(fd.Body)
		localsIn := func(e ast.Node, into map[types.Object]bool) {
			ast.Inspect(e, func(m ast.Node) bool {
				if id, ok := m.(*ast.Ident); ok {
					if v, ok := info.Uses[id].(*types.Var); ok && !v.IsField() && v.Parent() != nil && v.Pkg() != nil && v.Parent() != v.Pkg().Scope() {
						into[v] = true
					}
				}
				return true
			})
		}
		resolver := func(e ast.Expr) *ast.CallExpr {
			call, ok := unparen(e).(*ast.CallExpr)
			if !ok {
				return nil
			}
			f := calleeOf(info, call)
			if f == nil || f.Pkg() == nil || f.Pkg().Path() != pkgASM {
				return nil
			}
			rs := f.Type().(*types.Signature).Results()
			if rs.Len() == 0 || !isErrorType(rs.At(rs.Len()-1).Type()) {
				return nil
			}
			return call
		}
		// early exits: non-error returns nested in each top-level statement
		type exit struct {
			idx   int
			pos   token.Pos
			guard map[types.Object]bool
		}
		var exits []exit
		for i, st := range fd.Body.List {
			if i == len(fd.Body.List)-1 {
				if _, isRet := st.(*ast.ReturnStmt); isRet {
					continue
				}
			}
			ast.Inspect(st, func(nd ast.Node) bool {
				switch x := nd.(type) {
				case *ast.FuncLit:
					return false
				case *ast.ReturnStmt:
					if returnsError(info, []ast.Stmt{x}) {
						return true
					}
					// a return under a test of the error collector's store (`if len(gen.errs) > 0 { return nil }`)
					// is an error path: the recorded errors are reported by the caller
					sunk := false
					for q := pm[x]; q != nil; q = pm[q] {
						if is, ok := q.(*ast.IfStmt); ok && c.mentionsSinkField(info, is.Cond) {
							sunk = true
						}
					}
					if sunk {
						return true
					}
					g := map[types.Object]bool{}
					for q := pm[x]; q != nil; q = pm[q] {
						switch y := q.(type) {
						case *ast.IfStmt:
							localsIn(y.Cond, g)
						case *ast.CaseClause:
							for _, e := range y.List {
								localsIn(e, g)
							}
						case *ast.SwitchStmt:
							if y.Tag != nil {
								localsIn(y.Tag, g)
							}
						case *ast.TypeSwitchStmt:
							localsIn(y.Assign, g)
						}
					}
					exits = append(exits, exit{i, x.Pos(), g})
				}
				return true
			})
		}
		dependsOn := func(e ast.Node, guard map[types.Object]bool) bool {
			seen := map[types.Object]bool{}
			var walk func(e ast.Node, depth int) bool
			walk = func(e ast.Node, depth int) bool {
				used := map[types.Object]bool{}
				localsIn(e, used)
				for v := range used {
					if guard[v] {
						return true
					}
				}
				if depth >= 4 {
					return false
				}
				for v := range used {
					if seen[v] {
						continue
					}
					seen[v] = true
					for _, d := range defs[v] {
						if walk(d, depth+1) {
							return true
						}
					}
				}
				return false
			}
			return walk(e, 0)
		}
		n := 0
		for i, st := range fd.Body.List {
			var call *ast.CallExpr
			switch x := st.(type) {
			case *ast.AssignStmt:
				if len(x.Rhs) == 1 {
					call = resolver(x.Rhs[0])
				}
			case *ast.IfStmt:
				if as, ok := x.Init.(*ast.AssignStmt); ok && len(as.Rhs) == 1 {
					call = resolver(as.Rhs[0])
				}
			case *ast.ReturnStmt:
				if len(x.Results) == 1 {
					call = resolver(x.Results[0])
				}
			}
			if call == nil {
				continue
			}
			n++
			o := Obligation{Key: fmt.Sprintf("%s: resolving call #%d %s is on every path that succeeds", funcKey(fn), n, exprString(call.Fun)), Pos: c.pos(call.Pos()), Verdict: OK, Tags: asmTags(fn.Name(), "")}
			for _, ex := range exits {
				if ex.idx >= i {
					continue
				}
				// the call's arguments depend on what the early return tests (an optional part that
				// is absent on that path)?
				dep := false
				for _, a := range call.Args {
					if dependsOn(a, ex.guard) {
						dep = true
					}
				}
				if dep {
					continue
				}
				o.Verdict, o.Pos = VIOL, c.pos(ex.pos)
				o.Detail = fmt.Sprintf("the return at %s leaves the function without an error before %s(%s) has run, and does not depend on a test of what that call resolves: on that path this part of the input is never resolved, so an undefined name (or an ill-formed construct) in it is accepted silently", c.pos(ex.pos), exprString(call.Fun), argsString(call))
				break
			}
			obs = append(obs, o)
		}
	})
	return obs
}

func argsString(call *ast.CallExpr) string {
	var parts []string
	for _, a := range call.Args {
		parts = append(parts, exprString(a))
	}
	return strings.Join(parts, ", ")
}

// ---------------------------------------------------------------------------
// FILL-ORDER

func init() {
	register(&Rule{
		Name:  "FILL-ORDER",
		Doc:   "a translator of package asm does not read a field of the IR object it is filling before the statement in which it first stores that field: a value computed from the still-empty field (a callee signature built from inst.Args before the arguments are translated) is computed from nothing",
		Floor: 100,
		Run:   ruleFILLORDER,
	})
}

func ruleFILLORDER(c *Ctx) []Obligation {
	var obs []Obligation
	defer func() { sort.SliceStable(obs, func(i, j int) bool { return obs[i].Key < obs[j].Key }) }()
	c.eachFunc(pkgASM, func(p *packages.Package, fd *ast.FuncDecl, fn *types.Func) {
		info := p.TypesInfo
		// translators: functions that are handed a node of the syntax tree (a fix-up step that
		// reads a placeholder and replaces it is not filling from the input)
		sig := fn.Type().(*types.Signature)
		hasAST := false
		for i := 0; i < sig.Params().Len(); i++ {
			if isASTElem(sig.Params().At(i).Type()) {
				hasAST = true
			}
			if sl, ok := sig.Params().At(i).Type().Underlying().(*types.Slice); ok && isASTElem(sl.Elem()) {
				hasAST = true
			}
		}
		if !hasAST {
			return
		}
		type key struct {
			obj   types.Object
			field string
		}
		// top-level statement index of a position
		topIdx := func(pos token.Pos) int {
			for i, st := range fd.Body.List {
				if st.Pos() <= pos && pos < st.End() {
					return i
				}
			}
			return -1
		}
		fieldOf := func(e ast.Expr) (key, *types.Named, bool) {
			se, ok := unparen(e).(*ast.SelectorExpr)
			if !ok {
				return key{}, nil, false
			}
			sel, ok := info.Selections[se]
			if !ok || sel.Kind() != types.FieldVal {
				return key{}, nil, false
			}
			id, ok := unparen(se.X).(*ast.Ident)
			if !ok {
				return key{}, nil, false
			}
			v, ok := info.ObjectOf(id).(*types.Var)
			if !ok || v.IsField() {
				return key{}, nil, false
			}
			n := namedOf(sel.Recv())
			if n == nil || n.Obj().Pkg() == nil || !isIRPkg(n.Obj().Pkg().Path()) {
				return key{}, nil, false
			}
			return key{v, se.Sel.Name}, n, true
		}
		firstWrite := map[key]token.Pos{}
		owner := map[key]*types.Named{}
		lhsNodes := map[ast.Node]bool{}
		ast.Inspect(fd.Body, func(nd ast.Node) bool {
			as, ok := nd.(*ast.AssignStmt)
			if !ok {
				return true
			}
			for _, l := range as.Lhs {
				target := unparen(l)
				if ix, ok := target.(*ast.IndexExpr); ok {
					target = unparen(ix.X)
				}
				if k, n, ok := fieldOf(target); ok {
					lhsNodes[target] = true
					if old, has := firstWrite[k]; !has || as.Pos() < old {
						firstWrite[k] = as.Pos()
						owner[k] = n
					}
				}
			}
			return true
		})
		if len(firstWrite) == 0 {
			return
		}
		reported := map[key]bool{}
		for k, w := range firstWrite {
			o := Obligation{Key: fmt.Sprintf("%s fills %s.%s before reading it", funcKey(fn), typeKey(owner[k]), k.field), Pos: c.pos(w), Verdict: OK, Tags: asmTags(fn.Name(), typeKey(owner[k]))}
			wi := topIdx(w)
			ast.Inspect(fd.Body, func(nd ast.Node) bool {
				se, ok := nd.(*ast.SelectorExpr)
				if !ok || lhsNodes[se] || reported[k] {
					return true
				}
				k2, _, ok := fieldOf(se)
				if !ok || k2 != k {
					return true
				}
				if se.Pos() < w && topIdx(se.Pos()) < wi {
					reported[k] = true
					o.Verdict, o.Pos = VIOL, c.pos(se.Pos())
					o.Detail = fmt.Sprintf("%s is read at %s, before the statement at %s that first stores it: what is computed from it there is computed from the empty field, whatever the input says", exprString(se), c.pos(se.Pos()), c.pos(w))
				}
				return true
			})
			obs = append(obs, o)
		}
	})
	return obs
}

// ---------------------------------------------------------------------------
// CTOR-ID

func init() {
	register(&Rule{
		Name:  "CTOR-ID",
		Doc:   "a constructor or builder method of the IR packages (New…) keeps the objects it is handed, not copies of them: it never dereferences a pointer-typed argument (or an element of a slice argument) into a value (`p := *param`) — the caller goes on using the original as an operand, so a copy stored in the new object is numbered, named and typed separately from the value the instructions refer to",
		Floor: 15,
		Run:   ruleCTORID,
	})
}

func ruleCTORID(c *Ctx) []Obligation {
	var obs []Obligation
	for _, path := range []string{pkgIR, pkgCONS, pkgMD, pkgTYP} {
		c.eachFunc(path, func(p *packages.Package, fd *ast.FuncDecl, fn *types.Func) {
			if !fn.Exported() || !strings.HasPrefix(fn.Name(), "New") {
				return
			}
			info := p.TypesInfo
			sig := fn.Type().(*types.Signature)
			// objects handed in: pointer-typed parameters and elements of slice parameters
			isIRPtr := func(t types.Type) bool {
				pt, ok := t.(*types.Pointer)
				if !ok {
					return false
				}
				n := namedOf(pt.Elem())
				return n != nil && n.Obj().Pkg() != nil && c.isLLVM(n.Obj().Pkg().Path())
			}
			handed := map[types.Object]bool{}
			for i := 0; i < sig.Params().Len(); i++ {
				v := sig.Params().At(i)
				if isIRPtr(v.Type()) {
					handed[v] = true
				}
				if sl, ok := v.Type().Underlying().(*types.Slice); ok && isIRPtr(sl.Elem()) {
					handed[v] = true
				}
			}
			if len(handed) == 0 {
				return
			}
			// the declared parameter objects
			declared := map[types.Object]bool{}
			for _, fl := range fd.Type.Params.List {
				for _, nm := range fl.Names {
					if o := info.Defs[nm]; o != nil {
						if v, ok := o.(*types.Var); ok && (isIRPtr(v.Type()) || func() bool {
							sl, ok := v.Type().Underlying().(*types.Slice)
							return ok && isIRPtr(sl.Elem())
						}()) {
							declared[o] = true
						}
					}
				}
			}
			// range values over a slice parameter are handed objects too
			ast.Inspect(fd.Body, func(n ast.Node) bool {
				if rs, ok := n.(*ast.RangeStmt); ok && rs.Value != nil {
					if id, ok := unparen(rs.X).(*ast.Ident); ok && declared[info.ObjectOf(id)] {
						if vid, ok := rs.Value.(*ast.Ident); ok {
							declared[info.ObjectOf(vid)] = true
						}
					}
				}
				return true
			})
			o := Obligation{Key: funcKey(fn) + " keeps the objects it is handed", Pos: c.pos(fd.Pos()), Verdict: OK, Detail: fmt.Sprintf("%d pointer-typed argument(s), none dereferenced into a copy", len(declared))}
			pm := buildParents(fd.Body)
			ast.Inspect(fd.Body, func(n ast.Node) bool {
				st, ok := n.(*ast.StarExpr)
				if !ok || o.Verdict != OK {
					return true
				}
				root := unparen(st.X)
				if ix, ok := root.(*ast.IndexExpr); ok {
					root = unparen(ix.X)
				}
				id, ok := root.(*ast.Ident)
				if !ok || !declared[info.ObjectOf(id)] {
					return true
				}
				if tv, ok := info.Types[st]; !ok || !tv.IsValue() {
					return true // a type expression
				}
				// `*p = …` (assignment through the pointer) and `(*p).f` are not copies
				switch par := pm[st].(type) {
				case *ast.AssignStmt:
					for _, l := range par.Lhs {
						if l == ast.Expr(st) {
							return true
						}
					}
				case *ast.SelectorExpr:
					return true
				case *ast.ParenExpr:
					if _, ok := pm[par].(*ast.SelectorExpr); ok {
						return true
					}
				}
				o.Verdict, o.Pos = VIOL, c.pos(st.Pos())
				o.Detail = fmt.Sprintf("%s copies the object behind the argument %s: the new object holds the copy while the caller (and every instruction that uses it as an operand) holds the original, so numbering, naming or typing one does not reach the other — the printed text refers to a different value than the one defined", exprString(st), id.Name)
				return true
			})
			obs = append(obs, o)
		})
	}
	return obs
}

// ---------------------------------------------------------------------------
// ENC-BARE

func init() {
	register(&Rule{
		Name:  "ENC-BARE",
		Doc:   "in the identifier encoder that chooses between the bare and the quoted spelling, every test of a byte of the name that tells an identifier character from a space (evaluated over all 256 byte values, lookup tables and masks included) puts every byte outside LLVM's identifier alphabet [-a-zA-Z$._0-9] — all bytes ≥ 0x80 included — on the side of the space: a byte classified as an identifier character is written unquoted and unescaped, and the lexer ends the name there",
		Floor: 1,
		Run:   ruleENCBARE,
	})
}

func ruleENCBARE(c *Ctx) []Obligation {
	var obs []Obligation
	const alphabet = "-$._abcdefghijklmnopqrstuvwxyzABCDEFGHIJKLMNOPQRSTUVWXYZ0123456789"
	c.eachFunc(pkgENC, func(p *packages.Package, fd *ast.FuncDecl, fn *types.Func) {
		info := p.TypesInfo
		sig := fn.Type().(*types.Signature)
		if sig.Recv() != nil || sig.Params().Len() != 1 || sig.Results().Len() != 1 || !isPlainString(sig.Params().At(0).Type()) || !isPlainString(sig.Results().At(0).Type()) {
			return
		}
		var param types.Object
		if len(fd.Type.Params.List) == 1 && len(fd.Type.Params.List[0].Names) == 1 {
			param = info.Defs[fd.Type.Params.List[0].Names[0]]
		}
		bare := false
		ast.Inspect(fd.Body, func(n ast.Node) bool {
			if r, ok := n.(*ast.ReturnStmt); ok && len(r.Results) == 1 {
				if id, ok := unparen(r.Results[0]).(*ast.Ident); ok && param != nil && info.ObjectOf(id) == param {
					bare = true
				}
			}
			return true
		})
		if !bare {
			return
		}
		// the byte tests may live in a predicate of the package that is handed the name
		// (if !needsQuotes(s) { return s }): it is analysed like the encoder's own body
		type target struct {
			fd    *ast.FuncDecl
			fn    *types.Func
			param types.Object
		}
		targets := []target{{fd, fn, param}}
		ast.Inspect(fd.Body, func(n ast.Node) bool {
			call, ok := n.(*ast.CallExpr)
			if !ok || len(call.Args) != 1 {
				return true
			}
			if id, ok := unparen(call.Args[0]).(*ast.Ident); !ok || info.ObjectOf(id) != param {
				return true
			}
			h := calleeOf(info, call)
			if h == nil || h.Pkg() == nil || h.Pkg().Path() != pkgENC || h == fn {
				return true
			}
			hs := h.Type().(*types.Signature)
			if hs.Results().Len() != 1 {
				return true
			}
			if b, ok := hs.Results().At(0).Type().Underlying().(*types.Basic); !ok || b.Kind() != types.Bool {
				return true
			}
			if hfd := c.funcDecl(h); hfd != nil && hfd.Body != nil && len(hfd.Type.Params.List) == 1 && len(hfd.Type.Params.List[0].Names) == 1 {
				targets = append(targets, target{hfd, h, info.Defs[hfd.Type.Params.List[0].Names[0]]})
			}
			return true
		})
		for _, tg := range targets {
			fd, fn, param := tg.fd, tg.fn, tg.param
			_ = fn
			func() {
				// byte expressions: s[i] with a non-constant index, or a local defined as such (b := s[i])
				byteVars := map[types.Object]bool{}
				isByteOf := func(e ast.Expr) bool {
					e = unparen(e)
					if id, ok := e.(*ast.Ident); ok {
						return byteVars[info.ObjectOf(id)]
					}
					ix, ok := e.(*ast.IndexExpr)
					if !ok {
						return false
					}
					id, ok := unparen(ix.X).(*ast.Ident)
					if !ok || info.ObjectOf(id) != param {
						return false
					}
					return info.Types[ix.Index].Value == nil
				}
				ast.Inspect(fd.Body, func(n ast.Node) bool {
					if as, ok := n.(*ast.AssignStmt); ok && len(as.Lhs) == 1 && len(as.Rhs) == 1 && isByteOf(as.Rhs[0]) {
						if id, ok := as.Lhs[0].(*ast.Ident); ok {
							byteVars[info.ObjectOf(id)] = true
						}
					}
					if rs, ok := n.(*ast.RangeStmt); ok && rs.Value != nil {
						if call, ok := unparen(rs.X).(*ast.CallExpr); ok && len(call.Args) == 1 {
							if id, ok := unparen(call.Args[0]).(*ast.Ident); ok && info.ObjectOf(id) == param {
								if v, ok := rs.Value.(*ast.Ident); ok {
									byteVars[info.ObjectOf(v)] = true
								}
							}
						}
					}
					return true
				})
				pm := buildParents(fd.Body)
				seen := map[ast.Expr]bool{}
				n := 0
				ast.Inspect(fd.Body, func(nd ast.Node) bool {
					e, ok := nd.(ast.Expr)
					if !ok || !isByteOf(e) {
						return true
					}
					if as, ok := pm[nd].(*ast.AssignStmt); ok && len(as.Rhs) == 1 && as.Rhs[0] == e {
						return true // the definition of a byte local
					}
					// the largest enclosing boolean expression over this byte alone
					var best ast.Expr
					for q := nd; q != nil; q = pm[q] {
						x, ok := q.(ast.Expr)
						if !ok {
							break
						}
						if tv, ok := info.Types[x]; ok && tv.Type != nil {
							if b, ok := tv.Type.Underlying().(*types.Basic); ok && b.Info()&types.IsBoolean != 0 {
								if _, good := byteSet(info, x, isByteOf); good {
									best = x
								}
							}
						}
					}
					if best == nil {
						// a byte of the name used in a test that cannot be evaluated: only a problem when it
						// decides between the spellings, which the enclosing condition tells
						for q := nd; q != nil; q = pm[q] {
							if is, ok := q.(*ast.IfStmt); ok && is.Cond.Pos() <= e.Pos() && e.End() <= is.Cond.End() {
								n++
								obs = append(obs, Obligation{Key: fmt.Sprintf("%s: byte test #%d keeps bytes outside the identifier alphabet on the quoted side", funcKey(fn), n), Pos: c.pos(is.Cond.Pos()), Verdict: UNDECIDED,
									Detail: fmt.Sprintf("the test `%s` could not be evaluated over the byte values (unrecognised table or helper)", exprString(is.Cond))})
								break
							}
							if fs, ok := q.(*ast.ForStmt); ok && fs.Cond != nil && fs.Cond.Pos() <= e.Pos() && e.End() <= fs.Cond.End() {
								n++
								obs = append(obs, Obligation{Key: fmt.Sprintf("%s: byte test #%d keeps bytes outside the identifier alphabet on the quoted side", funcKey(fn), n), Pos: c.pos(fs.Cond.Pos()), Verdict: UNDECIDED,
									Detail: fmt.Sprintf("the loop condition `%s` could not be evaluated over the byte values (unrecognised table or helper)", exprString(fs.Cond))})
								break
							}
						}
						return true
					}
					if seen[best] {
						return true
					}
					seen[best] = true
					set, _ := byteSet(info, best, isByteOf)
					if set['a'] == set[' '] {
						return true // not a test of identifier characters (e.g. printable vs. escaped)
					}
					n++
					o := Obligation{Key: fmt.Sprintf("%s: byte test #%d keeps bytes outside the identifier alphabet on the quoted side", funcKey(fn), n), Pos: c.pos(best.Pos()), Verdict: OK}
					var wrong [256]bool
					any := false
					for b := 0; b < 256; b++ {
						if strings.IndexByte(alphabet, byte(b)) == -1 && set[b] == set['a'] {
							wrong[b], any = true, true
						}
					}
					if any {
						o.Verdict = VIOL
						o.Detail = fmt.Sprintf("`%s` classifies the bytes {%s} like the letter a: a name made of identifier characters and such bytes is written bare and unescaped — the lexer ends the name at that byte (or reads other bytes than the name holds), so distinct names print alike or the output does not parse", exprString(best), describeSet(wrong))
					} else {
						o.Detail = fmt.Sprintf("`%s`: identifier side ⊆ [-a-zA-Z$._0-9]", exprString(best))
					}
					obs = append(obs, o)
					return true
				})
			}()
		}
	})
	return obs
}

// ---------------------------------------------------------------------------
// FLAG-SIB

func init() {
	register(&Rule{
		Name:  "FLAG-SIB",
		Doc:   "where the grammar has two type nodes that differ by a prefix (StructType / PackedStructType, VectorType / ScalableVectorType) and the IR has one type with a boolean field named like the prefix, the translator of the prefixed node sets that field to true on its result on every path — at the top level of its body, or by handing a constant true to a helper that stores its parameter into the field: the flag does not depend on how the IR object was created (scaffold of a definition or fresh object of a literal type)",
		Floor: 2,
		Run:   ruleFLAGSIB,
	})
}

func ruleFLAGSIB(c *Ctx) []Obligation {
	var obs []Obligation
	pa := c.pkg(pkgASM)
	info := pa.TypesInfo
	// translators by the AST node type they take: (…, old *ast.X) (types.Type, error)
	byNode := map[string]*ast.FuncDecl{}
	fnOf := map[*ast.FuncDecl]*types.Func{}
	c.eachFunc(pkgASM, func(p *packages.Package, fd *ast.FuncDecl, fn *types.Func) {
		sig := fn.Type().(*types.Signature)
		if sig.Results().Len() != 2 || !isErrorType(sig.Results().At(1).Type()) || !isNamed(sig.Results().At(0).Type(), pkgTYP, "Type") {
			return
		}
		for i := 0; i < sig.Params().Len(); i++ {
			if pt, ok := sig.Params().At(i).Type().(*types.Pointer); ok {
				if n := namedOf(pt.Elem()); n != nil && n.Obj().Pkg() != nil && n.Obj().Pkg().Path() == pkgAST && strings.HasSuffix(n.Obj().Name(), "Type") {
					byNode[n.Obj().Name()] = fd
					fnOf[fd] = fn
				}
			}
		}
	})
	// setsFlag: does fd establish field `flag` = true on its result on every path?
	var setsFlag func(fd *ast.FuncDecl, flag string, trueParams map[types.Object]bool, depth int) (bool, string)
	setsFlag = func(fd *ast.FuncDecl, flag string, trueParams map[types.Object]bool, depth int) (bool, string) {
		isTrue := func(e ast.Expr) bool {
			if tv := info.Types[e]; tv.Value != nil && tv.Value.String() == "true" {
				return true
			}
			if id, ok := unparen(e).(*ast.Ident); ok && trueParams[info.ObjectOf(id)] {
				return true
			}
			return false
		}
		for _, st := range fd.Body.List {
			switch x := st.(type) {
			case *ast.AssignStmt:
				for i, l := range x.Lhs {
					if se, ok := unparen(l).(*ast.SelectorExpr); ok && se.Sel.Name == flag && i < len(x.Rhs) && isTrue(x.Rhs[i]) {
						return true, "top-level store " + exprString(l) + " = " + exprString(x.Rhs[i])
					}
				}
			case *ast.IfStmt:
				// if flagParam { typ.Flag = true }
				if isTrue(x.Cond) && x.Else == nil {
					for _, b := range x.Body.List {
						if as, ok := b.(*ast.AssignStmt); ok {
							for i, l := range as.Lhs {
								if se, ok := unparen(l).(*ast.SelectorExpr); ok && se.Sel.Name == flag && i < len(as.Rhs) && isTrue(as.Rhs[i]) {
									return true, "store under the flag parameter"
								}
							}
						}
					}
				}
			case *ast.ReturnStmt:
				// delegation: return gen.helper(t, true, old)
				if len(x.Results) == 1 && depth < 2 {
					if call, ok := unparen(x.Results[0]).(*ast.CallExpr); ok {
						f := calleeOf(info, call)
						hfd := c.funcDecl(f)
						if f != nil && hfd != nil && hfd.Body != nil && f.Pkg() != nil && f.Pkg().Path() == pkgASM {
							tp := map[types.Object]bool{}
							k := 0
							for _, fl := range hfd.Type.Params.List {
								for _, nm := range fl.Names {
									if k < len(call.Args) && isTrue(call.Args[k]) {
										tp[info.Defs[nm]] = true
									}
									k++
								}
							}
							if len(tp) > 0 {
								if ok, how := setsFlag(hfd, flag, tp, depth+1); ok {
									return true, "through " + f.Name() + ": " + how
								}
							}
						}
					}
				}
			}
		}
		return false, ""
	}
	for _, prefix := range []string{"Packed", "Scalable"} {
		for name, fd := range byNode {
			if !strings.HasPrefix(name, prefix) {
				continue
			}
			base := strings.TrimPrefix(name, prefix)
			if byNode[base] == nil {
				continue
			}
			o := Obligation{Key: fmt.Sprintf("%s sets %s on the type it returns", funcKey(fnOf[fd]), prefix), Pos: c.pos(fd.Pos()), Verdict: OK, Tags: []string{"types"}}
			if ok, how := setsFlag(fd, prefix, nil, 0); ok {
				o.Detail = how
			} else {
				o.Verdict = VIOL
				o.Detail = fmt.Sprintf("the translator of *ast.%s does not set %s = true on its result on every path (no top-level store, no constant true handed to a helper that stores it): a type that is not created through the scaffold of a type definition — a literal `<{ … }>` / `<vscale x …>` inside another type — is built like its plain sibling *ast.%s, so two different types compare equal and print alike", name, prefix, base)
			}
			obs = append(obs, o)
		}
	}
	sort.SliceStable(obs, func(i, j int) bool { return obs[i].Key < obs[j].Key })
	return obs
}

// ---------------------------------------------------------------------------
// PHASE-READ

func init() {
	register(&Rule{
		Name:  "PHASE-READ",
		Doc:   "a step of the translation that visits the top-level entities in map-iteration order fills fields of globals, functions, aliases and ifuncs (Init, Blocks, Aliasee …); no code that runs in that step reads such a field of an entity it reached as a reference (a value obtained through a type switch or assertion from value.Value / constant.Constant): whether the referenced entity has been filled yet depends on the order the map happens to be iterated in, so the same input would be accepted, rejected or translated differently from run to run",
		Floor: 6,
		Run:   rulePHASEREAD,
	})
}

func rulePHASEREAD(c *Ctx) []Obligation {
	refs, _, _, _ := c.translatePhases()
	if len(refs) == 0 {
		return []Obligation{{Key: "translation steps", Verdict: UNDECIDED, Detail: "the steps of asm.translate could not be listed"}}
	}
	pa := c.pkg(pkgASM)
	info := pa.TypesInfo
	entity := func(t types.Type) *types.Named {
		if p, ok := t.(*types.Pointer); ok {
			t = p.Elem()
		}
		n := namedOf(t)
		if n == nil || n.Obj().Pkg() == nil || n.Obj().Pkg().Path() != pkgIR {
			return nil
		}
		switch n.Obj().Name() {
		case "Global", "Func", "Alias", "IFunc":
			return n
		}
		return nil
	}
	// call closure inside package asm
	callees := map[*types.Func][]*types.Func{}
	c.eachFunc(pkgASM, func(p *packages.Package, fd *ast.FuncDecl, fn *types.Func) {
		ast.Inspect(fd.Body, func(n ast.Node) bool {
			switch x := n.(type) {
			case *ast.CallExpr:
				if f := calleeOf(info, x); f != nil && f.Pkg() != nil && f.Pkg().Path() == pkgASM {
					callees[fn] = append(callees[fn], f)
				}
			case *ast.SelectorExpr:
				if sel, ok := info.Selections[x]; ok && sel.Kind() == types.MethodVal {
					if f, ok := sel.Obj().(*types.Func); ok && f.Pkg() != nil && f.Pkg().Path() == pkgASM {
						callees[fn] = append(callees[fn], f)
					}
				}
			}
			return true
		})
	})
	reach := func(root *types.Func) map[*types.Func]bool {
		out := map[*types.Func]bool{}
		var visit func(f *types.Func)
		visit = func(f *types.Func) {
			if out[f] {
				return
			}
			out[f] = true
			for _, g := range callees[f] {
				visit(g)
			}
		}
		visit(root)
		return out
	}
	var obs []Obligation
	seenStep := map[*types.Func]bool{}
	for _, ref := range refs {
		if seenStep[ref.fn] {
			continue
		}
		seenStep[ref.fn] = true
		sfd := c.funcDecl(ref.fn)
		if sfd == nil || sfd.Body == nil {
			continue
		}
		// map-ordered step: ranges over a map
		mapOrdered := false
		ast.Inspect(sfd.Body, func(n ast.Node) bool {
			if rs, ok := n.(*ast.RangeStmt); ok {
				if _, isMap := info.TypeOf(rs.X).Underlying().(*types.Map); isMap {
					mapOrdered = true
				}
			}
			return true
		})
		if !mapOrdered {
			obs = append(obs, Obligation{Key: fmt.Sprintf("step %s visits its entities in a fixed order", ref.fn.Name()), Pos: c.pos(sfd.Pos()), Verdict: OK, Detail: "no range over a map in the step function: nothing filled here depends on iteration order"})
			continue
		}
		fns := reach(ref.fn)
		// fields of entities written in this step
		written := map[string]token.Pos{}
		for f := range fns {
			fd := c.funcDecl(f)
			if fd == nil || fd.Body == nil {
				continue
			}
			ast.Inspect(fd.Body, func(n ast.Node) bool {
				as, ok := n.(*ast.AssignStmt)
				if !ok {
					return true
				}
				for _, l := range as.Lhs {
					t := unparen(l)
					if ix, ok := t.(*ast.IndexExpr); ok {
						t = unparen(ix.X)
					}
					if se, ok := t.(*ast.SelectorExpr); ok {
						if sel, ok := info.Selections[se]; ok && sel.Kind() == types.FieldVal {
							if en := entity(sel.Recv()); en != nil {
								k := en.Obj().Name() + "." + se.Sel.Name
								if _, has := written[k]; !has {
									written[k] = as.Pos()
								}
							}
						}
					}
				}
				return true
			})
		}
		if len(written) == 0 {
			continue
		}
		// reads of those fields through a reference (type switch / assertion from an interface value)
		reads := map[string]token.Pos{}
		for f := range fns {
			fd := c.funcDecl(f)
			if fd == nil || fd.Body == nil {
				continue
			}
			// variables bound by a type switch or a type assertion on an interface value
			refVars := map[types.Object]bool{}
			ast.Inspect(fd.Body, func(n ast.Node) bool {
				switch x := n.(type) {
				case *ast.TypeSwitchStmt:
					if as, ok := x.Assign.(*ast.AssignStmt); ok {
						if ta, ok := as.Rhs[0].(*ast.TypeAssertExpr); ok && isValueIface(info.TypeOf(ta.X)) {
							for _, cc := range x.Body.List {
								if obj := info.Implicits[cc]; obj != nil && entity(obj.Type()) != nil {
									refVars[obj] = true
								}
							}
						}
					}
				case *ast.AssignStmt:
					if len(x.Rhs) == 1 {
						if ta, ok := unparen(x.Rhs[0]).(*ast.TypeAssertExpr); ok && ta.Type != nil && isValueIface(info.TypeOf(ta.X)) && entity(info.TypeOf(ta.Type)) != nil {
							if id, ok := x.Lhs[0].(*ast.Ident); ok {
								refVars[info.ObjectOf(id)] = true
							}
						}
					}
				}
				return true
			})
			if len(refVars) == 0 {
				continue
			}
			ast.Inspect(fd.Body, func(n ast.Node) bool {
				se, ok := n.(*ast.SelectorExpr)
				if !ok {
					return true
				}
				sel, ok := info.Selections[se]
				if !ok || sel.Kind() != types.FieldVal {
					return true
				}
				id, ok := unparen(se.X).(*ast.Ident)
				if !ok || !refVars[info.ObjectOf(id)] {
					return true
				}
				if en := entity(sel.Recv()); en != nil {
					k := en.Obj().Name() + "." + se.Sel.Name
					if _, w := written[k]; w {
						if _, has := reads[k]; !has {
							reads[k] = se.Pos()
						}
					}
				}
				return true
			})
		}
		for _, k := range sortedKeys(written) {
			o := Obligation{Key: fmt.Sprintf("step %s fills ir.%s: not read through a reference in the same step", ref.fn.Name(), k), Pos: c.pos(written[k]), Verdict: OK, Detail: "filled in map-iteration order; no read of it on an entity reached as a value"}
			if pos, bad := reads[k]; bad {
				o.Verdict, o.Pos = VIOL, c.pos(pos)
				o.Detail = fmt.Sprintf("ir.%s is filled during step %s, which visits the entities in map-iteration order, and is read at %s on an entity reached as a reference: whether that entity has been filled yet differs from run to run, so one input is accepted, rejected or translated differently depending on the iteration order", k, ref.fn.Name(), c.pos(pos))
			}
			obs = append(obs, o)
		}
	}
	return obs
}

// isValueIface: value.Value, constant.Constant or another interface of the IR packages.
func isValueIface(t types.Type) bool {
	if t == nil || !types.IsInterface(t) {
		return false
	}
	n := namedOf(t)
	return n != nil && n.Obj().Pkg() != nil && isIRPkg(n.Obj().Pkg().Path())
}

// ---------------------------------------------------------------------------
// Rules added after seeded batch 7: UNQ-EMPTY, ENC-ONCE, ENC-REFMT, ENUM-IDX, MD-STR, SUCC-SRC, LIT-INT-ERR

func init() {
	register(&Rule{
		Name:  "UNQ-EMPTY",
		Doc:   "a function that strips the surrounding quotes of a token text (it slices s[1:len(s)-1] under a test of the first and last byte) does so for the two-byte text of the empty string literal as well: the length test, evaluated at length 2, holds — otherwise the empty literal (inline asm constraints, attribute values, source_filename) keeps its quotes and prints as an escaped pair of quotes",
		Floor: 1,
		Run:   ruleUNQEMPTY,
	})
	register(&Rule{
		Name:  "ENC-ONCE",
		Doc:   "token text is decoded once: no decoder of package asm or internal/enc (unquote, enc.Unquote, enc.Unescape) is applied to a value that has already passed through one — a second pass turns a literal backslash followed by two hex digits, which the first pass produced from an escaped backslash, into another byte",
		Floor: 5,
		Run:   ruleENCONCE,
	})
	register(&Rule{
		Name:  "ENC-REFMT",
		Doc:   "an identifier encoder of internal/enc spells the name it is given, never a number parsed out of it: no strconv.Format* / fmt.Sprint* of a value obtained by parsing the name — re-formatting drops leading zeros and signs, so distinct names (%7, %07) print alike",
		Floor: 6,
		Run:   ruleENCREFMT,
	})
	register(&Rule{
		Name:  "ENUM-IDX",
		Doc:   "a positional table (array or slice literal without keys) that is indexed by a value of an enum type lists, at position i, the object that carries the enum value i: for elements that are package-level variables initialised with a struct literal holding a field of that enum type, the field's constant equals the position — a table written in another order than the enum's numbering hands out the wrong object for some members",
		Floor: 0,
		Run:   ruleENUMIDX,
	})
	register(&Rule{
		Name:  "MD-STR",
		Doc:   "String() of every metadata node type returns what Ident() returns (the !N reference of a numbered node, the inline text of an unnumbered one): the printers of tuples, typed fields and `metadata` operands go through String(), so a String() that always prints the node inline detaches every use from its definition",
		Floor: 20,
		Run:   ruleMDSTR,
	})
	register(&Rule{
		Name:  "SUCC-SRC",
		Doc:   "Succs() of a terminator is computed from its branch-target fields, not filtered out of Operands(): the operand list also holds call arguments and bundle inputs, which may be blocks without being successors",
		Floor: 5,
		Run:   ruleSUCCSRC,
	})
	register(&Rule{
		Name:  "LIT-INT-ERR",
		Doc:   "constant.NewIntFromString fails only for text it cannot read (a failed SetString / an unknown form), never for a value it has read: the gep index classifier of the parser translates index literals with a dummy i64 type and treats the error as impossible, so a rejection that depends on the value or the type (a range check) turns a valid wide index into a crash",
		Floor: 1,
		Run:   ruleLITINTERR,
	})
}

func ruleUNQEMPTY(c *Ctx) []Obligation {
	var obs []Obligation
	for _, path := range []string{pkgASM, pkgENC} {
		c.eachFunc(path, func(p *packages.Package, fd *ast.FuncDecl, fn *types.Func) {
			info := p.TypesInfo
			sig := fn.Type().(*types.Signature)
			if sig.Params().Len() != 1 || !isPlainString(sig.Params().At(0).Type()) || sig.Results().Len() != 1 {
				return
			}
			var param types.Object
			if len(fd.Type.Params.List) == 1 && len(fd.Type.Params.List[0].Names) == 1 {
				param = info.Defs[fd.Type.Params.List[0].Names[0]]
			}
			if param == nil {
				return
			}
			// the strip: s[1 : len(s)-1] (or n-1 with n := len(s))
			lenVars := map[types.Object]bool{}
			ast.Inspect(fd.Body, func(n ast.Node) bool {
				if as, ok := n.(*ast.AssignStmt); ok && len(as.Lhs) == 1 && len(as.Rhs) == 1 && strings.ReplaceAll(exprString(as.Rhs[0]), " ", "") == "len("+param.Name()+")" {
					if id, ok := as.Lhs[0].(*ast.Ident); ok {
						lenVars[info.ObjectOf(id)] = true
					}
				}
				return true
			})
			isLen := func(e ast.Expr) bool {
				e = unparen(e)
				if id, ok := e.(*ast.Ident); ok && lenVars[info.ObjectOf(id)] {
					return true
				}
				return strings.ReplaceAll(exprString(e), " ", "") == "len("+param.Name()+")"
			}
			var strip *ast.SliceExpr
			ast.Inspect(fd.Body, func(n ast.Node) bool {
				sl, ok := n.(*ast.SliceExpr)
				if !ok || sl.Low == nil || sl.High == nil {
					return true
				}
				if id, ok := unparen(sl.X).(*ast.Ident); !ok || info.ObjectOf(id) != param {
					return true
				}
				if tv := info.Types[sl.Low]; tv.Value == nil || tv.Value.ExactString() != "1" {
					return true
				}
				if be, ok := unparen(sl.High).(*ast.BinaryExpr); ok && be.Op == token.SUB && isLen(be.X) && exprString(be.Y) == "1" {
					strip = sl
				}
				return true
			})
			// or: the function tests for surrounding quotes and hands the text to a decoder
			pm := buildParents(fd.Body)
			var guards []*ast.IfStmt
			var anchor token.Pos
			if strip != nil {
				anchor = strip.Pos()
				for q := pm[strip]; q != nil; q = pm[q] {
					if is, ok := q.(*ast.IfStmt); ok && is.Body.Pos() <= strip.Pos() && strip.End() <= is.Body.End() {
						guards = append(guards, is)
					}
				}
			} else {
				ast.Inspect(fd.Body, func(n ast.Node) bool {
					is, ok := n.(*ast.IfStmt)
					if !ok {
						return true
					}
					quoteTest := false
					ast.Inspect(is.Cond, func(m ast.Node) bool {
						if lit, ok := m.(*ast.BasicLit); ok {
							if tv := info.Types[lit]; tv.Value != nil {
								switch tv.Value.Kind() {
								case constant.String:
									quoteTest = quoteTest || constant.StringVal(tv.Value) == `"`
								case constant.Int:
									if v, ok := constant.Int64Val(tv.Value); ok && v == '"' && lit.Kind == token.CHAR {
										quoteTest = true
									}
								}
							}
						}
						return true
					})
					decodes := false
					ast.Inspect(is.Body, func(m ast.Node) bool {
						if call, ok := m.(*ast.CallExpr); ok {
							if f := calleeOf(info, call); f != nil && f.Pkg() != nil && f.Pkg().Path() == pkgENC && (f.Name() == "Unquote" || f.Name() == "Unescape") {
								decodes = true
							}
						}
						return true
					})
					if quoteTest && decodes {
						guards = append(guards, is)
						anchor = is.Pos()
						if as, ok := is.Init.(*ast.AssignStmt); ok && len(as.Lhs) == 1 && len(as.Rhs) == 1 && strings.ReplaceAll(exprString(as.Rhs[0]), " ", "") == "len("+param.Name()+")" {
							if id, ok := as.Lhs[0].(*ast.Ident); ok {
								lenVars[info.ObjectOf(id)] = true
							}
						}
					}
					return true
				})
			}
			if len(guards) == 0 && strip == nil {
				return
			}
			// the guarding if statement(s): length comparisons evaluated at 2
			o := Obligation{Key: funcKey(fn) + " strips the quotes of the empty literal too", Pos: c.pos(anchor), Verdict: OK, Detail: "no length test excludes the two-byte text"}
			for _, is := range guards {
				conds := []ast.Expr{is.Cond}
				for i := 0; i < len(conds); i++ {
					if be, ok := unparen(conds[i]).(*ast.BinaryExpr); ok && be.Op == token.LAND {
						conds = append(conds, be.X, be.Y)
						continue
					}
					be, ok := unparen(conds[i]).(*ast.BinaryExpr)
					if !ok {
						continue
					}
					var k constant.Value
					op := be.Op
					switch {
					case isLen(be.X) && info.Types[be.Y].Value != nil:
						k = info.Types[be.Y].Value
					case isLen(be.Y) && info.Types[be.X].Value != nil:
						k = info.Types[be.X].Value
						switch op {
						case token.LSS:
							op = token.GTR
						case token.LEQ:
							op = token.GEQ
						case token.GTR:
							op = token.LSS
						case token.GEQ:
							op = token.LEQ
						}
					default:
						continue
					}
					if k.Kind() == constant.Int && !constant.Compare(constant.MakeInt64(2), op, k) {
						o.Verdict, o.Pos = VIOL, c.pos(be.Pos())
						o.Detail = fmt.Sprintf("the length test `%s` is false for the two-byte text of an empty string literal: it is not unquoted, so it enters the IR as two quote characters and prints as an escaped pair of quotes — what the input said is altered", exprString(be))
					}
				}
			}
			obs = append(obs, o)
		})
	}
	return obs
}

func ruleENCONCE(c *Ctx) []Obligation {
	var obs []Obligation
	isDecoder := func(f *types.Func) bool {
		if f == nil || f.Pkg() == nil {
			return false
		}
		switch {
		case f.Pkg().Path() == pkgENC && (f.Name() == "Unquote" || f.Name() == "Unescape"):
			return true
		case f.Pkg().Path() == pkgASM && f.Name() == "unquote":
			return true
		}
		return false
	}
	c.eachFunc(pkgASM, func(p *packages.Package, fd *ast.FuncDecl, fn *types.Func) {
		info := p.TypesInfo
		defs := collectDefs(info, fd.Body)
		n := 0
		ast.Inspect(fd.Body, func(nd ast.Node) bool {
			call, ok := nd.(*ast.CallExpr)
			if !ok || !isDecoder(calleeOf(info, call)) || len(call.Args) != 1 {
				return true
			}
			n++
			o := Obligation{Key: fmt.Sprintf("%s decodes token text #%d once", funcKey(fn), n), Pos: c.pos(call.Pos()), Verdict: OK, Detail: exprString(call.Fun) + " applied to undecoded text"}
			seen := map[types.Object]bool{}
			var decoded func(e ast.Expr, depth int) string
			decoded = func(e ast.Expr, depth int) string {
				res := ""
				ast.Inspect(e, func(m ast.Node) bool {
					switch x := m.(type) {
					case *ast.CallExpr:
						if isDecoder(calleeOf(info, x)) {
							res = exprString(x.Fun)
							return false
						}
					case *ast.Ident:
						if obj := info.Uses[x]; obj != nil && !seen[obj] && depth < 4 && res == "" {
							seen[obj] = true
							for _, d := range defs[obj] {
								if d.Pos() < call.Pos() {
									if r := decoded(d, depth+1); r != "" && res == "" {
										res = r
									}
								}
							}
						}
					}
					return res == ""
				})
				return res
			}
			if inner := decoded(call.Args[0], 0); inner != "" {
				o.Verdict = VIOL
				o.Detail = fmt.Sprintf("%s is applied to a value that %s has already decoded: the second pass reads a literal backslash followed by two hex digits (which the first pass produced from \\\\5C) as one byte, so names such as a\\\\41 and aA decode alike and the printed name is not read back to its bytes", exprString(call.Fun), inner)
			}
			obs = append(obs, o)
			return true
		})
	})
	return obs
}

func ruleENCREFMT(c *Ctx) []Obligation {
	var obs []Obligation
	c.eachFunc(pkgENC, func(p *packages.Package, fd *ast.FuncDecl, fn *types.Func) {
		info := p.TypesInfo
		sig := fn.Type().(*types.Signature)
		if sig.Recv() != nil || !strings.HasSuffix(fn.Name(), "Name") || sig.Params().Len() != 1 || !isPlainString(sig.Params().At(0).Type()) {
			return
		}
		defs := collectDefs(info, fd.Body)
		o := Obligation{Key: funcKey(fn) + " spells the name itself", Pos: c.pos(fd.Pos()), Verdict: OK, Detail: "no number parsed out of the name is formatted back into the spelling"}
		// variables holding a number parsed from the name
		parsed := map[types.Object]bool{}
		ast.Inspect(fd.Body, func(n ast.Node) bool {
			as, ok := n.(*ast.AssignStmt)
			if !ok || len(as.Rhs) != 1 {
				return true
			}
			call, ok := unparen(as.Rhs[0]).(*ast.CallExpr)
			if !ok {
				return true
			}
			if f := calleeOf(info, call); f != nil && f.Pkg() != nil && f.Pkg().Path() == "strconv" && (strings.HasPrefix(f.Name(), "Parse") || f.Name() == "Atoi") {
				if id, ok := as.Lhs[0].(*ast.Ident); ok && id.Name != "_" {
					parsed[info.ObjectOf(id)] = true
				}
			}
			return true
		})
		_ = defs
		ast.Inspect(fd.Body, func(n ast.Node) bool {
			call, ok := n.(*ast.CallExpr)
			if !ok {
				return true
			}
			f := calleeOf(info, call)
			if f == nil || f.Pkg() == nil {
				return true
			}
			isFmt := f.Pkg().Path() == "strconv" && (strings.HasPrefix(f.Name(), "Format") || f.Name() == "Itoa") || f.Pkg().Path() == "fmt" && strings.HasPrefix(f.Name(), "Sprint")
			if !isFmt {
				return true
			}
			for _, a := range call.Args {
				ast.Inspect(a, func(m ast.Node) bool {
					if id, ok := m.(*ast.Ident); ok && parsed[info.Uses[id]] && o.Verdict == OK {
						o.Verdict, o.Pos = VIOL, c.pos(call.Pos())
						o.Detail = fmt.Sprintf("%s formats %s, a number parsed out of the name, into the spelling: leading zeros and a sign are lost, so distinct names (07 and 7) are printed alike and one of them is read back as the other", exprString(call.Fun), id.Name)
					}
					return true
				})
			}
			return true
		})
		obs = append(obs, o)
	})
	return obs
}

func ruleENUMIDX(c *Ctx) []Obligation {
	var obs []Obligation
	// package-level variable → initialiser, across the module's packages
	type varInit struct {
		e    ast.Expr
		info *types.Info
	}
	inits := map[types.Object]varInit{}
	for _, p := range c.llvmPkgs() {
		for _, f := range p.Syntax {
			for _, d := range f.Decls {
				gd, ok := d.(*ast.GenDecl)
				if !ok || gd.Tok != token.VAR {
					continue
				}
				for _, sp := range gd.Specs {
					vs := sp.(*ast.ValueSpec)
					for i, nm := range vs.Names {
						if i < len(vs.Values) {
							inits[p.TypesInfo.Defs[nm]] = varInit{vs.Values[i], p.TypesInfo}
						}
					}
				}
			}
		}
	}
	for _, p := range c.llvmPkgs() {
		c.eachFunc(p.PkgPath, func(p *packages.Package, fd *ast.FuncDecl, fn *types.Func) {
			info := p.TypesInfo
			n := 0
			ast.Inspect(fd.Body, func(nd ast.Node) bool {
				ix, ok := nd.(*ast.IndexExpr)
				if !ok {
					return true
				}
				et := namedOf(info.TypeOf(ix.Index))
				if et == nil || !c.isLLVM(et.Obj().Pkg().Path()) {
					return true
				}
				if b, ok := et.Underlying().(*types.Basic); !ok || b.Info()&types.IsInteger == 0 {
					return true
				}
				tid, ok := unparen(ix.X).(*ast.Ident)
				if !ok {
					return true
				}
				vi, ok := inits[info.ObjectOf(tid)]
				if !ok {
					return true
				}
				cl, ok := unparen(vi.e).(*ast.CompositeLit)
				if !ok {
					return true
				}
				switch vi.info.TypeOf(cl).Underlying().(type) {
				case *types.Array, *types.Slice:
				default:
					return true
				}
				n++
				o := Obligation{Key: fmt.Sprintf("%s: table %s indexed by %s #%d lists its rows in the enum's order", funcKey(fn), tid.Name, typeKey(et), n), Pos: c.pos(ix.Pos()), Verdict: OK}
				checked := 0
				for i, el := range cl.Elts {
					if _, keyed := el.(*ast.KeyValueExpr); keyed {
						return true // keyed rows state their position
					}
					// the element: a package-level variable initialised with (&)T{… F: const …}, F of the enum type
					eid, ok := unparen(el).(*ast.Ident)
					if !ok {
						if se, ok := unparen(el).(*ast.SelectorExpr); ok {
							eid = se.Sel
						} else {
							continue
						}
					}
					ei, ok := inits[vi.info.ObjectOf(eid)]
					if !ok {
						continue
					}
					ee := unparen(ei.e)
					if u, ok := ee.(*ast.UnaryExpr); ok && u.Op == token.AND {
						ee = unparen(u.X)
					}
					ecl, ok := ee.(*ast.CompositeLit)
					if !ok {
						continue
					}
					for _, fel := range ecl.Elts {
						kv, ok := fel.(*ast.KeyValueExpr)
						if !ok {
							continue
						}
						if ft := namedOf(ei.info.TypeOf(kv.Value)); ft == nil || ft != et {
							continue
						}
						v := ei.info.Types[kv.Value].Value
						if v == nil {
							continue
						}
						checked++
						if got, _ := constant.Int64Val(constant.ToInt(v)); got != int64(i) && o.Verdict == OK {
							o.Verdict, o.Pos = VIOL, c.pos(el.Pos())
							o.Detail = fmt.Sprintf("row %d of %s is %s, whose %s is %s = %d: the table is indexed by the enum value, so the member numbered %d gets the object of the member numbered %d", i, tid.Name, exprString(el), exprString(kv.Key), exprString(kv.Value), got, i, got)
						}
					}
				}
				if checked == 0 {
					return true // rows do not state their own enum value: not decided
				}
				if o.Verdict == OK {
					o.Detail = fmt.Sprintf("%d row(s) carry the enum value of their position", checked)
				}
				obs = append(obs, o)
				return true
			})
		})
	}
	// a rule that usually has no instance: one positive self-check keeps it from passing vacuously
	obs = append(obs, Obligation{Key: "positional tables indexed by enum values examined", Verdict: OK, Detail: fmt.Sprintf("%d table use(s) with self-describing rows", len(obs))})
	return obs
}

func ruleMDSTR(c *Ctx) []Obligation {
	var obs []Obligation
	for _, n := range c.mdNodeTypes() {
		str := declaredMethodOf(n, "String")
		id := declaredMethodOf(n, "Ident")
		fd := c.funcDecl(str)
		if str == nil || id == nil || fd == nil || fd.Body == nil {
			continue
		}
		info := c.declPkg[fd].TypesInfo
		o := Obligation{Key: typeKey(n) + ".String returns Ident()", Pos: c.pos(fd.Pos()), Verdict: OK, Tags: []string{"md"}, Detail: "every return is the result of Ident()"}
		ast.Inspect(fd.Body, func(m ast.Node) bool {
			r, ok := m.(*ast.ReturnStmt)
			if !ok || len(r.Results) != 1 || o.Verdict != OK {
				return true
			}
			e := unparen(r.Results[0])
			if tv := info.Types[e]; tv.Value != nil {
				return true // a constant (`null` for a nil receiver)
			}
			if call, ok := e.(*ast.CallExpr); ok {
				if f := calleeOf(info, call); f != nil && f.Name() == "Ident" {
					return true
				}
			}
			o.Verdict, o.Pos = VIOL, c.pos(r.Pos())
			o.Detail = fmt.Sprintf("String() returns %s instead of Ident(): tuples, typed fields of other nodes and `metadata` operands print their members through String(), so a numbered node is written inline at every use — the use no longer names its definition, and a re-parse builds a separate node", exprString(e))
			return true
		})
		obs = append(obs, o)
	}
	return obs
}

func ruleSUCCSRC(c *Ctx) []Obligation {
	var obs []Obligation
	pir := c.pkg(pkgIR)
	info := pir.TypesInfo
	c.eachFunc(pkgIR, func(p *packages.Package, fd *ast.FuncDecl, fn *types.Func) {
		if fn.Name() != "Succs" || fd.Recv == nil {
			return
		}
		o := Obligation{Key: funcKey(fn) + " does not derive successors from the operand list", Pos: c.pos(fd.Pos()), Verdict: OK, Detail: "computed from the target fields"}
		seen := map[*types.Func]bool{fn: true}
		var walk func(body ast.Node, depth int)
		walk = func(body ast.Node, depth int) {
			ast.Inspect(body, func(m ast.Node) bool {
				call, ok := m.(*ast.CallExpr)
				if !ok || o.Verdict != OK {
					return true
				}
				f := calleeOf(info, call)
				if f == nil || f.Pkg() == nil || f.Pkg().Path() != pkgIR {
					return true
				}
				if f.Name() == "Operands" {
					o.Verdict, o.Pos = VIOL, c.pos(call.Pos())
					o.Detail = "the successors are taken from Operands(): the operand list of invoke / callbr also holds arguments and operand-bundle inputs, and a block passed as an argument (`label %bb`) is then reported as a successor"
					return true
				}
				if hfd := c.funcDecl(f); hfd != nil && hfd.Body != nil && !seen[f] && depth < 2 {
					seen[f] = true
					walk(hfd.Body, depth+1)
				}
				return true
			})
		}
		walk(fd.Body, 0)
		obs = append(obs, o)
	})
	return obs
}

func ruleLITINTERR(c *Ctx) []Obligation {
	fn := c.lookupFunc(pkgCONS, "NewIntFromString")
	fd := c.funcDecl(fn)
	if fd == nil || fd.Body == nil {
		return []Obligation{{Key: "constant.NewIntFromString", Verdict: UNDECIDED, Detail: "function not found"}}
	}
	info := c.declPkg[fd].TypesInfo
	pm := buildParents(fd.Body)
	o := Obligation{Key: "constant.NewIntFromString fails only for text it cannot read", Pos: c.pos(fd.Pos()), Verdict: OK, Tags: []string{"gep"}}
	nerr := 0
	ast.Inspect(fd.Body, func(n ast.Node) bool {
		r, ok := n.(*ast.ReturnStmt)
		if !ok || !returnsError(info, []ast.Stmt{r}) {
			return true
		}
		nerr++
		// the innermost enclosing condition: a failed parse (`!ok`, `x == nil`, `err != nil`, a
		// `default:` of the switch over the text)
		good := false
		for q := pm[r]; q != nil; q = pm[q] {
			switch x := q.(type) {
			case *ast.IfStmt:
				cond := strings.ReplaceAll(exprString(x.Cond), " ", "")
				if strings.HasPrefix(cond, "!") && !strings.Contains(cond, "(") || strings.HasSuffix(cond, "==nil") || strings.HasSuffix(cond, "!=nil") {
					good = true
				}
				// the keyword arm written as a comparison of the text with a keyword (s == "true" || …)
				if x.Body.Pos() <= r.Pos() && r.End() <= x.Body.End() {
					ast.Inspect(x.Cond, func(m ast.Node) bool {
						if be, ok := m.(*ast.BinaryExpr); ok && be.Op == token.EQL {
							for _, side := range []ast.Expr{be.X, be.Y} {
								if tv := info.Types[side]; tv.Value != nil && tv.Value.Kind() == constant.String {
									good = true
								}
							}
						}
						return true
					})
				}
			case *ast.CaseClause:
				if x.List == nil {
					good = true
				}
				// an arm of the keyword switch (`true` / `false` written with a type other than
				// i1): not a form an integer-literal token has
				for _, e := range x.List {
					if tv := info.Types[e]; tv.Value != nil && tv.Value.Kind() == constant.String {
						good = true
					}
				}
			}
		}
		if !good && o.Verdict == OK {
			o.Verdict, o.Pos = VIOL, c.pos(r.Pos())
			o.Detail = "this error return does not sit under a failed parse of the text: the literal was read and is rejected for its value or its type — the parser's gep index classification translates index literals with a dummy i64 and turns this error into a panic, so a valid index wider than the dummy type crashes the parser (and integer literals LLVM truncates are refused)"
		}
		return true
	})
	if o.Verdict == OK {
		o.Detail = fmt.Sprintf("%d error return(s), each under a failed parse", nerr)
	}
	return []Obligation{o}
}

// lenGuarded: inside fd, the expression e (which indexes byte 0 of the string obj) is the right
// operand of an `&&` whose left operand tests that obj is non-empty, or lies after a top-level
// `if len(obj) == 0 { return … }`.
func lenGuarded(info *types.Info, fd *ast.FuncDecl, e ast.Expr, obj types.Object) bool {
	nonEmpty := func(c ast.Expr) bool {
		s := strings.ReplaceAll(exprString(c), " ", "")
		n := obj.Name()
		for _, pat := range []string{"len(" + n + ")>0", "len(" + n + ")!=0", "len(" + n + ")>=1", n + `!=""`, "0<len(" + n + ")"} {
			if strings.Contains(s, pat) {
				return true
			}
		}
		return false
	}
	pm := buildParents(fd.Body)
	var child ast.Node = e
	for q := pm[e]; q != nil; child, q = q, pm[q] {
		if be, ok := q.(*ast.BinaryExpr); ok && be.Op == token.LAND && be.Y == child && nonEmpty(be.X) {
			return true
		}
		if is, ok := q.(*ast.IfStmt); ok && is.Body == child && nonEmpty(is.Cond) {
			return true
		}
	}
	for _, st := range fd.Body.List {
		if st.Pos() > e.Pos() {
			break
		}
		if is, ok := st.(*ast.IfStmt); ok && is.Else == nil && len(is.Body.List) > 0 {
			if _, isRet := is.Body.List[len(is.Body.List)-1].(*ast.ReturnStmt); isRet {
				s := strings.ReplaceAll(exprString(is.Cond), " ", "")
				n := obj.Name()
				if strings.Contains(s, "len("+n+")==0") || strings.Contains(s, n+`==""`) || strings.Contains(s, "len("+n+")<1") {
					return true
				}
			}
		}
	}
	return false
}

// helperCallGuarded: every call in fd of the helper hfd that is handed param is the right
// operand of `len(param) > 0 && …` (or otherwise length-guarded).
func helperCallGuarded(info *types.Info, fd, hfd *ast.FuncDecl, param types.Object) bool {
	calls, guarded := 0, 0
	ast.Inspect(fd.Body, func(n ast.Node) bool {
		call, ok := n.(*ast.CallExpr)
		if !ok {
			return true
		}
		f := calleeOf(info, call)
		if f == nil || info.Defs[hfd.Name] != types.Object(f) {
			return true
		}
		calls++
		if lenGuarded(info, fd, call, param) {
			guarded++
		}
		return true
	})
	return calls > 0 && calls == guarded
}

// ---------------------------------------------------------------------------
// GEP-ALL

func init() {
	register(&Rule{
		Name:  "GEP-ALL",
		Doc:   "the shared gep type walk examines every index of a non-empty index list: in the function of internal/gep that ranges over its []Index parameter, no return ahead of that loop is taken when the list has one or more entries (its guard, evaluated for list lengths 1, 2 and 3, is false) — a shortcut for short lists skips the index whose vector length decides whether the result is a vector of pointers",
		Floor: 1,
		Run:   ruleGEPALL,
	})
}

func ruleGEPALL(c *Ctx) []Obligation {
	var obs []Obligation
	c.eachFunc(pkgGEP, func(p *packages.Package, fd *ast.FuncDecl, fn *types.Func) {
		info := p.TypesInfo
		// the []Index parameter
		var idx types.Object
		for _, fl := range fd.Type.Params.List {
			for _, nm := range fl.Names {
				if sl, ok := info.TypeOf(fl.Type).Underlying().(*types.Slice); ok && isNamed(sl.Elem(), pkgGEP, "Index") {
					idx = info.Defs[nm]
				}
			}
		}
		if idx == nil {
			return
		}
		var loop *ast.RangeStmt
		ast.Inspect(fd.Body, func(n ast.Node) bool {
			if rs, ok := n.(*ast.RangeStmt); ok && loop == nil {
				if id, ok := unparen(rs.X).(*ast.Ident); ok && info.ObjectOf(id) == idx {
					loop = rs
				}
			}
			return true
		})
		if loop == nil {
			return
		}
		o := Obligation{Key: funcKey(fn) + " examines every index of a non-empty list", Pos: c.pos(loop.Pos()), Verdict: OK, Tags: []string{"gep"}, Detail: "no return ahead of the loop over the indices is taken for a list of length ≥ 1"}
		pm := buildParents(fd.Body)
		lenS := "len(" + idx.Name() + ")"
		var eval func(e ast.Expr, n int64) (bool, bool)
		eval = func(e ast.Expr, n int64) (val bool, ok bool) {
			e = unparen(e)
			be, isBin := e.(*ast.BinaryExpr)
			if !isBin {
				return false, false
			}
			switch be.Op {
			case token.LAND, token.LOR:
				a, ok1 := eval(be.X, n)
				b, ok2 := eval(be.Y, n)
				if !ok1 || !ok2 {
					return false, false
				}
				if be.Op == token.LAND {
					return a && b, true
				}
				return a || b, true
			}
			side := func(x ast.Expr) (constant.Value, bool) {
				if strings.ReplaceAll(exprString(x), " ", "") == lenS {
					return constant.MakeInt64(n), true
				}
				if tv := info.Types[x]; tv.Value != nil && tv.Value.Kind() == constant.Int {
					return tv.Value, true
				}
				return nil, false
			}
			a, ok1 := side(be.X)
			b, ok2 := side(be.Y)
			if !ok1 || !ok2 {
				return false, false
			}
			switch be.Op {
			case token.EQL, token.NEQ, token.LSS, token.LEQ, token.GTR, token.GEQ:
				return constant.Compare(a, be.Op, b), true
			}
			return false, false
		}
		ast.Inspect(fd.Body, func(n ast.Node) bool {
			r, ok := n.(*ast.ReturnStmt)
			if !ok || r.Pos() > loop.Pos() || o.Verdict != OK {
				return true
			}
			// the innermost if whose body holds the return
			for q := pm[r]; q != nil; q = pm[q] {
				is, ok := q.(*ast.IfStmt)
				if !ok || !(is.Body.Pos() <= r.Pos() && r.End() <= is.Body.End()) {
					continue
				}
				if !strings.Contains(strings.ReplaceAll(exprString(is.Cond), " ", ""), lenS) {
					break // a test of something else (the source type, an error): not a shortcut on the length
				}
				for _, k := range []int64{1, 2, 3} {
					if v, ok := eval(is.Cond, k); ok && v {
						o.Verdict, o.Pos = VIOL, c.pos(r.Pos())
						o.Detail = fmt.Sprintf("`if %s` returns ahead of the loop over the indices for a list of %d index(es): that index is never examined, so a vector index (`getelementptr i32, i32* %%p, <4 x i64> %%i`) yields a scalar pointer type in the parser, the instruction and the constant expression alike", exprString(is.Cond), k)
						break
					}
				}
				break
			}
			return true
		})
		obs = append(obs, o)
	})
	return obs
}

// ---------------------------------------------------------------------------
// ENC-KEY

func init() {
	register(&Rule{
		Name:  "ENC-KEY",
		Doc:   "package asm never uses the display name of an identifier as data: Name() of ir.LocalIdent / ir.GlobalIdent returns an all-digit name in quotes and re-formatted (`\"42\"`, and `\"7\"` for 007) so that it can be told from an ID, whereas definitions are looked up by the decoded name — a definition indexed, or an implicit comdat resolved, under Name() is not found by its uses (or collides with another name); outside error messages the raw name fields or the decoded identifier are used",
		Floor: 1,
		Run:   ruleENCKEY,
	})
}

func ruleENCKEY(c *Ctx) []Obligation {
	var obs []Obligation
	nfn := 0
	c.eachFunc(pkgASM, func(p *packages.Package, fd *ast.FuncDecl, fn *types.Func) {
		nfn++
		info := p.TypesInfo
		pm := buildParents(fd.Body)
		n := 0
		ast.Inspect(fd.Body, func(nd ast.Node) bool {
			call, ok := nd.(*ast.CallExpr)
			if !ok || len(call.Args) != 0 {
				return true
			}
			se, ok := unparen(call.Fun).(*ast.SelectorExpr)
			if !ok || se.Sel.Name != "Name" {
				return true
			}
			m, ok := info.Uses[se.Sel].(*types.Func)
			if !ok {
				return true
			}
			r := m.Type().(*types.Signature).Recv()
			if r == nil {
				return true
			}
			isIdent := isNamed(r.Type(), pkgIR, "LocalIdent") || isNamed(r.Type(), pkgIR, "GlobalIdent")
			// … or through an interface of the IR packages (value.Named, the parser's `local`)
			if rn := namedOf(r.Type()); !isIdent && rn != nil && types.IsInterface(rn) && (isIRPkg(rn.Obj().Pkg().Path()) || rn.Obj().Pkg().Path() == pkgASM) {
				isIdent = true
			}
			if !isIdent && types.IsInterface(info.TypeOf(se.X)) {
				if xn := namedOf(info.TypeOf(se.X)); xn != nil && (isIRPkg(xn.Obj().Pkg().Path()) || xn.Obj().Pkg().Path() == pkgASM) {
					isIdent = true
				}
			}
			if !isIdent {
				return true
			}
			// inside a diagnostic?
			for q := pm[call]; q != nil; q = pm[q] {
				if pc, ok := q.(*ast.CallExpr); ok {
					if id, ok := pc.Fun.(*ast.Ident); ok && id.Name == "panic" {
						return true
					}
					if f := calleeOf(info, pc); f != nil {
						if f.Pkg() != nil && (f.Pkg().Path() == "fmt" || strings.HasSuffix(f.Pkg().Path(), "/errors")) {
							return true
						}
						if rs := f.Type().(*types.Signature).Results(); rs.Len() == 1 && isErrorType(rs.At(0).Type()) {
							return true
						}
					}
				}
			}
			n++
			obs = append(obs, Obligation{Key: fmt.Sprintf("%s uses the display name of an identifier as data #%d", funcKey(fn), n), Pos: c.pos(call.Pos()), Verdict: VIOL,
				Detail: fmt.Sprintf("%s is the display form of the name — an all-digit name comes back in quotes and re-formatted (`\"42\"`; `\"7\"` for 007) — and is used here as a key or a lookup name: uses are decoded to the raw name, so `%%\"42\" = add …` followed by a use of %%\"42\" is rejected as undefined, %%\"007\" and %%\"7\" collide, and a bare `comdat` on @\"42\" is not resolved", exprString(call))})
			return true
		})
	})
	obs = append(obs, Obligation{Key: "package asm: display names of identifiers are used in diagnostics only", Verdict: OK, Detail: fmt.Sprintf("%d functions examined", nfn)})
	return obs
}

// ---------------------------------------------------------------------------
// DECL-EXT

func init() {
	register(&Rule{
		Name:  "DECL-EXT",
		Doc:   "the printer of a global variable writes an external linkage keyword for the declaration form: in (*ir.Global).LLString, when no linkage is set (the constructors leave LinkageNone) and the global has no initialiser, a branch guarded by `Init == nil` writes enum.LinkageExternal — LLVM's grammar has no global declaration without `external` / `extern_weak`, so `@g = global i32` does not parse",
		Floor: 1,
		Run:   ruleDECLEXT,
	})
}

func ruleDECLEXT(c *Ctx) []Obligation {
	fn := c.lookupFunc(pkgIR, "Global.LLString")
	fd := c.funcDecl(fn)
	if fd == nil || fd.Body == nil {
		return []Obligation{{Key: "ir.(*Global).LLString", Verdict: UNDECIDED, Detail: "printer not found"}}
	}
	pfd, _ := c.printerDecl(fn)
	if pfd != nil {
		fd = pfd
	}
	info := c.declPkg[fd].TypesInfo
	o := Obligation{Key: "ir.(*Global).LLString writes an external linkage for a declaration without linkage", Pos: c.pos(fd.Pos()), Verdict: VIOL,
		Detail: "no branch guarded by `Init == nil` writes the external linkage keyword: a declaration built through the API (ir.NewGlobal, Module.NewGlobal leave Linkage at its zero value) prints as `@g = global i32`, which neither LLVM nor this library's parser accepts"}
	var scan func(body ast.Node, depth int)
	seen := map[*ast.FuncDecl]bool{fd: true}
	scan = func(body ast.Node, depth int) {
		ast.Inspect(body, func(n ast.Node) bool {
			switch x := n.(type) {
			case *ast.IfStmt:
				cond := strings.ReplaceAll(exprString(x.Cond), " ", "")
				if strings.Contains(cond, "Init==nil") {
					writes := false
					ast.Inspect(x.Body, func(m ast.Node) bool {
						if se, ok := m.(*ast.SelectorExpr); ok && se.Sel.Name == "LinkageExternal" {
							writes = true
						}
						if lit, ok := m.(*ast.BasicLit); ok && strings.Contains(lit.Value, "external") {
							writes = true
						}
						return true
					})
					if writes {
						o.Verdict, o.Pos = OK, c.pos(x.Pos())
						o.Detail = "`" + exprString(x.Cond) + "` → writes the external linkage keyword"
					}
				}
			case *ast.CallExpr:
				if f := calleeOf(info, x); f != nil && f.Pkg() != nil && f.Pkg().Path() == pkgIR && depth < 2 {
					if hfd := c.funcDecl(f); hfd != nil && hfd.Body != nil && !seen[hfd] {
						seen[hfd] = true
						scan(hfd.Body, depth+1)
					}
				}
			}
			return true
		})
	}
	scan(fd.Body, 0)
	return []Obligation{o}
}

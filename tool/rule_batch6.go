package main

import (
	"fmt"
	"go/ast"
	"go/token"
	"go/types"
	"strings"

	"golang.org/x/tools/go/packages"
)

// Rules added after seeded batch 6: LIST-1TO1, FILL-ORDER, CTOR-ID.

func init() {
	register(&Rule{
		Name:  "LIST-1TO1",
		Doc:   "a loop of package asm that translates a list of AST nodes into a list of IR objects (it ranges over a slice of llir/ll ast nodes and stores into a slice of another element type, by index or by append) stores exactly one element per iteration unless it leaves the function: the store is at the top level of the loop body (or in every arm of a top-level switch) and no continue / break of that loop precedes it — a skipped, merged or de-duplicated element is something the input said that the module no longer says",
		Floor: 30,
		Run:   ruleLIST1TO1,
	})
}

// isASTElem: a type of the llir/ll ast package (node struct, pointer to it, or node interface).
func isASTElem(t types.Type) bool {
	if p, ok := t.(*types.Pointer); ok {
		t = p.Elem()
	}
	n, ok := t.(*types.Named)
	return ok && n.Obj().Pkg() != nil && n.Obj().Pkg().Path() == pkgAST
}

func ruleLIST1TO1(c *Ctx) []Obligation {
	var obs []Obligation
	c.eachFunc(pkgASM, func(p *packages.Package, fd *ast.FuncDecl, fn *types.Func) {
		info := p.TypesInfo
		n := 0
		ast.Inspect(fd.Body, func(nd ast.Node) bool {
			rs, ok := nd.(*ast.RangeStmt)
			if !ok {
				return true
			}
			sl, ok := info.TypeOf(rs.X).Underlying().(*types.Slice)
			if !ok || !isASTElem(sl.Elem()) {
				return true
			}
			// stores into a slice of non-AST elements: xs[i] = v, xs = append(xs, v…)
			isStore := func(st ast.Stmt) (string, bool) {
				as, ok := st.(*ast.AssignStmt)
				if !ok || len(as.Lhs) != 1 || len(as.Rhs) != 1 {
					return "", false
				}
				if ix, ok := unparen(as.Lhs[0]).(*ast.IndexExpr); ok {
					if s2, ok := info.TypeOf(ix.X).Underlying().(*types.Slice); ok && !isASTElem(s2.Elem()) {
						return exprString(ix.X), true
					}
				}
				if call, ok := unparen(as.Rhs[0]).(*ast.CallExpr); ok && exprString(call.Fun) == "append" && len(call.Args) >= 2 && call.Ellipsis == token.NoPos {
					if exprString(call.Args[0]) == exprString(as.Lhs[0]) {
						if s2, ok := info.TypeOf(as.Lhs[0]).Underlying().(*types.Slice); ok && !isASTElem(s2.Elem()) {
							return exprString(as.Lhs[0]), true
						}
					}
				}
				return "", false
			}
			// does the list contain a store at its own level, or in every arm of a switch at its level?
			var storesAlways func(list []ast.Stmt) (string, bool)
			leaves := func(list []ast.Stmt) bool {
				return returnsError(info, list) || endsInPanic(list) || (len(list) > 0 && isReturn(list[len(list)-1]))
			}
			storesAlways = func(list []ast.Stmt) (string, bool) {
				for _, st := range list {
					if dst, ok := isStore(st); ok {
						return dst, true
					}
					var arms [][]ast.Stmt
					hasDefault := false
					switch x := st.(type) {
					case *ast.SwitchStmt:
						for _, cc := range x.Body.List {
							cl := cc.(*ast.CaseClause)
							arms = append(arms, cl.Body)
							hasDefault = hasDefault || cl.List == nil
						}
					case *ast.TypeSwitchStmt:
						for _, cc := range x.Body.List {
							cl := cc.(*ast.CaseClause)
							arms = append(arms, cl.Body)
							hasDefault = hasDefault || cl.List == nil
						}
					case *ast.IfStmt:
						if x.Else != nil {
							arms = append(arms, x.Body.List)
							switch e := x.Else.(type) {
							case *ast.BlockStmt:
								arms = append(arms, e.List)
								hasDefault = true
							case *ast.IfStmt:
								arms = append(arms, []ast.Stmt{e})
								hasDefault = true
							}
						}
					}
					if len(arms) > 0 && hasDefault {
						dst, all := "", true
						for _, a := range arms {
							if d, ok := storesAlways(a); ok {
								dst = d
							} else if !leaves(a) {
								all = false
							}
						}
						if all && dst != "" {
							return dst, true
						}
					}
				}
				return "", false
			}
			// any store at all (at any depth, outside nested loops and closures)?
			anyStore, anyDst := token.NoPos, ""
			var skipPos token.Pos
			var walk func(n ast.Node, inSwitch bool)
			walk = func(n ast.Node, inSwitch bool) {
				ast.Inspect(n, func(m ast.Node) bool {
					switch x := m.(type) {
					case *ast.FuncLit:
						return false
					case *ast.RangeStmt, *ast.ForStmt:
						if m != ast.Node(rs) {
							return false
						}
					case *ast.SwitchStmt, *ast.TypeSwitchStmt, *ast.SelectStmt:
						if !inSwitch {
							walk2 := m
							ast.Inspect(walk2, func(k ast.Node) bool {
								if k == walk2 {
									return true
								}
								return true
							})
						}
					case *ast.BranchStmt:
						if x.Label == nil && (x.Tok == token.CONTINUE) && skipPos == token.NoPos {
							skipPos = x.Pos()
						}
					case ast.Stmt:
						if dst, ok := isStore(x); ok && anyStore == token.NoPos {
							anyStore, anyDst = x.Pos(), dst
						}
					}
					return true
				})
			}
			walk(rs.Body, false)
			// an unlabelled break that belongs to this loop (not to a switch / select inside it)
			var findBreak func(list []ast.Stmt)
			findBreak = func(list []ast.Stmt) {
				for _, st := range list {
					switch x := st.(type) {
					case *ast.BranchStmt:
						if x.Tok == token.BREAK && x.Label == nil && skipPos == token.NoPos {
							skipPos = x.Pos()
						}
					case *ast.IfStmt:
						findBreak(x.Body.List)
						if e, ok := x.Else.(*ast.BlockStmt); ok {
							findBreak(e.List)
						} else if e, ok := x.Else.(*ast.IfStmt); ok {
							findBreak([]ast.Stmt{e})
						}
					case *ast.BlockStmt:
						findBreak(x.List)
					}
				}
			}
			findBreak(rs.Body.List)
			if anyStore == token.NoPos {
				return true // not a list translation
			}
			// a distribution loop — a type switch over the element at the top level of the body, with
			// alternatives that go elsewhere (top-level entities, `key: value` fields, function
			// header fields) — is not a list translation: the coverage rules hold it to account
			distribution := false
			for _, st := range rs.Body.List {
				ts, ok := st.(*ast.TypeSwitchStmt)
				if !ok {
					continue
				}
				arms, storing := 0, 0
				for _, cc := range ts.Body.List {
					cl := cc.(*ast.CaseClause)
					if cl.List == nil {
						continue
					}
					arms++
					has := false
					for _, b := range cl.Body {
						ast.Inspect(b, func(m ast.Node) bool {
							if bs, ok := m.(ast.Stmt); ok {
								if d, ok := isStore(bs); ok && d == anyDst {
									has = true
								}
							}
							return true
						})
					}
					if has {
						storing++
					}
				}
				if arms >= 2 && storing < arms {
					distribution = true
				}
			}
			if distribution {
				return true
			}
			n++
			o := Obligation{Key: fmt.Sprintf("%s translates list #%d (%s → %s) one element per element", funcKey(fn), n, strings.TrimSpace(exprString(rs.X)), anyDst), Pos: c.pos(rs.Pos()), Verdict: OK, Tags: asmTags(fn.Name(), typeKey(sl.Elem()))}
			dst, always := storesAlways(rs.Body.List)
			// set-valued lists (attributes, flags): a duplicate means what one occurrence means, and
			// dropping it through an exact membership set — a map keyed by the element or by its
			// text, consulted in the guard of the continue — loses nothing
			setLike := ""
			if skipPos != token.NoPos {
				if dt, ok := info.TypeOf(mustParseExprIn(rs.Body, anyDst, info)).(*types.Slice); ok {
					if en := namedOf(dt.Elem()); en != nil && (strings.Contains(en.Obj().Name(), "Attribute") || strings.Contains(en.Obj().Name(), "Flag")) {
						pm := buildParents(rs.Body)
						ast.Inspect(rs.Body, func(m ast.Node) bool {
							br, ok := m.(*ast.BranchStmt)
							if !ok || br.Pos() != skipPos {
								return true
							}
							for q := pm[br]; q != nil; q = pm[q] {
								if is, ok := q.(*ast.IfStmt); ok {
									if ix, ok := unparen(is.Cond).(*ast.IndexExpr); ok {
										if _, isMap := info.TypeOf(ix.X).Underlying().(*types.Map); isMap {
											setLike = fmt.Sprintf("duplicates of a set-valued list (%s) are dropped through the membership map %s", typeKey(en), exprString(ix.X))
										}
									}
									break
								}
							}
							return true
						})
					}
				}
			}
			switch {
			case setLike != "":
				o.Verdict, o.Detail = EXEMPT, setLike
			case skipPos != token.NoPos:
				o.Verdict, o.Pos = VIOL, c.pos(skipPos)
				o.Detail = fmt.Sprintf("an iteration can end (continue / break at %s) without storing its element into %s: an element of the input list is skipped, merged or de-duplicated — what the input said about it is no longer in the module (or appears only for some spellings of the same input)", c.pos(skipPos), anyDst)
			case !always:
				o.Verdict, o.Pos = VIOL, c.pos(anyStore)
				o.Detail = fmt.Sprintf("the store into %s is conditional: it is not at the top level of the loop body (nor in every arm of a top-level switch), so some elements of the input list produce no element of the result", anyDst)
			default:
				o.Detail = "unconditional store into " + dst
			}
			obs = append(obs, o)
			return true
		})
	})
	return obs
}

func isReturn(st ast.Stmt) bool { _, ok := st.(*ast.ReturnStmt); return ok }

// mustParseExprIn finds, inside root, an expression whose text is s (the destination of a
// store found earlier) so that its type can be looked up.
func mustParseExprIn(root ast.Node, s string, info *types.Info) ast.Expr {
	var out ast.Expr
	ast.Inspect(root, func(m ast.Node) bool {
		if e, ok := m.(ast.Expr); ok && out == nil && exprString(e) == s {
			if _, isSlice := info.TypeOf(e).Underlying().(*types.Slice); isSlice {
				out = e
			}
		}
		return out == nil
	})
	if out == nil {
		return &ast.Ident{Name: "_"}
	}
	return out
}

// ---------------------------------------------------------------------------
// DEDUP-KEY

func init() {
	register(&Rule{
		Name:  "DEDUP-KEY",
		Doc:   "a de-duplication set of package asm (a map consulted in the guard of a `continue` and updated after the append) is keyed by the translated value, never by the source text of the AST node: one value has several spellings (`\"a\"=\"b\"` / `\"a\" = \"b\"`, `align 8` / `align = 8`), the printer writes one of them, so duplicates that survive the first parse are removed by the second and the printed text is not a fixpoint",
		Floor: 1,
		Run:   ruleDEDUPKEY,
	})
}

func ruleDEDUPKEY(c *Ctx) []Obligation {
	var obs []Obligation
	c.eachFunc(pkgASM, func(p *packages.Package, fd *ast.FuncDecl, fn *types.Func) {
		info := p.TypesInfo
		defs := collectDefs(info, fd.Body)
		n := 0
		ast.Inspect(fd.Body, func(nd ast.Node) bool {
			is, ok := nd.(*ast.IfStmt)
			if !ok || len(is.Body.List) == 0 {
				return true
			}
			br, ok := is.Body.List[len(is.Body.List)-1].(*ast.BranchStmt)
			if !ok || br.Tok != token.CONTINUE {
				return true
			}
			var ix *ast.IndexExpr
			ast.Inspect(is.Cond, func(m ast.Node) bool {
				if x, ok := m.(*ast.IndexExpr); ok && ix == nil {
					if _, isMap := info.TypeOf(x.X).Underlying().(*types.Map); isMap {
						ix = x
					}
				}
				return true
			})
			if ix == nil && is.Init != nil {
				ast.Inspect(is.Init, func(m ast.Node) bool {
					if x, ok := m.(*ast.IndexExpr); ok && ix == nil {
						if _, isMap := info.TypeOf(x.X).Underlying().(*types.Map); isMap {
							ix = x
						}
					}
					return true
				})
			}
			if ix == nil {
				return true
			}
			// the same map is updated in this function: a membership set, not an index of definitions
			setName := exprString(ix.X)
			updated := false
			ast.Inspect(fd.Body, func(m ast.Node) bool {
				if as, ok := m.(*ast.AssignStmt); ok {
					for _, l := range as.Lhs {
						if lx, ok := unparen(l).(*ast.IndexExpr); ok && exprString(lx.X) == setName {
							updated = true
						}
					}
				}
				return true
			})
			if !updated {
				return true
			}
			n++
			o := Obligation{Key: fmt.Sprintf("%s de-duplication set %s #%d is keyed by the translated value", funcKey(fn), setName, n), Pos: c.pos(is.Pos()), Verdict: OK, Detail: "key " + exprString(ix.Index)}
			// does the key derive from the raw text of an AST node?
			seen := map[types.Object]bool{}
			var fromText func(e ast.Expr, depth int) string
			fromText = func(e ast.Expr, depth int) string {
				res := ""
				ast.Inspect(e, func(m ast.Node) bool {
					switch x := m.(type) {
					case *ast.CallExpr:
						if se, ok := unparen(x.Fun).(*ast.SelectorExpr); ok && se.Sel.Name == "Text" && len(x.Args) == 0 {
							if f := calleeOf(info, x); f != nil && f.Pkg() != nil && f.Pkg().Path() == pkgAST {
								res = exprString(x)
							}
						}
					case *ast.Ident:
						if obj := info.Uses[x]; obj != nil && !seen[obj] && depth < 4 && res == "" {
							seen[obj] = true
							for _, d := range defs[obj] {
								if r := fromText(d, depth+1); r != "" && res == "" {
									res = r
								}
							}
						}
					}
					return res == ""
				})
				return res
			}
			if src := fromText(ix.Index, 0); src != "" {
				o.Verdict = VIOL
				o.Detail = fmt.Sprintf("the set is keyed by source text (%s): two spellings of one value both survive the first parse, the printer writes them alike, and the second parse keeps only one — parse(print(m)) differs from m", src)
			}
			obs = append(obs, o)
			return true
		})
	})
	return obs
}

// ---------------------------------------------------------------------------
// ENC-HEAD

func init() {
	register(&Rule{
		Name:  "ENC-HEAD",
		Doc:   "the identifier encoder that chooses between the bare and the quoted spelling (a function of internal/enc that can return its argument unchanged) tests the first byte separately: the test, evaluated over all 256 byte values, tells the decimal digits from the letters, and it feeds the decision that guards the bare return — unquoted, %1a is read as the unnamed ID %1 followed by a stray token, so a name with a leading digit must be quoted as LLVM's own printer does",
		Floor: 1,
		Run:   ruleENCHEAD,
	})
}

func ruleENCHEAD(c *Ctx) []Obligation {
	var obs []Obligation
	c.eachFunc(pkgENC, func(p *packages.Package, fd *ast.FuncDecl, fn *types.Func) {
		info := p.TypesInfo
		sig := fn.Type().(*types.Signature)
		if sig.Recv() != nil || sig.Params().Len() != 1 || sig.Results().Len() != 1 || !isPlainString(sig.Params().At(0).Type()) || !isPlainString(sig.Results().At(0).Type()) {
			return
		}
		var param types.Object
		if len(fd.Type.Params.List) == 1 && len(fd.Type.Params.List[0].Names) == 1 {
			param = info.Defs[fd.Type.Params.List[0].Names[0]]
		}
		if param == nil {
			return
		}
		// a bare path: `return s`
		var bare *ast.ReturnStmt
		ast.Inspect(fd.Body, func(n ast.Node) bool {
			if r, ok := n.(*ast.ReturnStmt); ok && len(r.Results) == 1 {
				if id, ok := unparen(r.Results[0]).(*ast.Ident); ok && info.ObjectOf(id) == param {
					bare = r
				}
			}
			return true
		})
		if bare == nil {
			return
		}
		o := Obligation{Key: funcKey(fn) + ": a name with a leading digit is not spelled bare", Pos: c.pos(bare.Pos()), Verdict: VIOL,
			Detail: "the function can return its argument unchanged and never examines the first byte on its own: a name such as `1a` or `7up` is printed as %1a / @7up, which the parser (and LLVM) read as the unnamed ID %1 / @7 followed by a stray token — the name is mistaken for an ID or the output does not parse"}
		// first-byte tests in fn (and in helpers of the package it hands the string to)
		type test struct {
			e    ast.Expr
			info *types.Info
			obj  types.Object
			in   *ast.FuncDecl
		}
		var tests []test
		var collect func(hfd *ast.FuncDecl, hinfo *types.Info, obj types.Object, depth int)
		collect = func(hfd *ast.FuncDecl, hinfo *types.Info, obj types.Object, depth int) {
			pm := buildParents(hfd.Body)
			isHead := func(e ast.Expr) bool {
				ix, ok := unparen(e).(*ast.IndexExpr)
				if !ok {
					return false
				}
				id, ok := unparen(ix.X).(*ast.Ident)
				if !ok || hinfo.ObjectOf(id) != obj {
					return false
				}
				tv := hinfo.Types[ix.Index]
				return tv.Value != nil && tv.Value.ExactString() == "0"
			}
			ast.Inspect(hfd.Body, func(n ast.Node) bool {
				switch x := n.(type) {
				case *ast.IndexExpr:
					if !isHead(x) {
						return true
					}
					// the largest enclosing expression that evaluates to a boolean over the head byte alone
					var best ast.Expr
					for q := ast.Node(x); q != nil; q = pm[q] {
						e, ok := q.(ast.Expr)
						if !ok {
							break
						}
						if tv, ok := hinfo.Types[e]; ok && tv.Type != nil {
							if b, ok := tv.Type.Underlying().(*types.Basic); ok && b.Info()&types.IsBoolean != 0 {
								if _, good := byteSet(hinfo, e, isHead); good {
									best = e
								}
							}
						}
					}
					if best != nil {
						tests = append(tests, test{best, hinfo, obj, hfd})
					}
				case *ast.CallExpr:
					if depth >= 1 {
						return true
					}
					f := calleeOf(hinfo, x)
					if f == nil || f.Pkg() == nil || f.Pkg().Path() != pkgENC || f == fn {
						return true
					}
					gfd := c.funcDecl(f)
					if gfd == nil || gfd.Body == nil {
						return true
					}
					fs := f.Type().(*types.Signature)
					for i, a := range x.Args {
						if id, ok := unparen(a).(*ast.Ident); ok && hinfo.ObjectOf(id) == obj && i < fs.Params().Len() {
							k := 0
							for _, fl := range gfd.Type.Params.List {
								for _, nm := range fl.Names {
									if k == i {
										collect(gfd, c.declPkg[gfd].TypesInfo, c.declPkg[gfd].TypesInfo.Defs[nm], depth+1)
									}
									k++
								}
							}
						}
					}
				}
				return true
			})
		}
		collect(fd, info, param, 0)
		for _, t := range tests {
			isHead := func(e ast.Expr) bool {
				ix, ok := unparen(e).(*ast.IndexExpr)
				if !ok {
					return false
				}
				id, ok := unparen(ix.X).(*ast.Ident)
				return ok && t.info.ObjectOf(id) == t.obj
			}
			set, ok := byteSet(t.info, t.e, isHead)
			if !ok {
				continue
			}
			digits := set['0']
			uniform := true
			for b := '0'; b <= '9'; b++ {
				if set[b] != digits {
					uniform = false
				}
			}
			if !uniform || set['a'] == digits || set['Z'] == digits || set['_'] == digits {
				o.Detail = fmt.Sprintf("the first-byte test `%s` does not tell the decimal digits from the letters (true for {%s}): some name with a leading digit is still spelled bare and read back as an unnamed ID followed by a stray token", exprString(t.e), describeSet(set))
				o.Pos = c.pos(t.e.Pos())
				continue
			}
			// the test feeds the decision guarding the bare return (own function only)
			feeds := t.in != fd
			if !feeds {
				guardVars := map[types.Object]bool{}
				var guardConds []ast.Expr
				ast.Inspect(fd.Body, func(n ast.Node) bool {
					if is, ok := n.(*ast.IfStmt); ok {
						hasRet := false
						ast.Inspect(is.Body, func(m ast.Node) bool {
							if _, ok := m.(*ast.ReturnStmt); ok {
								hasRet = true
							}
							return true
						})
						if hasRet {
							guardConds = append(guardConds, is.Cond)
							ast.Inspect(is.Cond, func(m ast.Node) bool {
								if id, ok := m.(*ast.Ident); ok {
									if v, ok := info.Uses[id].(*types.Var); ok {
										guardVars[v] = true
									}
								}
								return true
							})
						}
					}
					return true
				})
				within := func(outer ast.Node) bool { return outer.Pos() <= t.e.Pos() && t.e.End() <= outer.End() }
				for _, g := range guardConds {
					if within(g) {
						feeds = true
					}
				}
				ast.Inspect(fd.Body, func(n ast.Node) bool {
					switch x := n.(type) {
					case *ast.AssignStmt:
						for i, l := range x.Lhs {
							if id, ok := l.(*ast.Ident); ok && guardVars[info.ObjectOf(id)] && i < len(x.Rhs) && within(x.Rhs[i]) {
								feeds = true
							}
						}
					case *ast.IfStmt:
						if within(x.Cond) {
							ast.Inspect(x.Body, func(m ast.Node) bool {
								if as, ok := m.(*ast.AssignStmt); ok {
									for _, l := range as.Lhs {
										if id, ok := l.(*ast.Ident); ok && guardVars[info.ObjectOf(id)] {
											feeds = true
										}
									}
								}
								return true
							})
						}
					}
					return true
				})
			}
			if feeds {
				o.Verdict, o.Pos = OK, c.pos(t.e.Pos())
				o.Detail = fmt.Sprintf("first-byte test `%s` (decimal digits ↔ quoted) feeds the decision that guards the bare return", exprString(t.e))
				break
			}
			o.Detail = fmt.Sprintf("the first-byte test `%s` does not feed the decision that guards the bare return", exprString(t.e))
		}
		obs = append(obs, o)
	})
	return obs
}
